"""C11 -- failures are reported as documented and leave objects unchanged."""
import vlib
from checks import aggregate


def body(c):
    aggregate.run_all(c, "C11")
    c.cov["rule"] = (
        "every family trace spec has, for each action, a refusal branch: "
        "documented failure value, errno class, error-callback protocol "
        "(count/category/one line) and UNCHANGED abstract state; because the "
        "full getter projection is logged after every call, 'a refused call "
        "changes no getter's answer' is checked at every refused call of "
        "every history; histories continue after failures (retry, re-init, "
        "free).  TLC model-checks RefusedChangesNothing on the design specs.")
    c.cov["trusted_base"] = ["TLC", "family specs transcribed from the manuals",
                             "driver projections through public getters"]


def main(argv):
    vlib.run_check("C11", "model_checking", body, argv)
