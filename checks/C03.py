"""C03 -- no API call sequence corrupts memory, invokes UB or leaks."""
import vlib
from checks import aggregate


def body(c):
    aggregate.run_all(c, "C03")
    c.cov["rule"] = (
        "every conformance driver (bounded-exhaustive, random and hostile-"
        "argument histories of each family) runs as an ASan+UBSan process "
        "with -fno-sanitize-recover; a sanitizer report or abort is a "
        "violation attached to the case that was executing; after the "
        "matching free functions the number of live blocks allocated inside "
        "library calls (link-time allocator interposition) must be 0, checked "
        "by the trace spec at every End event; invalid arguments must produce "
        "the failure value the family spec predicts.  distinct_nontrivial = "
        "distinct episodes with a successful modifying call + distinct "
        "hostile inputs.")
    c.cov["trusted_base"] = ["clang ASan/UBSan", "vt_alloc.c interposition",
                             "family trace specs", "TLC"]
    c.assumptions += ["only valid object pointers are passed",
                      "memory safety itself is observed by the sanitizers; the "
                      "TLA+ specs define the legal/hostile history space and "
                      "the expected return of each invalid call"]


def main(argv):
    vlib.run_check("C03", "exploration", body, argv)
