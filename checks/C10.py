"""C10 -- frequency interpolation is exact at given points and refuses
out-of-range use."""
import concurrent.futures

import vlib
from families import interp


def body(c):
    exe = interp.build(c)
    if c.replay:
        for it in interp.replay(c, exe, c.replay):
            it.props.add("C10")
            c.issue(it)
        c.cov["evaluations"] = 1
        c.cov["distinct_nontrivial"] = 1
        return
    # the design check (TLC) and the implementation runs are independent:
    # run them side by side
    with concurrent.futures.ThreadPoolExecutor(1) as ex:
        fut = ex.submit(interp.mc, c, c.tier)
        issues, stats = interp.run(c, exe, c.tier, c.seed)
        fut.result()
    for it in issues:
        c.issue(it)
    c.add_part("interp_traces", stats)
    c.cov["traces_validated_against_impl"] = stats["episodes"]
    c.cov["evaluations"] = stats["events"]
    c.cov["distinct_nontrivial"] = stats["distinct_nontrivial"]
    c.cov["rule"] = (
        "TLC: InterpMC, every knot vector of length 1..5 over the coarse "
        "grid, every starting hint, every query on the 10x finer grid; 6 "
        "invariants + 3 range-contract theorems.  Implementation (public API "
        "only): %s episodes per mode %s; every public call (or scripted "
        "probe) is one event validated against InterpTrace: value id at a "
        "knot = supplied id, same object and frequency => same id whatever "
        "was queried before, range verdict MustAccept/MustRefuse/Either with "
        "the documented error contract, harness booleans rat/knot/same.  "
        "distinct_nontrivial counts pairwise different episodes in which at "
        "least one interpolating call succeeded or a probe was qualified."
        % (stats["episodes"], stats["cases"]))
    c.cov["trusted_base"] = [
        "TLC 1.8", "Interp.tla transcription of vnacal_parameter(3), "
        "vnacal_new(3), vnacal(3) and the property text",
        "drv_interp.c error-network simulator and rational-function oracle "
        "(own arithmetic, harness/own_clin.h)",
        "differential probes for noise / sigma vectors (accept/reject of "
        "weighted solves, solved parameter value) against "
        "frequency-independent references",
        "clang ASan/UBSan"]
    c.assumptions += [
        "5 percent miss is demanded only when it holds relative to the band "
        "edge and relative to the band width; smaller misses are not asserted",
        "vnacal_get_parameter_value may make zero or one error callback "
        "(vnacal(3) and vnacal_parameter(3) disagree)",
        "adding a standard before the frequency vector is set: outcome not "
        "asserted (manual silent)",
        "between knots only low-order reproduction is asserted: degree "
        "(0,0) for <= 2 points, (1,1) for 3-4, (2,2) for >= 5",
        "no range verdict is asserted for correlated-parameter sigma grids "
        "(manual: 'overlap')",
    ]


def main(argv):
    vlib.run_check("C10", "model_checking", body, argv)
