"""C04 -- every vnaconv_* conversion yields the same physical network."""
import vlib
from families import netparams


def body(c):
    exe = netparams.build(c)
    if c.replay:
        for it in netparams.replay(c, exe, c.replay):
            c.issue(it)
        c.cov["evaluations"] = 1
        c.cov["distinct_nontrivial"] = 2
        return
    netparams.export_table(c)
    issues, stats = netparams.run(c, exe, c.tier, c.seed)
    for it in issues:
        c.issue(it)
    c.add_part("netparams_cases", stats)
    c.cov["evaluations"] = stats["evaluations"]
    c.cov["distinct_nontrivial"] = stats["distinct_nontrivial"]
    c.cov["exhaustive"] = False
    c.cov["rule"] = (
        "case list enumerated by TLC from NetParamsTable.tla (%d cases: all "
        "72 two-port functions, the 6 n-port functions n = 1..6, 9 + 3 Zin "
        "functions, each x {separate, aliased buffers} x {equal real, unequal "
        "real, unequal complex z0}; round trips; chains X->Y->Z vs X->Z; "
        "n-port vs two-port at n = 2; plus every conversion and Zin function "
        "on the structured networks of its regular set -- series element, "
        "shunt element, through, decoupled ports, short / open pair, "
        "floating n-port, common-node n-port -- i.e. networks for which some "
        "OTHER representation does not exist, existence decided in the spec "
        "by exact integer determinants of {constraints, independent tuple}; "
        "and magnitude classes: network impedance level 1e-6..1e6 x z0 for "
        "the voltage/current family, z0 of 1e-3 / 1e5 ohm and mixed per "
        "port for every function; z0 equality patterns: every set partition "
        "of the ports for n <= 4, selected ones for n = 5, 6, in three "
        "flavours; zero patterns of the input matrix -- diagonal, triangular, "
        "block-diagonal, single coupled pair, symmetric -- wherever the "
        "spec's integer determinants say both ends exist); every libvna call "
        "is made three times (FP exception flags cleared / raised / after a "
        "singular-input call, separate output buffers pre-filled with three "
        "different poison patterns) and must give bit-identical results with "
        "every output cell written; "
        "%d seeded draws per case: a random "
        "n-port (or a structured network with random passive element "
        "values), its matrix of the input type built from the defining "
        "relations / the network's constraints, the libvna call, then n independent port states of the "
        "input network must satisfy the output type's defining relation "
        "(scale-free residual <= 1e-9 x condition estimate, cases with "
        "condition estimate > 1e4 are not decided).  evaluations = decided "
        "draws; distinct_nontrivial = cases with at least one decided draw; "
        "the result log is validated by TLC (NetParamsTrace) to contain every "
        "case of the specification exactly once, decided, with no failing draw."
        % (stats["cases"], stats["draws"]))
    c.cov["trusted_base"] = [
        "TLC 1.8", "NetParams.tla relations transcribed from vnaconv(3)",
        "harness/relcheck.c (own complex Gauss-Jordan)", "harness/convreg.h",
        "clang ASan/UBSan"]
    c.assumptions += [
        "worst residual observed on the pinned tree is 1e%d; tolerance 1e-9 x cond"
        % stats.get("worst_lg", 0),
        "inputs are drawn with |s_ij| ~ 0.45 and z0 with Re in [10, 150]",
    ]


def main(argv):
    vlib.run_check("C04", "exploration", body, argv)
