"""C06 -- network data survive save and load in Touchstone 1, Touchstone 2
and NPD."""
import vlib
from families import vfiles


def body(c):
    exe = vfiles.build(c)
    if c.replay:
        for it in vfiles.replay(c, exe, c.replay, "C06"):
            it.props.add("C06")
            c.issue(it)
        c.cov["evaluations"] = 1
        c.cov["distinct_nontrivial"] = 1
        return
    r, table = vfiles.mc(c, c.tier)
    issues, stats = vfiles.run_c06(c, exe, table, c.tier, c.seed)
    for it in issues:
        c.issue(it)
    c.add_part("vfiles_c06", stats)
    xissues, xstats = vfiles.run_ext(c, exe, c.tier, c.seed, "C06")
    for it in xissues:
        c.issue(it)
    c.add_part("vfiles_grammar_and_filetype", xstats)
    c.cov["traces_validated_against_impl"] = stats["episodes"] + xstats["episodes"]
    c.cov["evaluations"] = stats["cases"] + xstats["episodes"]
    c.cov["distinct_nontrivial"] = stats["distinct_nontrivial"]
    c.cov["exhaustive"] = False
    c.cov["rule"] = (
        "TLC: FileFmtMC checks 11 invariants (totality, cksave == save, every "
        "accepted file loadable, file-type resolution, Touchstone 1 limits and "
        "promotion, monotonicity, grammar round trip) on every configuration of "
        "the product (type x dims) x (extension x set_filetype) x z0 class x "
        "format list (%d configurations) and exports it.  Implementation: %s "
        "of that table, each row with a precision from {1,2,3,6,9,15,17,MAX}, a "
        "magnitude from {1e-12,1,1e12} and 1..3 frequencies, goes through "
        "vnadata_set_format, cksave, save, fsave, load and fload; verdicts, "
        "errno, callbacks, written-file facts found by the independent readers "
        "and the loaded object's projection are validated event by event against "
        "FileFmtTrace.  distinct_nontrivial counts episodes with pairwise "
        "different event sequences in which a file was written, read by the "
        "independent reader and loaded back (%d files read, %d loads compared).  "
        "In addition FileFmtStickMC model-checks the file-type memory of an object "
        "over all histories of set_filetype/load/save up to the bound and exports "
        "the format-string grammar table (every token sequence of <= 3 tokens with "
        "the verdict of the grammar automaton): %d token sequences are replayed "
        "through vnadata_set_format / get_format and %d set/load/save histories "
        "through one object, validated against FileFmtStickTrace."
        % (len(table["rows"]),
           "a stratified seeded sample" if c.tier == "quick" else "every row",
           stats["files_read"], stats["loads_compared"],
           xstats["grammar_rows"], xstats["histories"]))
    c.cov["trusted_base"] = [
        "TLC 1.8", "FileFmt.tla transcription of vnadata(3) save/load rules",
        "harness/tsread.py, npdread.py (independent readers from the format "
        "definitions)", "harness/netgt.py (ground truth from the vnaconv(3) "
        "definitions)", "clang ASan/UBSan"]
    c.assumptions += [
        "numeric clauses are decided by harness booleans (vfiles_oracle.py): a "
        "written number must agree with ground truth to 10^(1-p) relative "
        "(floor 1e-12), converted parameters get a conditioning-scaled slack "
        "and are compared only when the estimated condition is <= 1e6",
        "which of several parameters of an NPD file vnadata_load delivers is "
        "not documented: any parameter present with its complex value is admitted",
        "verdict for untyped data and for zero frequencies is not documented: "
        "only cksave == save == fsave is required there",
        "promotion of Touchstone 1 to version 2 under a .ts name follows the "
        "source comment / DESIGN, the manual only says Touchstone 1 may be "
        "saved to .ts",
    ]


def main(argv):
    vlib.run_check("C06", "exploration", body, argv)
