"""C05 -- vnadata_convert applies the right conversion with the right
impedances."""
import vlib
from families import netdata, netparams


def body(c):
    exe = netdata.build(c)
    if c.replay:
        for it in netdata.replay(c, exe, c.replay, family_prop="C05"):
            it.props.add("C05")
            c.issue(it)
        c.cov["evaluations"] = 1
        c.cov["distinct_nontrivial"] = 1
        return
    netparams.export_table(c)      # TLC: legality closure, counts, ...
    netdata.mc(c, c.tier)          # TLC: ConvertRules, to-Zin is fresh, ...
    # table-driven conversions, plus random histories (arbitrary values,
    # shapes and mode switches around the conversions)
    issues, stats = netdata.run(c, exe, c.tier, c.seed,
                                modes=("conv", "rand"), family_prop="C05",
                                rand_cases=(96 if c.tier == "quick" else 3000))
    for it in issues:
        c.issue(it)
    c.add_part("netdata_conv_traces", stats)
    c.cov["traces_validated_against_impl"] = stats["episodes"]
    c.cov["evaluations"] = stats["convert_events"]
    c.cov["distinct_nontrivial"] = stats["distinct_nontrivial"]
    c.cov["rule"] = (
        "TLC: NetParams theorems (legality closed under composition, 72+9 "
        "two-port and 9 n-port conversions, result fits type) and NetDataMC "
        "ConvertRules over all bounded histories.  Implementation: every row "
        "of the spec-exported conversion table (11 source types x admissible "
        "shapes incl. N x N, N = 0..5, x 11 target types + an invalid one) x "
        "{ordinary, per-frequency z0} x {in place, into a second object "
        "holding unrelated content} x {0, 1, 3 frequencies} = %d episodes per "
        "round (%d round(s)), each followed by a random tail of resize / "
        "convert calls, plus %d random histories of %d calls; every call is "
        "validated against NetDataTrace, Convert "
        "events carry matchesDirectCall (vnaconv function named by the type "
        "letters, applied per frequency with that frequency's z0), "
        "in-place == out-of-place, relation and chain observations.  "
        "evaluations = Convert events; distinct_nontrivial = distinct "
        "episodes containing a Convert."
        % (stats.get("conv0_cases", 0), stats.get("conv_rounds", 0),
           stats.get("rand_cases", 0), stats.get("rand_len", 0)))
    c.cov["trusted_base"] = [
        "TLC 1.8", "NetParams.tla / NetData.tla", "harness/convreg.h name -> "
        "symbol table", "harness/relcheck.c (relation checker)",
        "clang ASan/UBSan"]
    c.assumptions += [
        "numeric equality of a conversion result with the direct vnaconv call is a harness observation (bit-equal or relative 1e-10); TLC decides acceptance, shape, carried frequencies / impedances, untouched refusals and the to-Zin-is-fresh rule",
        "load/save options of a separate destination after convert are not specified",
        "impedance mode of a separate destination when the per-frequency source holds no impedance entry (no frequencies or no ports) is not specified",
    ]


def main(argv):
    vlib.run_check("C05", "model_checking", body, argv)
