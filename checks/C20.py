"""C20 -- too few standards are reported; every determining set of standards
solves."""
import concurrent.futures

import vlib
from checks import aggregate
from families import calflow


def body(c):
    exe = calflow.build(c)
    if c.replay:
        issues, which = calflow.replay(c, exe, c.replay)
        for it in issues:
            c.issue(it)
        c.cov["evaluations"] = 1
        c.cov["distinct_nontrivial"] = 1
        return
    # "fewer equations than unknown error terms PLUS unknown standard
    # parameters": the under-determined scenarios with unknown parameters
    # (topology SHORT1 of SelfCal.tla) live in the C02 family; its run is
    # repeated here on behalf of C20, concurrently
    pool = concurrent.futures.ThreadPoolExecutor(1)
    side = pool.submit(aggregate._run_member,
                       ("C02", "C20", c.tier, c.work, c.seed))
    r = vlib.tlc_model_check("CalFlowMC.tla",
                             "CalFlowMC_%s.cfg" % c.tier, c.work,
                             workers=8, timeout=1500)
    c.add_mc("CalFlowMC", r)
    issues, stats = calflow.run(c, exe, "c20", c.tier, c.seed)
    for it in issues:
        c.issue(it)
    c.add_part("c20_histories", stats)
    member, d, tail = side.result()
    if d is None:
        c.machinery_errors.append("C02 --as C20 produced no result:\n" + tail)
    else:
        for m in d["machinery_errors"]:
            c.machinery_errors.append("C02: " + m)
        for i in d["issues"]:
            c.issue(vlib.Issue(i["props"], i["signature"], i["what"],
                               replay=i["replay"]))
        c.add_part("unknown-parameter under-determination via SelfCal (C02 run)", {
            "events": d["cov"].get("evaluations", 0),
            "episodes": d["cov"].get("traces_validated_against_impl", 0)})
        stats["events"] += d["cov"].get("evaluations", 0)
        stats["episodes"] += d["cov"].get("traces_validated_against_impl", 0)
    c.cov["traces_validated_against_impl"] = stats["episodes"]
    c.cov["evaluations"] = stats["events"]
    c.cov["distinct_nontrivial"] = stats["distinct_nontrivial"]
    c.cov["rule"] = (
        "TLC (CalFlowMC): every history of <= MaxOps calls over the bounded "
        "alphabet; invariants RefusedChangesNothing, EdomIffUnderCounted, "
        "HeldOnlyAfterSolve, LaterSuccess.  Implementation: TLC enumerates "
        "(CalFlowTable WHICH=c20) the orderings of the <= MAXHIST-subsets of "
        "a per-(type, dims) standard list (every STRIDE-th by rank), solve "
        "after every addition (and before the first); per solve the "
        "harness's oracle (coefficient matrix from the documented equation, "
        "own Jacobi SVD, two error networks) classifies the standards; the "
        "trace spec requires EDOM + one MATH callback + unchanged state "
        "when under-counted, Ok + recovered when identifiable, nothing "
        "otherwise.  distinct_nontrivial counts distinct histories with at "
        "least one EDOM solve followed by a recovered apply.  Table "
        "parameters: %s." % stats.get("script"))
    c.cov["trusted_base"] = [
        "TLC 1.8", "CalEq.tla / CalFlow.tla", "etermsim",
        "caleq_oracle.c (own SVD)", "clang ASan/UBSan"]
    c.assumptions += [
        "Identifiable iff sigma_min/sigma_max >= 1e-6 at two error networks "
        "(and every leaking cell observed); NotIdentifiable iff <= 1e-12; "
        "otherwise nothing is claimed",
        "numeric comparison is the harness's",
    ]


def main(argv):
    vlib.run_check("C20", "model_checking", body, argv)
