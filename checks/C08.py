"""C08 -- equivalent spellings of a Touchstone/NPD file load to the same
network data."""
import vlib
from families import vfiles


def body(c):
    exe = vfiles.build(c)
    r, table = vfiles.mc_spell(c, "quick" if c.replay else c.tier)
    if c.replay:
        for it in vfiles.replay_c08(c, exe, table, c.replay):
            c.issue(it)
        c.cov["evaluations"] = 1
        c.cov["distinct_nontrivial"] = 1
        return
    issues, stats = vfiles.run_c08(c, exe, table, c.tier, c.seed)
    for it in issues:
        c.issue(it)
    c.add_part("vfiles_c08", stats)
    c.cov["traces_validated_against_impl"] = stats["episodes"]
    c.cov["evaluations"] = stats["files"]
    c.cov["distinct_nontrivial"] = stats["distinct_nontrivial"]
    c.cov["rule"] = (
        "TLC: FileFmtSpellMC proves on the spec the option-line round trip over "
        "all 24 field orders x 16 omissions x all option values, that the "
        "version-1 line-shape automaton recovers ports/frequencies/noise for "
        "every 1..4-port shape (incl. the 9-number 2-port vs 4-port first line) "
        "and, for each of %d content classes, that every spelling of a covering "
        "family (every value of every spelling dimension plus 36 mixed "
        "combinations) is valid, denotes the content and denotes the same "
        "content as the base spelling; it exports the family.  Implementation: "
        "%s pairs (base spelling, variant) are rendered by the independent "
        "writer harness/tsgen.py from seeded numbers, loaded with vnadata_load / "
        "vnadata_fload; type, dimensions, file type and the harness booleans "
        "(frequencies, impedances, values equal to the generated numbers to "
        "1e-7 relative, pair equal) are validated against FileFmtSpellTrace.  "
        "distinct_nontrivial counts episodes with different event sequences in "
        "which both spellings loaded." %
        (len(table), "a covering seeded sample of %d" % stats["pairs"]
         if c.tier == "quick" else "all %d" % stats["pairs"]))
    c.cov["trusted_base"] = [
        "TLC 1.8", "FileFmt.tla part 2 (option line, line shapes, keyword rules "
        "from the Touchstone 1.1 / 2.0 definitions)",
        "harness/tsgen.py (independent writer; its output is cross-checked "
        "against the spec's Render and, offline, against harness/tsread.py)",
        "clang ASan/UBSan"]
    c.assumptions += [
        "numeric equality is a harness boolean: files are written with 12 "
        "significant digits, loaded values must match the generated numbers to "
        "1e-7 relative (frequencies and impedances to 1e-12)",
        "information blocks, mixed-mode order and repeated option lines are "
        "outside the generated language",
        "CR-LF line ends and indentation of data lines are treated as spacing",
    ]


def main(argv):
    vlib.run_check("C08", "exploration", body, argv)
