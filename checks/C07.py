"""C07 -- calibration files round-trip: save then load gives an equivalent vnacal_t."""
import os

import vlib
from families import calfile


def body(c):
    exe = calfile.build(c)
    if c.replay:
        for it in calfile.replay(c, exe, c.replay):
            c.issue(it)
        c.cov["evaluations"] = 1
        c.cov["distinct_nontrivial"] = 1
        return
    calfile.mc(c, c.tier)
    issues, stats = calfile.run(c, exe, c.tier, c.seed)
    for it in issues:
        c.issue(it)
        if c.prop not in it.props and os.environ.get("VERIF_SHOW_ALL"):
            # diagnostic only: issues this run observed that bear on other
            # properties (their own checks report them)
            print("NOTE other-property issue %s: %s" % (sorted(it.props),
                                                        it.signature))
    c.add_part("calfile_traces", stats)
    c.cov["traces_validated_against_impl"] = stats["episodes"]
    c.cov["evaluations"] = stats["episodes"]
    c.cov["distinct_nontrivial"] = stats["distinct_nontrivial"]
    c.cov["exhaustive"] = False
    c.cov["rule"] = (
        "EXPLORATION: the configuration/input space is sampled.  %d random "
        "histories on one vnacal_t (add under a new name, replace by name, "
        "delete at valid and invalid indices, set_fprecision / set_dprecision "
        "with 1..40, VNACAL_MAX_PRECISION and invalid values, replacement of "
        "the global and per-calibration property documents by generated "
        "trees over the adversarial string pool), 0..4 calibrations per "
        "file; calibrations are solved with vnacal_new_* from fully "
        "specified random standards measured through the harness's own "
        "diagonal error-box model; types x dims, precisions and file sizes "
        "actually reached are listed in parts (measured).  The case index "
        "walks fprecision and dprecision through 1..40 and MAX; every 7th "
        "case saves with the default precisions; every other history "
        "continues on the loaded container.  Then save, load and compare: "
        "CalFileTrace requires Load(Save(s)) = Compact(s) (names, order, "
        "types, dims, frequency counts, ascending frequencies, property "
        "documents) and that the saved calibration the spec pairs with each "
        "loaded one is in the harness's fLike / z0Like / termsLike lists and "
        "agrees under vnacal_apply_m.  Plus %d legacy cases (compat-V2.vnacal "
        "against the S-parameters recorded in the repository's own test "
        "tables, directly and after a re-save; current files with '#VNACAL "
        "3.x', '#VNACal 1.x' and unsupported first lines), and %d cases in "
        "which the saved container is loaded from a legacy rendering of "
        "the same content: the '#VNACAL 2.0' layout (sets / e = rows x "
        "columns matrix of [el, er, em] triples) written by the harness's own "
        "writer for E12 calibrations of every dimension 1x1..3x3 with 1..5 "
        "frequencies and 1..3 calibrations, or the current file under a "
        "'#VNACAL 3.0' first line (all types) -- judged by the same Load "
        "clauses (equal names, order, type, dims, frequencies, z0, terms, "
        "vnacal_apply_m).  evaluations = "
        "episodes; distinct_nontrivial = episodes with pairwise different "
        "event sequences in which a file with >= 1 calibration was loaded "
        "and compared (or a legacy load was judged)." %
        (stats["hist_cases"], stats["legacy_cases"],
         stats["legacy_writer_cases"]))
    c.cov["trusted_base"] = [
        "TLC 1.8", "CalFile.tla (transcription of vnacal(3) + property text)",
        "harness numeric observations: relative 10^(1-p) per real/imaginary "
        "component (bit-equal at VNACAL_MAX_PRECISION, floor 4.5e-16 for p >= 17); "
        "vnacal_apply_m agreement within 5000 x 10^(1-p) x (1+|S|) (largest "
        "deviation observed on correct code: 0.32 x), not judged when 5000 x 10^(1-p) "
        "exceeds 0.05 (p <= 5)",
        "harness's own .vnacal reader (libyaml + strtod) for error terms, applied "
        "to files written by vnacal_save at maximum precision",
        "harness's own diagonal error-box simulator and Gauss-Jordan inverse",
        "tables compat_V2_measured / compat_V2_expected of src/tests/test-vnacal-compat-V2.c",
        "harness's own writer of the '#VNACAL 2.0' layout (derived from "
        "src/tests/compat-V2.vnacal), numbers in hexadecimal notation",
        "clang ASan/UBSan/LSan"]
    c.assumptions += [
        "error terms are observed through saved bytes and vnacal_apply_m only "
        "(no public getter exists)",
        "frequency grids have ratio >= 2.5 between neighbours so that rounding to "
        "one significant digit keeps them strictly ascending",
        "default precisions: the weaker reading (6 digits) is used for both",
        "the slot chosen by vnacal_add_calibration for a new name is any free "
        "index <= end (bound from vnacal_find_calibration)",
        "the return value of vnacal_add_calibration is not judged here (C16)",
        "a GenFail (vnacal_new_* refusing fully specified standards) ends the "
        "episode and is reported against C01, not C07",
    ]
    if stats.get("gave_up"):
        c.assumptions.append(
            "%d driver shard(s) stopped after 40 crashes: part of the planned "
            "cases was not executed in this run" % stats["gave_up"])


def main(argv):
    vlib.run_check("C07", "exploration", body, argv)
