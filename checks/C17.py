"""C17 -- equivalent ways of describing the same calibration give the same
result."""
import vlib
from families import calflow


def body(c):
    exe = calflow.build(c)
    if c.replay:
        issues, which = calflow.replay(c, exe, c.replay)
        for it in issues:
            c.issue(it)
        c.cov["evaluations"] = 1
        c.cov["distinct_nontrivial"] = 1
        return
    calflow.mc(c, c.tier)
    issues, stats = calflow.run(c, exe, "c17", c.tier, c.seed)
    for it in issues:
        c.issue(it)
    c.add_part("c17_pairs", stats)
    c.cov["traces_validated_against_impl"] = stats["episodes"]
    c.cov["evaluations"] = stats["events"]
    c.cov["distinct_nontrivial"] = stats["distinct_nontrivial"]
    c.cov["rule"] = (
        "TLC (CalEqMC): one state per (type, legal dims <= MaxDim, standard "
        "of the universe: every entry point x port maps in order / permuted "
        "/ subset / invalid x zero patterns x full / abbreviated / wrong M "
        "shapes); invariants EntryPointsAgree (through == line == mapped, "
        "reflect functions == explicit zeros), FullAndAbbreviatedAgree, "
        "RenumberingIsConsistentPermutation (all permutations), "
        "RelistingChangesNothing, AbbreviatedInPortOrder.  Implementation: "
        "metamorphic pairs from CalFlowTable (WHICH=c17): entry forms, "
        "addition order, common a/b scaling, unrelated calibration in the "
        "same vnacal_t, one frequency at a time, E12 vs UE14, port "
        "renumbering; the trace spec decides with CalEq that the two lives "
        "are related as claimed and requires x.same.  distinct_nontrivial "
        "counts distinct episodes whose two lives were both solved from an "
        "identifiable set and compared.  Table parameters: %s." %
        stats.get("script"))
    c.cov["trusted_base"] = [
        "TLC 1.8", "CalEq.tla / CalFlow.tla", "etermsim",
        "caleq_oracle.c (own SVD)", "clang ASan/UBSan"]
    c.assumptions += [
        "numeric comparison of the two applied S matrices is the harness's "
        "(tolerance from the oracle's conditioning estimate)",
        "pairs are generated for shapes vnacal_apply accepts (square, 1x2, 2x1)",
        "renumbering pairs use model-consistent (simulated) data only",
    ]


def main(argv):
    vlib.run_check("C17", "model_checking", body, argv)
