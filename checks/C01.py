"""C01 -- calibrate-then-apply recovers the true S-parameters of any device."""
import vlib
from families import calflow


def body(c):
    exe = calflow.build(c)
    if c.replay:
        issues, which = calflow.replay(c, exe, c.replay)
        for it in issues:
            c.issue(it)
        c.cov["evaluations"] = 1
        c.cov["distinct_nontrivial"] = 1
        return
    issues, stats = calflow.run(c, exe, "c01", c.tier, c.seed)
    for it in issues:
        c.issue(it)
    c.add_part("c01_table_replay", stats)
    c.cov["traces_validated_against_impl"] = stats["episodes"]
    c.cov["evaluations"] = stats["events"]
    c.cov["distinct_nontrivial"] = stats["distinct_nontrivial"]
    c.cov["rule"] = (
        "TLC evaluates CalFlowTable (WHICH=c01): for every error-term type x "
        "every legal dimension <= MAXDIM x NVAR variants a recipe of physical "
        "standards, each entered through one of its accepted entry forms "
        "(entry point x port order x full/abbreviated M; chosen by index so "
        "that all forms occur), m and a/b forms, 1/2/5 frequencies, "
        "predefined / scalar / vector parameters, one refused standard, plus "
        "the excluded allocations.  drv_calflow replays every row against "
        "the real library with measurements from etermsim; every public "
        "call is one event explained by CalFlow!Outcomes (verdict, errno, "
        "callback), and the trace spec requires Solve = Ok and "
        "x.recovered (apply) / x.satisfies (saved terms in the documented "
        "equation) whenever the independent oracle classifies the standards "
        "as identifiable.  distinct_nontrivial counts episodes with pairwise "
        "different event sequences in which recovered or satisfies was "
        "observed true.  Table parameters: %s." % stats.get("script"))
    c.cov["trusted_base"] = [
        "TLC 1.8", "CalEq.tla / CalFlow.tla transcription of vnacal_new(3), "
        "vnacal(3), vnacal_layout.h", "etermsim (physical error network)",
        "caleq_oracle.c (own SVD, YAML-subset reader, residuals)",
        "clang ASan/UBSan"]
    c.assumptions += [
        "numeric comparison is the harness's: |S_applied - S_true| <= "
        "1e4*n*eps*cond with cond from the oracle's own SVD (not decided by TLC)",
        "leakage of the simulated VNA only in cells CalEq says are observed "
        "in isolation by the added standards",
        "vector parameters are exact at their knots (superset grid) or "
        "constant over frequency (disjoint grid); nothing is assumed about "
        "interpolation between knots",
        "1x2 / 2x1 calibrations are applied to a 2x2 matrix whose second "
        "column (row) was measured with the device turned around",
        "abbreviated matrices naming a port that does not detect (drive) and "
        "S matrices of which only some rows/columns are given are not "
        "generated (manual silent)",
    ]


def main(argv):
    vlib.run_check("C01", "exploration", body, argv)
