"""C09 -- every file parser is total: arbitrary bytes are rejected cleanly or loaded whole."""
import json

import os

import vlib
from families import loadfuzz


def body(c):
    exe = loadfuzz.build(c)
    if c.replay:
        for it in loadfuzz.replay(c, exe, c.replay):
            c.issue(it)
        c.cov["evaluations"] = 1
        c.cov["distinct_nontrivial"] = 1
        return
    loadfuzz.mc(c, c.tier)
    issues, stats = loadfuzz.run(c, exe, c.tier, c.seed)
    for it in issues:
        c.issue(it)
        if c.prop not in it.props and os.environ.get("VERIF_SHOW_ALL"):
            # diagnostic only: issues this run observed that bear on other
            # properties (their own checks report them)
            print("NOTE other-property issue %s: %s" % (sorted(it.props),
                                                        it.signature))
    c.add_part("loadfuzz_traces", stats)
    c.cov["traces_validated_against_impl"] = stats["episodes"]
    c.cov["evaluations"] = stats["episodes"]
    c.cov["distinct_nontrivial"] = stats["distinct_nontrivial"]
    c.cov["exhaustive"] = False
    c.cov["rule"] = (
        "EXPLORATION: the input space (all byte strings) is SAMPLED.  Seeds: "
        "valid .s1p-.s4p, .ts, .npd, .vnacal files and YAML texts written by "
        "the library's own savers (several parameter types, formats, port "
        "counts, z0 modes, calibration types) plus a few hand-written ones "
        "(Touchstone 2 with [Reference] continuation, noise data, lower "
        "matrix format; '#VNACAL 2.0' legacy files).  Inputs: (a) every "
        "truncation %s = %d inputs, exhaustive over the byte positions; (b) "
        "%d structure-aware mutations, index -> (kind, seed, operator): "
        "token delete / duplicate / swap, number perturbation (0, -1, nan, "
        "inf, 1e999, overflowing integers, malformed numbers, scaled "
        "values), keyword-line reorder, line delete / duplicate, random "
        "truncation, YAML node-kind substitution, random bytes (NUL, 0xff, "
        "invalid UTF-8), insertion from per-format keyword dictionaries "
        "(out-of-range dimensions, unknown keywords, duplicate headers), "
        "splice of two seeds, repetition of a keyword / header line with a "
        "changed numeric argument, YAML anchors / aliases (cycles, shared "
        "subtrees, deep nesting), tokens of boundary length 2^k-1, 2^k, 2^k+1 "
        "(k = 4..12: numbers with many digits / leading zeros, words, "
        "[keywords], comment and header lines, YAML keys and scalars), "
        "frequency entries made equal to their neighbour (same text or an "
        "equivalent spelling), swapped, zero or negative, header keywords "
        "re-stated later in the header with a different argument or moved "
        "across their dependants (optionally with a data section rewritten "
        "for the new value), keys and version numbers of other versions of "
        "the .vnacal format (type:, current matrix keys in pre-release "
        "files, e: in current ones, other first lines).  Each input is one event validated by "
        "LoadContractTrace: Fail(errno class, one matching one-line "
        "callback, no object / destination usable) or Ok(self-consistent: "
        "dimensions fit the type, ascending calibration frequencies, all "
        "cells readable, re-save + re-load gives the same content), no "
        "hang (%d CPU-seconds watchdog per input), nothing live or leaked after freeing. "
        "evaluations = inputs; distinct_nontrivial = inputs with pairwise "
        "different outcome events that differ from their seed and are not "
        "empty.  Measured per parser (parts.by_parser): how many inputs "
        "were loaded / refused and how many kept / broke the line structure "
        "according to the automaton of LoadContract.tla (whose two "
        "formulations TLC compares on every line-class sequence up to the "
        "bound; states/transitions)." %
        ("of the first seed of every kind" if c.tier == "quick"
         else "of every seed", stats["truncation_inputs"], stats["fuzz_inputs"], 10))
    c.cov["trusted_base"] = [
        "TLC 1.8", "LoadContract.tla (outcome contract from the property text, "
        "vnaerr(3), vnacal(3), vnadata(3))",
        "clang ASan/UBSan (memory safety, UB); in-library allocation count after every "
        "input; LeakSanitizer probe every 16 inputs, a window with a leak is re-run "
        "with a probe after every input",
        "per-input CPU-time watchdog (ITIMER_PROF, 10 CPU-seconds) for termination; wall-clock time is never judged",
        "harness observations: readable (no error callback from any getter), "
        "same content after re-save at 17 digits / VNACAL_MAX_PRECISION "
        "(relative 1e-9 of the largest cell per frequency for vnadata; byte "
        "equality of maximum-precision files for .vnacal; byte-exact scalars "
        "for property trees)"]
    c.assumptions += [
        "uninitialised reads are only visible when they change behaviour "
        "(ASan does not track initialisation)",
        "a failed vnaproperty import may leave partial content in the destination; "
        "only 'still usable' is required (the manual is silent)",
        "errno after a failure: EINVAL / EDOM (the library's usage and math classes) "
        "are not accepted as 'system errors'",
        "warnings through the error callback are not constrained",
        "objects with more than 4e6 cells are not walked cell by cell",
    ]
    if stats.get("gave_up"):
        c.assumptions.append(
            "%d driver shard(s) stopped after 40 crashes: part of the planned "
            "inputs was not executed in this run" % stats["gave_up"])


def main(argv):
    vlib.run_check("C09", "exploration", body, argv)
