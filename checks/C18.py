"""C18 -- measurement-error modelling weights without bias and judges
consistency sanely."""
import vlib
from families import merror


def body(c):
    exe = merror.build(c)
    if c.replay:
        for it in merror.replay(c, exe, c.replay):
            c.issue(it)     # leak issues (C03 only) are not ours
        c.cov["evaluations"] = 1
        c.cov["distinct_nontrivial"] = 1
        return
    issues, stats = merror.run(c, exe, c.tier, c.seed)
    for it in issues:
        c.issue(it)
    c.add_part("merror_traces", stats)
    c.cov["traces_validated_against_impl"] = stats["episodes"] + 1
    c.cov["evaluations"] = stats["events"] + stats["rate_events"]
    c.cov["distinct_nontrivial"] = stats["distinct_nontrivial"]
    c.cov["samples"].append({"rates": stats["rates"]})
    k = stats["kinds"]
    c.cov["rule"] = (
        "Configuration table computed by TLC from MError!Configs (%d rows); "
        "%d rows executed (seeded stratified sample): %d exact (reference / "
        "weighted / set-then-cleared solves on noise-free over-determined "
        "data, every type, dimensions 1..3 incl. rectangular, every noise "
        "grid), %d interpolation scenarios (accept / reject verdict depends "
        "on the value interpolated at a grid point), %d noisy and %d outlier "
        "scenarios.  Each scenario episode is validated against MErrorTrace "
        "(deterministic clauses); the noisy / outlier outcomes are then "
        "replayed as one rate trace in which the spec counts rejections per "
        "type and applies the bounds <= 5 %% and >= 75 %%.  "
        "distinct_nontrivial counts distinct configurations executed to the "
        "end (all of them solve at least one over-determined system)."
        % (stats["table_rows"], stats["rows_run"], k.get("exact", 0),
           k.get("iacc", 0) + k.get("irej", 0), k.get("noisy", 0),
           k.get("outlier", 0)))
    c.cov["trusted_base"] = [
        "TLC 1.8", "MError.tla transcription of vnacal_new(3) and the "
        "property text",
        "etermsim.c (independent error-network simulator) as data source",
        "driver's Gaussian noise generator (splitmix64 + Box-Muller)",
        "harness booleans sameAsReference / bitIdentical read from the file "
        "written by vnacal_save and from vnacal_apply_m",
        "clang ASan/UBSan"]
    c.assumptions += [
        "STATISTICAL: the two rate clauses are decided on seeded aggregates "
        "(quick: 200 noisy + 100 outlier scenarios per type; thorough 800 + "
        "400) against wide bounds (<= 5 % rejections at significance 0.001, "
        ">= 75 % EDOM rejections for a 100-sigma standard); a different "
        "VERIF_SEED draws different scenarios",
        "floating-point comparisons are harness observations, not decided "
        "by TLC",
        "interpolation between grid points is not constrained: calibration "
        "frequencies sit on grid points, or the values are linear in "
        "frequency on a two-point grid",
        "unused VNA ports are terminated in matched loads",
    ]


def main(argv):
    vlib.run_check("C18", "exploration", body, argv)
