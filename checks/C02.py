"""C02 -- self-calibration recovers unknown standard parameters and the
calibration; vnacal_new_solve always returns."""
import vlib
from families import selfcal


def body(c):
    exe = selfcal.build(c)
    if c.replay:
        for it in selfcal.replay(c, exe, c.replay):
            c.issue(it)     # leak issues (C03 only) are not ours
        c.cov["evaluations"] = 1
        c.cov["distinct_nontrivial"] = 1
        return
    selfcal.mc(c, c.tier)
    issues, stats = selfcal.run(c, exe, c.tier, c.seed)
    for it in issues:
        c.issue(it)
    c.add_part("selfcal_traces", stats)
    c.cov["traces_validated_against_impl"] = stats["episodes"]
    c.cov["evaluations"] = stats["events"]
    c.cov["distinct_nontrivial"] = stats["distinct_nontrivial"]
    c.cov["rule"] = (
        "TLC: LMLoopMC, every behaviour of the environment (better / "
        "converged / singular, costs, multipliers) for the configured limit; "
        "invariants IterBound, MultFloor, ResultIsBest, HaveBestIff, "
        "PastLimitIsDone, DoneIsFinal; temporal BestMonotone and Terminates "
        "under weak fairness.  Implementation: %d rows (seeded stratified "
        "sample: every type x family x m_error class of the %d-row table "
        "TLC computes from SelfCal!Configs) executed in the real library; "
        "%d solves (%d successful, %d analytic TRL), %d LM loops with %d "
        "iterations (%d rejected steps, %d loops ended by the limit), %d "
        "tolerance ladders; two thirds of the rows measure and solve the same "
        "parameter handles a second time on another frequency grid (same / "
        "other number of points, second vnacal_new_t on the same vnacal_t); "
        "every hook event must be a step of LMLoop with "
        "L = configured limit and every Solve/Params/Apply/Ladder event must "
        "satisfy SelfCal's contract.  distinct_nontrivial counts episodes "
        "with pairwise different event sequences in which a solve succeeded "
        "and its calibration was applied to an independent device."
        % (stats["rows_run"], stats["table_rows"], stats["solves"],
           stats["solves_ok"], stats["analytic"], stats["lm_loops"],
           stats["lm_iterations"], stats["rejects"], stats["limit_failures"],
           stats["ladders"]))
    c.cov["trusted_base"] = [
        "TLC 1.8", "LMLoop.tla / SelfCal.tla transcription of vnacal_new(3), "
        "vnacal_parameter(3) and the property text",
        "etermsim.c (independent error-network simulator) as data source",
        "harness booleans paramsRecovered / recovered / tighterIsCloser / "
        "steppedFromBest / tolerance tests computed in drv_selfcal.c",
        "guarded hook _vnacal_verif_lm_hook in vnacal_new_solve_auto.c",
        "per-solve watchdog (alarm) for termination", "clang ASan/UBSan"]
    c.assumptions += [
        "floating-point comparisons (parameter and S-parameter recovery, "
        "tolerance tests) are harness observations, not decided by TLC",
        "guesses lie within 0.2 of the truth; with limit >= 30 the solve is "
        "required to succeed, under smaller limits it may fail with EDOM",
        "exact data: the truth of a correlated parameter equals that of its "
        "correlate so that the zero-residual solution is the truth",
        "multiplier growth on reject is only required to be strict, shrink "
        "on accept only to stay >= 1 (the manual names no factor)",
    ]


def main(argv):
    vlib.run_check("C02", "model_checking", body, argv)
