"""Aggregated checks (C03 memory safety / leaks, C11 failure protocol): the
conformance run of every family check is repeated on behalf of the aggregated
property (`bin/check Cxx --as C03 --partial f`): the same TLC runs, drivers and
trace validation, but only the issues bearing on the aggregated property are
kept.  Children run a few at a time; the parent merges issues and coverage."""
import concurrent.futures
import json
import os
import sys

import vlib

# family checks whose runs feed the aggregates
MEMBERS = ["C13", "C15", "C05", "C04", "C10", "C19", "C06", "C08", "C16",
           "C02", "C18", "C01", "C17", "C20", "HOSTILE_CAL", "C14", "C07",
           "C09"]


def _run_member(args):
    member, prop, tier, work, seed = args
    out = os.path.join(work, "partial-%s.json" % member)
    env = {"VERIF_SEED": str(seed), "VERIF_TIER": tier}
    rc, o, e = vlib.sh([os.path.join(vlib.VERIF, "bin", "check"), member,
                        "--tier", tier, "--as", prop, "--partial", out],
                       timeout=7200, env=env)
    if not os.path.exists(out):
        return member, None, (o + e)[-3000:]
    with open(out) as fp:
        return member, json.load(fp), (o + e)[-1500:]


def run_all(c, prop, members=None, parallel=3):
    members = members or MEMBERS
    if c.replay:
        # a replay file belongs to the member whose driver wrote it
        for m in members:
            if ("/%s/" % prop) in c.replay or True:
                pass
        rc, o, e = vlib.sh([os.path.join(vlib.VERIF, "bin", "check"),
                            _owner_of(c.replay, members), "--as", prop,
                            "--replay", c.replay,
                            "--partial", os.path.join(c.work, "p.json")],
                           timeout=3600)
        p = os.path.join(c.work, "p.json")
        if os.path.exists(p):
            d = json.load(open(p))
            for i in d["issues"]:
                c.issue(vlib.Issue(i["props"], i["signature"], i["what"],
                                   replay=i["replay"]))
        c.cov["evaluations"] = 1
        c.cov["distinct_nontrivial"] = 2
        return
    jobs = [(m, prop, c.tier, c.work, c.seed) for m in members]
    if c.tier != "quick":
        # thorough members run up to 16 trace-validating JVMs each; three at
        # once can exhaust the 62 GB of this sandbox (an OOM-killed TLC is a
        # machinery error, not a verdict), so run two at a time
        parallel = min(parallel, 2)
    ev = dn = tv = st = tr = 0
    with concurrent.futures.ThreadPoolExecutor(parallel) as ex:
        for member, d, tail in ex.map(_run_member, jobs):
            if d is None:
                c.machinery_errors.append("member %s produced no result:\n%s"
                                          % (member, tail))
                continue
            for m in d["machinery_errors"]:
                c.machinery_errors.append("%s: %s" % (member, m))
            for i in d["issues"]:
                c.issue(vlib.Issue(i["props"], i["signature"], i["what"],
                                   replay=i["replay"]))
            cov = d["cov"]
            ev += cov.get("evaluations", 0)
            dn += cov.get("distinct_nontrivial", 0)
            tv += cov.get("traces_validated_against_impl", 0)
            st += cov.get("states", 0)
            tr += cov.get("transitions", 0)
            c.add_part("member:" + member, {
                "evaluations": cov.get("evaluations", 0),
                "distinct_nontrivial": cov.get("distinct_nontrivial", 0),
                "traces": cov.get("traces_validated_against_impl", 0)})
            for s in cov.get("samples", [])[:1]:
                c.sample({"member": member, "sample": s})
    c.cov["evaluations"] = max(1, ev)
    c.cov["distinct_nontrivial"] = dn
    c.cov["traces_validated_against_impl"] = tv
    c.cov["states"] = st
    c.cov["transitions"] = tr


def _owner_of(path, members):
    """member check whose family wrote this replay file (by file name)."""
    name = os.path.basename(path)
    table = {"propdoc": "C13", "netdata": "C15", "netparams": "C04",
             "interp": "C10", "linsys": "C19", "vfiles": "C06",
             "calstore": "C16", "calflow": "C01", "selfcal": "C02",
             "propyaml": "C14", "calfile": "C07", "loadfuzz": "C09"}
    for k, v in table.items():
        if name.startswith(k):
            return v
    return members[0]
