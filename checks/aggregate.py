"""Aggregated checks (C03 memory safety / leaks, C11 failure protocol): every
family's conformance run is repeated and the issues bearing on the property
are reported.  Families register here as they are built."""
import importlib

import vlib

# (family module, callable names returning (issues, stats))
FAMILIES = [
    ("propdoc", ["run", "run_desc"]),
]


def run_all(c, prop):
    total_events = 0
    total_eps = 0
    nontrivial = 0
    for name, fns in FAMILIES:
        fam = importlib.import_module("families." + name)
        exe = fam.build(c)
        if c.replay:
            for it in fam.replay(c, exe, c.replay):
                it.props.add(prop)
                c.issue(it)
            return
        if hasattr(fam, "mc"):
            fam.mc(c, c.tier)
        for fn in fns:
            if not hasattr(fam, fn):
                continue
            issues, stats = getattr(fam, fn)(c, exe, c.tier, c.seed)
            for it in issues:
                c.issue(it)
            c.add_part("%s.%s" % (name, fn), stats)
            total_events += stats.get("events", 0)
            total_eps += stats.get("episodes", 0)
            nontrivial += stats.get("distinct_nontrivial",
                                    stats.get("desc_sequences", 0))
    c.cov["evaluations"] = max(1, total_events)
    c.cov["distinct_nontrivial"] = nontrivial
    c.cov["traces_validated_against_impl"] = total_eps
