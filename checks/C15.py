"""C15 -- vnadata_t behaves like a typed frequency x rows x columns array
with z0 modes."""
import vlib
from families import netdata


def body(c):
    exe = netdata.build(c)
    if c.replay:
        for it in netdata.replay(c, exe, c.replay, family_prop="C15"):
            it.props.add("C15")
            c.issue(it)
        c.cov["evaluations"] = 1
        c.cov["distinct_nontrivial"] = 1
        return
    netdata.mc(c, c.tier)
    issues, stats = netdata.run(c, exe, c.tier, c.seed, modes=("exh", "rand"),
                                family_prop="C15")
    for it in issues:
        c.issue(it)
    c.add_part("netdata_traces", stats)
    c.cov["traces_validated_against_impl"] = stats["episodes"]
    c.cov["evaluations"] = stats["events"]
    c.cov["distinct_nontrivial"] = stats["distinct_nontrivial"]
    c.cov["rule"] = (
        "TLC: every history of <= MaxOps calls of NetDataMC from every start "
        "object (empty / filled with distinct values, both z0 modes), indices "
        "from {-1,0,n-1,n,n+1}, 12 invariants.  Implementation: %d start "
        "objects x every sequence of %d calls over a %d-call alphabet with "
        "symbolic boundary indices (%d cases)%s, plus %d random histories of "
        "%d calls (dims 0..4, all 11 types + invalid, z0/fz0 switches, "
        "conversions in place and into a second object); each public call is "
        "one event whose failure value / errno / callback count and full "
        "getter projection (type, dims, every frequency, cell, z0 / fz0 "
        "entry, has_fz0, load/save options) must be explained by "
        "NetData!Apply; distinct_nontrivial counts episodes with pairwise "
        "different event sequences in which a state-changing call succeeded."
        % (stats.get("prefixes", 0), stats.get("exh_depth", 0),
           stats.get("alphabet_full", 0), stats.get("exh_cases", 0),
           (" and depth %d over the %d-call core alphabet (%d cases)" %
            (stats["exhc_depth"], stats["alphabet_core"], stats["exhc_cases"]))
           if "exhc_depth" in stats else "",
           stats.get("rand_cases", 0), stats.get("rand_len", 0)))
    c.cov["trusted_base"] = [
        "TLC 1.8", "NetData.tla transcription of vnadata(3)",
        "driver projection through public getters, value interning by bit "
        "pattern", "clang ASan/UBSan"]
    c.assumptions += [
        "resize keeps each frequency's row-major image (manual: 'doesn't reform the matrix')",
        "vnadata_init on an object in per-frequency mode: resulting mode and load/save options bound from the observation",
        "failed vnadata_init: object unchanged or emptied",
        "get_fz0 / get_fz0_vector in ordinary mode with out-of-range findex: refusal or the ordinary value (manual: findex not used)",
        "get_fmin / get_fmax without frequencies: outcome not constrained",
        "negative frequencies are not passed to add_frequency (manual silent)",
    ]


def main(argv):
    vlib.run_check("C15", "model_checking", body, argv)
