"""C16 -- calibration and parameter handles stay valid, distinct and
correctly indexed."""
import concurrent.futures

import vlib
from families import calstore


def body(c):
    exe = calstore.build(c)
    if c.replay:
        for it in calstore.replay(c, exe, c.replay):
            it.props.add("C16")
            c.issue(it)
        c.cov["evaluations"] = 1
        c.cov["distinct_nontrivial"] = 1
        return
    # the design-level TLC runs and the implementation runs are independent
    with concurrent.futures.ThreadPoolExecutor(1) as ex:
        fmc = ex.submit(calstore.mc, c, c.tier)
        issues, stats = calstore.run(c, exe, c.tier, c.seed)
        fmc.result()
    for it in issues:
        c.issue(it)
    c.add_part("calstore_traces", stats)
    c.cov["traces_validated_against_impl"] = stats["episodes"]
    c.cov["evaluations"] = stats["events"]
    c.cov["distinct_nontrivial"] = stats["distinct_nontrivial"]
    c.cov["rule"] = (
        "TLC: every history of <= MaxOps calls after each seed history of "
        "CalStoreMC over the bounded alphabet with every fresh-handle / "
        "free-slot / open-outcome choice, 6 state invariants + 11 transition "
        "properties, each shown non-vacuous by counters.  Implementation: "
        "%d bounded-exhaustive cases (6 prefixes x 33-call alphabet ^ %d) plus "
        "%d random histories of up to %d calls over 1-2 vnacal_t and <= 3 "
        "vnacal_new_t each, plus %d bulk histories (20-40 handles, one "
        "vnacal_new_t using 10-20 of them, held handles deleted and re-used, "
        "unknowns solved by two vnacal_new_t on different grids; refused "
        "multi-cell standards through parameter chains) and 120 shape histories "
        "(8 types x square / rectangular dimensions x 1..3 frequencies, complex "
        "z0, every accessor read) and %d state histories (error model x "
        "incomplete S on T16/U16, set_m_error refusals / clear / set again, "
        "string arguments aliasing the library's own name / filename); every "
        "public call is one event whose result, "
        "errno, error-callback record and the full getter projection of every "
        "live vnacal_t must be explained by CalStore!Do; distinct_nontrivial "
        "counts episodes with pairwise different event sequences in which a "
        "calibration was stored or deleted or a user handle deleted."
        % (stats.get("exh_cases", 0), stats.get("exh_depth", 0),
           stats.get("rand_cases", 0), stats.get("rand_len", 0),
           stats.get("bulk_cases", 0), stats.get("state_cases", 0)))
    c.cov["trusted_base"] = [
        "TLC 1.8", "CalStore.tla transcription of vnacal(3), "
        "vnacal_parameter(3), vnacal_new(3)", "PropDoc.tla",
        "driver projection through public getters",
        "driver's ideal-instrument measurements (M = S of the standard) and "
        "its boolean 'solved unknown within 1e-4 (100 x default p_tolerance) of the standard's true value'",
        "clang ASan/UBSan, vt_alloc live-block accounting"]
    c.assumptions += [
        "handle returned by make_*_parameter: any handle not in the table "
        "(for 0, 1, -1 make_scalar may return the predefined handle)",
        "slot chosen by add_calibration: the same-name slot, else any free index",
        "errno of a silent query on a missing slot: EINVAL or ENOENT",
        "solve must succeed only for the textbook sets (3 distinct known "
        "reflects per port, + through for 2 ports) on 1x1/2x2 T8/E12 without "
        "unknowns; otherwise its outcome is taken from the log",
        "second add_calibration from one solve, unknown/correlated initial "
        "guess, NULL sigma frequency vector, deleting a predefined handle: "
        "outcome taken from the log",
        "vector parameters always cover the calibration band (the frequency "
        "range rule is C10's)",
    ]


def main(argv):
    vlib.run_check("C16", "model_checking", body, argv)
