"""Member of the aggregated checks C03 / C11 only (not a property of its own):
the hostile-argument table of the CalFlow family -- solve / add_calibration /
apply before anything exists, every refused and every unclassified standard,
partially given S matrices, add_calibration twice -- replayed against the real
library under ASan/UBSan.  Run as `bin/check HOSTILE_CAL --as C03 --partial f`."""
import vlib
from families import calflow


def body(c):
    exe = calflow.build(c)
    if c.replay:
        issues, which = calflow.replay(c, exe, c.replay)
        for it in issues:
            c.issue(it)
        c.cov["evaluations"] = 1
        c.cov["distinct_nontrivial"] = 1
        return
    issues, stats = calflow.run(c, exe, "hostile", c.tier, c.seed)
    for it in issues:
        c.issue(it)
    c.add_part("calflow_hostile", stats)
    c.cov["traces_validated_against_impl"] = stats["episodes"]
    c.cov["evaluations"] = stats["events"]
    c.cov["distinct_nontrivial"] = stats.get("distinct_nontrivial",
                                             stats["episodes"])
    c.sample({"table": "CalFlowTable WHICH=hostile", "cases": stats.get("cases")})


def main(argv):
    vlib.run_check("HOSTILE_CAL", "exploration", body, argv)
