"""C19 -- linear systems are solved to backward-stable accuracy; singular
ones stand out."""
import vlib
from families import linsys


def body(c):
    exe = linsys.build(c)
    if c.replay:
        for it in linsys.replay(c, exe, c.replay):
            it.props.add("C19")
            c.issue(it)
        c.cov["evaluations"] = 1
        c.cov["distinct_nontrivial"] = 1
        return
    linsys.mc(c, c.tier)
    issues, stats = linsys.run(c, exe, c.tier, c.seed)
    for it in issues:
        c.issue(it)
    c.add_part("linsys_cases", stats)
    c.cov["traces_validated_against_impl"] = stats["episodes"]
    c.cov["evaluations"] = stats["events"]
    c.cov["distinct_nontrivial"] = stats["distinct_nontrivial"]
    c.cov["rule"] = (
        "TLC: LinSysMC checks Hall = matching structural rank, invariance "
        "under row permutation / transposition, zero-line and tall-rank "
        "theorems on every n x n zero pattern (n <= 3 quick, 4 thorough) and "
        "every tall description; LinSysTable exports the case list.  "
        "Implementation: %d cases %s replayed through vnaconv_*n (n = 1..8), "
        "vnacal_apply (a/b reduction), vnacal_new_add_through (a/b), "
        "vnacal_new_solve (exact and over-determined one-port systems), "
        "vnacal_apply_m (row-scaled receivers); TLC (LinSysTrace) recomputes "
        "each case's class from the logged pattern and demands the contract "
        "on the harness observations.  distinct_nontrivial = pairwise "
        "different executed cases." % (stats["cases"], stats["by_kind"]))
    c.cov["trusted_base"] = [
        "TLC 1.8", "LinSys.tla (structural rank / Hall)",
        "drv_linsys.c: systems rebuilt from public inputs per vnaconv(3) "
        "definitions with own long-double arithmetic (harness/own_clin.h), "
        "own condition estimate, own 8-term error-network forward model",
        "clang ASan/UBSan"]
    c.assumptions += [
        "residual bound 1e3 n eps (|A||x|+|b|) is evaluated in the unscaled "
        "system; row scalings are exact powers of two (2^-28, 1, 2^28)",
        "a/b reduction is observed through an identity T8 calibration "
        "(factor 10 on the bound for the calibration's own rounding)",
        "apply_m / solve are observed through the forward model (backward "
        "error in measurement space, factor 100 for the calibration's own "
        "conditioning); with row-scaled receivers asserted only for exactly "
        "determined set-ups, over-determined ones are counted "
        "(applym_scaled_*_inaccurate) but not asserted",
        "duplicated equations in solves are not asserted (counted as "
        "solve_dup_undetected)",
        "nothing is asserted about numerical rank; cases whose unscaled "
        "system has a condition estimate above 1e6 are not asserted",
        "singular a matrix in vnacal_new_add_*: refusal with EDOM at the add "
        "or at the following solve is accepted",
    ]


def main(argv):
    vlib.run_check("C19", "exploration", body, argv)
