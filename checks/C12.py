"""C12 -- any single allocation failure yields a clean ENOMEM failure."""
import importlib

import vlib

# families that provide run_fault(ctx, exe, tier, seed) -> (issues, stats)
FAMILIES = ["propdoc", "faultx"]


def body(c):
    r = vlib.tlc_model_check("FaultMC.tla", "FaultMC.cfg", c.work, workers=4)
    c.add_mc("FaultMC", r)
    total_points = 0
    total_eps = 0
    total_events = 0
    for name in FAMILIES:
        fam = importlib.import_module("families." + name)
        if not hasattr(fam, "run_fault"):
            continue
        if c.replay:
            # a replay file belongs to the family whose driver wrote it
            base = c.replay.rsplit("/", 1)[-1]
            owns = getattr(fam, "owns_replay", lambda p, n=name: p.rsplit("/", 1)[-1].startswith(n))
            if not owns(c.replay):
                continue
        exe = fam.build(c)
        if c.replay:
            for it in fam.replay(c, exe, c.replay):
                it.props.add("C12")
                c.issue(it)
            continue
        issues, stats = fam.run_fault(c, exe, c.tier, c.seed)
        for it in issues:
            c.issue(it)
        c.add_part("fault:" + name, stats)
        total_points += stats["fault_points"]
        total_eps += stats["episodes"]
        total_events += stats["events"]
        for k in list(stats["scripts"].items())[:3]:
            c.sample({"script": k[0], "allocations_failed_once_each": k[1]})
    c.cov["evaluations"] = max(total_events, 1)
    c.cov["distinct_nontrivial"] = total_points
    c.cov["traces_validated_against_impl"] = total_eps
    c.cov["exhaustive"] = True
    c.cov["rule"] = (
        "for each scripted history the fault-free run counts the allocations "
        "K made inside libvna calls (observation calls excluded); then for "
        "every k = 1..K the script is re-run with allocation k failed once "
        "(exhaustive over k per script).  The faulted call must succeed or "
        "report ENOMEM and leave usable objects; it is then repeated and "
        "every later event must match the fault-free model (trace spec fault "
        "branch, Fault.tla); at the end everything is freed and the count of "
        "live in-library blocks must be 0; ASan/UBSan watch every run.  "
        "distinct_nontrivial = number of (script, k) fault points executed.")
    c.cov["trusted_base"] = ["TLC", "link-time allocator interposition (vt_alloc.c)",
                             "ASan/UBSan/LSan", "family trace specs"]


def main(argv):
    vlib.run_check("C12", "fault_enumeration", body, argv)
