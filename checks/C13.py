"""C13 -- the property tree behaves like a map/list/scalar document model."""
import concurrent.futures

import vlib
from checks import aggregate
from families import propdoc


def body(c):
    exe = propdoc.build(c)
    if c.replay:
        for it in propdoc.replay(c, exe, c.replay):
            it.props.add("C13")
            c.issue(it)
        c.cov["evaluations"] = 1
        c.cov["distinct_nontrivial"] = 1
        return
    # "the same through vnacal_property_* on global and per-calibration
    # roots": the CalStore family (check C16) drives those wrappers and
    # validates them against the PropDoc operators; its run is repeated here
    # on behalf of C13, concurrently with the vnaproperty_* runs
    pool = concurrent.futures.ThreadPoolExecutor(1)
    side = pool.submit(aggregate._run_member,
                       ("C16", "C13", c.tier, c.work, c.seed))
    propdoc.mc(c, c.tier)
    issues, stats = propdoc.run(c, exe, c.tier, c.seed)
    for it in issues:
        c.issue(it)
    r = vlib.tlc_model_check("DescriptorMC.tla",
                             "DescriptorMC_quick.cfg" if c.tier == "quick"
                             else "DescriptorMC_thorough.cfg", c.work,
                             workers=8, timeout=1500)
    c.add_mc("DescriptorMC", r)
    dissues, dstats = propdoc.run_desc(c, exe, c.tier, c.seed)
    for it in dissues:
        c.issue(it)
    c.add_part("descriptor_traces", dstats)
    stats["events"] += dstats["events"]
    stats["episodes"] += dstats["episodes"]
    stats["distinct_nontrivial"] += dstats["desc_sequences"]
    c.add_part("propdoc_traces", stats)
    member, d, tail = side.result()
    if d is None:
        c.machinery_errors.append("C16 --as C13 produced no result:\n" + tail)
    else:
        for m in d["machinery_errors"]:
            c.machinery_errors.append("C16: " + m)
        for i in d["issues"]:
            c.issue(vlib.Issue(i["props"], i["signature"], i["what"],
                               replay=i["replay"]))
        c.add_part("vnacal_property via CalStore (C16 run)", {
            "events": d["cov"].get("evaluations", 0),
            "episodes": d["cov"].get("traces_validated_against_impl", 0)})
        stats["events"] += d["cov"].get("evaluations", 0)
        stats["episodes"] += d["cov"].get("traces_validated_against_impl", 0)
    c.cov["traces_validated_against_impl"] = stats["episodes"]
    c.cov["evaluations"] = stats["events"]
    c.cov["distinct_nontrivial"] = stats["distinct_nontrivial"]
    c.cov["rule"] = (
        "TLC: every history of <= MaxOps calls of PropDocMC over the bounded "
        "alphabet, 8 invariants.  Implementation: every history of depth %d "
        "over a 30-call alphabet (%d cases) plus %d random histories of %d "
        "calls with decorated descriptors and adversarial keys/values; each "
        "public call is one event whose result, errno and full getter "
        "projection must be explained by PropDoc!Do; Descriptor language: every character "
        "sequence over 22 representative characters up to length 3 (quick) / "
        "4 (thorough) and random token concatenations through each of 8 API "
        "functions, each a distinct input.  distinct_nontrivial "
        "counts those plus episodes with pairwise different event sequences in which at "
        "least one modifying call succeeded." % (3 if c.tier == "quick" else 4,
                                       stats.get("exh_cases", 0),
                                       stats.get("rand_cases", 0),
                                       stats.get("rand_len", 0)))
    c.cov["trusted_base"] = ["TLC 1.8", "PropDoc.tla transcription of vnaproperty(3)",
                             "driver projection through public getters",
                             "clang ASan/UBSan"]
    c.assumptions += [
        "errno after a query on a null element is not constrained (manual names none)",
        "null element met mid-path: ENOENT or EINVAL both admitted",
        "delete with {} / [] suffix is not specified by the manual and not exercised",
    ]


def main(argv):
    vlib.run_check("C13", "model_checking", body, argv)
