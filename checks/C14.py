"""C14 -- property trees survive YAML export and import unchanged."""
import os

import vlib
from families import propyaml


def body(c):
    exe = propyaml.build(c)
    if c.replay:
        for it in propyaml.replay(c, exe, c.replay):
            c.issue(it)
        c.cov["evaluations"] = 1
        c.cov["distinct_nontrivial"] = 1
        return
    propyaml.mc(c, c.tier)
    issues, stats = propyaml.run(c, exe, c.tier, c.seed)
    for it in issues:
        c.issue(it)
        if c.prop not in it.props and os.environ.get("VERIF_SHOW_ALL"):
            # diagnostic only: issues this run observed that bear on other
            # properties (their own checks report them)
            print("NOTE other-property issue %s: %s" % (sorted(it.props),
                                                        it.signature))
    c.add_part("propyaml_traces", stats)
    c.cov["traces_validated_against_impl"] = stats["episodes"]
    c.cov["evaluations"] = stats["episodes"]
    c.cov["distinct_nontrivial"] = stats["distinct_nontrivial"]
    c.cov["exhaustive"] = False
    c.cov["rule"] = (
        "EXPLORATION: the input space (all trees of depth <= 6 over arbitrary "
        "valid UTF-8) is SAMPLED, not enumerated.  Generated: every string of "
        "the %d-entry adversarial pool in 8 tree shapes (root scalar, key, "
        "map value, list item, depth-6 chain, nested) = %d cases, plus %d "
        "random trees (depth 1..6, <= 36 nodes, keys/scalars from the pool; "
        "measured depth histogram in parts).  Each case: build through "
        "vnaproperty_set*, export_yaml_to_file, import_yaml_from_file and "
        "_from_string into an empty and into a non-empty destination, "
        "vnacal_property_set* + vnacal_save + vnacal_load (global and, every "
        "4th case, per-calibration root).  Every event is validated by "
        "PropYamlTrace: projection after import = Build(Events(projection "
        "before export)).  evaluations = episodes; distinct_nontrivial = "
        "episodes with pairwise different event sequences whose tree has more "
        "than one node and for which at least one import was executed.  TLC "
        "separately model-checks Build(Events(d)) = d for every document of "
        "depth <= 2 (states/transitions)." %
        (stats["single_cases"] // 8, stats["single_cases"], stats["rand_cases"]))
    c.cov["trusted_base"] = [
        "TLC 1.8", "PropYaml.tla / PropDoc.tla (transcription of vnaproperty(3))",
        "driver projection through public getters; string ids interned on exact bytes",
        "harness's own descriptor quoting (alternating with vnaproperty_quote_key)",
        "libyaml (scalar style decisions are observed only through the result)",
        "clang ASan/UBSan/LSan"]
    c.assumptions += [
        "strings are valid UTF-8 without NUL (invalid UTF-8 is C09 material)",
        "map key order is not compared (keys compared as a set)",
        "duplicate keys in a YAML mapping are not generated (exporter never writes them)",
        "warning callbacks are not constrained; any non-warning callback on a "
        "successful call is a mismatch",
    ]
    if stats.get("gave_up"):
        c.assumptions.append(
            "%d driver shard(s) stopped after 40 crashes: part of the planned "
            "cases was not executed in this run" % stats["gave_up"])


def main(argv):
    vlib.run_check("C14", "exploration", body, argv)
