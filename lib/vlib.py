"""Shared machinery for the libvna model-based checks.

Everything a check needs that is not specific to one specification family:

  * building the library from the *current working tree* of the repository
    (content-hash keyed cache, so an edited tree is always rebuilt and an
    unchanged one is built once),
  * compiling C drivers against it (ASan+UBSan, optional allocator wrapping),
  * running TLC on a model-checking config and on a trace-validation config,
  * issues -> known-findings matching -> VIOLATION / KNOWN-FINDING lines,
  * evidence files.

Exit codes of a check: 0 held, 1 violation (unlisted), 2 machinery failure.
"""
import concurrent.futures
import glob
import hashlib
import json
import os
import re
import shutil
import subprocess
import sys
import time

VERIF = os.path.dirname(os.path.dirname(os.path.abspath(__file__)))
REPO = os.environ.get("VERIF_REPO", "/repo")
GUARD = "LIBVNA_VERIF"
TLA_JAR = "/opt/veriftools/tla/tla2tools.jar"
TLA_CP = TLA_JAR + ":/opt/veriftools/tla/CommunityModules-deps.jar"
NCPU = os.cpu_count() or 4

SAN_FLAGS = ["-g", "-O1", "-fsanitize=address,undefined",
             "-fno-sanitize-recover=all", "-fno-omit-frame-pointer"]
PLAIN_FLAGS = ["-g", "-O2"]
WRAP_SYMS = ["malloc", "calloc", "realloc", "free", "strdup", "vasprintf"]

SAN_ENV = {
    "ASAN_OPTIONS": "detect_leaks=1:allocator_may_return_null=1:"
                    "abort_on_error=0:exitcode=97:detect_stack_use_after_return=0:"
                    "symbolize=1:print_summary=1",
    "UBSAN_OPTIONS": "print_stacktrace=1:halt_on_error=1:exitcode=98",
    "LSAN_OPTIONS": "exitcode=96",
    "ASAN_SYMBOLIZER_PATH": shutil.which("llvm-symbolizer") or
                            "/usr/bin/llvm-symbolizer-14",
}


class MachineryError(Exception):
    pass


def sh(cmd, timeout=600, env=None, cwd=None, stdin=None, capture=True):
    """Run cmd (list).  Returns (rc, stdout, stderr); rc = -9 on timeout."""
    e = dict(os.environ)
    if env:
        e.update(env)
    try:
        p = subprocess.run(cmd, timeout=timeout, env=e, cwd=cwd, input=stdin,
                           stdout=subprocess.PIPE if capture else None,
                           stderr=subprocess.PIPE if capture else None)
        return (p.returncode,
                p.stdout.decode("utf-8", "replace") if capture else "",
                p.stderr.decode("utf-8", "replace") if capture else "")
    except subprocess.TimeoutExpired as ex:
        out = ex.stdout.decode("utf-8", "replace") if ex.stdout else ""
        err = ex.stderr.decode("utf-8", "replace") if ex.stderr else ""
        return (-9, out, err)


# ---------------------------------------------------------------------------
# library build
# ---------------------------------------------------------------------------

def lib_sources(repo=None):
    repo = repo or REPO
    out = []
    for f in sorted(glob.glob(os.path.join(repo, "src", "*.c"))):
        b = os.path.basename(f)
        if "example" in b or b == "convert-parameters.c":
            continue
        out.append(f)
    return out


def tree_hash(repo=None, extra=""):
    repo = repo or REPO
    h = hashlib.sha256()
    files = sorted(glob.glob(os.path.join(repo, "src", "*.[ch]")))
    cfg = os.path.join(repo, "config.h")
    if os.path.exists(cfg):
        files.append(cfg)
    for f in files:
        h.update(os.path.basename(f).encode())
        with open(f, "rb") as fp:
            h.update(fp.read())
    h.update(extra.encode())
    return h.hexdigest()[:20]


def _compile_one(args):
    src, obj, flags = args
    rc, out, err = sh(["clang"] + flags + ["-c", src, "-o", obj], timeout=300)
    return (src, rc, err)


def build_lib(kind="san", repo=None, hooks=True):
    """Build libvna.a from the repository's current working tree.

    kind: "san" (ASan+UBSan) or "plain".  Returns the directory holding
    libvna.a.  Cached under .cache/lib-<hash of sources+flags>; the hash is
    over file contents, so an edited tree is never served from a stale build.
    """
    repo = repo or REPO
    flags = list(SAN_FLAGS if kind == "san" else PLAIN_FLAGS)
    if hooks:
        flags.append("-D" + GUARD)
    cfgdir = repo
    if not os.path.exists(os.path.join(repo, "config.h")):
        cfgdir = os.path.join(VERIF, ".cache", "cfg")
        os.makedirs(cfgdir, exist_ok=True)
        dst = os.path.join(cfgdir, "config.h")
        if not os.path.exists(dst):
            # atomic: other checks may be compiling against it right now
            tmpc = dst + ".tmp%d" % os.getpid()
            shutil.copy(os.path.join(VERIF, "harness", "config_fallback.h"), tmpc)
            os.replace(tmpc, dst)
    flags += ["-DHAVE_CONFIG_H", "-I" + cfgdir, "-I" + os.path.join(repo, "src"),
              "-Wno-everything"]
    key = tree_hash(repo, " ".join(flags))
    cdir = os.path.join(VERIF, ".cache", "lib-%s-%s" % (kind, key))
    lib = os.path.join(cdir, "libvna.a")
    if os.path.exists(lib):
        os.utime(cdir)
        return cdir
    tmp = cdir + ".tmp%d" % os.getpid()
    shutil.rmtree(tmp, ignore_errors=True)
    os.makedirs(tmp)
    jobs = []
    for s in lib_sources(repo):
        o = os.path.join(tmp, os.path.basename(s)[:-2] + ".o")
        jobs.append((s, o, flags))
    with concurrent.futures.ThreadPoolExecutor(NCPU) as ex:
        res = list(ex.map(_compile_one, jobs))
    bad = [(s, e) for s, rc, e in res if rc != 0]
    if bad:
        shutil.rmtree(tmp, ignore_errors=True)
        raise MachineryError("library build failed: %s\n%s" %
                             (bad[0][0], bad[0][1][:2000]))
    rc, out, err = sh(["ar", "rcs", os.path.join(tmp, "libvna.a")] +
                      [j[1] for j in jobs])
    if rc != 0:
        raise MachineryError("ar failed: " + err)
    for j in jobs:
        os.unlink(j[1])
    try:
        os.rename(tmp, cdir)
    except OSError:
        shutil.rmtree(tmp, ignore_errors=True)
    _prune_cache()
    return cdir


def _prune_cache(keep=30):
    cache = os.path.join(VERIF, ".cache")
    ds = [d for d in glob.glob(os.path.join(cache, "lib-*")) if ".tmp" not in d]
    ds.sort(key=lambda d: os.path.getmtime(d), reverse=True)
    for d in ds[keep:]:
        shutil.rmtree(d, ignore_errors=True)


def build_driver(name, sources, libdir, outdir, kind="san", wrap_alloc=False,
                 extra=None, repo=None):
    """Compile and link harness sources (paths relative to harness/)."""
    repo = repo or REPO
    flags = list(SAN_FLAGS if kind == "san" else PLAIN_FLAGS)
    flags += ["-D" + GUARD, "-DHAVE_CONFIG_H", "-I" + os.path.join(repo, "src"),
              "-I" + (repo if os.path.exists(os.path.join(repo, "config.h"))
                      else os.path.join(VERIF, ".cache", "cfg")),
              "-I" + os.path.join(VERIF, "harness"), "-Wall",
              "-Wno-unused-function", "-Wno-unused-variable"]
    if extra:
        flags += extra
    srcs = [s if os.path.isabs(s) else os.path.join(VERIF, "harness", s)
            for s in sources]
    out = os.path.join(outdir, name)
    cmd = ["clang"] + flags + srcs + [os.path.join(libdir, "libvna.a")]
    if wrap_alloc:
        cmd.append("-Wl," + ",".join("--wrap=" + s for s in WRAP_SYMS))
    cmd += ["-lyaml", "-lm", "-o", out]
    rc, o, e = sh(cmd, timeout=300)
    if rc != 0:
        raise MachineryError("driver build failed (%s):\n%s" % (name, e[:4000]))
    return out


# ---------------------------------------------------------------------------
# TLC
# ---------------------------------------------------------------------------

_STATES_RE = re.compile(r"(\d+) states generated, (\d+) distinct states found")
_DEPTH_RE = re.compile(r"depth of the complete state graph search is (\d+)")


def tlc(module, cfg, workdir, env=None, workers=1, timeout=900, extra=None,
        heap="4g", specdir=None):
    """Run TLC.  Returns dict(rc, out, generated, distinct, depth)."""
    specdir = specdir or os.path.join(VERIF, "spec")
    meta = os.path.join(workdir, "tlc-%s-%d-%d" % (os.path.basename(cfg),
                                                 os.getpid(), int(time.time() * 1e6) % 10**9))
    os.makedirs(meta, exist_ok=True)
    # TLC creates an (empty) tlc-<n> directory under java.io.tmpdir on every
    # run; keep it inside the run's own metadir so that nothing accumulates
    # in /tmp.
    cmd = ["java", "-XX:+UseParallelGC", "-Xmx" + heap,
           "-Djava.io.tmpdir=" + meta, "-cp", TLA_CP,
           "tlc2.TLC", "-workers", str(workers), "-metadir", meta,
           "-config", cfg, "-nowarning", "-noGenerateSpecTE"]
    if extra:
        cmd += extra
    cmd.append(module)
    rc, out, err = sh(cmd, timeout=timeout, env=env, cwd=specdir)
    shutil.rmtree(meta, ignore_errors=True)
    res = {"rc": rc, "out": out + err, "generated": 0, "distinct": 0, "depth": 0}
    m = None
    for m in _STATES_RE.finditer(out):
        pass
    if m:
        res["generated"] = int(m.group(1))
        res["distinct"] = int(m.group(2))
    m = _DEPTH_RE.search(out)
    if m:
        res["depth"] = int(m.group(1))
    return res


def tlc_model_check(module, cfg, workdir, workers=None, timeout=900, heap="8g",
                    extra=None, env=None):
    """Exhaustive model check; raises MachineryError unless TLC finishes
    cleanly.  An invariant violation of the *design spec* is a machinery
    failure (the spec itself is wrong), not a violation by libvna."""
    r = tlc(module, cfg, workdir, workers=workers or min(NCPU, 8),
            timeout=timeout, heap=heap, extra=extra, env=env)
    if r["rc"] != 0 or "Model checking completed. No error has been found" not in r["out"]:
        raise MachineryError("TLC model check %s/%s did not pass (rc=%s):\n%s" %
                             (module, cfg, r["rc"], r["out"][-3000:]))
    return r


_MISMATCH_RE = re.compile(r'<<"MISMATCH", (.*)>>')
_EXPECTED_RE = re.compile(r'<<"EXPECTED", (.*?)>>\n(?=\S|$)', re.S)


def tlc_validate_trace(module, cfg, trace_path, workdir, timeout=1800,
                       env=None, heap="4g"):
    """Validate one ndjson trace.  Returns dict(accepted, matched, total,
    mismatch (text printed by the spec for the first unmatched event), out).
    """
    with open(trace_path) as fp:
        total = sum(1 for _ in fp)
    e = {"TRACE": trace_path}
    if env:
        e.update(env)
    r = tlc(module, cfg, workdir, env=e, workers=1, timeout=timeout, heap=heap)
    out = r["out"]
    accepted = (r["rc"] == 0 and
                "Model checking completed. No error has been found" in out)
    res = {"accepted": accepted, "total": total, "matched": total if accepted
           else max(0, r["depth"] - 1), "mismatch": None, "out": out,
           "rc": r["rc"], "generated": r["generated"],
           "distinct": r["distinct"]}
    if not accepted:
        ms = _MISMATCH_RE.findall(out)
        if ms:
            res["mismatch"] = ms[-1]
            xs = _EXPECTED_RE.findall(out)
            if xs:
                res["expected"] = re.sub(r"\s+", " ", xs[-1])[:600]
        if r["rc"] not in (10, 12, 13) and "POSTCONDITION" not in out.upper() \
                and "ostcondition" not in out:
            # not a clean rejection: parse error, evaluation error, timeout
            res["error"] = True
    return res


# ---------------------------------------------------------------------------
# traces: episodes separated by {"e":"Reset",...}
# ---------------------------------------------------------------------------

def split_episodes(path):
    """Return list of (start_line_index, [lines]) per episode."""
    eps = []
    cur = None
    with open(path) as fp:
        for i, line in enumerate(fp):
            if line.startswith('{"e":"Reset"'):
                cur = (i, [])
                eps.append(cur)
            if cur is None:
                cur = (i, [])
                eps.append(cur)
            cur[1].append(line)
    return eps


def validate_sharded(module, cfg, trace_path, workdir, shards=None,
                     max_failures=6, timeout=1800, env=None):
    """Validate a long multi-episode trace: shard by episodes over several TLC
    processes; on a rejection isolate the failing episode, confirm it alone
    (a rejection is reported only if it repeats), drop it and go on.

    Returns dict(events, episodes, failures=[{episode_lines, index_in_episode,
    mismatch, event}], errors=[...], generated).
    """
    eps = split_episodes(trace_path)
    shards = shards or min(NCPU, max(1, len(eps) // 200 + 1))
    shards = max(1, min(shards, len(eps)))
    groups = [eps[i::shards] for i in range(shards)]
    result = {"events": sum(len(e[1]) for e in eps), "episodes": len(eps),
              "failures": [], "errors": [], "generated": 0}

    # once enough rejected episodes have been collected over all shards the
    # remaining ones are not diagnosed any further (a violating run should
    # reach its verdict quickly; a passing run is unaffected)
    import threading
    total_lock = threading.Lock()
    total = {"n": 0}
    max_total = int(os.environ.get("VERIF_MAX_REJECTIONS", "16"))

    def work(gi):
        group = list(groups[gi])
        fails, errs, gen = [], [], 0
        rounds = 0
        while group and rounds <= max_failures:
            with total_lock:
                if total["n"] >= max_total:
                    break
            rounds += 1
            p = os.path.join(workdir, "shard-%d-%d.ndjson" % (gi, rounds))
            with open(p, "w") as fp:
                for _, lines in group:
                    fp.writelines(lines)
            r = tlc_validate_trace(module, cfg, p, workdir, timeout=timeout,
                                   env=env)
            gen += r["generated"]
            if r["accepted"]:
                os.unlink(p)
                break
            if r.get("error") and r["matched"] == 0 and r["mismatch"] is None:
                errs.append(r["out"][-3000:])
                break
            # locate the episode containing event number r["matched"] (0-based)
            k = r["matched"]
            acc = 0
            bad = None
            for gi2, (start, lines) in enumerate(group):
                if acc + len(lines) > k:
                    bad = gi2
                    break
                acc += len(lines)
            if bad is None:
                errs.append("cannot locate failing episode:\n" + r["out"][-2000:])
                break
            start, lines = group[bad]
            # confirm alone
            p1 = os.path.join(workdir, "episode-%d-%d.ndjson" % (gi, rounds))
            with open(p1, "w") as fp:
                fp.writelines(lines)
            r1 = tlc_validate_trace(module, cfg, p1, workdir, timeout=timeout,
                                    env=env)
            gen += r1["generated"]
            if r1["accepted"]:
                errs.append("episode rejected in shard but accepted alone "
                            "(line %d): not reported" % start)
            else:
                idx = r1["matched"]
                ev = lines[idx] if idx < len(lines) else ""
                with total_lock:
                    total["n"] += 1
                fails.append({"lines": lines, "index": idx, "event": ev,
                              "mismatch": r1["mismatch"], "start": start,
                              "expected": r1.get("expected"),
                              "out": r1["out"][-1500:]})
            os.unlink(p)
            os.unlink(p1)
            del group[bad]
        return fails, errs, gen

    with concurrent.futures.ThreadPoolExecutor(shards) as ex:
        for fails, errs, gen in ex.map(work, range(shards)):
            result["failures"] += fails
            result["errors"] += errs
            result["generated"] += gen
    return result


# ---------------------------------------------------------------------------
# issues, known findings, evidence
# ---------------------------------------------------------------------------

class Issue:
    """One observed violation.  `props` = the property ids it bears on;
    `signature` identifies the failing input / call site / history class so
    that known findings suppress exactly that and nothing else."""

    def __init__(self, props, signature, what, replay=None, detail=None):
        self.props = set(props)
        self.signature = signature
        self.what = what
        self.replay = replay
        self.detail = detail


def load_known():
    p = os.path.join(VERIF, "known_findings.json")
    if not os.path.exists(p):
        return {"findings": [], "fixed": []}
    with open(p) as fp:
        return json.load(fp)


_SAN_KIND_RE = re.compile(
    r"ERROR: (AddressSanitizer|LeakSanitizer): ([A-Za-z0-9_-]+)|"
    r"(runtime error): (.*)")
_FRAME_RE = re.compile(r"#\d+ 0x[0-9a-f]+ in (\S+) (\S+)")


def sanitizer_signature(stderr_text, repo=None):
    """(kind, top libvna frames) of a sanitizer report, or None."""
    repo = repo or REPO
    kind = None
    for line in stderr_text.splitlines():
        m = _SAN_KIND_RE.search(line)
        if m:
            if m.group(1):
                kind = m.group(2)
                if m.group(1) == "LeakSanitizer":
                    kind = "leak"
            else:
                msg = m.group(4)
                msg = re.sub(r"0x[0-9a-f]+", "ADDR", msg)
                msg = re.sub(r"-?\d+", "N", msg)
                kind = "ub:" + msg[:60]
            break
    if kind is None:
        if "Assertion" in stderr_text and "failed" in stderr_text:
            m = re.search(r"(\S+): Assertion `(.*)' failed", stderr_text)
            return ("assert", m.group(2)[:80] if m else "?")
        return None
    frames = []
    for m in _FRAME_RE.finditer(stderr_text):
        fn, loc = m.group(1), m.group(2)
        if "/src/" in loc and "harness" not in loc:
            frames.append(fn)
        if len(frames) >= 2:
            break
    return (kind, ">".join(frames) if frames else "?")


class Check:
    def __init__(self, prop_id, level, argv=None):
        import argparse
        ap = argparse.ArgumentParser()
        ap.add_argument("--tier", default=os.environ.get("VERIF_TIER", "quick"),
                        choices=["quick", "thorough"])
        ap.add_argument("--replay", default=None)
        ap.add_argument("--keep", action="store_true")
        # aggregated checks (C03, C11): run this check's body on behalf of
        # another property and hand the issues/coverage to the parent
        ap.add_argument("--as", dest="as_prop", default=None)
        ap.add_argument("--partial", default=None)
        a = ap.parse_args(argv)
        self.own_prop = prop_id
        self.partial = a.partial
        if a.as_prop:
            prop_id = a.as_prop
        self.prop = prop_id
        self.level = level
        self.tier = a.tier
        self.replay = a.replay
        self.keep = a.keep
        self.seed = int(os.environ.get("VERIF_SEED", "20261004"))
        self.t0 = time.time()
        self.work = os.path.join(VERIF, ".work", "%s-%s-%d" % (
            prop_id, self.own_prop, os.getpid()))
        shutil.rmtree(self.work, ignore_errors=True)
        os.makedirs(self.work)
        self.issues = []
        self.cov = {"evaluations": 0, "distinct_nontrivial": 0, "rule": "",
                    "samples": [], "states": 0, "transitions": 0,
                    "traces_validated_against_impl": 0, "trusted_base": []}
        self.assumptions = []
        self.parts = {}
        self.machinery_errors = []

    # -- coverage bookkeeping ------------------------------------------------
    def add_mc(self, name, r):
        self.cov["states"] += r["distinct"]
        self.cov["transitions"] += r["generated"]
        self.parts["tlc:" + name] = {"distinct": r["distinct"],
                                     "generated": r["generated"]}

    def add_part(self, name, d):
        self.parts[name] = d

    def sample(self, s):
        if len(self.cov["samples"]) < 8:
            self.cov["samples"].append(s)

    def issue(self, issue):
        if self.prop in issue.props:
            self.issues.append(issue)

    def save_replay(self, name, content):
        d = os.path.join(os.environ.get("VERIF_REPLAY_DIR") or
                         os.path.join(VERIF, "replay"), self.prop)
        os.makedirs(d, exist_ok=True)
        p = os.path.join(d, name)
        with open(p, "w") as fp:
            if isinstance(content, str):
                fp.write(content)
            else:
                json.dump(content, fp, indent=1)
        return p

    # -- finishing -----------------------------------------------------------
    def finish(self):
        if self.partial:
            # child of an aggregated check: no verdict here
            for it in self.issues:
                if it.replay is None:
                    it.replay = self.save_replay(
                        "violation-%s.json" % hashlib.sha1(
                            it.signature.encode()).hexdigest()[:10],
                        {"property": self.prop, "signature": it.signature,
                         "what": it.what, "detail": it.detail})
            with open(self.partial, "w") as fp:
                json.dump({"from": self.own_prop, "cov": self.cov,
                           "parts": self.parts,
                           "machinery_errors": self.machinery_errors,
                           "issues": [{"props": sorted(i.props),
                                       "signature": i.signature, "what": i.what,
                                       "replay": i.replay} for i in self.issues]},
                          fp)
            if not self.keep:
                shutil.rmtree(self.work, ignore_errors=True)
            return 2 if self.machinery_errors else 0
        known = load_known()
        listed = {(f["property"], f["signature"]): f for f in known.get("findings", [])}
        seen_known = {}
        viol = []
        seen_sig = set()
        for it in self.issues:
            key = (self.prop, it.signature)
            if key in listed:
                seen_known[key] = listed[key]
                continue
            if it.signature in seen_sig:
                continue
            seen_sig.add(it.signature)
            viol.append(it)
        for key, f in seen_known.items():
            print("KNOWN-FINDING: property=%s %s [%s]" %
                  (self.prop, f.get("what", ""), f["signature"]))
        for it in viol:
            rp = it.replay or self.save_replay(
                "violation-%s.json" % hashlib.sha1(
                    it.signature.encode()).hexdigest()[:10],
                {"property": self.prop, "signature": it.signature,
                 "what": it.what, "detail": it.detail})
            print("VIOLATION property=%s replay=%s" % (self.prop, rp))
            print("  signature: %s" % it.signature)
            print("  what: %s" % it.what)
        wall = time.time() - self.t0
        cov = dict(self.cov)
        cov["parts"] = self.parts
        if not cov["samples"]:
            cov["samples"] = ["(no sample recorded)"]
        ev = {"property_id": self.prop, "tier": self.tier, "seed": self.seed,
              "level": self.level, "coverage": cov,
              "assumptions": self.assumptions, "wall_s": round(wall, 2),
              "violations": len(viol),
              "known_findings_reproduced": [f["signature"] for f in seen_known.values()]}
        if self.replay is None and not os.environ.get("VERIF_NO_EVIDENCE"):
            os.makedirs(os.path.join(VERIF, "evidence"), exist_ok=True)
            with open(os.path.join(VERIF, "evidence", self.prop + ".json"), "w") as fp:
                json.dump(ev, fp, indent=1)
        if not self.keep:
            shutil.rmtree(self.work, ignore_errors=True)
        if self.machinery_errors:
            for m in self.machinery_errors:
                print("MACHINERY-ERROR: " + m[:2000], file=sys.stderr)
            if not viol:
                return 2
        print("%s %s: %d violation(s), %d known finding(s), %.1fs" %
              (self.prop, self.tier, len(viol), len(seen_known), wall))
        return 1 if viol else 0


def run_check(prop_id, level, body, argv=None):
    c = Check(prop_id, level, argv)
    try:
        body(c)
    except MachineryError as ex:
        c.machinery_errors.append(str(ex))
    rc = c.finish()
    sys.exit(rc)
