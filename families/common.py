"""Helpers shared by the family runners: sharded driver execution with crash
recovery, and conversion of trace rejections into issues."""
import concurrent.futures
import hashlib
import json
import os
import re

import vlib

CASE_RE = re.compile(r'"case":"([^"]*)"')


def last_case(trace_path):
    """case id of the last Reset line in a (possibly truncated) trace."""
    last = None
    try:
        with open(trace_path, "rb") as fp:
            for line in fp:
                if line.startswith(b'{"e":"Reset"'):
                    m = CASE_RE.search(line.decode("utf-8", "replace"))
                    if m:
                        last = m.group(1)
    except OSError:
        pass
    return last


def run_cases(exe, mkargs, lo, hi, trace_path, case_index, timeout=600,
              max_crashes=40, env=None, resume=None,
              wall_timeout_is_hang=False):
    """Run driver cases lo..hi-1 appending to trace_path.  mkargs(a, b) gives
    the argv tail for the half-open range; case_index(case_id) recovers the
    integer index of a case id.  On a crash (sanitizer report, signal) the
    crashed case is recorded and the run resumes behind it.
    Returns list of crashes: dict(case, rc, stderr)."""
    crashes = []
    a = lo
    part = 0
    while a < hi:
        tp = "%s.part%d" % (trace_path, part)
        part += 1
        e = dict(vlib.SAN_ENV)
        if env:
            e.update(env)
        e["VT_TRACE"] = tp
        rc, out, err = vlib.sh([exe] + mkargs(a, hi), timeout=timeout, env=e)
        with open(trace_path, "ab") as dst:
            if os.path.exists(tp):
                with open(tp, "rb") as src:
                    data = src.read()
                # a crashed process may leave a partial last line
                if data and not data.endswith(b"\n"):
                    data = data[:data.rfind(b"\n") + 1]
                dst.write(data)
        if rc == 0:
            if os.path.exists(tp):
                os.unlink(tp)
            break
        if rc == -9 and not wall_timeout_is_hang:
            # the whole driver process exceeded its generous wall-clock
            # limit: that says something about the machine (overload), not
            # about libvna.  Hangs are detected inside the drivers by a
            # CPU-time watchdog (vt_watchdog_start).
            raise vlib.MachineryError(
                "driver %s did not finish %s within %d s wall clock "
                "(overloaded machine?); not a verdict" %
                (os.path.basename(exe), mkargs(a, hi), timeout))
        cid = last_case(tp)
        nxt = None
        if resume is not None and os.path.exists(tp):
            # resume(trace_part_path) -> (case id of the crashed case, index
            # of the first case to run next)
            cid, nxt = resume(tp)
        if os.path.exists(tp):
            os.unlink(tp)
        crashes.append({"case": cid, "rc": rc, "stderr": err[-6000:]})
        if cid is None or len(crashes) >= max_crashes:
            crashes[-1]["gave_up"] = True
            break
        a = nxt if nxt is not None else case_index(cid) + 1
    return crashes


def run_sharded(exe, mkargs, total, workdir, name, case_index, nshards=None,
                timeout=900, env=None, resume=None):
    """Split cases 0..total-1 over processes.  Returns (trace_paths, crashes)."""
    nshards = nshards or min(vlib.NCPU, max(1, total // 50))
    nshards = max(1, min(nshards, total))
    bounds = [(total * i // nshards, total * (i + 1) // nshards)
              for i in range(nshards)]
    paths = [os.path.join(workdir, "%s-%d.ndjson" % (name, i))
             for i in range(nshards)]
    for p in paths:
        open(p, "w").close()

    def work(i):
        lo, hi = bounds[i]
        return run_cases(exe, mkargs, lo, hi, paths[i], case_index,
                         timeout=timeout, env=env, resume=resume)

    crashes = []
    with concurrent.futures.ThreadPoolExecutor(nshards) as ex:
        for c in ex.map(work, range(nshards)):
            crashes += c
    return paths, crashes


def strip_crashed_episodes(path):
    """Remove episodes that did not reach their End (the process crashed in
    the middle); they are reported through the crash record instead.
    Returns number of complete episodes kept."""
    eps = vlib.split_episodes(path)
    kept = 0
    with open(path + ".clean", "w") as fp:
        for start, lines in eps:
            if lines and '"e":"End"' in lines[-1]:
                fp.writelines(lines)
                kept += 1
    os.replace(path + ".clean", path)
    return kept


def concat(paths, out):
    with open(out, "w") as dst:
        for p in paths:
            with open(p) as src:
                for line in src:
                    dst.write(line)
    return out


def sig_hash(s):
    return hashlib.sha1(s.encode()).hexdigest()[:10]


def parse_mismatch(m):
    """'<<..>>' payload text -> (index, event, field) best effort."""
    if not m:
        return (None, "?", "?")
    parts = [x.strip().strip('"') for x in m.split(",")]
    try:
        return (int(parts[0]), parts[1], parts[2])
    except (ValueError, IndexError):
        return (None, "?", "?")


def count_distinct_nontrivial(trace_path, pred):
    """Measured coverage: number of episodes that are pairwise distinct (by
    the hash of their events, Reset line excluded) and satisfy pred(lines)."""
    seen = set()
    n = 0
    for start, lines in vlib.split_episodes(trace_path):
        body = lines[1:] if lines and lines[0].startswith('{"e":"Reset"') else lines
        if not pred(body):
            continue
        h = hashlib.sha1("".join(body).encode()).digest()
        if h in seen:
            continue
        seen.add(h)
        n += 1
    return n
