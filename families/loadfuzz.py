"""LoadContract family: every file parser is total (C09).

  mc(ctx, tier)     TLC on LoadContractMC (line automata, contract facts) and
                    two reachability witnesses
  build(ctx)        drv_loadfuzz
  run(ctx, ...)     exhaustive truncation of the first seed of every kind
                    (thorough: of every seed) + structure-aware mutations;
                    every input is one event validated by LoadContractTrace
  replay(ctx, exe, path)
"""
import json
import os

import vlib
from families import cfiles_util, common

SOURCES = ["drv_loadfuzz.c", "vt.c", "vt_alloc.c"]
TRACE = ("LoadContractTrace.tla", "LoadContractTrace.cfg")
EXIT_LEAK = 95
EXIT_HANG = 94
QUIET_RC = (EXIT_LEAK, EXIT_HANG)


def mc(ctx, tier):
    cfg = ("LoadContractMC_quick.cfg" if tier == "quick"
           else "LoadContractMC_thorough.cfg")
    r = vlib.tlc_model_check("LoadContractMC.tla", cfg, ctx.work, workers=8,
                             timeout=1500, extra=["-noGenerateSpecTE"])
    ctx.add_mc("LoadContractMC/" + cfg, r)
    for wcfg, inv in (("LoadContractMC_witness.cfg", "WitnessV2"),
                      ("LoadContractMC_witness2.cfg", "WitnessNpd")):
        w = vlib.tlc("LoadContractMC.tla", wcfg, ctx.work, workers=4,
                     timeout=600, heap="4g", extra=["-noGenerateSpecTE"])
        if "Invariant %s is violated" % inv not in w["out"]:
            raise vlib.MachineryError("LoadContractMC: witness %s not reachable "
                                      "(vacuous invariants):\n%s" %
                                      (inv, w["out"][-1500:]))
    return r


def _tests_dir():
    """src/tests of the repository under test; scratch copies made by
    bin/mutcheck leave it out, the reference data then come from the
    unmodified repository"""
    d = os.path.join(vlib.REPO, "src", "tests")
    if os.path.exists(os.path.join(d, "compat-V2.vnacal")):
        return d
    return os.path.join(os.environ.get("VERIF_BASE_REPO", "/repo"), "src", "tests")


def build(ctx):
    lib = vlib.build_lib("san")
    return vlib.build_driver("drv_loadfuzz", SOURCES, lib, ctx.work,
                             wrap_alloc=True)


def _env(ctx):
    tmp = os.path.join(ctx.work, "tmp")
    os.makedirs(tmp, exist_ok=True)
    return {"VT_TMP": tmp,
            "LF_V2FILE": os.path.join(_tests_dir(), "compat-V2.vnacal")}


def _case_index(cid):
    return int(cid.split(":")[2])


def parser_of(kind):
    if kind in ("s1p", "s2p", "s3p", "s4p", "ts"):
        return "touchstone"
    if kind in ("yamlfile", "yamlstring"):
        return "yaml-" + kind[4:]
    return kind or "?"


def _load_event(lines):
    for ln in lines:
        if ln.startswith('{"e":"Load"'):
            try:
                return json.loads(ln)
            except ValueError:
                return {}
    return {}


LSAN_PERIOD = 16


def _attribute_leak(ctx, rerun, case, window, label):
    """the LeakSanitizer probe runs only every `window` inputs in the fast
    pass; re-run the window with a probe after every input to find the input
    that leaks (a leak that does not show again is not reported)"""
    parts = case.split(":")
    hi = int(parts[2]) + 1
    lo = max(0, hi - window)
    tp = os.path.join(ctx.work, "leakwin-%s-%d.ndjson" % (parts[0], hi))
    open(tp, "w").close()
    env = dict(_env(ctx), CF_LSAN_PERIOD="1")
    crashes = common.run_cases(rerun["exe"], rerun["mkargs"], lo, hi, tp,
                               _case_index, max_crashes=window + 2, env=env,
                               timeout=cfiles_util.WALL_LIMIT)
    crashes = cfiles_util.split_timeouts(ctx, crashes, label)
    common.strip_crashed_episodes(tp)
    res = vlib.validate_sharded(TRACE[0], TRACE[1], tp, ctx.work, shards=1)
    ctx.machinery_errors += res["errors"]
    out = issues_from_crashes(ctx, crashes, label)
    out += issues_from_validation(ctx, res, label + " (leak window re-run)")
    return out


def issues_from_validation(ctx, res, label, rerun=None):
    issues = []
    for f in res["failures"]:
        idx, evname, field = common.parse_mismatch(f["mismatch"])
        ld = _load_event(f["lines"])
        m = common.CASE_RE.search(f["lines"][0])
        case = m.group(1) if m else "?"
        par = parser_of(ld.get("kind"))
        if field == "leak" and rerun is not None:
            try:
                endev = json.loads(f["event"])
            except ValueError:
                endev = {}
            if endev.get("window", 1) > 1:
                # at most three windows are re-run per pass: further ones
                # almost always repeat the same defect
                rerun["done"] = rerun.get("done", 0) + 1
                if rerun["done"] <= 3:
                    issues += _attribute_leak(ctx, rerun, case, endev["window"],
                                              label)
                continue
        if evname == "End" or (f["event"] or "").startswith('{"e":"End"'):
            sig = "LoadContract:%s:End:%s:ok%s" % (par, field, ld.get("ok"))
            props = {"C03", "C09"}
            what = ("%s: %s loader, input %s/%s: after the call and after "
                    "freeing everything %s (case %s)" % (
                        label, par, ld.get("kind"), ld.get("mut"),
                        "LeakSanitizer finds unreachable blocks" if field == "leak"
                        else "in-library allocations are still live", case))
        else:
            if ld.get("ok") == 1:
                cls = "ok1"
                if ld.get("kind") in ("s1p", "s2p", "s3p", "s4p", "ts", "npd"):
                    o = ld.get("o", {})
                    cls = "ok1:%s:%s" % (o.get("type"),
                                         "rs%s%s%s" % (o.get("resave"), o.get("reload"),
                                                       o.get("same")))
                elif ld.get("kind") == "vnacal":
                    o = ld.get("o", {})
                    cls = "ok1:rs%s%s%s" % (o.get("resave"), o.get("reload"),
                                            o.get("same"))
                else:
                    o = ld.get("o", {})
                    cls = "ok1:c%s:rs%s%s%s" % (o.get("clean"), o.get("resave"),
                                                o.get("reload"), o.get("same"))
            else:
                cls = "ok0:%s:cb%s:%s:one%s:usable%s" % (
                    ld.get("err"), ld.get("cbn"), ld.get("cbcat"), ld.get("cb1"),
                    ld.get("usable"))
            if field == "hang":
                cls = "hang"
            sig = "LoadContract:%s:%s:%s" % (par, field, cls)
            props = {"C09"}
            if ld.get("ok") == 0:
                props.add("C11")
            what = ("%s: %s loader, %s of seed %s (%s bytes): outcome violates "
                    "the contract at '%s' (case %s); event %s; expected %s" %
                    (label, par, ld.get("mut"), ld.get("seed"), ld.get("len"),
                     field, case, (f["event"] or "").strip()[:500],
                     f.get("expected")))
        rp = ctx.save_replay("loadfuzz-%s.ndjson" % common.sig_hash(sig),
                             "".join(f["lines"]))
        issues.append(vlib.Issue(props, sig, what, replay=rp,
                                 detail=f["mismatch"]))
    return issues


def issues_from_crashes(ctx, crashes, label):
    issues = []
    for c in crashes:
        if c["rc"] in QUIET_RC:
            continue        # reported through the trace
        if c["rc"] == 3 and "live-block set full" in c["stderr"]:
            continue        # the input made the loader allocate > 5e5 blocks:
                            # beyond the harness's accounting, not judged
        s = vlib.sanitizer_signature(c["stderr"])
        if s is None:
            s = ("exit%d" % c["rc"], "?")
        sig = "LoadContract:crash:%s:%s" % s
        rp = ctx.save_replay("loadfuzz-crash-%s.txt" % common.sig_hash(sig),
                             "case %s\nrc %s\n%s" % (c["case"], c["rc"],
                                                     c["stderr"]))
        issues.append(vlib.Issue({"C03", "C09"}, sig,
                                 "%s: driver process died on input %s: %s in %s"
                                 % (label, c["case"], s[0], s[1]), replay=rp))
    return issues


def _nontrivial(lines):
    """non-trivial: the input differs from its seed (a mutation was applied)
    and is not empty"""
    for ln in lines:
        if ln.startswith('{"e":"Load"'):
            return '"mut":"none"' not in ln and '"len":0,' not in ln
    return False


def _seed_issues(tr):
    """an unmutated seed that the loader refuses is a save/load defect (C06 /
    C08 territory), not a totality defect: reported against those"""
    issues, seen = [], set()
    with open(tr) as fp:
        for ln in fp:
            if ln.startswith('{"e":"Load"') and '"mut":"none"' in ln and '"ok":0' in ln:
                ev = json.loads(ln)
                sig = "LoadContract:seed-refused:%s:%s" % (ev["kind"], ev["seed"])
                if sig not in seen:
                    seen.add(sig)
                    issues.append(vlib.Issue(
                        {"C06", "C08"}, sig,
                        "valid seed %s #%s is refused by its loader (%s)" %
                        (ev["kind"], ev["seed"], ev["err"])))
    return issues


def _tally(tr, stats):
    by = stats.setdefault("by_parser", {})
    muts = stats.setdefault("by_mutation", {})
    with open(tr) as fp:
        for ln in fp:
            if not ln.startswith('{"e":"Load"'):
                continue
            ev = json.loads(ln)
            p = by.setdefault(parser_of(ev["kind"]),
                              {"inputs": 0, "loaded": 0, "refused": 0,
                               "structure_kept": 0, "structure_broken": 0,
                               "structure_unjudged": 0})
            p["inputs"] += 1
            p["loaded" if ev["ok"] == 1 else "refused"] += 1
            p["structure_kept" if ev["struct"] == 1 else
              "structure_broken" if ev["struct"] == 0 else
              "structure_unjudged"] += 1
            muts[ev["mut"]] = muts.get(ev["mut"], 0) + 1


def _thin_out(tr, stats, keep=3):
    """Cost control on a badly failing tree: episodes that end with a leak /
    live-block verdict are certain rejections (the spec requires leak = 0 and
    live = 0).  Only the first `keep` of them per parser go to TLC; the rest
    are dropped from the trace and counted -- never counted as passing."""
    seen = {}
    dropped = 0
    out = tr + ".thin"
    with open(out, "w") as dst:
        for start, lines in vlib.split_episodes(tr):
            last = lines[-1] if lines else ""
            bad = last.startswith('{"e":"End"') and (
                '"leak":1' in last or '"live":0,' not in last)
            if bad:
                k = parser_of(_load_event(lines).get("kind"))
                seen[k] = seen.get(k, 0) + 1
                if seen[k] > keep:
                    dropped += 1
                    continue
            dst.writelines(lines)
    os.replace(out, tr)
    stats["dropped_duplicate_leak_episodes"] = (
        stats.get("dropped_duplicate_leak_episodes", 0) + dropped)


def _run_mode(ctx, exe, label, name, mkargs, total, stats, issues, nshards=None,
              per_shard=2000):
    paths, crashes = cfiles_util.run_rounds(
        exe, mkargs, total, ctx.work, name, _case_index, per_shard,
        env=dict(_env(ctx), CF_LSAN_PERIOD=str(LSAN_PERIOD)), nshards=nshards)
    # only the driver's CPU-time watchdog (a Load event with hang = 1) can
    # say "hang"; a process over its wall-clock limit is a machinery error
    crashes = cfiles_util.split_timeouts(ctx, crashes, label)
    issues += issues_from_crashes(ctx, crashes, label)
    stats["crashes"] += len([c for c in crashes if c["rc"] not in QUIET_RC
                             and not (c["rc"] == 3 and "live-block set full" in c["stderr"])])
    stats["unjudged_huge"] = stats.get("unjudged_huge", 0) + len(
        [c for c in crashes if c["rc"] == 3 and "live-block set full" in c["stderr"]])
    stats["restarts"] += len([c for c in crashes if c["rc"] in QUIET_RC])
    stats["gave_up"] += len([c for c in crashes if c.get("gave_up")])
    for p in paths:
        common.strip_crashed_episodes(p)
    tr = common.concat(paths, os.path.join(ctx.work, name + "-all.ndjson"))
    _thin_out(tr, stats)
    res = vlib.validate_sharded(TRACE[0], TRACE[1], tr, ctx.work,
                                shards=vlib.NCPU)
    ctx.machinery_errors += res["errors"]
    issues += issues_from_validation(ctx, res, label,
                                     rerun={"exe": exe, "mkargs": mkargs})
    issues += _seed_issues(tr)
    stats["events"] += res["events"]
    stats["episodes"] += res["episodes"]
    stats["tlc_generated"] += res["generated"]
    stats["distinct_nontrivial"] += common.count_distinct_nontrivial(tr, _nontrivial)
    _tally(tr, stats)
    return tr


def run(ctx, exe, tier, seed, fuzz_cases=None):
    if fuzz_cases is None:
        fuzz_cases = 9000 if tier == "quick" else 400000
    issues = []
    stats = {"events": 0, "episodes": 0, "crashes": 0, "restarts": 0,
             "gave_up": 0, "tlc_generated": 0, "distinct_nontrivial": 0}
    mode = "trunc" if tier == "quick" else "truncall"
    rc, out, err = vlib.sh([exe, "count", mode], env=dict(vlib.SAN_ENV, **_env(ctx)))
    try:
        ntrunc = int(out.strip().splitlines()[-1])
    except (ValueError, IndexError):
        raise vlib.MachineryError("drv_loadfuzz count failed:\n" + out + err)
    stats["truncation_inputs"] = ntrunc
    _run_mode(ctx, exe, "truncation at every byte", mode,
              lambda a, b: [mode, str(a), str(b)], ntrunc, stats, issues,
              nshards=vlib.NCPU)
    tr = _run_mode(ctx, exe, "structure-aware mutations", "fuzz",
                   lambda a, b: ["fuzz", str(seed), str(a), str(b)], fuzz_cases,
                   stats, issues, nshards=vlib.NCPU)
    stats["fuzz_inputs"] = fuzz_cases
    with open(tr) as fp:
        k = 0
        for line in fp:
            if line.startswith('{"e":"Load"') and '"mut":"none"' not in line:
                ctx.sample(json.loads(line))
                k += 1
                if k >= 3:
                    break
    return issues, stats


def replay(ctx, exe, path):
    with open(path) as fp:
        first = fp.readline()
    m = common.CASE_RE.search(first)
    if m:
        cid = m.group(1)
    elif first.startswith("case "):
        cid = first.split()[1]
    else:
        raise vlib.MachineryError("no case id in " + path)
    parts = cid.split(":")
    if parts[0] == "fuzz":
        args = ["fuzz", parts[1], parts[2], str(int(parts[2]) + 1)]
    else:
        args = [parts[0], parts[2], str(int(parts[2]) + 1)]
    tp = os.path.join(ctx.work, "replay.ndjson")
    open(tp, "w").close()
    crashes = common.run_cases(exe, lambda a, b: args, 0, 1, tp, lambda c: 0,
                               max_crashes=1, env=_env(ctx),
                               timeout=cfiles_util.WALL_LIMIT)
    crashes = cfiles_util.split_timeouts(ctx, crashes, "replay")
    issues = issues_from_crashes(ctx, crashes, "replay")
    if not [c for c in crashes if c["rc"] not in QUIET_RC]:
        res = vlib.validate_sharded(TRACE[0], TRACE[1], tp, ctx.work, shards=1)
        ctx.machinery_errors += res["errors"]
        issues += issues_from_validation(ctx, res, "replay")
    return issues
