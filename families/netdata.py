"""NetData family: vnadata_* against NetData.tla / NetParams.tla.

  mc(ctx, tier)            exhaustive TLC run of the design spec (NetDataMC)
  build(ctx)               drv_netdata (ASan+UBSan, allocator wrapped)
  run(ctx, exe, tier, seed, modes=...)   drive the real library and validate
                           every recorded call against NetDataTrace
        modes: "exh"  bounded-exhaustive histories (C15)
               "rand" long random histories (C15)
               "conv" table-driven conversions with tails (C05)
  replay(ctx, exe, path)   re-execute one recorded case and validate it alone
"""
import json
import os
import re

import vlib
from families import common
from families import netparams

SOURCES = ["drv_netdata.c", "relcheck.c", "vt.c", "vt_alloc.c"]
TRACE = ("NetDataTrace.tla", "NetDataTrace.cfg")


def mc(ctx, tier):
    cfg = "NetDataMC_quick.cfg" if tier == "quick" else "NetDataMC_thorough.cfg"
    r = vlib.tlc_model_check("NetDataMC.tla", cfg, ctx.work, workers=8,
                             timeout=1500)
    ctx.add_mc("NetDataMC/" + cfg, r)
    return r


def build(ctx):
    lib = vlib.build_lib("san")
    return vlib.build_driver("drv_netdata", SOURCES, lib, ctx.work,
                             wrap_alloc=True)


def _case_index(cid):
    parts = cid.split(":")
    if parts[0] == "conv":
        return int(parts[2])
    return int(parts[2])


def _arg_class(ev):
    """normalised argument class of an event for signatures: which of the
    index arguments are below / inside / at / above the bound"""
    obs = ev.get("obs") or {}
    rows, cols, nf = obs.get("rows", 0), obs.get("cols", 0), obs.get("nf", 0)
    ports = max(rows, cols)

    def cls(i, n):
        if i < 0:
            return "neg"
        if i < n:
            return "in"
        if i == n:
            return "n"
        return "gt"
    out = []
    for k, n in (("f", nf), ("r", rows), ("c", cols), ("p", ports)):
        if k in ev and isinstance(ev[k], int):
            out.append("%s=%s" % (k, cls(ev[k], n)))
    if "t" in ev:
        # for shape changes only the validity class of the type matters
        if ev.get("e") in ("Resize", "Init", "AllocInit"):
            if ev["t"] == "BAD":
                out.append("t=BAD")
        else:
            out.append("t=%s" % ev["t"])
    if "to" in ev:
        out.append("to=%s" % ev["to"])
    if ev.get("e") == "Convert":
        out.append("inplace" if ev.get("o") == ev.get("d") else "outofplace")
    # impedance mode where it can matter; dimensions are left out so that
    # one defect keeps one signature
    e = ev.get("e", "")
    if obs and ("Z0" in e or e in ("Resize", "Init", "Convert", "HasFz0",
                                  "AddFreq")):
        out.append("fz" if obs.get("fz") else "z0")
    return ",".join(out)


def _prev_type(lines, idx, ev):
    """type of the source object before a Convert (from the previous event
    that projected it)"""
    o = ev.get("o")
    for ln in reversed(lines[:idx]):
        try:
            p = json.loads(ln)
        except ValueError:
            continue
        if p.get("e") == "Reset":
            return "UNDEF"
        if p.get("e") == "Convert" and p.get("d") == o and p.get("o") != o \
                and "obs2" in p:
            return p["obs2"].get("type")
        if p.get("o") == o and "obs" in p:
            return p["obs"].get("type")
    return "UNDEF"


_EXPECTED_RE = re.compile(r'<<\s*"EXPECTED",\s*(.*?)\s*>>\s*\n(?:Error|\d+ states)', re.S)


def _expected(f):
    """the expectation the trace spec printed for the rejected event"""
    if f.get("expected"):
        return f["expected"]
    m = _EXPECTED_RE.search(f.get("out") or "")
    if m:
        return re.sub(r"\s+", " ", m.group(1))[:700]
    return None


def issues_from_validation(ctx, res, label, family_prop):
    issues = []
    for f in res["failures"]:
        idx, evname, field = common.parse_mismatch(f["mismatch"])
        try:
            ev = json.loads(f["event"]) if f["event"] else {}
        except ValueError:
            ev = {}
        case = common.CASE_RE.search(f["lines"][0])
        case = case.group(1) if case else "?"
        props = {family_prop}
        if evname == "End" and field == "live":
            sig = "NetData:End:live"
            props = {"C03"}
            what = ("allocation made inside libvna still live after "
                    "vnadata_free (case %s)" % case)
        else:
            extra = ""
            if ev.get("e") == "Convert":
                extra = ":from=%s" % _prev_type(f["lines"], f["index"], ev)
                props |= {"C05", "C15"}
            elif family_prop == "C05" and ev.get("e") != "Resize":
                # a plain accessor misbehaving inside a conversion episode
                # is array-model business, not conversion business
                props = {"C15"}
            elif family_prop == "C05":
                props = {"C05", "C15"}
            sig = "NetData:%s:%s:%s%s" % (ev.get("e", evname), field,
                                          _arg_class(ev), extra)
            if field in ("refusal", "ok", "cb") or ev.get("ok") == 0:
                props.add("C11")
            if field in ("matchesDirectCall", "directCallImpedances", "relationHolds", "chainAgrees",
                         "inPlaceEqualsOutOfPlace", "shape"):
                props = {"C05"}
            what = ("%s: recorded call not explained by NetData at '%s' "
                    "(case %s, event %d: %s); spec expected %s" %
                    (label, field, case, f["index"],
                     f["event"].strip()[:400], _expected(f)))
        rp = ctx.save_replay("netdata-%s.ndjson" % common.sig_hash(sig),
                             "".join(f["lines"]))
        issues.append(vlib.Issue(props, sig, what, replay=rp,
                                 detail=f["mismatch"]))
    return issues


_HARNESS_FRAME = re.compile(r"#\d+ 0x[0-9a-f]+ in (\S+) /verif/harness/")


def issues_from_crashes(ctx, crashes, label, family_prop):
    issues = []
    for c in crashes:
        s = vlib.sanitizer_signature(c["stderr"])
        if s is None:
            s = ("exit%s" % c["rc"], "?")
        if s[1] == "?":
            # inline functions of vnadata.h are compiled into the driver:
            # name the header function from the first frame
            m = re.search(r"#0 0x[0-9a-f]+ in (\S+) \S*vnadata\.h", c["stderr"])
            if m:
                s = (s[0], m.group(1))
        sig = "NetData:crash:%s:%s" % s
        rp = ctx.save_replay("netdata-crash-%s.txt" % common.sig_hash(sig),
                             "case %s\nrc %s\n%s" % (c["case"], c["rc"],
                                                     c["stderr"]))
        fam = {family_prop}
        if family_prop == "C05" and "vnadata_convert" not in c["stderr"]:
            # a report whose frames name another accessor is array-model
            # business; a death without frames (abort, bare signal) may
            # well be the conversion itself
            fam = {"C15"} if s[1] != "?" else {"C05", "C15"}
        issues.append(vlib.Issue({"C03"} | fam, sig,
                                 "%s: driver process died in case %s: %s in %s"
                                 % (label, c["case"], s[0], s[1]),
                                 replay=rp))
    return issues


def _nontrivial(lines):
    """an episode is non-trivial if some state-changing call succeeded"""
    for ln in lines:
        if '"ok":1' in ln and ln.startswith(('{"e":"Set', '{"e":"Resize',
                                             '{"e":"Init', '{"e":"Convert',
                                             '{"e":"AddFreq')):
            return True
    return False


def _conv_nontrivial(lines):
    for ln in lines:
        if ln.startswith('{"e":"Convert"'):
            return True
    return False


def _run_mode(ctx, exe, tsv, name, argv_of, total, family_prop, stats,
              nontrivial, nshards=None, sample=False):
    issues = []
    paths, crashes = common.run_sharded(exe, argv_of, total, ctx.work, name,
                                        _case_index, nshards=nshards)
    issues += issues_from_crashes(ctx, crashes, name, family_prop)
    stats["crashes"] += len(crashes)
    for p in paths:
        common.strip_crashed_episodes(p)
    tr = common.concat(paths, os.path.join(ctx.work, name + "-all.ndjson"))
    if sample:
        with open(tr) as fp:
            for i, line in enumerate(fp):
                if i in (1, 3):
                    ev = json.loads(line)
                    ctx.sample(ev)
                if i > 3:
                    break
    res = vlib.validate_sharded(TRACE[0], TRACE[1], tr, ctx.work,
                                shards=vlib.NCPU)
    ctx.machinery_errors += res["errors"]
    issues += issues_from_validation(ctx, res, name, family_prop)
    stats["events"] += res["events"]
    stats["episodes"] += res["episodes"]
    stats["tlc_generated"] += res["generated"]
    stats["distinct_nontrivial"] += common.count_distinct_nontrivial(tr, nontrivial)
    stats[name + "_cases"] = total
    with open(tr) as fp:
        stats["convert_events"] = stats.get("convert_events", 0) + sum(
            1 for ln in fp if ln.startswith('{"e":"Convert"'))
    return issues


def run(ctx, exe, tier, seed, modes=("exh", "rand"), family_prop="C15",
        exh_depth=None, rand_cases=None, rand_len=None):
    js, tsv = netparams.export_table(ctx)
    issues = []
    stats = {"events": 0, "episodes": 0, "crashes": 0, "tlc_generated": 0,
             "distinct_nontrivial": 0}

    def count(*args):
        rc, out, err = vlib.sh([exe, tsv, "count"] + list(args))
        if rc != 0:
            raise vlib.MachineryError("drv_netdata count failed: " + err)
        return int(out.strip())

    rc, out, err = vlib.sh([exe, tsv, "count", "alpha"])
    stats["alphabet_full"], stats["alphabet_core"], stats["prefixes"] = \
        [int(x) for x in out.split()]
    if "exh" in modes:
        d = exh_depth or 2
        total = count("exh", str(d))
        issues += _run_mode(
            ctx, exe, tsv, "exh",
            lambda a, b: [tsv, "exh", str(d), str(a), str(b)], total,
            family_prop, stats, _nontrivial, sample=True)
        stats["exh_depth"] = d
        if tier != "quick":
            d3 = 3
            total = count("exhc", str(d3))
            issues += _run_mode(
                ctx, exe, tsv, "exhc",
                lambda a, b: [tsv, "exhc", str(d3), str(a), str(b)], total,
                family_prop, stats, _nontrivial)
            stats["exhc_depth"] = d3
    if "rand" in modes:
        n = rand_cases or (240 if tier == "quick" else 6000)
        ln = rand_len or (150 if tier == "quick" else 300)
        issues += _run_mode(
            ctx, exe, tsv, "rand",
            lambda a, b: [tsv, "rand", str(seed), str(a), str(b), str(ln)], n,
            family_prop, stats, _nontrivial, nshards=vlib.NCPU)
        stats["rand_len"] = ln
    if "conv" in modes:
        total = count("conv")
        rounds = 1 if tier == "quick" else 6
        for k in range(rounds):
            issues += _run_mode(
                ctx, exe, tsv, "conv%d" % k,
                lambda a, b, k=k: [tsv, "conv", str(seed + k), str(a), str(b)],
                total, family_prop, stats, _conv_nontrivial, sample=(k == 0))
        stats["conv_rounds"] = rounds
    return issues, stats


def replay(ctx, exe, path, family_prop="C15"):
    js, tsv = netparams.export_table(ctx)
    with open(path) as fp:
        first = fp.readline()
    m = common.CASE_RE.search(first)
    if m:
        cid = m.group(1)
    elif first.startswith("case "):
        cid = first.split()[1]
    else:
        raise vlib.MachineryError("no case id in " + path)
    parts = cid.split(":")
    nxt = str(int(parts[2]) + 1)
    if parts[0] in ("exh", "exhc"):
        args = [tsv, parts[0], parts[1], parts[2], nxt]
    elif parts[0] == "rand":
        args = [tsv, "rand", parts[1], parts[2], nxt, parts[3]]
    elif parts[0] == "conv":
        args = [tsv, "conv", parts[1], parts[2], nxt]
    else:
        raise vlib.MachineryError("unknown case id " + cid)
    tp = os.path.join(ctx.work, "replay.ndjson")
    open(tp, "w").close()
    crashes = common.run_cases(exe, lambda a, b: args, 0, 1, tp,
                               lambda c: 0, max_crashes=1)
    issues = issues_from_crashes(ctx, crashes, "replay", family_prop)
    if not crashes:
        res = vlib.validate_sharded(TRACE[0], TRACE[1], tp, ctx.work, shards=1)
        ctx.machinery_errors += res["errors"]
        issues += issues_from_validation(ctx, res, "replay", family_prop)
    return issues
