"""Interp family: frequency interpolation and range checking against
Interp.tla (property C10).

  mc(ctx, tier)      exhaustive TLC run of the search / window / value design
                     (InterpMC) plus the range-contract theorems
  build(ctx)         ASan+UBSan driver harness/drv_interp.c
  run(ctx, exe, ..)  drive the real library through the public API in five
                     modes (vec, rng, cal, noise, sigma), validate every
                     recorded event against InterpTrace, return issues
  replay(ctx, exe, path)  re-execute one recorded case and validate it alone
"""
import json
import os
import re

import vlib
from families import common

SOURCES = ["drv_interp.c", "vt.c", "vt_alloc.c"]
MODES = ("vec", "rng", "cal", "noise", "sigma")
COUNTS = {
    "quick": {"vec": 320, "rng": 320, "cal": 132, "noise": 96, "sigma": 80},
    "thorough": {"vec": 12000, "rng": 12000, "cal": 3960, "noise": 1920,
                 "sigma": 1600},
}


def mc(ctx, tier):
    cfg = "InterpMC_quick.cfg" if tier == "quick" else "InterpMC_thorough.cfg"
    r = vlib.tlc_model_check("InterpMC.tla", cfg, ctx.work, workers=8,
                             timeout=1500)
    ctx.add_mc("InterpMC/" + cfg, r)
    return r


def build(ctx):
    lib = vlib.build_lib("san")
    return vlib.build_driver("drv_interp", SOURCES, lib, ctx.work,
                             wrap_alloc=True,
                             extra=["-Wno-unused-but-set-variable"])


def _case_index(cid):
    return int(cid.split(":")[2])


def _nclass(n):
    return "n%d" % n if n <= 3 else ("n4-5" if n <= 5 else "n6+")


_KINDS = {}       # handle -> parameter kind of the episode last scanned


def _episode_objects(lines):
    """vector parameters and calibrations created in the episode"""
    par, cal = {}, {}
    kinds = _KINDS
    kinds.clear()
    for ln in lines:
        try:
            ev = json.loads(ln)
        except ValueError:
            continue
        if ev.get("e") == "MakeVec" and ev.get("ok") == 1:
            par[ev["h"]] = ev["k"]
        elif ev.get("e") == "MakePar" and ev.get("ok") == 1:
            kinds[ev["h"]] = ev["kind"] + (
                "/" + kinds.get(ev["base"], "vec")
                if ev["kind"] != "scalar" else "")
        elif ev.get("e") == "CalMake":
            cal[ev["c"]] = ev
    return par, cal


def _xclass(k, x):
    if not k:
        return "?"
    if x in k:
        return "knot"
    if x < k[0]:
        return "below"
    if x > k[-1]:
        return "above"
    return "between"


def _argclass(ev, lines):
    e = ev.get("e")
    par, cal = _episode_objects(lines)
    if e == "GetVal":
        k = par.get(ev.get("h"), [])
        return "%s:%s" % (_nclass(len(k)), _xclass(k, ev.get("x")))
    if e == "MakeVec":
        return _nclass(len(ev.get("k", [])))
    if e == "Apply":
        c = cal.get(ev.get("c"), {})
        k = c.get("k", [])
        q = ev.get("q", [])
        cls = sorted({_xclass(k, x) for x in q})
        return "%s%dp:%s:%s:vstd%s:%s" % (c.get("type"), c.get("p", 0),
                                           c.get("cls"), _nclass(len(k)),
                                           c.get("vstd", 0), "+".join(cls))
    if e == "CalMake":
        return "%s%dp:%s:%s:vstd%s" % (ev.get("type"), ev.get("p", 0),
                                       ev.get("cls"),
                                       _nclass(len(ev.get("k", []))),
                                       ev.get("vstd", 0))
    if e == "AddVec":
        return "%s:%s" % (ev.get("form", "?"), _KINDS.get(ev.get("h"), "vec"))
    if e == "SetMErr":
        return "n%s:null%s" % (min(ev.get("n", 0), 3), ev.get("null"))
    if e in ("NoiseProbe", "SigmaProbe"):
        return "%s:%s:%s" % (ev.get("which", "-"), ev.get("cls"),
                             _nclass(ev.get("n", 0)))
    return "-"


ERR_FIELDS = ("ok", "err", "cb", "one")


def issues_from_validation(ctx, res, label):
    issues = []
    for f in res["failures"]:
        idx, evname, field = common.parse_mismatch(f["mismatch"])
        try:
            ev = json.loads(f["event"]) if f["event"] else {}
        except ValueError:
            ev = {}
        m = common.CASE_RE.search(f["lines"][0])
        case = m.group(1) if m else "?"
        sig = "Interp:%s:%s:%s:ok%s:%s" % (ev.get("e", evname), field,
                                            _argclass(ev, f["lines"]),
                                            ev.get("ok", "-"),
                                            ev.get("err", "-"))
        if ev.get("e") == "CalMake":
            # setting up a calibration from exact, sufficient data failed:
            # not an interpolation matter (C01 territory), but the scenario
            # could not be evaluated
            props = {"C01"}
        else:
            props = {"C10"}
            if field in ERR_FIELDS and (ev.get("ok") == 0 or field == "ok"):
                props.add("C11")
        what = ("%s: recorded call not explained by Interp at field '%s' "
                "(case %s, event %s); spec expected %s" %
                (label, field, case, f["event"].strip()[:400],
                 f.get("expected")))
        rp = ctx.save_replay("interp-%s.ndjson" % common.sig_hash(sig),
                             "".join(f["lines"]))
        issues.append(vlib.Issue(props, sig, what, replay=rp,
                                 detail=f["mismatch"]))
    return issues


def issues_from_crashes(ctx, crashes, label):
    issues = []
    for c in crashes:
        s = vlib.sanitizer_signature(c["stderr"])
        if s is None:
            s = ("exit%d" % c["rc"], "?")
        mode = (c["case"] or "?").split(":")[0]
        sig = "Interp:crash:%s:%s:%s" % (mode, s[0], s[1])
        rp = ctx.save_replay("interp-crash-%s.txt" % common.sig_hash(sig),
                             "case %s\nrc %s\n%s" % (c["case"], c["rc"],
                                                     c["stderr"]))
        issues.append(vlib.Issue({"C03", "C10"}, sig,
                                 "%s: driver process died in case %s: %s in %s"
                                 % (label, c["case"], s[0], s[1]),
                                 replay=rp))
    return issues


def _nontrivial(lines):
    """an episode counts if an interpolated value was actually obtained or a
    probe was qualified"""
    for ln in lines:
        if (ln.startswith('{"e":"GetVal"') or ln.startswith('{"e":"Apply"')
                or ln.startswith('{"e":"AddVec"')
                or ln.startswith('{"e":"SetMErr"')) and '"ok":1' in ln:
            return True
        if 'Probe"' in ln and '"qual":1' in ln:
            return True
    return False


def _probe_stats(path, stats):
    with open(path) as fp:
        for ln in fp:
            if 'Probe"' in ln[:24]:
                ev = json.loads(ln)
                key = "noise" if ev["e"] == "NoiseProbe" else "sigma"
                stats[key + "_probes"] = stats.get(key + "_probes", 0) + 1
                if ev["qual"] == 1:
                    stats[key + "_qualified"] = \
                        stats.get(key + "_qualified", 0) + 1
            elif '"iso":' in ln and '"iso":0' not in ln:
                m = re.search(r'"iso":(\d+)', ln)
                stats["rat_isolated_singularities"] = \
                    stats.get("rat_isolated_singularities", 0) + int(m.group(1))
            elif ln.startswith('{"e":"CalMake"') and '"ok":0' in ln:
                stats["cal_setup_failed"] = stats.get("cal_setup_failed", 0) + 1


def run(ctx, exe, tier, seed, counts=None):
    """Returns (issues, stats)."""
    counts = counts or COUNTS[tier]
    issues = []
    stats = {"events": 0, "episodes": 0, "crashes": 0, "tlc_generated": 0,
             "distinct_nontrivial": 0, "cases": dict(counts)}
    traces = []
    for mode in MODES:
        total = counts.get(mode, 0)
        if total <= 0:
            continue
        paths, crashes = common.run_sharded(
            exe, lambda a, b, mode=mode: [mode, str(seed), str(a), str(b)],
            total, ctx.work, mode, _case_index,
            nshards=min(vlib.NCPU, max(1, total // 8)))
        issues += issues_from_crashes(ctx, crashes, mode)
        stats["crashes"] += len(crashes)
        for p in paths:
            common.strip_crashed_episodes(p)
        tr = common.concat(paths, os.path.join(ctx.work, mode + "-all.ndjson"))
        with open(tr) as fp:
            for i, line in enumerate(fp):
                if i == 2:
                    ctx.sample(json.loads(line))
                    break
        stats["distinct_nontrivial"] += common.count_distinct_nontrivial(
            tr, _nontrivial)
        _probe_stats(tr, stats)
        traces.append(tr)
    if traces:
        alltr = common.concat(traces, os.path.join(ctx.work, "interp-all.ndjson"))
        res = vlib.validate_sharded("InterpTrace.tla", "InterpTrace.cfg",
                                    alltr, ctx.work, shards=vlib.NCPU)
        ctx.machinery_errors += res["errors"]
        issues += issues_from_validation(ctx, res, "interp")
        stats["events"] += res["events"]
        stats["episodes"] += res["episodes"]
        stats["tlc_generated"] += res["generated"]
    return issues, stats


def replay(ctx, exe, path):
    with open(path) as fp:
        first = fp.readline()
    m = common.CASE_RE.search(first)
    if m:
        cid = m.group(1)
    elif first.startswith("case "):
        cid = first.split()[1]
    else:
        raise vlib.MachineryError("no case id in " + path)
    mode, seed, idx = cid.split(":")[:3]
    args = [mode, seed, idx, str(int(idx) + 1)]
    tp = os.path.join(ctx.work, "replay.ndjson")
    open(tp, "w").close()
    crashes = common.run_cases(exe, lambda a, b: args, 0, 1, tp,
                               lambda c: 0, max_crashes=1)
    issues = issues_from_crashes(ctx, crashes, "replay")
    if not crashes:
        res = vlib.validate_sharded("InterpTrace.tla", "InterpTrace.cfg", tp,
                                    ctx.work, shards=1)
        ctx.machinery_errors += res["errors"]
        issues += issues_from_validation(ctx, res, "replay")
    return issues
