"""PropYaml family: YAML export / import of property trees (C14).

  mc(ctx, tier)     exhaustive TLC run of PropYamlMC (round-trip theorem on
                    every bounded document) plus a reachability witness
  build(ctx)        drv_propyaml (ASan+UBSan, allocator wrapping, LSan probe)
  run(ctx, ...)     every pool string x shape (exhaustive over the pool) and
                    random trees of depth <= 6; traces validated against
                    PropYamlTrace
  replay(ctx, exe, path)
"""
import json
import os

import vlib
from families import cfiles_util, common

SOURCES = ["drv_propyaml.c", "vt.c", "vt_alloc.c"]
TRACE = ("PropYamlTrace.tla", "PropYamlTrace.cfg")
EXIT_LEAK = 95


def mc(ctx, tier):
    cfg = "PropYamlMC_quick.cfg" if tier == "quick" else "PropYamlMC_thorough.cfg"
    r = vlib.tlc_model_check("PropYamlMC.tla", cfg, ctx.work, workers=8,
                             timeout=1500)
    ctx.add_mc("PropYamlMC/" + cfg, r)
    # non-vacuity: the import-into-non-empty-destination situation the
    # invariants talk about must be reachable (TLC must violate the witness)
    w = vlib.tlc("PropYamlMC.tla", "PropYamlMC_witness.cfg", ctx.work, workers=4,
                 timeout=600, heap="4g", extra=["-noGenerateSpecTE"])
    if "Invariant WitnessImportNonEmpty is violated" not in w["out"]:
        raise vlib.MachineryError("PropYamlMC: witness state not reachable "
                                  "(vacuous invariants):\n" + w["out"][-1500:])
    return r


def build(ctx):
    lib = vlib.build_lib("san")
    return vlib.build_driver("drv_propyaml", SOURCES, lib, ctx.work,
                             wrap_alloc=True)


def _env(ctx):
    tmp = os.path.join(ctx.work, "tmp")
    os.makedirs(tmp, exist_ok=True)
    return {"VT_TMP": tmp}


def _case_index(cid):
    return int(cid.split(":")[2])


# -- diagnosis of a document mismatch (for signatures; not the verdict) -------

def _as_map(o):
    return {kv["k"]: kv["d"] for kv in o.get("kv", [])}


def diff_doc(exp, obs):
    """class of the first difference between two projections, or None"""
    if exp.get("t") != obs.get("t"):
        return "kind:%s->%s" % (exp.get("t"), obs.get("t"))
    t = exp["t"]
    if t == "s":
        if exp["v"] != obs["v"]:
            return "scalar:%s" % exp["v"]
        return None
    if t == "m":
        a, b = _as_map(exp), _as_map(obs)
        if len(b) != len(obs.get("kv", [])):
            return "duplicate-keys"
        missing = sorted(set(a) - set(b))
        extra = sorted(set(b) - set(a))
        if missing and extra:
            return "key:%s" % missing[0]
        if missing:
            return "missing-key:%s" % missing[0]
        if extra:
            return "extra-keys"
        for k in sorted(a):
            d = diff_doc(a[k], b[k])
            if d:
                return d
        return None
    if t == "l":
        if len(exp["it"]) != len(obs["it"]):
            return "list-len:%s" % ("longer" if len(obs["it"]) > len(exp["it"])
                                    else "shorter")
        for x, y in zip(exp["it"], obs["it"]):
            d = diff_doc(x, y)
            if d:
                return d
    return None


def _episode_docs(lines):
    docs = {}
    for ln in lines:
        try:
            ev = json.loads(ln)
        except ValueError:
            continue
        if ev.get("e") == "Tree":
            docs["src"] = ev["gen"]
        elif ev.get("e") == "CalPut":
            docs["g"] = ev["g"]
            docs["c"] = ev["c"]
    return docs


def issues_from_validation(ctx, res, label):
    issues = []
    for f in res["failures"]:
        idx, evname, field = common.parse_mismatch(f["mismatch"])
        try:
            ev = json.loads(f["event"]) if f["event"] else {}
        except ValueError:
            ev = {}
        m = common.CASE_RE.search(f["lines"][0])
        case = m.group(1) if m else "?"
        docs = _episode_docs(f["lines"])
        evname = ev.get("e", evname)
        cls = "-"
        if evname in ("Export", "Import") and field == "obs" and "src" in docs:
            cls = diff_doc(docs["src"], ev["obs"]) or "-"
        elif evname in ("CalSave", "CalLoad") and field in ("g", "c") and field in docs:
            cls = diff_doc(docs[field], ev[field]) or "-"
        elif field in ("ok", "cbn"):
            cls = "ok%s:%s:cb%s:%s" % (ev.get("ok"), ev.get("err"), ev.get("cbn"),
                                       ev.get("cbcat"))
        if evname == "End":
            sig = "PropYaml:End:%s" % field
            props = {"C03", "C09"}
            what = ("%s: after export/import/save/load and deleting every "
                    "object, %s (case %s)" % (
                        label,
                        "LeakSanitizer finds unreachable blocks" if field == "leak"
                        else "in-library allocations are still live", case))
        elif evname == "Tree":
            sig = "PropYaml:Tree:%s" % field
            props = {"C13"}
            what = ("%s: the tree built through vnaproperty_set differs from "
                    "the generated one (case %s)" % (label, case))
        else:
            sig = "PropYaml:%s:%s:%s:%s:%s" % (evname, field, ev.get("via", "-"),
                                               ev.get("dest", "-"), cls)
            props = {"C14"}
            if evname in ("CalSave", "CalLoad"):
                props.add("C07")
            what = ("%s: %s not explained by PropYaml at field '%s' [%s] "
                    "(case %s); event %s; spec expected %s" %
                    (label, evname, field, cls, case, f["event"].strip()[:400],
                     f.get("expected")))
        rp = ctx.save_replay("propyaml-%s.ndjson" % common.sig_hash(sig),
                             "".join(f["lines"]))
        issues.append(vlib.Issue(props, sig, what, replay=rp,
                                 detail=f["mismatch"]))
    return issues


def issues_from_crashes(ctx, crashes, label):
    issues = []
    for c in crashes:
        if c["rc"] == EXIT_LEAK:
            continue        # reported through the End event of the trace
        s = vlib.sanitizer_signature(c["stderr"])
        if s is None:
            s = ("exit%d" % c["rc"], "?")
        sig = "PropYaml:crash:%s:%s" % s
        rp = ctx.save_replay("propyaml-crash-%s.txt" % common.sig_hash(sig),
                             "case %s\nrc %s\n%s" % (c["case"], c["rc"],
                                                     c["stderr"]))
        issues.append(vlib.Issue({"C03", "C14"}, sig,
                                 "%s: driver process died in case %s: %s in %s"
                                 % (label, c["case"], s[0], s[1]), replay=rp))
    return issues


def _nontrivial(lines):
    """non-trivial: the tree has at least one container or a non-plain scalar,
    and at least one import was executed"""
    tree = imp = False
    for ln in lines:
        if ln.startswith('{"e":"Tree"') and '"size":1,' not in ln:
            tree = True
        if ln.startswith('{"e":"Import"'):
            imp = True
    return tree and imp


def _run_mode(ctx, exe, label, name, mkargs, total, stats, issues, nshards=None):
    paths, crashes = cfiles_util.run_rounds(exe, mkargs, total, ctx.work, name,
                                            _case_index, 150, env=_env(ctx),
                                            nshards=nshards)
    crashes = cfiles_util.split_timeouts(ctx, crashes, label)
    issues += issues_from_crashes(ctx, crashes, label)
    stats["crashes"] += len([c for c in crashes if c["rc"] != EXIT_LEAK])
    stats["leak_restarts"] += len([c for c in crashes if c["rc"] == EXIT_LEAK])
    stats["gave_up"] = stats.get("gave_up", 0) + len(
        [c for c in crashes if c.get("gave_up")])
    for p in paths:
        common.strip_crashed_episodes(p)
    tr = common.concat(paths, os.path.join(ctx.work, name + "-all.ndjson"))
    res = vlib.validate_sharded(TRACE[0], TRACE[1], tr, ctx.work)
    ctx.machinery_errors += res["errors"]
    issues += issues_from_validation(ctx, res, label)
    stats["events"] += res["events"]
    stats["episodes"] += res["episodes"]
    stats["tlc_generated"] += res["generated"]
    stats["distinct_nontrivial"] += common.count_distinct_nontrivial(tr, _nontrivial)
    return tr


def run(ctx, exe, tier, seed, rand_cases=None):
    if rand_cases is None:
        rand_cases = 1200 if tier == "quick" else 40000
    issues = []
    stats = {"events": 0, "episodes": 0, "crashes": 0, "leak_restarts": 0,
             "tlc_generated": 0, "distinct_nontrivial": 0}
    rc, out, err = vlib.sh([exe, "count"], env=_env(ctx))
    total = int(out.strip())
    stats["single_cases"] = total
    _run_mode(ctx, exe, "pool string x shape", "single",
              lambda a, b: ["single", str(a), str(b)], total, stats, issues)
    tr = _run_mode(ctx, exe, "random trees", "rand",
                   lambda a, b: ["rand", str(seed), str(a), str(b)], rand_cases,
                   stats, issues)
    stats["rand_cases"] = rand_cases
    with open(tr) as fp:
        for i, line in enumerate(fp):
            if i in (1, 3):
                ctx.sample(json.loads(line))
            if i > 3:
                break
    # depth histogram of the random trees (measured)
    hist = {}
    with open(tr) as fp:
        for line in fp:
            if line.startswith('{"e":"Tree"'):
                d = json.loads(line)["depth"]
                hist[d] = hist.get(d, 0) + 1
    stats["depth_histogram"] = {str(k): hist[k] for k in sorted(hist)}
    return issues, stats


def replay(ctx, exe, path):
    with open(path) as fp:
        first = fp.readline()
    m = common.CASE_RE.search(first)
    if m:
        cid = m.group(1)
    elif first.startswith("case "):
        cid = first.split()[1]
    else:
        raise vlib.MachineryError("no case id in " + path)
    parts = cid.split(":")
    if parts[0] == "single":
        args = ["single", parts[2], str(int(parts[2]) + 1)]
    else:
        args = ["rand", parts[1], parts[2], str(int(parts[2]) + 1)]
    tp = os.path.join(ctx.work, "replay.ndjson")
    open(tp, "w").close()
    crashes = common.run_cases(exe, lambda a, b: args, 0, 1, tp, lambda c: 0,
                               max_crashes=1, env=_env(ctx),
                               timeout=cfiles_util.WALL_LIMIT)
    crashes = cfiles_util.split_timeouts(ctx, crashes, "replay")
    issues = issues_from_crashes(ctx, crashes, "replay")
    if not [c for c in crashes if c["rc"] != EXIT_LEAK]:
        res = vlib.validate_sharded(TRACE[0], TRACE[1], tp, ctx.work, shards=1)
        ctx.machinery_errors += res["errors"]
        issues += issues_from_validation(ctx, res, "replay")
    return issues
