"""CalFile family: vnacal_save / vnacal_load round trips (C07).

  mc(ctx, tier)     exhaustive TLC run of CalFileMC + reachability witness
  build(ctx)        drv_calfile
  run(ctx, ...)     random add/replace/delete/precision/property histories
                    ending in save + load + comparison; legacy versions
  replay(ctx, exe, path)
"""
import json
import os
import re

import vlib
from families import cfiles_util, common

SOURCES = ["drv_calfile.c", "vt.c", "vt_alloc.c"]
TRACE = ("CalFileTrace.tla", "CalFileTrace.cfg")
EXIT_LEAK = 95


def mc(ctx, tier):
    cfg = "CalFileMC_quick.cfg" if tier == "quick" else "CalFileMC_thorough.cfg"
    r = vlib.tlc_model_check("CalFileMC.tla", cfg, ctx.work, workers=8,
                             timeout=1500)
    ctx.add_mc("CalFileMC/" + cfg, r)
    w = vlib.tlc("CalFileMC.tla", "CalFileMC_witness.cfg", ctx.work, workers=4,
                 timeout=600, heap="4g", extra=["-noGenerateSpecTE"])
    if "Invariant WitnessHoleAndReplace is violated" not in w["out"]:
        raise vlib.MachineryError("CalFileMC: witness state not reachable "
                                  "(vacuous invariants):\n" + w["out"][-1500:])
    return r


def _tests_dir():
    """src/tests of the repository under test; scratch copies made by
    bin/mutcheck leave it out, the reference data then come from the
    unmodified repository"""
    d = os.path.join(vlib.REPO, "src", "tests")
    if os.path.exists(os.path.join(d, "compat-V2.vnacal")):
        return d
    return os.path.join(os.environ.get("VERIF_BASE_REPO", "/repo"), "src", "tests")


def build(ctx):
    lib = vlib.build_lib("san")
    return vlib.build_driver("drv_calfile", SOURCES, lib, ctx.work,
                             wrap_alloc=True)


def _env(ctx):
    tmp = os.path.join(ctx.work, "tmp")
    os.makedirs(tmp, exist_ok=True)
    return {"VT_TMP": tmp}


def _case_index(cid):
    return int(cid.split(":")[2])


# -- reference table of the legacy V2 file, taken from the repository's own
# -- compatibility test (read-only use of src/tests)

_NUM = r"[-+]?\d+\.\d+e[-+]\d+"


def make_reftable(ctx):
    src = os.path.join(_tests_dir(), "test-vnacal-compat-V2.c")
    with open(src) as fp:
        text = fp.read()

    def block(name):
        m = re.search(name + r"[^=]*=\s*\{(.*?)\n\};", text, re.S)
        if not m:
            raise vlib.MachineryError("cannot find %s in %s" % (name, src))
        return m.group(1)

    freqs = [float(x) for x in re.findall(_NUM, block("compat_V2_frequency_vector"))]
    nf = len(freqs)

    def cplx(name):
        vals = re.findall(r"(%s)\s*([-+])\s*(\d+\.\d+e[-+]\d+)\*I" % _NUM,
                          block(name))
        out = [(float(a), float(s + b)) for a, s, b in vals]
        if len(out) != 4 * nf:
            raise vlib.MachineryError("%s: expected %d values, found %d" %
                                      (name, 4 * nf, len(out)))
        return out

    meas = cplx("compat_V2_measured")
    exp = cplx("compat_V2_expected")
    path = os.path.join(ctx.work, "compat-V2.ref")
    with open(path, "w") as fp:
        fp.write("%d\n" % nf)
        fp.write(" ".join("%.17g" % f for f in freqs) + "\n")
        for tab in (meas, exp):
            for re_, im_ in tab:
                fp.write("%.17g %.17g\n" % (re_, im_))
    return path


# -- issues -------------------------------------------------------------------

def _shape_of_episode(lines):
    """types/dims/precisions present in the episode (for signatures)"""
    types = []
    fp = dp = "default"
    for ln in lines:
        if ln.startswith('{"e":"Add"'):
            ev = json.loads(ln)
            types.append("%s%dx%d" % (ev["type"], ev["rows"], ev["cols"]))
        elif ln.startswith('{"e":"SetPrec"'):
            ev = json.loads(ln)
            if ev["ok"] == 1:
                if ev["w"] == "f":
                    fp = ev["p"]
                else:
                    dp = ev["p"]
    return types, fp, dp


def _prec_class(p):
    if p in ("default", 0):
        return "default"
    if p == 1000:
        return "MAX"
    if p >= 17:
        return ">=17"
    return "<17"


def issues_from_validation(ctx, res, label):
    issues = []
    for f in res["failures"]:
        idx, evname, field = common.parse_mismatch(f["mismatch"])
        try:
            ev = json.loads(f["event"]) if f["event"] else {}
        except ValueError:
            ev = {}
        m = common.CASE_RE.search(f["lines"][0])
        case = m.group(1) if m else "?"
        evname = ev.get("e", evname)
        if evname == "End":
            sig = "CalFile:End:%s" % field
            props = {"C03"}
            what = ("%s: after freeing every container %s (case %s)" % (
                label, "LeakSanitizer finds unreachable blocks" if field == "leak"
                else "in-library allocations are still live", case))
        elif evname == "Props":
            sig = "CalFile:Props:%s" % field
            props = {"C13"}
            what = "%s: property tree built differs from generated (case %s)" % (
                label, case)
        elif evname in ("Add", "Delete", "Create", "Switch"):
            sig = "CalFile:%s:%s:ok%s:%s" % (evname, field, ev.get("ok"),
                                             ev.get("err"))
            # a container whose add / replace / delete does not follow the
            # slot model cannot satisfy Load(Save(s)) = Compact(s) either
            # (duplicate names, lost or stale calibrations): C07 as well
            props = {"C16", "C07"}
            if ev.get("ok") == 0:
                props.add("C11")
            what = ("%s: %s not explained by CalFile at field '%s' (case %s); "
                    "event %s; expected %s" % (label, evname, field, case,
                                               f["event"].strip()[:300],
                                               f.get("expected")))
        else:
            cls = ""
            if evname == "Load" and field in ("fhex", "dhex"):
                cls = ""
            elif evname == "Load":
                # precision class in force at the save
                cls = ":f%s:d%s" % (_prec_class(ev.get("fp", "default")),
                                    _prec_class(ev.get("dp", "default")))
                if ev.get("via", "current") != "current":
                    cls = ":" + ev["via"]
            elif evname == "LegacyLoad":
                cls = ":%s:%s%s:ok%s:%s" % (ev.get("kind"), ev.get("style"),
                                            ev.get("major"), ev.get("ok"),
                                            ev.get("err"))
            elif evname == "SetPrec":
                cls = ":%s:p%s:ok%s" % (ev.get("w"), "valid" if ev.get("p", 0) >= 1
                                        else "invalid", ev.get("ok"))
            elif evname == "Save":
                cls = ":ok%s:%s" % (ev.get("ok"), ev.get("err"))
            sig = "CalFile:%s:%s%s" % (evname, field, cls)
            props = {"C07"}
            if evname in ("SetPrec",) or ev.get("ok") == 0:
                props.add("C11")
            what = ("%s: %s not explained by CalFile at field '%s' (case %s); "
                    "event %s; expected %s" % (label, evname, field, case,
                                               f["event"].strip()[:500],
                                               f.get("expected")))
        rp = ctx.save_replay("calfile-%s.ndjson" % common.sig_hash(sig),
                             "".join(f["lines"]))
        issues.append(vlib.Issue(props, sig, what, replay=rp,
                                 detail=f["mismatch"]))
    return issues


def _last_events(path_or_text):
    return path_or_text


def issues_from_crashes(ctx, crashes, label, traces=None):
    issues = []
    for c in crashes:
        if c["rc"] == EXIT_LEAK:
            continue
        s = vlib.sanitizer_signature(c["stderr"])
        if s is None:
            s = ("exit%d" % c["rc"], "?")
        sig = "CalFile:crash:%s:%s" % s
        rp = ctx.save_replay("calfile-crash-%s.txt" % common.sig_hash(sig),
                             "case %s\nrc %s\n%s" % (c["case"], c["rc"],
                                                     c["stderr"]))
        issues.append(vlib.Issue({"C03", "C07"}, sig,
                                 "%s: driver process died in case %s: %s in %s"
                                 % (label, c["case"], s[0], s[1]), replay=rp))
    return issues


def _nontrivial(lines):
    """non-trivial: a load of a file with at least one calibration was
    compared (Load event with end >= 1)"""
    for ln in lines:
        if ln.startswith('{"e":"Load"') and '"end":0,' not in ln and '"ok":1' in ln:
            return True
        if ln.startswith('{"e":"LegacyLoad"'):
            return True
    return False


def _coverage(tr, stats):
    types, precs_f, precs_d, ncals = {}, set(), set(), {}
    genfail = 0
    with open(tr) as fp:
        for ln in fp:
            if ln.startswith('{"e":"Add"'):
                ev = json.loads(ln)
                k = "%s %dx%d" % (ev["type"], ev["rows"], ev["cols"])
                types[k] = types.get(k, 0) + 1
            elif ln.startswith('{"e":"Load"'):
                ev = json.loads(ln)
                if ev.get("ok") == 1:
                    precs_f.add(str(ev["fp"]))
                    precs_d.add(str(ev["dp"]))
                    ncals[str(ev["end"])] = ncals.get(str(ev["end"]), 0) + 1
            elif ln.startswith('{"e":"GenFail"'):
                genfail += 1
    stats["type_dims"] = types
    stats["fprecisions_loaded"] = len(precs_f)
    stats["dprecisions_loaded"] = len(precs_d)
    stats["calibrations_per_file"] = ncals
    stats["gen_fail"] = genfail


def _genfail_issues(ctx, tr):
    issues = []
    seen = set()
    with open(tr) as fp:
        for ln in fp:
            if ln.startswith('{"e":"GenFail"'):
                ev = json.loads(ln)
                sig = "CalFile:GenFail:%s:%s" % (ev["type"], ev["why"])
                if sig in seen:
                    continue
                seen.add(sig)
                issues.append(vlib.Issue(
                    {"C01"}, sig,
                    "could not produce a solved %s %dx%d calibration from "
                    "fully specified standards: %s failed (%s)" %
                    (ev["type"], ev["rows"], ev["cols"], ev["why"], ev["err"])))
    return issues


def _run_mode(ctx, exe, label, name, mkargs, total, stats, issues, nshards=None,
              per_shard=60):
    paths, crashes = cfiles_util.run_rounds(exe, mkargs, total, ctx.work, name,
                                            _case_index, per_shard,
                                            env=_env(ctx), nshards=nshards)
    crashes = cfiles_util.split_timeouts(ctx, crashes, label)
    issues += issues_from_crashes(ctx, crashes, label)
    stats["crashes"] += len([c for c in crashes if c["rc"] != EXIT_LEAK])
    stats["leak_restarts"] += len([c for c in crashes if c["rc"] == EXIT_LEAK])
    stats["gave_up"] = stats.get("gave_up", 0) + len(
        [c for c in crashes if c.get("gave_up")])
    for p in paths:
        common.strip_crashed_episodes(p)
    tr = common.concat(paths, os.path.join(ctx.work, name + "-all.ndjson"))
    res = vlib.validate_sharded(TRACE[0], TRACE[1], tr, ctx.work)
    ctx.machinery_errors += res["errors"]
    issues += issues_from_validation(ctx, res, label)
    issues += _genfail_issues(ctx, tr)
    stats["events"] += res["events"]
    stats["episodes"] += res["episodes"]
    stats["tlc_generated"] += res["generated"]
    stats["distinct_nontrivial"] += common.count_distinct_nontrivial(tr, _nontrivial)
    return tr


def run(ctx, exe, tier, seed, cases=None, maxdim=None):
    if cases is None:
        cases = 420 if tier == "quick" else 12000
    if maxdim is None:
        maxdim = 3 if tier == "quick" else 4
    issues = []
    stats = {"events": 0, "episodes": 0, "crashes": 0, "leak_restarts": 0,
             "tlc_generated": 0, "distinct_nontrivial": 0}
    tr = _run_mode(ctx, exe, "histories", "hist",
                   lambda a, b: ["hist", str(seed), str(a), str(b), str(maxdim)],
                   cases, stats, issues, nshards=vlib.NCPU)
    stats["hist_cases"] = cases
    _coverage(tr, stats)
    with open(tr) as fp:
        for i, line in enumerate(fp):
            if i in (2, 5):
                ctx.sample(json.loads(line))
            if i > 5:
                break
    ref = make_reftable(ctx)
    v2 = os.path.join(_tests_dir(), "compat-V2.vnacal")
    rc, out, err = vlib.sh([exe, "count-legacy"], env=_env(ctx))
    nleg = int(out.strip())
    _run_mode(ctx, exe, "legacy versions", "legacy",
              lambda a, b: ["legacy", v2, ref, str(a), str(b)], nleg, stats,
              issues, nshards=4)
    stats["legacy_cases"] = nleg
    # the same calibrations in the current format and, written by the
    # harness's own writer, in the "#VNACAL 2.0" layout (E12 1x1 .. 3x3) /
    # under a "#VNACAL 3.0" first line (all types)
    nlw = 90 if tier == "quick" else 1800
    _run_mode(ctx, exe, "legacy layouts written by the harness", "legacyw",
              lambda a, b: ["legacyw", str(seed), str(a), str(b)], nlw, stats,
              issues, nshards=vlib.NCPU, per_shard=30)
    stats["legacy_writer_cases"] = nlw
    return issues, stats


def replay(ctx, exe, path):
    with open(path) as fp:
        first = fp.readline()
    m = common.CASE_RE.search(first)
    if m:
        cid = m.group(1)
    elif first.startswith("case "):
        cid = first.split()[1]
    else:
        raise vlib.MachineryError("no case id in " + path)
    parts = cid.split(":")
    if parts[0] == "hist":
        args = ["hist", parts[1], parts[2], str(int(parts[2]) + 1), parts[3]]
    elif parts[0] == "legacyw":
        args = ["legacyw", parts[1], parts[2], str(int(parts[2]) + 1)]
    else:
        ref = make_reftable(ctx)
        v2 = os.path.join(_tests_dir(), "compat-V2.vnacal")
        args = ["legacy", v2, ref, parts[2], str(int(parts[2]) + 1)]
    tp = os.path.join(ctx.work, "replay.ndjson")
    open(tp, "w").close()
    crashes = common.run_cases(exe, lambda a, b: args, 0, 1, tp, lambda c: 0,
                               max_crashes=1, env=_env(ctx),
                               timeout=cfiles_util.WALL_LIMIT)
    crashes = cfiles_util.split_timeouts(ctx, crashes, "replay")
    issues = issues_from_crashes(ctx, crashes, "replay")
    if not [c for c in crashes if c["rc"] != EXIT_LEAK]:
        res = vlib.validate_sharded(TRACE[0], TRACE[1], tp, ctx.work, shards=1)
        ctx.machinery_errors += res["errors"]
        issues += issues_from_validation(ctx, res, "replay")
    return issues
