"""LinSys family: the linear solvers behind public calls against LinSys.tla
(property C19).

  mc(ctx, tier)        TLC: structural-rank theorems over every zero pattern
                       (LinSysMC) -- Hall = matching, invariances, tall rank
  table(ctx, tier)     TLC evaluates LinSysTable.tla and writes the JSON case
                       list; compose() turns it into the driver's case file
                       (pure re-encoding / cross product with permutations,
                       scale vectors and call paths; no classification)
  build(ctx)           ASan+UBSan driver harness/drv_linsys.c
  run(ctx, exe, ...)   replay every case through the public paths; the
                       recorded observations are validated by TLC against
                       LinSysTrace, which recomputes the class itself
  replay(ctx, exe, path)
"""
import json
import os
import random

import vlib
from families import common

SOURCES = ["drv_linsys.c", "vt.c", "vt_alloc.c"]
CONV = ("ztoy", "ytoz", "stoz", "ztos", "stoy", "ytos")
SCALABLE = ("ztoy", "ytoz", "ztos")


def mc(ctx, tier):
    cfg = "LinSysMC_quick.cfg" if tier == "quick" else "LinSysMC_thorough.cfg"
    r = vlib.tlc_model_check("LinSysMC.tla", cfg, ctx.work, workers=8,
                             timeout=1500)
    ctx.add_mc("LinSysMC/" + cfg, r)
    return r


def table(ctx, tier):
    """Run TLC on LinSysTable; returns the parsed JSON table."""
    cfg = ("LinSysTable_quick.cfg" if tier == "quick"
           else "LinSysTable_thorough.cfg")
    out = os.path.join(ctx.work, "linsys-table.json")
    r = vlib.tlc("LinSysTable.tla", cfg, ctx.work, env={"LINSYS_OUT": out},
                 workers=1, timeout=1500, heap="6g")
    if r["rc"] != 0 or not os.path.exists(out):
        raise vlib.MachineryError("LinSysTable export failed:\n" +
                                  r["out"][-2000:])
    with open(out) as fp:
        return json.load(fp)


VALUE_CLASSES = ["generic", "real", "imag", "realsym", "phase", "mixed",
                 "smalldiag"]          # order of vc_names in drv_linsys.c


def _line(kind, fn, n, m, perm=(), scale=(), rowmap=(), pat=(), vc=None):
    """vc None: the value class is assigned by rotation in compose()."""
    return "%s %s %d %d | %s | %s | %s | %s | %s\n" % (
        kind, fn, n, m, " ".join(map(str, perm)), " ".join(map(str, scale)),
        " ".join(map(str, rowmap)), " ".join(map(str, pat)),
        "?" if vc is None else vc)


def compose(tbl, tier, seed):
    """Case file lines from the TLC table.  Deterministic for a seed."""
    rnd = random.Random(seed)
    quick = tier == "quick"
    lines = []
    ident = lambda n: list(range(1, n + 1))
    if tbl.get("values") != VALUE_CLASSES:
        raise vlib.MachineryError("value classes of LinSys.tla and "
                                  "drv_linsys.c differ: %r" % tbl.get("values"))
    nvc = len(VALUE_CLASSES)
    # --- conversions: every small pattern x every row permutation
    k = 0
    for s in tbl["small"]:
        n = len(s["perms"][0])
        pats = s["pats"]
        if not quick or n <= 3:
            pass
        if n == 4 and quick:
            continue
        if n == 4:
            pats = rnd.sample(pats, 6000)
        for pt in pats:
            perms = s["perms"] if n <= 3 else rnd.sample(s["perms"], 2)
            for perm in perms:
                fn = CONV[k % 6]
                k += 1
                scale = ()
                if fn in SCALABLE and k % 2 == 0:
                    scale = rnd.choice(s["scales"])
                lines.append(_line("conv", fn, n, 0, perm, scale, (), pt["p"]))
    # --- conversions: named families n = MaxN+1 .. 8
    for b in tbl["big"]:
        n = b["n"]
        for pt in b["pats"]:
            for fn in CONV:
                for sc in (0, 1):
                    perm = ident(n)
                    if sc:
                        rnd.shuffle(perm)
                    scale = ([rnd.choice((-1, 0, 1)) for _ in range(n)]
                             if sc and fn in SCALABLE else ())
                    lines.append(_line("conv", fn, n, 0, perm, scale, (),
                                       pt["p"]))
    # --- conversions: dense random, all z0 variants, n = 1..8
    reps = 3 if quick else 40
    for n in range(1, 9):
        for fn in CONV:
            for zv in (0, 1, 2):
                for r in range(reps):
                    scale = ([rnd.choice((-1, 0, 1)) for _ in range(n)]
                             if fn in SCALABLE and r % 2 else ())
                    lines.append(_line("conv", fn, n, zv, (), scale, (), ()))
    # --- conversions: graded matrices (entries of very different size) with
    #     row permutation and row scaling, n = 2..8
    for n in range(2, 9):
        for fn in CONV:
            for r in range(6 if quick else 80):
                scale = ([rnd.choice((-1, 0, 1)) for _ in range(n)]
                         if fn in SCALABLE else ())
                lines.append(_line("conv", fn, n, 10 + (r % 3 if fn not in
                                   ("ztoy", "ytoz") else 0), (), scale, (),
                                   ()))
    # --- conversions: exactly duplicated rows
    for n in range(2, 9):
        for fn in CONV:
            rowmap = ident(n)
            a, b = rnd.sample(range(n), 2)
            rowmap[max(a, b)] = min(a, b) + 1
            lines.append(_line("conv", fn, n, 0, (), (), rowmap, ()))
    # --- a/b -> m reduction of vnacal_apply (identity calibration)
    for s in tbl["small"]:
        n = len(s["perms"][0])
        if n > 3:
            continue
        for i, pt in enumerate(s["pats"]):
            perm = s["perms"][i % len(s["perms"])]
            scale = s["scales"][(i * 7) % len(s["scales"])] if i % 2 else ()
            lines.append(_line("ab", "-", n, 0, perm, scale, (), pt["p"]))
    for b in tbl["big"]:
        n = b["n"]
        if n > (5 if quick else 6):
            continue
        for pt in b["pats"]:
            for sc in (0, 1):
                scale = ([rnd.choice((-1, 0, 1)) for _ in range(n)]
                         if sc else ())
                lines.append(_line("ab", "-", n, 0, ident(n), scale, (),
                                   pt["p"]))
    for n in range(1, 6):
        for r in range(4 if quick else 60):
            scale = [rnd.choice((-1, 0, 1)) for _ in range(n)] if r % 2 else ()
            lines.append(_line("ab", "-", n, 0, (), scale, (), ()))
        if n >= 2:
            rowmap = ident(n)
            rowmap[n - 1] = 1
            lines.append(_line("ab", "-", n, 0, (), (), rowmap, ()))
            for r in range(8 if quick else 80):
                scale = [rnd.choice((-1, 0, 1)) for _ in range(n)]
                lines.append(_line("ab", "-", n, 10, (), scale, (), ()))
    # --- a/b -> m reduction of vnacal_new_add_through (2 x 2)
    s2 = tbl["small"][1]
    for i, pt in enumerate(s2["pats"]):
        for perm in s2["perms"]:
            for rep in range(3):
                lines.append(_line("abadd", "-", 2, 10 if rep == 2 else 0,
                                   perm, (), (), pt["p"]))
    lines.append(_line("abadd", "-", 2, 0, (), (), (1, 1), ()))
    # --- tall systems: one-port solves (only realisable zero-column sets)
    t = 0
    for tc in tbl["tall"]:
        if tc["zero"] not in ([], [2, 3]):
            continue
        ntypes = 2 if quick else 6
        for j in range(ntypes):
            typ = (t + j * 3 + j // 2) % 6
            lines.append(_line("tall", str(typ), 3, tc["m"], (),
                               (1 if tc["zero"] else 0,), tc["rowmap"], ()))
        t += 1
    # --- apply_m with badly scaled receivers
    for p in range(1, 5):
        vecs = []
        if p <= 3:
            def rec(v):
                if len(v) == p:
                    vecs.append(list(v))
                    return
                for c in (-1, 0, 1):
                    rec(v + [c])
            rec([])
        else:
            vecs = [[0] * p] + [[rnd.choice((-1, 0, 1)) for _ in range(p)]
                                for _ in range(12 if quick else 60)]
        for v in vecs:
            for typ in (0, 1):
                unscaled = not any(v)
                for rev in ((), (1,)):
                    if rev and not unscaled:
                        continue
                    for rep in range(6 if unscaled else 1):
                        lines.append(_line("applym", str(typ), p, 0, rev, v,
                                           (), ()))
                        if p <= 2:
                            for rep2 in range(1 if unscaled else 6):
                                lines.append(_line("applym", str(typ), p, 1,
                                                   rev, v, (), ()))
    # --- noisy over-determined 2x2 solves in two row orders, with and
    #     without a measurement-error model (TLC list WeightedTallCases)
    for wc in tbl["wtall"]:
        for rep in range(1 if quick else 4):
            lines.append(_line("wsolve", str(wc["type"]), 2, wc["weighted"],
                               (wc["order"],), (), (wc["m1"], wc["m2"]), ()))
    # --- value classes x the structures where the pivot choice matters:
    #     small zero-diagonal patterns of full structural rank (TLC list),
    #     the named pivot-forcing families, dense and graded matrices
    for pv in tbl["pivot"]:
        if len(pv) > 200:
            pv = rnd.sample(pv, 200)
        for pt in pv:
            n = int(round(len(pt["p"]) ** 0.5))
            for vc in range(nvc):
                for fn in CONV:
                    lines.append(_line("conv", fn, n, 0, ident(n), (), (),
                                       pt["p"], vc))
                lines.append(_line("ab", "-", n, 0, ident(n), (), (),
                                   pt["p"], vc))
                if n == 2:
                    lines.append(_line("abadd", "-", 2, 0, ident(2), (), (),
                                       pt["p"], vc))
    for b in tbl["big"]:
        n = b["n"]
        for pt in b["pats"]:
            if pt["name"] not in ("zerodiag", "antidiag", "cyclic", "arrow",
                                  "tridiag"):
                continue
            for vc in range(nvc):
                for fn in ("ztoy", "ytoz", "ztos"):
                    lines.append(_line("conv", fn, n, 0, ident(n), (), (),
                                       pt["p"], vc))
                if n <= 5:
                    lines.append(_line("ab", "-", n, 0, ident(n), (), (),
                                       pt["p"], vc))
    for n in range(2, 9):
        for vc in range(nvc):
            for gr in (0, 10):
                for fn in CONV:
                    for r in range(1 if quick else 12):
                        lines.append(_line("conv", fn, n, gr, (), (), (), (),
                                           vc))
                if n <= 5:
                    lines.append(_line("ab", "-", n, gr, (), (), (), (), vc))
    # every other case gets its value class by rotation (per kind)
    counters = {}
    out = []
    for ln in lines:
        if ln.endswith("| ?\n"):
            kind = ln.split(" ", 1)[0]
            c = counters.get(kind, 0)
            counters[kind] = c + 1
            ln = ln[:-2] + "%d\n" % (c % nvc)
        out.append(ln)
    return out


def build(ctx):
    lib = vlib.build_lib("san")
    return vlib.build_driver("drv_linsys", SOURCES, lib, ctx.work,
                             wrap_alloc=True,
                             extra=["-Wno-unused-but-set-variable"])


def _case_index(cid):
    return int(cid.split(":")[2])


def _pclass(ev):
    p = ev.get("p")
    n = ev.get("n", 0)
    if not p:
        return "-"
    zeros = p.count(0)
    if zeros == 0:
        return "dense"
    rows = [p[i * n:(i + 1) * n] for i in range(n)]
    if any(sum(r) == 0 for r in rows):
        return "zerorow"
    if any(sum(r[j] for r in rows) == 0 for j in range(n)):
        return "zerocol"
    return "sparse"


def _argclass(ev):
    e = ev.get("e")
    if e == "Conv":
        return "%s:n%s:zv%s:gr%s:%s:%s:dup%d:sc%s" % (
            ev.get("fn"), ev.get("n"), ev.get("zv"), ev.get("gr"),
            ev.get("vc"), _pclass(ev),
            1 if len(set(ev.get("rowmap", []))) < len(ev.get("rowmap", []))
            else 0, ev.get("scaled"))
    if e in ("ApplyAB", "AddAB"):
        return "n%s:%s:%s:dup%d" % (
            ev.get("n"), ev.get("vc"), _pclass(ev),
            1 if len(set(ev.get("rowmap", []))) < len(ev.get("rowmap", []))
            else 0)
    if e == "Solve":
        rm = ev.get("rowmap", [])
        return "%s:%s:m%s:d%d:zero%s" % (ev.get("type"), ev.get("vc"),
                                          ev.get("m"), len(set(rm)),
                                          ev.get("zero"))
    if e == "WSolve":
        return "%s:%s:w%s:order%s:m%s+%s" % (ev.get("type"), ev.get("vc"),
                                             ev.get("weighted"),
                                             ev.get("order"), ev.get("m1"),
                                             ev.get("m2"))
    if e == "ApplyM":
        sc = ev.get("sc", [])
        return "%s:%s:p%s:%s:%s" % (ev.get("type"), ev.get("vc"),
                                    ev.get("p"), ev.get("det"),
                                    "scaled" if any(sc) else "unscaled")
    return "-"


def issues_from_validation(ctx, res, label):
    issues = []
    for f in res["failures"]:
        idx, evname, field = common.parse_mismatch(f["mismatch"])
        try:
            ev = json.loads(f["event"]) if f["event"] else {}
        except ValueError:
            ev = {}
        m = common.CASE_RE.search(f["lines"][0])
        case = m.group(1) if m else "?"
        sig = "LinSys:%s:%s:%s" % (ev.get("e", evname), field, _argclass(ev))
        props = {"C19"}
        if field in ("err", "cb", "one") or (field == "ok" and
                                             ev.get("ok") == 1):
            props.add("C11")
        if field == "setup":
            props = {"C01"}
        what = ("%s: case not explained by LinSys at field '%s' (case %s, "
                "event %s); spec expected %s" %
                (label, field, case, f["event"].strip()[:400],
                 f.get("expected")))
        rp = ctx.save_replay("linsys-%s.ndjson" % common.sig_hash(sig),
                             "".join(f["lines"]))
        issues.append(vlib.Issue(props, sig, what, replay=rp,
                                 detail=f["mismatch"]))
    return issues


def issues_from_crashes(ctx, crashes, lines, label):
    issues = []
    for c in crashes:
        s = vlib.sanitizer_signature(c["stderr"])
        if s is None:
            s = ("exit%d" % c["rc"], "?")
        kind = "?"
        if c["case"]:
            try:
                kind = lines[_case_index(c["case"])].split()[0]
            except (IndexError, ValueError):
                pass
        sig = "LinSys:crash:%s:%s:%s" % (kind, s[0], s[1])
        rp = ctx.save_replay("linsys-crash-%s.txt" % common.sig_hash(sig),
                             "case %s\nrc %s\n%s" % (c["case"], c["rc"],
                                                     c["stderr"]))
        issues.append(vlib.Issue({"C03", "C19"}, sig,
                                 "%s: driver process died in case %s: %s in %s"
                                 % (label, c["case"], s[0], s[1]), replay=rp))
    return issues


def _nontrivial(lines):
    for ln in lines:
        if ln.startswith('{"e":"Conv"') or ln.startswith('{"e":"ApplyAB"') \
                or ln.startswith('{"e":"AddAB"') \
                or ln.startswith('{"e":"Solve"') \
                or ln.startswith('{"e":"ApplyM"') \
                or ln.startswith('{"e":"WSolve"'):
            return True
    return False


def _tally(path, stats):
    with open(path) as fp:
        for ln in fp:
            if ln.startswith('{"e":"Re') or ln.startswith('{"e":"End'):
                continue
            try:
                ev = json.loads(ln)
            except ValueError:
                continue
            k = ev["e"]
            stats["by_kind"][k] = stats["by_kind"].get(k, 0) + 1
            vk = "%s/%s" % (k, ev.get("vc"))
            stats.setdefault("by_value_class", {})
            stats["by_value_class"][vk] = \
                stats["by_value_class"].get(vk, 0) + 1
            if ev.get("qual") == 0:
                stats["unqualified"] = stats.get("unqualified", 0) + 1
            if k == "ApplyM" and any(ev.get("sc", [])):
                key = "applym_scaled_%s_%s" % (ev.get("type"), ev.get("det"))
                stats[key] = stats.get(key, 0) + 1
                if ev.get("res") != 1:
                    stats[key + "_inaccurate"] = \
                        stats.get(key + "_inaccurate", 0) + 1
            if k == "WSolve" and ev.get("ok1") != 1:
                stats["wsolve_not_solved"] = \
                    stats.get("wsolve_not_solved", 0) + 1
            if k == "Solve" and ev.get("ok") == 1 and ev.get("rec") == 0:
                stats["solve_dup_undetected"] = \
                    stats.get("solve_dup_undetected", 0) + 1


def run(ctx, exe, tier, seed, tbl=None, lines=None):
    if lines is None:
        tbl = tbl or table(ctx, tier)
        lines = compose(tbl, tier, seed)
    casefile = os.path.join(ctx.work, "linsys-cases.txt")
    with open(casefile, "w") as fp:
        fp.writelines(lines)
    total = len(lines)
    stats = {"events": 0, "episodes": 0, "crashes": 0, "tlc_generated": 0,
             "cases": total, "by_kind": {}}
    paths, crashes = common.run_sharded(
        exe, lambda a, b: [casefile, str(seed), str(a), str(b)], total,
        ctx.work, "lin", _case_index, nshards=vlib.NCPU)
    issues = issues_from_crashes(ctx, crashes, lines, "linsys")
    stats["crashes"] = len(crashes)
    for p in paths:
        common.strip_crashed_episodes(p)
    tr = common.concat(paths, os.path.join(ctx.work, "lin-all.ndjson"))
    with open(tr) as fp:
        for i, line in enumerate(fp):
            if i == 1:
                ctx.sample(json.loads(line))
                break
    res = vlib.validate_sharded("LinSysTrace.tla", "LinSysTrace.cfg", tr,
                                ctx.work, shards=vlib.NCPU)
    ctx.machinery_errors += res["errors"]
    issues += issues_from_validation(ctx, res, "linsys")
    stats["events"] = res["events"]
    stats["episodes"] = res["episodes"]
    stats["tlc_generated"] = res["generated"]
    stats["distinct_nontrivial"] = common.count_distinct_nontrivial(
        tr, _nontrivial)
    _tally(tr, stats)
    return issues, stats


def replay(ctx, exe, path):
    """Re-run one case.  The case file is regenerated from the TLC table
    with the seed recorded in the case id."""
    with open(path) as fp:
        first = fp.readline()
    m = common.CASE_RE.search(first)
    if m:
        cid = m.group(1)
    elif first.startswith("case "):
        cid = first.split()[1]
    else:
        raise vlib.MachineryError("no case id in " + path)
    _, seed, idx = cid.split(":")[:3]
    tbl = table(ctx, ctx.tier)
    lines = compose(tbl, ctx.tier, int(seed))
    casefile = os.path.join(ctx.work, "linsys-cases.txt")
    with open(casefile, "w") as fp:
        fp.writelines(lines)
    args = [casefile, seed, idx, str(int(idx) + 1)]
    tp = os.path.join(ctx.work, "replay.ndjson")
    open(tp, "w").close()
    crashes = common.run_cases(exe, lambda a, b: args, 0, 1, tp,
                               lambda c: 0, max_crashes=1)
    issues = issues_from_crashes(ctx, crashes, lines, "replay")
    if not crashes:
        res = vlib.validate_sharded("LinSysTrace.tla", "LinSysTrace.cfg", tp,
                                    ctx.work, shards=1)
        ctx.machinery_errors += res["errors"]
        issues += issues_from_validation(ctx, res, "replay")
    return issues
