"""CalEq / CalFlow family: vnacal_new_* / vnacal_apply* against CalEq.tla and
CalFlow.tla (properties C01, C17, C20).

  mc(ctx, tier)              exhaustive TLC run of CalEqMC (equation structure,
                             C17 equivalences on the spec)
  export(ctx, which, tier)   TLC evaluates CalFlowTable and writes the scenario
                             table; converted to the driver's script format
  build(ctx)                 compile harness/drv_calflow.c against the tree
  run(ctx, exe, which, tier, seed) -> (issues, stats)
  replay(ctx, exe, path)     re-run one recorded case
"""
import json
import os
import re

import vlib
from families import common

SOURCES = ["drv_calflow.c", "caleq_oracle.c", "etermsim.c", "vt.c",
           "vt_alloc.c"]

PROP_OF = {"c01": "C01", "c17": "C17", "c20": "C20", "hostile": "C03"}

# table parameters per tier: MAXDIM, NVAR, STRIDE, MAXHIST
PARAMS = {
    ("c01", "quick"):    dict(MAXDIM=3, NVAR=12, STRIDE=1, MAXHIST=5),
    ("c01", "thorough"): dict(MAXDIM=4, NVAR=24, STRIDE=1, MAXHIST=5),
    ("c17", "quick"):    dict(MAXDIM=3, NVAR=2, STRIDE=1, MAXHIST=5),
    ("c17", "thorough"): dict(MAXDIM=4, NVAR=8, STRIDE=1, MAXHIST=5),
    ("c20", "quick"):    dict(MAXDIM=3, NVAR=1, STRIDE=131, MAXHIST=5),
    ("c20", "thorough"): dict(MAXDIM=3, NVAR=1, STRIDE=11, MAXHIST=5),
    # calls out of order, refused / unclassified standards, partial S: for
    # the aggregate C03 / C11 checks (issues carry C03 and C11 only)
    ("hostile", "quick"):    dict(MAXDIM=3, NVAR=1, STRIDE=1, MAXHIST=5),
    ("hostile", "thorough"): dict(MAXDIM=4, NVAR=1, STRIDE=1, MAXHIST=5),
}

# fields whose mismatch means that the harness oracle and the specification
# disagree with each other (machinery), not that libvna is wrong
MACHINERY_FIELDS = {"neq", "leak", "leakobs", "related", "handles"}


def mc(ctx, tier):
    cfg = "CalEqMC_quick.cfg" if tier == "quick" else "CalEqMC_thorough.cfg"
    r = vlib.tlc_model_check("CalEqMC.tla", cfg, ctx.work, workers=vlib.NCPU,
                             timeout=3000, heap="12g")
    ctx.add_mc("CalEqMC/" + cfg, r)
    return r


def build(ctx):
    lib = vlib.build_lib("san")
    return vlib.build_driver("drv_calflow", SOURCES, lib, ctx.work,
                             wrap_alloc=True)


# ---------------------------------------------------------------------------
# table -> script
# ---------------------------------------------------------------------------

def _step_line(s):
    op = s["op"]
    if op == "life":
        leak = sorted((int(a), int(b)) for a, b in s["leak"])
        toks = ["life", s["t"], s["r"], s["c"], s["nf"], s["form"], s["rel"],
                s["k"], len(leak)]
        for a, b in leak:
            toks += [a, b]
        toks.append(len(s["pi"]))
        toks += list(s["pi"])
        toks += [s.get("noise", 0), s.get("kit", "use"), s.get("mag", 0),
                 s.get("alev", 0)]
    elif op == "add":
        toks = ["add", s["sid"], s["ep"], s["nomap"], s["sr"], s["sc"],
                s["sdiag"], s["mr"], s["mc"], len(s["map"])]
        toks += list(s["map"])
        toks.append(len(s["vals"]))
        toks += list(s["vals"])
    elif op == "apply":
        toks = ["apply", s["dut"], s.get("mode", 0)]
    elif op == "unrelated":
        toks = ["unrelated", s.get("n", 0)]
    elif op == "setf":
        toks = ["setf", s["valid"]]
    elif op == "compare":
        toks = ["compare", s["rel"]]
    else:
        toks = [op]
    return " ".join(str(t) for t in toks)


def export(ctx, which, tier, params=None):
    """Run CalFlowTable for `which`; returns (script_path, n_cases, tlc)."""
    prm = dict(PARAMS[(which, tier)])
    if params:
        prm.update(params)
    out = os.path.join(ctx.work, "calflow-%s.json" % which)
    env = {"CALFLOW_WHICH": which, "CALFLOW_OUT": out}
    for k, v in prm.items():
        env["CALFLOW_" + k] = str(v)
    r = vlib.tlc("CalFlowTable.tla", "CalFlowTable.cfg", ctx.work, env=env,
                 workers=1, timeout=3000, heap="12g")
    if r["rc"] != 0 or not os.path.exists(out) or \
            "CALFLOWTABLE" not in r["out"]:
        raise vlib.MachineryError("CalFlowTable (%s) did not evaluate:\n%s" %
                                  (which, r["out"][-3000:]))
    with open(out) as fp:
        rows = json.load(fp)["rows"]
    rows.sort(key=lambda x: x["name"])
    # the table name carries its parameters: case ids stay reproducible
    script = os.path.join(ctx.work, "%s-%s.script" % (
        which, "-".join("%s" % prm[k] for k in
                        ("MAXDIM", "NVAR", "STRIDE", "MAXHIST"))))
    with open(script, "w") as fp:
        for row in rows:
            fp.write("case %s\n" % row["name"])
            for s in row["steps"]:
                fp.write(_step_line(s) + "\n")
            fp.write("end\n")
    ctx.add_part("tlc:CalFlowTable/" + which,
                 {"rows": len(rows), "params": prm})
    return script, len(rows), r


# ---------------------------------------------------------------------------
# issues
# ---------------------------------------------------------------------------

def _case_index(cid):
    return int(cid.split(":")[2])


def _context(lines, idx):
    """type/dims/form of the life the idx-th event of an episode belongs to"""
    t, r, c, form, nstd = "?", 0, 0, "?", 0
    for ln in lines[:idx + 1]:
        if ln.startswith('{"e":"Alloc"'):
            try:
                ev = json.loads(ln)
                t, r, c = ev["t"], ev["r"], ev["c"]
                nstd = 0
            except ValueError:
                pass
        elif ln.startswith('{"e":"Add"'):
            m = re.search(r'"form":"(\w+)"', ln)
            if m:
                form = m.group(1)
            if '"ok":1' in ln:
                nstd += 1
    return t, r, c, form, nstd


def _add_class(ev):
    s = ev.get("std", {})
    full = "full"
    return "%s/%dx%d/m%dx%d/%s" % (s.get("ep"), s.get("sr", 0), s.get("sc", 0),
                                   s.get("mr", 0), s.get("mc", 0),
                                   "nomap" if s.get("nomap") else
                                   ("sorted" if list(s.get("map", [])) ==
                                    sorted(s.get("map", [])) else "permuted"))


def issues_from_validation(ctx, res, which, label):
    issues = []
    prop = PROP_OF[which]
    for f in res["failures"]:
        idx, evname, field = common.parse_mismatch(f["mismatch"])
        try:
            ev = json.loads(f["event"]) if f["event"] else {}
        except ValueError:
            ev = {}
        m = common.CASE_RE.search(f["lines"][0])
        case = m.group(1) if m else "?"
        nm = re.search(r'"name":"([^"]*)"', f["lines"][0])
        name = nm.group(1) if nm else "?"
        t, r, c, form, nstd = _context(f["lines"], f["index"])
        shape = "%s:%dx%d:%s" % (t, r, c, form)
        if field in MACHINERY_FIELDS:
            ctx.machinery_errors.append(
                "%s: harness oracle and CalEq disagree on '%s' in %s (%s): "
                "event %s; spec expected %s" %
                (label, field, name, case, f["event"].strip()[:400],
                 f.get("expected")))
            continue
        e = ev.get("e", evname)
        if e == "End" and field == "live":
            sig = "CalFlow:End:live:%s" % shape
            props = {"C03"}
            what = ("allocation made inside libvna still live after "
                    "vnacal_free (%s, case %s)" % (name, case))
        elif field in ("recovered", "satisfies", "applies"):
            sig = "CalFlow:%s:%s:%s" % (e, field, shape)
            props = {"C01", prop}
            what = ("%s: %s = 0 for a determined calibration: %s %dx%d %s "
                    "form, %d standards (%s, case %s)" %
                    (label, field, t, r, c, form, nstd, name, case))
        elif field == "same":
            sig = "CalFlow:Compare:same:%s:%s" % (ev.get("rel"), shape)
            props = {"C17"}
            what = ("%s: two equivalent descriptions (%s) of the same "
                    "calibration give different applied S: %s %dx%d (%s, "
                    "case %s)" % (label, ev.get("rel"), t, r, c, name, case))
        else:
            cls = _add_class(ev) if e == "Add" else \
                ("ident=%s" % ev.get("ident") if e == "Solve" else "")
            sig = "CalFlow:%s:%s:%s:%s:ok%s:%s" % (
                e, field, shape, cls, ev.get("ok"), ev.get("err"))
            props = {prop}
            if e == "Solve":
                props |= {"C20", "C01"}
            if ev.get("ok") == 0 or field in ("ok", "err", "cb"):
                props.add("C11")
            what = ("%s: recorded call not explained by CalFlow at field "
                    "'%s' (%s, case %s, %d standards accepted before): %s; "
                    "spec allows %s" %
                    (label, field, name, case, nstd,
                     f["event"].strip()[:400], f.get("expected")))
        rp = ctx.save_replay("calflow-%s.ndjson" % common.sig_hash(sig),
                             "".join(f["lines"]))
        issues.append(vlib.Issue(props, sig, what, replay=rp,
                                 detail=f["mismatch"]))
    return issues


def issues_from_leaks(ctx, trace, which):
    """End events whose live count is not zero: allocations made inside
    libvna survived vnacal_free (bears on C03 only)."""
    issues = []
    seen = set()
    for start, lines in vlib.split_episodes(trace):
        if not lines or '"e":"End"' not in lines[-1]:
            continue
        m = re.search(r'"live":(-?\d+)', lines[-1])
        if not m or int(m.group(1)) == 0:
            continue
        t, r, c, form, nstd = _context(lines, len(lines) - 1)
        sig = "CalFlow:End:live:%s:%dx%d" % (t, r, c)
        if sig in seen:
            continue
        seen.add(sig)
        cm = common.CASE_RE.search(lines[0])
        issues.append(vlib.Issue(
            {"C03"}, sig, "%s allocation(s) made inside libvna still live "
            "after vnacal_free (case %s)" % (m.group(1),
                                             cm.group(1) if cm else "?")))
    return issues


def issues_from_crashes(ctx, crashes, which, label, script=None):
    issues = []
    prop = PROP_OF[which]
    for c in crashes:
        s = vlib.sanitizer_signature(c["stderr"])
        if s is None:
            s = ("exit%d" % c["rc"], "?")
        if c["rc"] in (3, 4) and "drv_calflow:" in c["stderr"]:
            ctx.machinery_errors.append("driver gave up in case %s: %s" %
                                        (c["case"], c["stderr"][-500:]))
            continue
        sig = "CalFlow:crash:%s:%s" % s
        rp = ctx.save_replay("calflow-crash-%s.txt" % common.sig_hash(sig),
                             "case %s\nrc %s\n%s" % (c["case"], c["rc"],
                                                     c["stderr"]))
        issues.append(vlib.Issue({"C03", prop}, sig,
                                 "%s: driver process died in case %s: %s in %s"
                                 % (label, c["case"], s[0], s[1]),
                                 replay=rp))
    return issues


# ---------------------------------------------------------------------------
# run
# ---------------------------------------------------------------------------

def _nontrivial(which):
    def pred(lines):
        if which == "c17":
            return any('"e":"Compare"' in ln and '"both":1' in ln
                       for ln in lines)
        if which == "c20":
            return any(ln.startswith('{"e":"Solve"') and '"ok":0' in ln
                       for ln in lines) and \
                any('"recovered":1' in ln for ln in lines)
        return any('"recovered":1' in ln or '"satisfies":1' in ln
                   for ln in lines)
    return pred


def _count(path, pat):
    n = 0
    with open(path) as fp:
        for ln in fp:
            if pat in ln:
                n += 1
    return n


def run(ctx, exe, which, tier, seed, params=None, nshards=None):
    """Export the table, replay it, validate the trace.
    Returns (issues, stats)."""
    script, total, _ = export(ctx, which, tier, params)
    stats = {"cases": total, "events": 0, "episodes": 0, "crashes": 0,
             "tlc_generated": 0}
    paths, crashes = common.run_sharded(
        exe, lambda a, b: ["run", script, str(seed), str(a), str(b)], total,
        ctx.work, which, _case_index, nshards=nshards,
        env={"VT_TMP": ctx.work})
    issues = issues_from_crashes(ctx, crashes, which, which + " table")
    stats["crashes"] = len(crashes)
    for p in paths:
        common.strip_crashed_episodes(p)
    tr = common.concat(paths, os.path.join(ctx.work, which + "-all.ndjson"))
    with open(tr) as fp:
        for i, line in enumerate(fp):
            if i in (3, 12):
                try:
                    ctx.sample(json.loads(line))
                except ValueError:
                    pass
            if i > 12:
                break
    res = vlib.validate_sharded("CalFlowTrace.tla", "CalFlowTrace.cfg", tr,
                                ctx.work, max_failures=60)
    ctx.machinery_errors += res["errors"]
    issues += issues_from_validation(ctx, res, which, which + " table")
    issues += issues_from_leaks(ctx, tr, which)
    stats["events"] = res["events"]
    stats["episodes"] = res["episodes"]
    stats["tlc_generated"] = res["generated"]
    stats["failures"] = len(res["failures"])
    stats["distinct_nontrivial"] = common.count_distinct_nontrivial(
        tr, _nontrivial(which))
    stats["adds_accepted"] = _count(tr, '"e":"Add"') - \
        sum(1 for ln in open(tr) if ln.startswith('{"e":"Add"') and '"ok":0' in ln)
    stats["adds_refused"] = sum(1 for ln in open(tr)
                                if ln.startswith('{"e":"Add"') and '"ok":0' in ln)
    stats["solves_ok_identifiable"] = sum(
        1 for ln in open(tr) if ln.startswith('{"e":"Solve"') and
        '"ident":"yes"' in ln and '"ok":1' in ln)
    stats["solves_edom"] = sum(
        1 for ln in open(tr) if ln.startswith('{"e":"Solve"') and
        '"err":"EDOM"' in ln)
    stats["solves_unclassified"] = sum(
        1 for ln in open(tr) if ln.startswith('{"e":"Solve"') and
        '"ident":"unk"' in ln)
    stats["recovered"] = _count(tr, '"recovered":1')
    stats["satisfies"] = _count(tr, '"satisfies":1')
    stats["compares_both"] = _count(tr, '"both":1')
    stats["script"] = os.path.basename(script)
    return issues, stats


def replay(ctx, exe, path, which_hint=None):
    """Re-run the case recorded in a replay artefact (ndjson episode or crash
    record).  The case id is <script>:<seed>:<index>; the script is
    re-exported from its name."""
    with open(path) as fp:
        first = fp.readline()
    m = common.CASE_RE.search(first)
    if m:
        cid = m.group(1)
    elif first.startswith("case "):
        cid = first.split()[1]
    else:
        raise vlib.MachineryError("no case id in " + path)
    sname, seed, index = cid.split(":")
    mm = re.match(r"(c\d\d|hostile)-(\d+)-(\d+)-(\d+)-(\d+)\.script", sname)
    if not mm:
        raise vlib.MachineryError("cannot parse script name " + sname)
    which = mm.group(1)
    prm = dict(MAXDIM=int(mm.group(2)), NVAR=int(mm.group(3)),
               STRIDE=int(mm.group(4)), MAXHIST=int(mm.group(5)))
    script, total, _ = export(ctx, which, "quick", prm)
    tp = os.path.join(ctx.work, "replay.ndjson")
    open(tp, "w").close()
    args = ["run", script, seed, index, str(int(index) + 1)]
    crashes = common.run_cases(exe, lambda a, b: args, 0, 1, tp,
                               lambda c: 0, max_crashes=1,
                               env={"VT_TMP": ctx.work})
    issues = issues_from_crashes(ctx, crashes, which, "replay")
    if not crashes:
        res = vlib.validate_sharded("CalFlowTrace.tla", "CalFlowTrace.cfg", tp,
                                    ctx.work, shards=1)
        ctx.machinery_errors += res["errors"]
        issues += issues_from_validation(ctx, res, which, "replay")
    return issues, which
