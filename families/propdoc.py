"""PropDoc family: vnaproperty_* against PropDoc.tla.

  mc(ctx)           exhaustive TLC run of the design spec (PropDocMC)
  run(ctx, ...)     drive the real library (bounded-exhaustive + random
                    histories), validate every recorded call against
                    PropDocTrace, return issues
  replay(ctx, file) re-execute one recorded case and validate it alone
"""
import json
import os

import vlib
from families import common

SOURCES = ["drv_propdoc.c", "vt.c", "vt_alloc.c"]


def mc(ctx, tier):
    cfg = "PropDocMC_quick.cfg" if tier == "quick" else "PropDocMC_thorough.cfg"
    r = vlib.tlc_model_check("PropDocMC.tla", cfg, ctx.work, workers=8,
                             timeout=1500)
    ctx.add_mc("PropDocMC/" + cfg, r)
    return r


def build(ctx):
    lib = vlib.build_lib("san")
    return vlib.build_driver("drv_propdoc", SOURCES, lib, ctx.work,
                             wrap_alloc=True)


def _case_index(cid):
    parts = cid.split(":")
    return int(parts[2])


def _shape(ev):
    p = ev.get("path")
    if p is None:
        return "-"
    return "/".join(s["k"] for s in p)


def _episode_failing_ops(lines):
    out = set()
    for ln in lines:
        try:
            ev = json.loads(ln)
        except ValueError:
            continue
        if ev.get("ok") == 0:
            out.add("%s(%s)%s" % (ev["e"], _shape(ev), ev.get("err")))
    return sorted(out)


def issues_from_validation(ctx, res, label):
    issues = []
    for f in res["failures"]:
        idx, evname, field = common.parse_mismatch(f["mismatch"])
        try:
            ev = json.loads(f["event"]) if f["event"] else {}
        except ValueError:
            ev = {}
        case = common.CASE_RE.search(f["lines"][0])
        case = case.group(1) if case else "?"
        if ev.get("e") == "Desc":
            sig = "PropDoc:Desc:%s:%s:ok%s:%s:%s" % (
                ev.get("fn"), field, ev.get("ok"), ev.get("err"),
                "".join(ev.get("chars", []))[:24])
            props = {"C13"}
            if ev.get("ok") == 0 or field == "ok":
                props.add("C11")
            what = ("descriptor %r through %s: result not explained by "
                    "Descriptor/PropDoc (field %s); event %s; admissible %s" %
                    (ev.get("chars"), ev.get("fn"), field,
                     f["event"].strip()[:300], f.get("expected")))
            # replay: the single event
            lines = ['{"e":"Reset","case":"%s"}\n' % case.rsplit(":", 1)[0],
                     f["event"]]
            idx0 = int(case.split(":")[3]) if case.count(":") >= 3 else 0
            ndesc = sum(1 for ln in f["lines"][:f["index"]] if ln.startswith('{"e":"Desc"'))
            lines[0] = '{"e":"Reset","case":"%s:%d"}\n' % (
                case.rsplit(":", 1)[0], idx0 + ndesc)
            rp = ctx.save_replay("propdoc-%s.ndjson" % common.sig_hash(sig),
                                 "".join(lines))
            issues.append(vlib.Issue(props, sig, what, replay=rp,
                                     detail=f["mismatch"]))
            continue
        if evname == "End" and field == "live":
            sig = "PropDoc:End:live:" + ";".join(_episode_failing_ops(f["lines"]))
            props = {"C03"}
            what = ("allocation made inside libvna still live after the tree "
                    "was deleted (case %s)" % case)
        else:
            sig = "PropDoc:%s:%s:%s:ok%s:%s" % (ev.get("e", evname), field,
                                                 _shape(ev), ev.get("ok"),
                                                 ev.get("err"))
            props = {"C13"}
            if ev.get("ok") == 0 or field == "ok":
                props.add("C11")
            what = ("%s: recorded call not explained by PropDoc at field '%s' "
                    "(case %s, event %s); spec expected %s" %
                    (label, field, case, f["event"].strip()[:300],
                     f.get("expected")))
        rp = ctx.save_replay("propdoc-%s.ndjson" % common.sig_hash(sig),
                             "".join(f["lines"]))
        issues.append(vlib.Issue(props, sig, what, replay=rp,
                                 detail=f["mismatch"]))
    return issues


def issues_from_crashes(ctx, crashes, label):
    issues = []
    for c in crashes:
        s = vlib.sanitizer_signature(c["stderr"])
        if s is None:
            s = ("exit%d" % c["rc"], "?")
        sig = "PropDoc:crash:%s:%s" % s
        rp = ctx.save_replay("propdoc-crash-%s.txt" % common.sig_hash(sig),
                             "case %s\nrc %s\n%s" % (c["case"], c["rc"],
                                                     c["stderr"]))
        issues.append(vlib.Issue({"C03", "C13"}, sig,
                                 "%s: driver process died in case %s: %s in %s"
                                 % (label, c["case"], s[0], s[1]),
                                 replay=rp))
    return issues


def _nontrivial(lines):
    """an episode is non-trivial if some modifying call succeeded in it"""
    for ln in lines:
        if ('"ok":1' in ln and (ln.startswith('{"e":"Set"') or
                                ln.startswith('{"e":"Del"'))):
            return True
    return False


def run(ctx, exe, tier, seed, exh_depth=None, rand_cases=None, rand_len=None):
    """Returns (issues, stats)."""
    if exh_depth is None:
        exh_depth = 3 if tier == "quick" else 4
    if rand_cases is None:
        rand_cases = 150 if tier == "quick" else 6000
    if rand_len is None:
        rand_len = 80 if tier == "quick" else 200
    issues = []
    stats = {"events": 0, "episodes": 0, "crashes": 0, "tlc_generated": 0}

    rc, out, err = vlib.sh([exe, "count", str(exh_depth)])
    total = int(out.strip())
    paths, crashes = common.run_sharded(
        exe, lambda a, b: ["exh", str(exh_depth), str(a), str(b)], total,
        ctx.work, "exh", _case_index)
    issues += issues_from_crashes(ctx, crashes, "exhaustive depth %d" % exh_depth)
    stats["crashes"] += len(crashes)
    for p in paths:
        common.strip_crashed_episodes(p)
    tr = common.concat(paths, os.path.join(ctx.work, "exh-all.ndjson"))
    res = vlib.validate_sharded("PropDocTrace.tla", "PropDocTrace.cfg", tr,
                                ctx.work)
    ctx.machinery_errors += res["errors"]
    issues += issues_from_validation(ctx, res, "exhaustive depth %d" % exh_depth)
    stats["events"] += res["events"]
    stats["episodes"] += res["episodes"]
    stats["tlc_generated"] += res["generated"]
    stats["exh_cases"] = total
    stats["distinct_nontrivial"] = common.count_distinct_nontrivial(tr, _nontrivial)

    paths, crashes = common.run_sharded(
        exe, lambda a, b: ["rand", str(seed), str(a), str(b), str(rand_len)],
        rand_cases, ctx.work, "rand", _case_index)
    issues += issues_from_crashes(ctx, crashes, "random histories")
    stats["crashes"] += len(crashes)
    for p in paths:
        common.strip_crashed_episodes(p)
    tr = common.concat(paths, os.path.join(ctx.work, "rand-all.ndjson"))
    with open(tr) as fp:
        for i, line in enumerate(fp):
            if i in (1, 2):
                ctx.sample(json.loads(line))
    res = vlib.validate_sharded("PropDocTrace.tla", "PropDocTrace.cfg", tr,
                                ctx.work)
    ctx.machinery_errors += res["errors"]
    issues += issues_from_validation(ctx, res, "random histories")
    stats["events"] += res["events"]
    stats["episodes"] += res["episodes"]
    stats["tlc_generated"] += res["generated"]
    stats["rand_cases"] = rand_cases
    stats["distinct_nontrivial"] += common.count_distinct_nontrivial(tr, _nontrivial)
    stats["rand_len"] = rand_len
    return issues, stats


def _desc_resume(tp):
    """descriptor modes write one Reset per process (and after a leak), so the
    crashed event is the one after the last complete Desc line"""
    cid, n = None, 0
    with open(tp, "rb") as fp:
        for line in fp:
            if line.startswith(b'{"e":"Reset"'):
                m = common.CASE_RE.search(line.decode("utf-8", "replace"))
                if m:
                    cid, n = m.group(1), 0
            elif line.startswith(b'{"e":"Desc"') and line.endswith(b"\n"):
                n += 1
    if cid is None:
        return None, None
    parts = cid.split(":")
    crashed = int(parts[3]) + n
    return ":".join(parts[:3] + [str(crashed)]), crashed + 1


DESC_FNS = ["Set", "SetSub", "GetSub", "Del", "Type", "Count", "Keys", "Get"]


def run_desc(ctx, exe, tier, seed):
    """Descriptor language: every character sequence up to a length bound and
    random token concatenations, through every API function."""
    issues = []
    stats = {"events": 0, "episodes": 0, "crashes": 0, "tlc_generated": 0,
             "desc_sequences": 0}
    nchars = 22
    plan = []      # (mode, fn, param, total)
    maxlen = 3 if tier == "quick" else 4
    for fn in DESC_FNS:
        for ln in range(1, maxlen + 1):
            if ln == 4 and fn not in ("Set", "SetSub", "GetSub"):
                continue
            plan.append(("desc", fn, ln, nchars ** ln))
        plan.append(("descr", fn, seed % 100000,
                     2000 if tier == "quick" else 40000))
    traces = []
    for mode, fn, param, total in plan:
        paths, crashes = common.run_sharded(
            exe, lambda a, b, m=mode, f=fn, p=param: [m, f, str(p), str(a), str(b)],
            total, ctx.work, "%s-%s-%s" % (mode, fn, param),
            lambda cid: int(cid.split(":")[3]),
            nshards=min(vlib.NCPU, max(1, total // 4000)), resume=_desc_resume)
        issues += issues_from_crashes(ctx, crashes, "descriptor %s/%s" % (mode, fn))
        stats["crashes"] += len(crashes)
        stats["desc_sequences"] += total
        for p in paths:
            common.strip_crashed_episodes(p)
        traces += paths
    tr = common.concat(traces, os.path.join(ctx.work, "desc-all.ndjson"))
    res = vlib.validate_sharded("PropDocTrace.tla", "PropDocTrace.cfg", tr,
                                ctx.work, shards=vlib.NCPU)
    ctx.machinery_errors += res["errors"]
    issues += issues_from_validation(ctx, res, "descriptor language")
    stats["events"] += res["events"]
    stats["episodes"] += res["episodes"]
    stats["tlc_generated"] += res["generated"]
    return issues, stats


FAULT_SCRIPTS_QUICK = [0, 1, 2, 3, 101]
FAULT_SCRIPTS_THOROUGH = [0, 1, 2, 3] + list(range(101, 131))


def run_fault(ctx, exe, tier, seed):
    """C12: for each scripted history fail every in-library allocation
    k = 1..K once (exhaustive over k); the trace spec's fault branch demands
    ENOMEM, a usable tree and a retry that behaves as if nothing happened."""
    issues = []
    stats = {"events": 0, "episodes": 0, "crashes": 0, "tlc_generated": 0,
             "scripts": {}, "fault_points": 0}
    scripts = FAULT_SCRIPTS_QUICK if tier == "quick" else FAULT_SCRIPTS_THOROUGH
    traces = []
    for sc in scripts:
        rc, out, err = vlib.sh([exe, "faultcount", str(sc)], env=vlib.SAN_ENV)
        if rc != 0:
            raise vlib.MachineryError("faultcount %s failed: %s" % (sc, err[-2000:]))
        K = int(out.strip().splitlines()[-1])
        stats["scripts"]["propdoc:%d" % sc] = K
        stats["fault_points"] += K

        def resume(tp, sc=sc):
            cid = common.last_case(tp)
            if cid is None:
                return None, None
            return cid, int(cid.split(":")[2]) + 1

        paths, crashes = common.run_sharded(
            exe, lambda a, b, sc=sc: ["fault", str(sc), str(a + 1), str(b + 1)],
            K, ctx.work, "fault-%d" % sc,
            lambda cid: int(cid.split(":")[2]) - 1,
            nshards=min(vlib.NCPU, max(1, K // 40)))
        for c in crashes:
            c["fault"] = True
        its = issues_from_crashes(ctx, crashes, "fault script %d" % sc)
        for it in its:
            it.props = {"C12"}
            it.signature = it.signature.replace("PropDoc:crash", "PropDoc:fault-crash")
        issues += its
        stats["crashes"] += len(crashes)
        for p in paths:
            common.strip_crashed_episodes(p)
        traces += paths
    tr = common.concat(traces, os.path.join(ctx.work, "fault-all.ndjson"))
    res = vlib.validate_sharded("PropDocTrace.tla", "PropDocTrace.cfg", tr,
                                ctx.work, shards=vlib.NCPU)
    ctx.machinery_errors += res["errors"]
    for it in issues_from_validation(ctx, res, "fault injection"):
        it.props = {"C12"}
        it.signature = it.signature.replace("PropDoc:", "PropDoc:fault:", 1)
        issues.append(it)
    stats["events"] += res["events"]
    stats["episodes"] += res["episodes"]
    stats["tlc_generated"] += res["generated"]
    return issues, stats


def replay(ctx, exe, path):
    with open(path) as fp:
        first = fp.readline()
    m = common.CASE_RE.search(first)
    if not m:
        # crash record: "case <id>" on the first line
        if first.startswith("case "):
            cid = first.split()[1]
        else:
            raise vlib.MachineryError("no case id in " + path)
    else:
        cid = m.group(1)
    parts = cid.split(":")
    if parts[0] == "fault":
        args = ["fault", parts[1], parts[2], str(int(parts[2]) + 1)]
    elif parts[0] in ("desc", "descr"):
        args = [parts[0], parts[1], parts[2], parts[3], str(int(parts[3]) + 1)]
    elif parts[0] == "exh":
        args = ["exh", parts[1], parts[2], str(int(parts[2]) + 1)]
    else:
        args = ["rand", parts[1], parts[2], str(int(parts[2]) + 1), parts[3]]
    tp = os.path.join(ctx.work, "replay.ndjson")
    open(tp, "w").close()
    crashes = common.run_cases(exe, lambda a, b: args, 0, 1, tp,
                               lambda c: 0, max_crashes=1)
    issues = issues_from_crashes(ctx, crashes, "replay")
    if not crashes:
        res = vlib.validate_sharded("PropDocTrace.tla", "PropDocTrace.cfg", tp,
                                    ctx.work, shards=1)
        ctx.machinery_errors += res["errors"]
        issues += issues_from_validation(ctx, res, "replay")
    return issues
