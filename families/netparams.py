"""NetParams family: the type system of network parameters.

  export_table(ctx)   run TLC on NetParamsTable.tla: checks the theorems about
                      NetParams (legality closure, documented counts, ...) and
                      writes the relation / conversion / case tables; returns
                      (json_path, tsv_path).  The TSV is a field-by-field
                      flattening of the JSON for the C drivers (no logic).
  build(ctx)          drv_netparams (C04 driver: relcheck.c against vnaconv_*)
  run(ctx, exe, ...)  execute every exported case, validate the result log
                      against NetParamsTrace (every case of the spec's list
                      was executed, decided and holds)
"""
import json
import os

import vlib
from families import common

DIRECT = ("conv2", "convn", "zin2", "zinn", "sconv2", "sconvn", "szin2", "szinn")
SOURCES = ["drv_netparams.c", "relcheck.c", "vt.c", "vt_alloc.c"]


def export_table(ctx):
    js = os.path.join(ctx.work, "netparams.json")
    tsv = os.path.join(ctx.work, "netparams.tsv")
    if os.path.exists(tsv):
        return js, tsv
    r = vlib.tlc("NetParamsTable.tla", "NetParamsTable.cfg", ctx.work,
                 env={"NETPARAMS_OUT": js}, workers=1, timeout=300)
    if r["rc"] != 0 or "No error has been found" not in r["out"] \
            or not os.path.exists(js):
        raise vlib.MachineryError("NetParamsTable did not evaluate:\n" +
                                  r["out"][-3000:])
    ctx.add_mc("NetParamsTable", r)
    with open(js) as fp:
        doc = json.load(fp)
    with open(tsv, "w") as fp:
        for q in ("a", "b"):
            w = doc["wave"][q]
            fp.write("wave\t%s\t%s\t%s\t%s\n" % (q, w["scale"], w["cv"], w["ci"]))
        for rel in doc["rel"]:
            for side in ("dep", "ind"):
                for k, t in enumerate(rel[side]):
                    fp.write("rel\t%s\t%d\t%s\t%d\t%s\t%d\t%d\n" %
                             (rel["type"], rel["n"], side, k + 1, t["q"],
                              t["p"], t["s"]))
        for c in doc["conv"]:
            fp.write("conv\t%s\t%s\t%d\t%d\t%d\t%d\t%s\t%s\t%d\t%d\t%d\n" %
                     (c["from"], c["to"], c["rows"], c["cols"], c["legal"],
                      c["copy"], c["fn2"], c["fnn"], c["z0"], c["orows"],
                      c["ocols"]))
        for nr in doc["nets"]:
            fp.write("net\t%s\t%d\t%d\t%d\t%s\n" % (nr["net"], nr["n"],
                                                    nr["nelem"], len(nr["eqs"]),
                                                    nr["ekind"]))
            for k, eq in enumerate(nr["eqs"]):
                for t in eq:
                    fp.write("neq\t%s\t%d\t%d\t%s\t%d\t%s\n" %
                             (nr["net"], nr["n"], k + 1, t["q"], t["p"], t["c"]))
        for c in doc["cases"]:
            fp.write("case\t%s\t%s\t%s\t%s\t%d\t%d\t%s\t%s\t%s\t%s\t%s\n" %
                     (c["kind"], c["from"], c["via"], c["to"], c["n"],
                      c["alias"], c["z0"], c["net"], c["mag"], c["pat"],
                      c["shape"]))
    ctx.netparams_doc = doc
    return js, tsv


def build(ctx):
    lib = vlib.build_lib("san")
    return vlib.build_driver("drv_netparams", SOURCES, lib, ctx.work,
                             wrap_alloc=True)


def _case_index_factory(keys):
    idx = {k: i for i, k in enumerate(keys)}

    def f(cid):
        # "<seed>:<draws>:<key>"
        return idx[cid.split(":", 2)[2]]
    return f


def _key(c):
    return "%s:%s:%s:%s:%d:%d:%s:%s:%s:%s:%s" % (
        c["kind"], c["from"], c["via"], c["to"], c["n"], c["alias"], c["z0"],
        c["net"], c["mag"], c["pat"], c["shape"])


def run(ctx, exe, tier, seed, draws=None):
    js, tsv = export_table(ctx)
    with open(js) as fp:
        doc = json.load(fp)
    keys = [_key(c) for c in doc["cases"]]
    total = len(keys)
    if draws is None:
        draws = 12 if tier == "quick" else 4000
    issues = []
    stats = {"cases": total, "draws": draws, "crashes": 0}

    # run_sharded recognises the current case from '"case":"..."' in Reset
    # lines; here every result line is its own episode, so mark them so
    def mk(a, b):
        return [tsv, str(seed), str(draws), str(a), str(b)]

    paths, crashes = _run_sharded_results(exe, mk, total, ctx.work, keys)
    stats["crashes"] = len(crashes)
    for c in crashes:
        s = vlib.sanitizer_signature(c["stderr"]) or ("exit%s" % c["rc"], "?")
        sig = "NetParams:crash:%s:%s" % s
        rp = ctx.save_replay("netparams-crash-%s.txt" % common.sig_hash(sig),
                             "after %s\nrc %s\n%s" % (c["case"], c["rc"],
                                                     c["stderr"]))
        issues.append(vlib.Issue({"C03", "C04"}, sig,
                                 "vnaconv driver died after case %s: %s in %s"
                                 % (c["case"], s[0], s[1]), replay=rp))
    res_path = common.concat(paths, os.path.join(ctx.work, "netparams-results.ndjson"))
    rows = []
    with open(res_path) as fp:
        for line in fp:
            rows.append(json.loads(line))
    stats["evaluations"] = sum(r["decided"] for r in rows)
    stats["undecided_cases"] = sum(1 for r in rows if r["decided"] == 0)
    stats["worst_lg"] = max([r["lg"] for r in rows if r["lg"] < 99] or [-99])
    stats["distinct_nontrivial"] = len({r["case"] for r in rows
                                        if r["decided"] > 0})
    stats["rows"] = len(rows)
    # validate the result log against the spec's case list (TLC)
    v = vlib.tlc("NetParamsTrace.tla", "NetParamsTrace.cfg", ctx.work,
                 env={"TRACE": res_path}, workers=1, timeout=600)
    ok = v["rc"] == 0 and "No error has been found" in v["out"]
    stats["tlc_generated"] = v["generated"]
    bad = [r for r in rows if r["failed"] > 0 or r["decided"] == 0
           or r.get("pure", 1) != 1 or r.get("allWritten", 1) != 1]
    if not ok and not bad and not crashes:
        ctx.machinery_errors.append("NetParamsTrace rejected the result log "
                                    "although no case failed:\n" + v["out"][-2500:])
    # a function that fails its own direct case explains every round trip /
    # chain / n-vs-2 case it takes part in: report it once, at the source
    direct_bad = set()
    for r in bad:
        if (r["failed"] > 0 or r.get("pure", 1) != 1
                or r.get("allWritten", 1) != 1) and r["kind"] in DIRECT:
            direct_bad |= set(_members(r))
    for r in bad:
        key = r["case"].split(":", 2)[2]
        fn = _fn_label(r)
        if r["decided"] == 0:
            ctx.machinery_errors.append("C04 case never decided: " + r["case"])
            continue
        if r["failed"] == 0 and r.get("allWritten", 1) != 1:
            r = dict(r, what="allWritten", failed=r.get("unwritten", 1))
        elif r["failed"] == 0 and r.get("pure", 1) != 1:
            r = dict(r, what="pure", failed=r.get("impure", 1))
        if r["kind"] not in DIRECT and \
                direct_bad & set(_members(r)):
            stats["explained_by_direct_failure"] = \
                stats.get("explained_by_direct_failure", 0) + 1
            continue
        sig = "NetParams:%s:%s:%s" % (r["kind"], fn, r["what"])
        if r.get("net", "-") != "-":
            sig += ":" + r["net"]
        if r.get("mag", "unit") != "unit":
            sig += ":" + r["mag"]
        if r.get("pat", "-") != "-":
            sig += ":z0=" + r["pat"]
        if r.get("shape", "dense") != "dense":
            sig += ":" + r["shape"]
        rp = ctx.save_replay("netparams-%s.json" % common.sig_hash(sig + r["z0"]), r)
        issues.append(vlib.Issue(
            {"C04"}, sig,
            "%s (%s, network %s, n=%d, z0 class %s%s / magnitude %s / input %s, %s buffers): %d of %d decided draws "
            "violate '%s' (worst residual 1e%d); case %s first bad draw %d"
            % (fn, r["kind"], r.get("net", "-"), r["n"], r["z0"],
               (" pattern " + r["pat"]) if r.get("pat", "-") != "-" else "",
               r.get("mag", "unit"), r.get("shape", "dense"),
               "aliased" if r["alias"] else "separate", r["failed"],
               r["decided"], r["what"], r["lg"], key, r["firstBad"]),
            replay=rp, detail=r))
    for r in rows[:3]:
        ctx.sample(r)
    return issues, stats


def _members(r):
    """names of the vnaconv functions a case calls"""
    let = {"S": "s", "T": "t", "U": "u", "Z": "z", "Y": "y", "H": "h",
           "G": "g", "A": "a", "B": "b", "ZIN": "zi"}
    f, v, t = r["from"], r["via"], r["to"]
    k = r["kind"]
    if k in ("conv2", "zin2", "sconv2", "szin2"):
        return ["%sto%s" % (let[f], let[t])]
    if k in ("convn", "zinn", "sconvn", "szinn"):
        return ["%sto%sn" % (let[f], let[t])]
    if k == "round2":
        return ["%sto%s" % (let[f], let[v]), "%sto%s" % (let[v], let[f])]
    if k == "roundn":
        return ["%sto%sn" % (let[f], let[v]), "%sto%sn" % (let[v], let[f])]
    if k == "chain2":
        return ["%sto%s" % (let[f], let[v]), "%sto%s" % (let[v], let[t]),
                "%sto%s" % (let[f], let[t])]
    if k == "nvs2":
        return ["%sto%s" % (let[f], let[t]), "%sto%sn" % (let[f], let[t])]
    return []


def _fn_label(r):
    let = {"S": "s", "T": "t", "U": "u", "Z": "z", "Y": "y", "H": "h",
           "G": "g", "A": "a", "B": "b", "ZIN": "zi"}
    n = "n" if r["kind"] in ("convn", "zinn", "roundn", "sconvn", "szinn") else ""
    if r["kind"] in ("round2", "roundn"):
        return "vnaconv_%sto%s%s+%sto%s%s" % (let[r["from"]], let[r["via"]], n,
                                              let[r["via"]], let[r["from"]], n)
    if r["kind"] == "chain2":
        return "vnaconv_%sto%s+%sto%s|%sto%s" % (
            let[r["from"]], let[r["via"]], let[r["via"]], let[r["to"]],
            let[r["from"]], let[r["to"]])
    if r["kind"] == "nvs2":
        return "vnaconv_%sto%sn|%sto%s" % (let[r["from"]], let[r["to"]],
                                          let[r["from"]], let[r["to"]])
    return "vnaconv_%sto%s%s" % (let[r["from"]], let[r["to"]], n)


def _run_sharded_results(exe, mkargs, total, workdir, keys):
    """like common.run_sharded, but the unit after which a crashed run
    resumes is a result line ("Case") instead of a Reset-delimited episode"""
    import concurrent.futures
    nshards = max(1, min(vlib.NCPU, total // 40))
    bounds = [(total * i // nshards, total * (i + 1) // nshards)
              for i in range(nshards)]
    paths = [os.path.join(workdir, "np-%d.ndjson" % i) for i in range(nshards)]
    index = {k: i for i, k in enumerate(keys)}

    def work(i):
        lo, hi = bounds[i]
        crashes = []
        open(paths[i], "w").close()
        a = lo
        part = 0
        while a < hi:
            tp = "%s.part%d" % (paths[i], part)
            part += 1
            e = dict(vlib.SAN_ENV)
            e["VT_TRACE"] = tp
            rc, out, err = vlib.sh([exe] + mkargs(a, hi), timeout=1800, env=e)
            data = b""
            if os.path.exists(tp):
                with open(tp, "rb") as src:
                    data = src.read()
                os.unlink(tp)
            if data and not data.endswith(b"\n"):
                data = data[:data.rfind(b"\n") + 1]
            with open(paths[i], "ab") as dst:
                dst.write(data)
            if rc == 0:
                break
            done = data.count(b"\n")
            last = keys[a + done] if a + done < len(keys) else "?"
            crashes.append({"case": last, "rc": rc, "stderr": (err or "")[-6000:]})
            a = a + done + 1
            if len(crashes) > 20:
                break
        return crashes

    crashes = []
    with concurrent.futures.ThreadPoolExecutor(nshards) as ex:
        for c in ex.map(work, range(nshards)):
            crashes += c
    return paths, crashes


def replay(ctx, exe, path):
    js, tsv = export_table(ctx)
    with open(path) as fp:
        txt = fp.read()
    try:
        r = json.loads(txt)
        seed, draws, key = r["case"].split(":", 2)
    except (ValueError, KeyError):
        raise vlib.MachineryError("not a C04 replay file: " + path)
    tp = os.path.join(ctx.work, "replay.ndjson")
    e = dict(vlib.SAN_ENV)
    e["VT_TRACE"] = tp
    rc, out, err = vlib.sh([exe, tsv, seed, draws, "key", key], env=e,
                           timeout=600)
    issues = []
    if rc != 0:
        s = vlib.sanitizer_signature(err) or ("exit%s" % rc, "?")
        issues.append(vlib.Issue({"C03", "C04"}, "NetParams:crash:%s:%s" % s,
                                 "replay crashed: %s" % (s,)))
        return issues
    with open(tp) as fp:
        r2 = json.loads(fp.readline())
    if r2["failed"] > 0:
        issues.append(vlib.Issue(
            {"C04"}, "NetParams:%s:%s:%s%s" % (
                r2["kind"], _fn_label(r2), r2["what"],
                (":" + r2["net"]) if r2.get("net", "-") != "-" else ""),
            "replay: %s fails '%s' in %d of %d decided draws" %
            (_fn_label(r2), r2["what"], r2["failed"], r2["decided"]),
            detail=r2))
    return issues
