"""FaultX family: single-allocation-fault enumeration over scripted histories
that cross object families (vnadata, vnacal parameters, vnacal_new add/solve,
calibrations, .vnacal / NPD / Touchstone / YAML files) -- property C12.

  build(ctx)                       library (ASan+UBSan) + drv_faultx
  run_fault(ctx, exe, tier, seed)  FaultTraceMC (the monitor model-checked),
                                   then per script: K = allocations of the
                                   fault-free run, every k = 1..K failed once,
                                   traces validated against FaultTrace.tla
  replay(ctx, exe, path)           one (script, k) again

Signatures: FaultX:<script>:<step>:<field>[@<faulted step>] for a trace
rejection (the step named first is where the spec disagrees; the suffix names
the step that met the fault when it is a different one),
FaultX:<script>:<faulted step>:End.live for blocks still live at the end,
FaultX:crash:<kind>:<frames> for a sanitizer report / abort.
"""
import concurrent.futures
import json
import os
import time

import vlib
from families import common

SOURCES = ["drv_faultx.c", "vt.c", "vt_alloc.c", "etermsim.c"]
TRACE = ("FaultTrace.tla", "FaultTrace.cfg")

# cheapest first; the quick tier runs all of them when the measured budget
# allows, else a prefix of this list (and says so in the stats)
SCRIPTS = ["params", "refuse", "ue14", "vnadata2", "trl", "calstore", "te10",
           "corr", "lm", "lmw", "e12", "ue10", "t8", "t8p3", "load", "bulk",
           "u16", "vnadata", "yaml", "t16", "auto16", "ts", "resolve", "resolve2", "params2"] + [
               "solt-%s-%s" % (t, f)
               for t in ("t8", "u8", "te10", "ue10", "ue14", "e12")
               for f in ("m", "ab")]
QUICK_BUDGET_S = 120.0

RESTART_RC = 95         # driver asks for a fresh process after a leaky episode


def build(ctx):
    lib = vlib.build_lib("san")
    return vlib.build_driver("drv_faultx", SOURCES, lib, ctx.work,
                             wrap_alloc=True)


def _env(ctx):
    d = os.path.join(ctx.work, "scratch")
    os.makedirs(d, exist_ok=True)
    e = dict(vlib.SAN_ENV)
    e["VT_SCRATCH"] = d
    return e


def list_scripts(ctx, exe):
    rc, out, err = vlib.sh([exe, "list"], env=_env(ctx))
    if rc != 0:
        raise vlib.MachineryError("drv_faultx list failed: " + err[-1000:])
    return out.split()


def count(ctx, exe, script):
    """(steps, K) of the fault-free run; the driver also checks that the
    reference run is deterministic, leak-free and fully observable."""
    e = _env(ctx)
    e["VT_TRACE"] = os.devnull
    rc, out, err = vlib.sh([exe, "count", script], env=e, timeout=300)
    if rc != 0:
        raise vlib.MachineryError(
            "fault-free reference run of script %s is not clean (rc=%s): %s"
            % (script, rc, err[-3000:]))
    lines = out.strip().splitlines()
    steps = int(lines[-2].split()[1])
    return steps, int(lines[-1])


def _case_k(cid):
    return int(cid.split(":")[2])


def _run_ranges(ctx, exe, jobs, timeout=900):
    """jobs: list of (script, lo, hi) with k in lo..hi-1.  Returns
    ({script: [trace paths]}, crashes)."""
    env = _env(ctx)
    paths = {}
    for j, (script, lo, hi) in enumerate(jobs):
        p = os.path.join(ctx.work, "faultx-%s-%d.ndjson" % (script, j))
        open(p, "w").close()
        paths.setdefault(script, []).append(p)

    def work(j):
        script, lo, hi = jobs[j]
        p = os.path.join(ctx.work, "faultx-%s-%d.ndjson" % (script, j))
        return common.run_cases(
            exe, lambda a, b, s=script: ["run", s, str(a), str(b)], lo, hi, p,
            _case_k, timeout=timeout, max_crashes=hi - lo + 1, env=env)

    crashes = []
    with concurrent.futures.ThreadPoolExecutor(vlib.NCPU) as ex:
        for cs in ex.map(work, range(len(jobs))):
            crashes += [c for c in cs if c["rc"] != RESTART_RC]
    return paths, crashes


def _faulted_step(lines):
    for ln in lines:
        if ln.startswith('{"e":"Step"') and '"fault":0,' not in ln:
            try:
                return json.loads(ln)["name"]
            except (ValueError, KeyError):
                return "?"
    return "none"


def issues_from_validation(ctx, res):
    issues = []
    for f in res["failures"]:
        idx, evname, field = common.parse_mismatch(f["mismatch"])
        m = common.CASE_RE.search(f["lines"][0])
        case = m.group(1) if m else "faultx:?:0"
        script = case.split(":")[1]
        fstep = _faulted_step(f["lines"])
        if evname == "End":
            sig = "FaultX:%s:%s:End.%s" % (script, fstep, field)
            if field == "live":
                what = ("script %s: after allocation failure in step '%s' "
                        "(case %s) and freeing every object, blocks allocated "
                        "inside libvna are still live: %s" %
                        (script, fstep, case, f["event"].strip()))
            else:
                what = ("script %s case %s: episode ended early (%s); fault "
                        "met in step '%s'" % (script, case, field, fstep))
        else:
            sig = "FaultX:%s:%s:%s" % (script, evname, field)
            if fstep not in (evname, "none"):
                sig += "@" + fstep
            what = ("script %s case %s: step '%s' not admitted by FaultX at "
                    "field '%s' (allocation failure met in step '%s'); event "
                    "%s; spec admits %s" %
                    (script, case, evname, field, fstep,
                     f["event"].strip()[:400], f.get("expected")))
        rp = ctx.save_replay("faultx-%s.ndjson" % common.sig_hash(sig),
                             "".join(f["lines"]))
        issues.append(vlib.Issue({"C12"}, sig, what, replay=rp,
                                 detail=f["mismatch"]))
    return issues


def issues_from_crashes(ctx, crashes):
    by_sig = {}
    kinds = {}
    for c in crashes:
        s = vlib.sanitizer_signature(c["stderr"])
        if s is None:
            s = ("timeout" if c["rc"] == -9 else "exit%d" % c["rc"], "?")
        sig = "FaultX:crash:%s:%s" % s
        by_sig.setdefault(sig, []).append(c)
        kinds[sig] = s
    issues = []
    for sig, cs in by_sig.items():
        c = cs[0]
        rp = ctx.save_replay("faultx-crash-%s.txt" % common.sig_hash(sig),
                             "case %s\nrc %s\n%s" % (c["case"], c["rc"],
                                                     c["stderr"]))
        cases = [x["case"] for x in cs if x["case"]]
        kind, frames = kinds[sig]
        issues.append(vlib.Issue(
            {"C12"}, sig,
            "driver process died under a single allocation failure: %s in %s "
            "(%d fault point(s), e.g. %s)" % (kind, frames, len(cs),
                                              ", ".join(cases[:4])),
            replay=rp))
    return issues


def _predict(lines):
    """Cheap screening of one episode with the FaultX rules re-stated in
    Python, in the order of FaultX!StepChecks / EndChecks: None if the
    episode looks acceptable, else (event name, field).  It decides nothing:
    it only routes the episode either into the bulk shards or into a TLC run
    of its own, so that a tree with hundreds of failing fault points does not
    make the sharded validation re-read whole shards once per rejection."""
    pc, n, faulted, pending = 1, None, False, False
    try:
        for ln in lines:
            ev = json.loads(ln)
            if ev["e"] == "Reset":
                n = ev["n"]
            elif ev["e"] == "Step":
                nm = ev["name"]
                if ev["i"] != pc:
                    return (nm, "i")
                if ev["fault"] and not ev["ok"]:
                    if faulted:
                        return (nm, "fault")
                    if ev["err"] != "ENOMEM" and not (
                            ev["refok"] == 0 and ev["err"] == ev["referr"]
                            and ev["digest"] == ev["refdigest"]):
                        return (nm, "err")
                    if ev["digest"] == "ERR":
                        return (nm, "usable")
                    faulted = pending = True
                else:
                    if ev["fault"] and faulted:
                        return (nm, "fault")
                    if ev["ok"] != ev["refok"]:
                        return (nm, "ok")
                    if not ev["ok"] and ev["err"] != ev["referr"]:
                        return (nm, "err")
                    if ev["digest"] == "ERR":
                        return (nm, "usable")
                    if ev["digest"] != ev["refdigest"]:
                        return (nm, "digest")
                    faulted = faulted or bool(ev["fault"])
                    pending = False
                    pc += 1
            elif ev["e"] == "End":
                if pending:
                    return ("End", "retry")
                if pc != n + 1:
                    return ("End", "steps")
                if ev["live"] != 0:
                    return ("End", "live")
                return None
    except (ValueError, KeyError, TypeError):
        return ("?", "malformed")
    return ("?", "no End")


REPRESENTATIVES = 3     # episodes per screened class validated on their own
MAX_SINGLE = 600        # cap on single-episode TLC runs per check run


def _script_of(lines):
    m = common.CASE_RE.search(lines[0]) if lines else None
    return m.group(1).split(":")[1] if m else "?"


def _validate(ctx, trace_path):
    """validate_sharded-compatible result for a multi-episode trace.

    Episodes the screening expects to pass go to the bulk shards.  The others
    are grouped by (script, event, field, faulted step); REPRESENTATIVES of
    each group get a TLC run of their own.  If TLC rejects all of them at the
    predicted event and field, the rest of the group is attributed to the same
    signature without a TLC run (counted in `attributed`; they can add no new
    signature); if TLC disagrees with the screening anywhere in a group, the
    whole group is validated one by one."""
    eps = vlib.split_episodes(trace_path)
    bulk = os.path.join(ctx.work, "faultx-bulk.ndjson")
    groups = {}
    with open(bulk, "w") as fp:
        for start, lines in eps:
            pr = _predict(lines)
            if pr is None:
                fp.writelines(lines)
            else:
                key = (_script_of(lines), pr[0], pr[1], _faulted_step(lines))
                groups.setdefault(key, []).append((start, lines))
    res = vlib.validate_sharded(TRACE[0], TRACE[1], bulk, ctx.work,
                                shards=vlib.NCPU, max_failures=40)
    res["screened_out"] = sum(len(v) for v in groups.values())
    res["attributed"] = 0
    counter = [0]

    def one(item):
        key, (start, lines) = item
        counter[0] += 1
        p = os.path.join(ctx.work, "faultx-single-%d-%d.ndjson" % (
            start, counter[0]))
        with open(p, "w") as fp:
            fp.writelines(lines)
        r = vlib.tlc_validate_trace(TRACE[0], TRACE[1], p, ctx.work)
        gen = r["generated"]
        out = None
        if not r["accepted"]:
            if r.get("error") and r["mismatch"] is None and r["matched"] == 0:
                out = ("error", r["out"][-2000:])
            else:
                r1 = vlib.tlc_validate_trace(TRACE[0], TRACE[1], p, ctx.work)
                gen += r1["generated"]
                if not r1["accepted"]:       # a rejection must repeat
                    idx = r1["matched"]
                    out = ("fail", {
                        "lines": lines, "index": idx,
                        "event": lines[idx] if idx < len(lines) else "",
                        "mismatch": r1["mismatch"], "start": start,
                        "expected": r1.get("expected"),
                        "out": r1["out"][-1500:]})
        os.unlink(p)
        return key, gen, len(lines), out

    def run_batch(items):
        agree = {}
        with concurrent.futures.ThreadPoolExecutor(vlib.NCPU) as ex:
            for key, gen, nev, out in ex.map(one, items):
                res["generated"] += gen
                res["events"] += nev
                res["episodes"] += 1
                ok = False
                if out is not None and out[0] == "error":
                    res["errors"].append(out[1])
                elif out is not None:
                    res["failures"].append(out[1])
                    idx, evname, field = common.parse_mismatch(
                        out[1]["mismatch"])
                    ok = (evname, field) == (key[1], key[2])
                agree[key] = agree.get(key, True) and ok
        return agree

    first, rest = [], {}
    for key, members in groups.items():
        n = len(members)
        picks = sorted({0, n // 2, n - 1})[:REPRESENTATIVES]
        first += [(key, members[i]) for i in picks]
        rest[key] = [m for i, m in enumerate(members) if i not in picks]
    budget = MAX_SINGLE
    agree = run_batch(first[:budget])
    budget -= min(budget, len(first))
    second = []
    for key, members in rest.items():
        if agree.get(key, False):
            res["attributed"] += len(members)
        else:
            second += [(key, m) for m in members]
    if len(first) > MAX_SINGLE or len(second) > budget:
        res["errors"].append(
            "%d episodes that look rejected were not validated in this run "
            "(cap of %d single-episode TLC runs)" %
            (max(0, len(first) - MAX_SINGLE) + max(0, len(second) - budget),
             MAX_SINGLE))
    if second and budget > 0:
        run_batch(second[:budget])
    return res


def run_fault(ctx, exe, tier, seed):
    t0 = time.time()
    issues = []
    stats = {"events": 0, "episodes": 0, "crashes": 0, "tlc_generated": 0,
             "scripts": {}, "steps": {}, "fault_points": 0}
    r = vlib.tlc_model_check("FaultTraceMC.tla", "FaultTraceMC.cfg", ctx.work,
                             workers=2)
    ctx.add_mc("FaultTraceMC", r)

    names = [s for s in SCRIPTS if s in set(list_scripts(ctx, exe))]
    extra = [s for s in list_scripts(ctx, exe) if s not in names]
    names += extra
    counts = {}
    for s in names:
        steps, K = count(ctx, exe, s)
        counts[s] = K
        stats["steps"][s] = steps
    chosen = list(names)
    skipped = []
    if tier == "quick":
        # budget: measured on this 16-core box, with all cores shared with
        # other checks (load average 90..250): 33..95 s for 7 307 fault
        # points / 194 267 events, i.e. about 5 ms of driver time per fault
        # point plus 0.2 ms of TLC time per event, parallelism included.
        # Keep the cheapest scripts, each exhaustively over k, if not all fit.
        def est(s):
            return counts[s] * (0.005 + 0.0002 * (stats["steps"][s] + 3))
        total = 0.0
        chosen = []
        for s in sorted(names, key=est):
            if total + est(s) > QUICK_BUDGET_S and chosen:
                skipped.append(s)
                continue
            total += est(s)
            chosen.append(s)
        chosen.sort(key=names.index)
        stats["estimated_s"] = round(total, 1)
    stats["skipped_in_this_tier"] = skipped

    jobs = []
    for s in chosen:
        K = counts[s]
        stats["scripts"]["faultx:" + s] = K
        stats["fault_points"] += K
        n = min(vlib.NCPU, max(1, K // 30))
        for i in range(n):
            lo, hi = 1 + K * i // n, 1 + K * (i + 1) // n
            if hi > lo:
                jobs.append((s, lo, hi))
    # long jobs first
    jobs.sort(key=lambda j: -(j[2] - j[1]) * stats["steps"][j[0]])
    paths, crashes = _run_ranges(ctx, exe, jobs)
    stats["crashes"] = len(crashes)
    issues += issues_from_crashes(ctx, crashes)
    stats["driver_wall_s"] = round(time.time() - t0, 1)

    traces = []
    for s in chosen:
        for p in paths.get(s, []):
            common.strip_crashed_episodes(p)
            traces.append(p)
    tr = common.concat(traces, os.path.join(ctx.work, "faultx-all.ndjson"))
    with open(tr) as fp:
        for i, line in enumerate(fp):
            if i in (0, 1, 2):
                ctx.sample(json.loads(line))
            else:
                break
    res = _validate(ctx, tr)
    stats["episodes_screened_as_rejected"] = res["screened_out"]
    stats["episodes_attributed_without_tlc"] = res["attributed"]
    ctx.machinery_errors += res["errors"]
    issues += issues_from_validation(ctx, res)
    stats["events"] = res["events"]
    stats["episodes"] = res["episodes"]
    stats["tlc_generated"] = res["generated"]
    stats["rejected_episodes"] = len(res["failures"])
    stats["wall_s"] = round(time.time() - t0, 1)
    return issues, stats


def owns_replay(path):
    """is this replay file one of ours? (case id faultx:<script>:<k>)"""
    try:
        with open(path) as fp:
            first = fp.readline()
    except OSError:
        return False
    m = common.CASE_RE.search(first)
    cid = m.group(1) if m else (first.split()[1] if first.startswith("case ")
                                and len(first.split()) > 1 else "")
    return cid.startswith("faultx:")


def replay(ctx, exe, path):
    with open(path) as fp:
        first = fp.readline()
    m = common.CASE_RE.search(first)
    if m:
        cid = m.group(1)
    elif first.startswith("case "):
        cid = first.split()[1]
    else:
        raise vlib.MachineryError("no case id in " + path)
    parts = cid.split(":")
    if parts[0] != "faultx":
        return []                 # another family's replay file
    script, k = parts[1], int(parts[2])
    paths, crashes = _run_ranges(ctx, exe, [(script, k, k + 1)])
    issues = issues_from_crashes(ctx, crashes)
    for p in paths[script]:
        common.strip_crashed_episodes(p)
        res = vlib.validate_sharded(TRACE[0], TRACE[1], p, ctx.work, shards=1)
        ctx.machinery_errors += res["errors"]
        issues += issues_from_validation(ctx, res)
    return issues
