"""MError family (C18): measurement-error modelling with fully known
standards against MError.tla / MErrorTrace.tla.

  table(ctx)         TLC evaluates MError!Configs and exports it (JSON)
  run(ctx, exe, ...) executes a seeded, stratified sample of table rows in
                     the real library; validates every scenario episode
                     (deterministic clauses) against MErrorTrace; then builds
                     the rate trace (one Obs per validated noisy / outlier
                     scenario, totals per type) and validates it against the
                     same spec, which counts the observations itself and
                     applies the bounds of MError
  replay(ctx, exe, path)
"""
import json
import os
import random
import re

import vlib
from families import common

SOURCES = ["drv_merror.c", "vt.c", "vt_alloc.c", "etermsim.c"]
EXIT_TIMEOUT = 94
FIELDS = ["ty", "r", "c", "sn", "st", "grid", "kind", "vec", "ud", "sh"]

TYPES = ["T8", "U8", "TE10", "UE10", "T16", "U16", "UE14", "E12"]
# rate classes: one per type + the unevenly determined column scenarios
CLASSES = TYPES + ["UE14u1", "UE14u2", "E12u1", "E12u2"]


def rate_class(r):
    if r.get("ud", "-") == "-":
        return r["ty"]
    return r["ty"] + ("u1" if r["ud"] == "c1" else "u2")


def build(ctx):
    lib = vlib.build_lib("san")
    return vlib.build_driver("drv_merror", SOURCES, lib, ctx.work,
                             wrap_alloc=True)


def table(ctx):
    out = os.path.join(ctx.work, "merror-table.json")
    r = vlib.tlc("MErrorTable.tla", "MErrorTable.cfg", ctx.work,
                 env={"MERROR_OUT": out}, timeout=600)
    if r["rc"] != 0 or not os.path.exists(out):
        raise vlib.MachineryError("MErrorTable export failed:\n" +
                                  r["out"][-2000:])
    with open(out) as fp:
        rows = json.load(fp)
    for i, row in enumerate(rows):
        row["id"] = i
    return rows


def row_line(row):
    return "%d %s %d %d %d %d %s %s %s %s %s\n" % (
        row["id"], row["ty"], row["r"], row["c"], row["sn"], row["st"],
        row["grid"], row["kind"], row["vec"], row.get("ud", "-"),
        row.get("sh", "const"))


def _stratified(rng, rows, keyfn, n):
    by = {}
    for r in rows:
        by.setdefault(keyfn(r), []).append(r)
    keys = sorted(by)
    rng.shuffle(keys)
    out = []
    i = 0
    while len(out) < n and keys:
        k = keys[i % len(keys)]
        if by[k]:
            out.append(by[k].pop(rng.randrange(len(by[k]))))
        i += 1
        if i % len(keys) == 0:
            keys = [k for k in keys if by[k]]
    return out


def sample(rows, tier, seed):
    """Seeded sample: exact and interpolation kinds stratified over type x
    dimensions x grid (x vector); noisy / outlier: N per type drawn over
    dimensions, noise sizes and grids."""
    rng = random.Random(seed)
    quick = tier == "quick"
    n_exact = 500 if quick else 5000
    n_interp = 240 if quick else 2500
    n_noisy = 200 if quick else 800
    n_out = 100 if quick else 400
    kind = lambda k: [r for r in rows if r["kind"] == k]
    out = _stratified(rng, kind("exact"),
                      lambda r: (r["ty"], r["r"], r["c"], r["grid"],
                                 r["st"] == 0, r["ud"], r["sh"]), n_exact)
    out += _stratified(rng, kind("iacc") + kind("irej"),
                       lambda r: (r["ty"], r["kind"], r["grid"], r["vec"],
                                  r["r"], r["c"]), n_interp)
    out += _stratified(rng, kind("few"),
                       lambda r: (r["ty"], r["r"], r["c"], r["grid"]),
                       60 if quick else 400)
    out += _stratified(rng, kind("rdacc") + kind("rdrej"),
                       lambda r: (r["ty"], r["kind"], r["vec"], r["grid"],
                                  r["r"], r["c"]),
                       240 if quick else 2500)
    out += _stratified(rng, kind("agree"),
                       lambda r: (r["ty"], r["grid"], r["sh"], r["r"],
                                  r["c"]), 240 if quick else 2500)
    out += _stratified(rng, kind("det"),
                       lambda r: (r["ty"], r["grid"], r["st"] == 0),
                       64 if quick else 600)
    plan = {}
    for cl in CLASSES:
        rn = [r for r in rows if r["kind"] == "noisy" and rate_class(r) == cl]
        ro = [r for r in rows if r["kind"] == "outlier" and rate_class(r) == cl]
        out += _stratified(rng, rn, lambda r: (r["r"], r["c"], r["st"],
                                               r["grid"], r["ud"], r["sh"]),
                           n_noisy)
        out += _stratified(rng, ro, lambda r: (r["r"], r["c"], r["st"],
                                               r["grid"], r["ud"], r["sh"]),
                           n_out)
        # a class cannot run more scenarios than the table has rows for it
        plan[cl] = (min(n_noisy, len(rn)), min(n_out, len(ro)))
    rng.shuffle(out)
    return out, plan


def _case_index(cid):
    return int(cid.split(":")[2])


def _cfg_of(lines):
    for ln in lines[:3]:
        if ln.startswith('{"e":"Cfg"'):
            try:
                return json.loads(ln)
            except ValueError:
                return {}
    return {}


def _cls(cfg):
    return "%s:%sx%s:%s:%s:%s:%s%s%s" % (
        cfg.get("ty"), cfg.get("r"), cfg.get("c"), cfg.get("grid"),
        cfg.get("kind"), cfg.get("vec"),
        "tr0" if cfg.get("st") == 0 else "tr",
        "" if cfg.get("ud", "-") == "-" else ":" + cfg.get("ud"),
        "" if cfg.get("sh", "const") == "const" else ":" + cfg.get("sh"))


def issues_from_validation(ctx, res, label):
    issues = []
    for f in res["failures"]:
        idx, evname, field = common.parse_mismatch(f["mismatch"])
        cfg = _cfg_of(f["lines"])
        case = common.CASE_RE.search(f["lines"][0])
        case = case.group(1) if case else "?"
        try:
            ev = json.loads(f["event"]) if f["event"] else {}
        except ValueError:
            ev = {}
        if evname == "Agg":
            sig = "MError:Agg:%s:%s" % (field, ev.get("ty"))
            what = ("%s: aggregate over the seeded scenarios violates the "
                    "bound '%s' of MError for type %s: %s (expected %s)" %
                    (label, field, ev.get("ty"), f["event"].strip(),
                     f.get("expected")))
            props = {"C18"}
        else:
            sig = "MError:%s:%s:%s" % (evname, field, _cls(cfg))
            what = ("%s: recorded event not explained by MError at '%s' of "
                    "%s (case %s, config %s, event %s); spec expected %s" %
                    (label, field, evname, case,
                     {k: cfg.get(k) for k in FIELDS},
                     f["event"].strip()[:400], f.get("expected")))
            props = {"C18"}
            if field == "ref":
                props = {"C01", "C20"}   # reference run: not a C18 matter
            if field in ("rejection", "interpReject", "lastDeclarationCounts") \
                    and ev.get("wret") == -1:
                props.add("C11")
        rp = ctx.save_replay("merror-%s.ndjson" % common.sig_hash(sig),
                             "".join(f["lines"]))
        issues.append(vlib.Issue(props, sig, what, replay=rp,
                                 detail=f["mismatch"]))
    return issues


def issues_from_crashes(ctx, crashes, label, cfg_by_case):
    issues = []
    for c in crashes:
        cfg = cfg_by_case.get(c["case"], {})
        if c["rc"] == EXIT_TIMEOUT or c["rc"] == -9:
            sig = "MError:timeout:%s" % _cls(cfg)
            props = {"C18"}
            what = ("%s: vnacal_new_solve did not return within the timeout "
                    "(case %s, config %s)" % (label, c["case"], cfg))
        else:
            s = vlib.sanitizer_signature(c["stderr"])
            if s is None:
                s = ("exit%d" % c["rc"], "?")
            sig = "MError:crash:%s:%s" % s
            props = {"C03", "C18"}
            what = ("%s: driver process died in case %s (config %s): %s in %s"
                    % (label, c["case"], cfg, s[0], s[1]))
        rp = ctx.save_replay(
            "merror-crash-%s.txt" % common.sig_hash(sig),
            "case %s\ncfg %s\nrc %s\n%s" % (c["case"], json.dumps(cfg),
                                             c["rc"], c["stderr"]))
        issues.append(vlib.Issue(props, sig, what, replay=rp))
    return issues


def issues_from_leaks(ctx, trace_path):
    issues = []
    seen = set()
    for start, lines in vlib.split_episodes(trace_path):
        if not lines or '"leaked":1' not in lines[-1]:
            continue
        cfg = _cfg_of(lines)
        sig = "MError:End:live:%s:%s" % (cfg.get("ty"), cfg.get("kind"))
        if sig in seen:
            continue
        seen.add(sig)
        issues.append(vlib.Issue({"C03"}, sig, "allocations made inside "
                                 "libvna still live after vnacal_new_free / "
                                 "vnacal_free (config %s)" % cfg, detail="".join(lines)))
    return issues


def write_table(path, rows):
    with open(path, "w") as fp:
        for r in rows:
            fp.write(row_line(r))


def rate_trace(ctx, trace_path, plan, rejected_cases):
    """One Obs per noisy / outlier scenario whose episode was validated, then
    the totals per type.  Pure re-formatting: the spec does the counting."""
    obs = []
    tot = {ty: [0, 0, 0, 0] for ty in CLASSES}
    for start, lines in vlib.split_episodes(trace_path):
        m = common.CASE_RE.search(lines[0]) if lines else None
        if not m or m.group(1) in rejected_cases:
            continue
        for ln in lines:
            if not ln.startswith('{"e":"Scn"'):
                continue
            ev = json.loads(ln)
            if ev["kind"] not in ("noisy", "outlier"):
                continue
            rej = 1 if ev["wret"] == -1 else 0
            obs.append({"e": "Obs", "ty": ev["cls"], "kind": ev["kind"],
                        "rej": rej, "case": m.group(1)})
            t = tot[ev["cls"]]
            if ev["kind"] == "noisy":
                t[0] += 1
                t[1] += rej
            else:
                t[2] += 1
                t[3] += rej
    path = os.path.join(ctx.work, "merror-rate.ndjson")
    with open(path, "w") as fp:
        fp.write(json.dumps({"e": "Reset", "mod": "MError",
                             "case": "rate:0:0"}) + "\n")
        for o in obs:
            fp.write(json.dumps(o) + "\n")
        for ty in CLASSES:
            if ty not in plan:
                continue
            t = tot[ty]
            fp.write(json.dumps({
                "e": "Agg", "ty": ty, "nn": t[0], "rn": t[1], "no": t[2],
                "ro": t[3], "minn": plan[ty][0] * 9 // 10,
                "mino": plan[ty][1] * 9 // 10}) + "\n")
        fp.write(json.dumps({"e": "End", "live": 0, "leaked": 0}) + "\n")
    return path, tot


def validate_rate(ctx, path):
    """The rate trace is one episode; every Agg is judged, so validate with
    each failing Agg removed in turn to report all types, not the first."""
    issues = []
    with open(path) as fp:
        lines = fp.readlines()
    for _ in range(len(CLASSES) + 1):
        p = os.path.join(ctx.work, "merror-rate-cur.ndjson")
        with open(p, "w") as fp:
            fp.writelines(lines)
        r = vlib.tlc_validate_trace("MErrorTrace.tla", "MErrorTrace.cfg", p,
                                    ctx.work)
        if r["accepted"]:
            break
        if r.get("error") and r["mismatch"] is None:
            ctx.machinery_errors.append("rate trace: " + r["out"][-2000:])
            break
        k = r["matched"]
        bad = lines[k] if k < len(lines) else ""
        res = {"failures": [{"lines": [lines[0], bad], "event": bad,
                             "mismatch": r["mismatch"],
                             "expected": r.get("expected")}]}
        issues += issues_from_validation(ctx, res, "rate aggregation")
        if not bad.startswith('{"e": "Agg"'):
            break
        del lines[k]
        # the End check wants every observed type aggregated: drop it too
        lines = [ln for ln in lines if not ln.startswith('{"e": "End"')]
    return issues


def run(ctx, exe, tier, seed, rows=None, picked=None, plan=None):
    """Returns (issues, stats)."""
    all_rows = table(ctx) if rows is None else rows
    if picked is None:
        picked, plan = sample(all_rows, tier, seed)
    tpath = os.path.join(ctx.work, "merror-rows.txt")
    write_table(tpath, picked)
    issues = []
    stats = {"table_rows": len(all_rows), "rows_run": len(picked)}
    cfg_by_case = {"run:%d:%d" % (seed, i): {k: r[k] for k in FIELDS}
                   for i, r in enumerate(picked)}
    tmpd = os.path.join(ctx.work, "tmp")
    os.makedirs(tmpd, exist_ok=True)
    env = {"SC_TIMEOUT": "60", "SC_TMP": tmpd}
    paths, crashes = common.run_sharded(
        exe, lambda a, b: ["run", tpath, str(seed), str(a), str(b)],
        len(picked), ctx.work, "merror", _case_index, env=env,
        nshards=min(vlib.NCPU, max(1, len(picked) // 8)))
    issues += issues_from_crashes(ctx, crashes, "table rows", cfg_by_case)
    stats["crashes"] = len(crashes)
    for p in paths:
        common.strip_crashed_episodes(p)
    tr = common.concat(paths, os.path.join(ctx.work, "merror-all.ndjson"))
    with open(tr) as fp:
        for i, line in enumerate(fp):
            if i in (1, 2):
                ctx.sample(json.loads(line))
            if i > 2:
                break
    issues += issues_from_leaks(ctx, tr)
    res = vlib.validate_sharded("MErrorTrace.tla", "MErrorTrace.cfg", tr,
                                ctx.work, max_failures=8)
    ctx.machinery_errors += res["errors"]
    issues += issues_from_validation(ctx, res, "table rows")
    rejected = set()
    for f in res["failures"]:
        m = common.CASE_RE.search(f["lines"][0])
        if m:
            rejected.add(m.group(1))
    stats["events"] = res["events"]
    stats["episodes"] = res["episodes"]
    stats["tlc_generated"] = res["generated"]
    stats["rejected_episodes"] = len(res["failures"])

    # rate clauses
    rpath, tot = rate_trace(ctx, tr, plan or {}, rejected)
    if plan:
        issues += validate_rate(ctx, rpath)
    stats["rates"] = {ty: {"noisy_n": t[0], "noisy_rejected": t[1],
                           "outlier_n": t[2], "outlier_rejected": t[3]}
                      for ty, t in tot.items()}
    with open(rpath) as fp:
        stats["rate_events"] = sum(1 for _ in fp)

    kinds = {}
    classes = set()
    distinct = set()
    with open(tr) as fp:
        cur = None
        for ln in fp:
            if ln.startswith('{"e":"Cfg"'):
                try:
                    cur = json.loads(ln)
                except ValueError:
                    cur = None
                if cur and "kind" in cur:
                    kinds[cur["kind"]] = kinds.get(cur["kind"], 0) + 1
                    classes.add(_cls(cur))
                    distinct.add(tuple(cur.get(k) for k in FIELDS))
    stats["kinds"] = kinds
    stats["config_classes"] = len(classes)
    stats["distinct_nontrivial"] = len(distinct)
    return issues, stats


def replay(ctx, exe, path):
    with open(path) as fp:
        text = fp.read()
    m = common.CASE_RE.search(text) or re.search(r"^case (\S+)", text, re.M)
    if not m:
        raise vlib.MachineryError("no case id in " + path)
    cid = m.group(1)
    kind, seed, row = cid.split(":")
    if kind == "rate":
        raise vlib.MachineryError(
            "a rate violation is an aggregate over all seeded scenarios: "
            "re-run the check with the same VERIF_SEED to reproduce it")
    seed, row = int(seed), int(row)
    cfg = None
    m2 = re.search(r'^\{"e":"Cfg".*$', text, re.M)
    if m2:
        cfg = json.loads(m2.group(0))
    else:
        m3 = re.search(r"^cfg (\{.*\})$", text, re.M)
        if m3:
            cfg = json.loads(m3.group(1))
    if not cfg:
        raise vlib.MachineryError("no configuration in " + path)
    cfg.setdefault("id", row)
    tpath = os.path.join(ctx.work, "replay-rows.txt")
    with open(tpath, "w") as fp:
        for i in range(row):
            fp.write("#\n")
        fp.write(row_line(cfg))
    tp = os.path.join(ctx.work, "replay.ndjson")
    open(tp, "w").close()
    crashes = common.run_cases(
        exe, lambda a, b: ["run", tpath, str(seed), str(row), str(row + 1)],
        0, 1, tp, lambda c: 0, max_crashes=1,
        env={"SC_TIMEOUT": "60", "SC_TMP": ctx.work})
    issues = issues_from_crashes(ctx, crashes, "replay", {cid: cfg})
    if not crashes:
        res = vlib.validate_sharded("MErrorTrace.tla", "MErrorTrace.cfg", tp,
                                    ctx.work, shards=1)
        ctx.machinery_errors += res["errors"]
        issues += issues_from_validation(ctx, res, "replay")
        issues += issues_from_leaks(ctx, tp)
    return issues
