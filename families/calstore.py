"""CalStore family: the vnacal_t container (parameter handles, calibration
slots, global / per-calibration properties, vnacal_new_t life cycle,
vnacal_free) against CalStore.tla.

  mc(ctx, tier)      exhaustive TLC runs of the design spec (CalStoreMC):
                     the bounded search and the single-worker non-vacuity run
  build(ctx)         driver executable
  run(ctx, exe, tier, seed, ...) -> (issues, stats)
                     bounded-exhaustive + random + bulk histories through the real
                     library, every call validated against CalStoreTrace
  replay(ctx, exe, path) -> issues

Issues carry the property ids they bear on (C16 handle/index semantics,
C11 refused calls / errno / callback protocol, C13 vnacal_property_*
document behaviour, C03 crashes and leaks) so that a later aggregate check
can reuse this module.
"""
import concurrent.futures
import json
import os
import re

import vlib
from families import common

SOURCES = ["drv_calstore.c", "vt.c", "vt_alloc.c"]
TRACE_SPEC = ("CalStoreTrace.tla", "CalStoreTrace.cfg")


def mc(ctx, tier):
    """Bounded search (8 workers) and non-vacuity run (1 worker, counters)
    side by side."""
    cfg = "CalStoreMC_quick.cfg" if tier == "quick" else "CalStoreMC_thorough.cfg"
    if os.environ.get("CALSTORE_SKIP_MC"):      # mutation runs of the library
        return None                              # do not re-check the design

    def search():
        return vlib.tlc_model_check("CalStoreMC.tla", cfg, ctx.work, workers=8,
                                    timeout=1500)

    def cover():
        return vlib.tlc_model_check("CalStoreMC.tla", "CalStoreMC_cover.cfg",
                                    ctx.work, workers=1, timeout=600)

    with concurrent.futures.ThreadPoolExecutor(2) as ex:
        f1 = ex.submit(search)
        f2 = ex.submit(cover)
        r1, r2 = f1.result(), f2.result()
    ctx.add_mc("CalStoreMC/" + cfg, r1)
    ctx.add_mc("CalStoreMC/CalStoreMC_cover.cfg", r2)
    return r1


def build(ctx):
    lib = vlib.build_lib("san")
    return vlib.build_driver("drv_calstore", SOURCES, lib, ctx.work,
                             wrap_alloc=True)


def _case_index(cid):
    return int(cid.split(":")[2])


# --------------------------------------------------------------------------
# classification of trace rejections
# --------------------------------------------------------------------------

def _argclass(ev):
    """normalised argument class of an event for signatures"""
    e = ev.get("e")
    if e == "Prop":
        p = "/".join(s["k"] for s in ev.get("path", []))
        return "%s(ci%s:%s)" % (ev.get("kind"), "-1" if ev.get("ci") == -1
                                else ">=0", p)
    if e == "Get":
        return str(ev.get("what"))
    if e == "AddStd":
        return "%s/ab%s" % (ev.get("shape"), ev.get("ab"))
    if e == "MakeCorrelated":
        return "ns%s/nullf%s/spos%s" % (min(ev.get("ns", 0), 2),
                                        ev.get("nullf"), ev.get("spos"))
    if e == "NewAlloc":
        return "%s/%sx%s/nf%s" % (ev.get("type"), ev.get("rows"),
                                   ev.get("cols"), ev.get("nf"))
    if e == "DeleteParameter":
        h = ev.get("h", 0)
        return "h<0" if h < 0 else "predef" if h < 3 else "user"
    return "-"


def _props_for(evname, field, ev):
    """which properties a rejection bears on"""
    props = {"C16"}
    refused = ev.get("ok") == 0
    if field in ("ok", "err", "cb") or refused:
        props.add("C11")
    if evname == "Prop" or field in ("obs.gprops",):
        props.add("C13")
    if field == "obs.slot" and evname == "Prop":
        props.add("C13")
    if field == "bound" and evname == "AddCalibration":
        props.add("C11")     # "indices returned on success are the ones
        #                       the query functions subsequently honour"
    if field in ("live", "left"):
        props = {"C03", "C16"}
    return props


def _named_in_refused_standard(f):
    """True if a handle that acquired a value in the rejected event (its
    probe row was all "F" before and is not any more) was named in a refused
    AddStd earlier in the episode."""
    idx = f["index"]
    if idx < 1 or idx >= len(f["lines"]):
        return False
    try:
        cur = json.loads(f["lines"][idx])
        prev = json.loads(f["lines"][idx - 1])
    except ValueError:
        return False

    def rows(ev):
        for o in ev.get("obs", []):
            if o.get("vc") == cur.get("vc"):
                return o.get("pv", [])
        return []

    before, after = rows(prev), rows(cur)
    gained = {h for h, row in enumerate(after)
              if h < len(before) and all(x == "F" for x in before[h])
              and any(x != "F" for x in row)}
    if not gained:
        return False
    for ln in f["lines"][:idx]:
        if not ln.startswith('{"e":"AddStd"'):
            continue
        try:
            e2 = json.loads(ln)
        except ValueError:
            continue
        if e2.get("ok") == 0 and e2.get("vc") == cur.get("vc") and \
                gained & set(e2.get("hs", [])):
            return True
    return False


def issues_from_validation(ctx, res, label):
    issues = []
    for f in res["failures"]:
        idx, evname, field = common.parse_mismatch(f["mismatch"])
        try:
            ev = json.loads(f["event"]) if f["event"] else {}
        except ValueError:
            ev = {}
        m = common.CASE_RE.search(f["lines"][0])
        case = m.group(1) if m else "?"
        if evname == "End" and field == "live":
            # name the leak by the non-silent calls that failed in the episode
            # (leaks on success paths give the empty list)
            made = set()
            for ln in f["lines"]:
                try:
                    e2 = json.loads(ln)
                except ValueError:
                    continue
                if e2.get("ok") == 0 and e2.get("e") not in (
                        "Get", "Prop", "FindCalibration", "DeleteCalibration"):
                    made.add("%s:%s" % (e2.get("e"), e2.get("err")))
            sig = "CalStore:End:live:" + ";".join(sorted(made))[:160]
            what = ("allocation made inside libvna still live after every "
                    "vnacal_t was freed (case %s, live=%s)" %
                    (case, ev.get("live")))
        else:
            sig = "CalStore:%s:%s:%s:ok%s:%s" % (
                ev.get("e", evname), field, _argclass(ev), ev.get("ok"),
                ev.get("err"))
            what = ("%s: recorded call not explained by CalStore at field "
                    "'%s' (case %s, event %s); spec expected %s" %
                    (label, field, case, f["event"].strip()[:400],
                     f.get("expected")))
        props = _props_for(evname, field, ev)
        if field == "obs.pv" and _named_in_refused_standard(f):
            # the handle whose value is wrong was named in a standard that
            # was refused earlier: "a rejected standard adds nothing" (C11)
            props.add("C11")
            sig += ":after-refused-AddStd"
        rp = ctx.save_replay("calstore-%s.ndjson" % common.sig_hash(sig),
                             "".join(f["lines"]))
        issues.append(vlib.Issue(props, sig, what, replay=rp,
                                 detail=f["mismatch"]))
    return issues


def issues_from_crashes(ctx, crashes, label):
    issues = []
    for c in crashes:
        s = vlib.sanitizer_signature(c["stderr"])
        if s is None:
            s = ("exit%d" % c["rc"], "?")
        if s[1] == "?" and s[0] != "leak" and "drv_calstore.c" in c["stderr"]:
            # no libvna frame: the driver itself is at fault
            ctx.machinery_errors.append(
                "drv_calstore crashed outside libvna in case %s: %s\n%s" %
                (c["case"], s[0], c["stderr"][:1500]))
            continue
        sig = "CalStore:crash:%s:%s" % s
        rp = ctx.save_replay("calstore-crash-%s.txt" % common.sig_hash(sig),
                             "case %s\nrc %s\n%s" % (c["case"], c["rc"],
                                                     c["stderr"]))
        issues.append(vlib.Issue({"C03", "C16"}, sig,
                                 "%s: driver process died in case %s: %s in %s"
                                 % (label, c["case"], s[0], s[1]), replay=rp))
    return issues


# --------------------------------------------------------------------------
# measured coverage
# --------------------------------------------------------------------------

_INTERESTING = ('{"e":"AddCalibration"', '{"e":"DeleteParameter"',
                '{"e":"DeleteCalibration"', '{"e":"Solve"')


def _nontrivial(lines):
    """non-trivial: at least one calibration was stored or one user handle
    deleted successfully"""
    for ln in lines:
        if ln.startswith(_INTERESTING[:3]) and '"ok":1' in ln[:400]:
            return True
    return False


_SOLVED_T = re.compile(r'"e":"GetParameterValue"[^{]*"val":"T"')


def _counters(path):
    """how often the clauses that need luck were actually exercised"""
    c = {"solve_ok": 0, "addcal_ok": 0, "addcal_replace": 0,
         "solved_unknown_true": 0, "deleted_held_used": 0, "refused_calls": 0,
         "silent_refused": 0, "multi_store_events": 0, "load_ok": 0,
         "rect_cal_stored": 0, "types_stored": set(), "aliased_calls": 0,
         "refused_state_dependent": 0}
    with open(path) as fp:
        names = {}
        deleted = set()
        shapes = {}
        for ln in fp:
            if ln.startswith('{"e":"Reset"'):
                names = {}
                deleted = set()
                shapes = {}
                continue
            try:
                ev = json.loads(ln)
            except ValueError:
                continue
            e = ev.get("e")
            ok = ev.get("ok")
            if ok == 0:
                c["refused_calls"] += 1
                if e in ("Get", "Prop", "FindCalibration", "DeleteCalibration"):
                    c["silent_refused"] += 1
            if len(ev.get("obs", [])) > 1:
                c["multi_store_events"] += 1
            if ev.get("alias") == 1 and ok == 1:
                c["aliased_calls"] += 1
            if e == "SetMError" and ev.get("cls") == "set" and ok == 0:
                c["refused_state_dependent"] += 1
            if e == "NewAlloc" and ok == 1:
                shapes[ev["n"]] = (ev["type"], ev["rows"], ev["cols"])
            if e == "AddCalibration" and ok == 1 and ev["n"] in shapes:
                t, r, cc = shapes[ev["n"]]
                c["types_stored"].add(t)
                if r != cc:
                    c["rect_cal_stored"] += 1
            if e == "Load" and ok == 1:
                c["load_ok"] += 1
            if e == "Solve" and ok == 1:
                c["solve_ok"] += 1
            elif e == "AddCalibration" and ok == 1:
                c["addcal_ok"] += 1
                key = (ev["vc"], ev["name"])
                if key in names:
                    c["addcal_replace"] += 1
                names[key] = ev["ci"]
            elif e == "DeleteCalibration" and ok == 1:
                for k in [k for k, v in names.items()
                          if k[0] == ev["vc"] and v == ev["ci"]]:
                    del names[k]
            elif e == "Free":
                for k in [k for k in names if k[0] == ev["vc"]]:
                    del names[k]
                deleted = {d for d in deleted if d[0] != ev["vc"]}
            elif e == "GetParameterValue" and ev.get("val") == "T":
                c["solved_unknown_true"] += 1
            elif e == "DeleteParameter" and ok == 1 and ev["h"] >= 3:
                deleted.add((ev["vc"], ev["h"]))
            elif e in ("MakeScalar", "MakeVector", "MakeUnknown",
                       "MakeCorrelated") and ok == 1:
                deleted.discard((ev["vc"], ev["h"]))
            elif e == "AddStd" and ok == 1:
                if any((ev["vc"], h) in deleted for h in ev.get("hs", [])):
                    c["deleted_held_used"] += 1
    return c


def _validate(ctx, tr, label, issues, stats):
    res = vlib.validate_sharded(TRACE_SPEC[0], TRACE_SPEC[1], tr, ctx.work,
                                shards=min(vlib.NCPU, 16), max_failures=6)
    ctx.machinery_errors += res["errors"]
    issues += issues_from_validation(ctx, res, label)
    stats["events"] += res["events"]
    stats["episodes"] += res["episodes"]
    stats["tlc_generated"] += res["generated"]
    stats["distinct_nontrivial"] += common.count_distinct_nontrivial(
        tr, _nontrivial)
    for k, v in _counters(tr).items():
        if isinstance(v, set):
            stats["counters"][k] = sorted(set(stats["counters"].get(k, [])) | v)
        else:
            stats["counters"][k] = stats["counters"].get(k, 0) + v


def run(ctx, exe, tier, seed, exh_depth=None, rand_cases=None, rand_len=None,
        bulk_cases=None):
    """Returns (issues, stats)."""
    if exh_depth is None:
        exh_depth = 2 if tier == "quick" else 3
    if rand_cases is None:
        rand_cases = 96 if tier == "quick" else 4000
    if rand_len is None:
        rand_len = 100
    issues = []
    stats = {"events": 0, "episodes": 0, "crashes": 0, "tlc_generated": 0,
             "distinct_nontrivial": 0, "counters": {}}

    rc, out, err = vlib.sh([exe, "count", str(exh_depth)])
    if rc != 0:
        raise vlib.MachineryError("drv_calstore count failed: " + err[-500:])
    total = int(out.strip())
    paths, crashes = common.run_sharded(
        exe, lambda a, b: ["exh", str(exh_depth), str(a), str(b)], total,
        ctx.work, "cs-exh", _case_index, nshards=vlib.NCPU)
    issues += issues_from_crashes(ctx, crashes, "exhaustive depth %d" % exh_depth)
    stats["crashes"] += len(crashes)
    for p in paths:
        common.strip_crashed_episodes(p)
    tr = common.concat(paths, os.path.join(ctx.work, "cs-exh-all.ndjson"))
    _validate(ctx, tr, "exhaustive depth %d" % exh_depth, issues, stats)
    stats["exh_cases"] = total
    stats["exh_depth"] = exh_depth

    paths, crashes = common.run_sharded(
        exe, lambda a, b: ["rand", str(seed), str(a), str(b), str(rand_len)],
        rand_cases, ctx.work, "cs-rand", _case_index, nshards=vlib.NCPU)
    issues += issues_from_crashes(ctx, crashes, "random histories")
    stats["crashes"] += len(crashes)
    for p in paths:
        common.strip_crashed_episodes(p)
    tr = common.concat(paths, os.path.join(ctx.work, "cs-rand-all.ndjson"))
    with open(tr) as fp:
        for i, line in enumerate(fp):
            if i in (2, 3):
                ev = json.loads(line)
                ev.pop("obs", None)
                ctx.sample(ev)
            if i > 3:
                break
    _validate(ctx, tr, "random histories", issues, stats)
    stats["rand_cases"] = rand_cases
    stats["rand_len"] = rand_len

    # bulk histories: 20-40 handles, one vnacal_new_t using 10-20 distinct
    # ones (its parameter table grows), deletion and re-use of held handles,
    # the same unknowns solved by two vnacal_new_t on different grids
    if bulk_cases is None:
        bulk_cases = 24 if tier == "quick" else 800
    paths, crashes = common.run_sharded(
        exe, lambda a, b: ["bulk", str(seed), str(a), str(b)],
        bulk_cases, ctx.work, "cs-bulk", _case_index,
        nshards=min(vlib.NCPU, bulk_cases))
    issues += issues_from_crashes(ctx, crashes, "bulk histories")
    stats["crashes"] += len(crashes)
    for p in paths:
        common.strip_crashed_episodes(p)
    tr = common.concat(paths, os.path.join(ctx.work, "cs-bulk-all.ndjson"))
    _validate(ctx, tr, "bulk histories", issues, stats)
    stats["bulk_cases"] = bulk_cases

    # state histories: refusals that depend on the state of the vnacal_new_t
    # (error model x incomplete S on T16 / U16, set_m_error after such a
    # standard, clear / set again), aliased string arguments
    state_cases = 32 if tier == "quick" else 600
    paths, crashes = common.run_sharded(
        exe, lambda a, b: ["state", str(seed), str(a), str(b)], state_cases,
        ctx.work, "cs-state", _case_index, nshards=vlib.NCPU)
    issues += issues_from_crashes(ctx, crashes, "state histories")
    stats["crashes"] += len(crashes)
    for p in paths:
        common.strip_crashed_episodes(p)
    tr = common.concat(paths, os.path.join(ctx.work, "cs-state-all.ndjson"))
    _validate(ctx, tr, "state histories", issues, stats)
    stats["state_cases"] = state_cases

    # shape histories: every type on square and rectangular dimensions with
    # 1..3 frequencies and complex z0, every accessor read explicitly
    paths, crashes = common.run_sharded(
        exe, lambda a, b: ["shapes", str(a), str(b)], 120, ctx.work,
        "cs-shapes", _case_index, nshards=vlib.NCPU)
    issues += issues_from_crashes(ctx, crashes, "shape histories")
    stats["crashes"] += len(crashes)
    for p in paths:
        common.strip_crashed_episodes(p)
    tr = common.concat(paths, os.path.join(ctx.work, "cs-shapes-all.ndjson"))
    _validate(ctx, tr, "shape histories", issues, stats)
    stats["shape_cases"] = 120

    # the clauses that depend on the histories reaching certain situations
    # must not be vacuous on the implementation side either
    need = ["solve_ok", "addcal_ok", "addcal_replace", "solved_unknown_true",
            "deleted_held_used", "silent_refused", "load_ok",
            "multi_store_events", "rect_cal_stored", "aliased_calls",
            "refused_state_dependent"]
    if not stats["crashes"]:
        for k in need:
            if stats["counters"].get(k, 0) == 0:
                ctx.machinery_errors.append(
                    "CalStore histories never reached situation '%s' "
                    "(vacuous coverage)" % k)
    return issues, stats


def replay(ctx, exe, path):
    with open(path) as fp:
        first = fp.readline()
    m = common.CASE_RE.search(first)
    if m:
        cid = m.group(1)
    elif first.startswith("case "):
        cid = first.split()[1]
    else:
        raise vlib.MachineryError("no case id in " + path)
    parts = cid.split(":")
    if parts[0] == "exh":
        args = ["exh", parts[1], parts[2], str(int(parts[2]) + 1)]
    elif parts[0] in ("bulk", "state"):
        args = [parts[0], parts[1], parts[2], str(int(parts[2]) + 1)]
    elif parts[0] == "shapes":
        args = ["shapes", parts[2], str(int(parts[2]) + 1)]
    else:
        args = ["rand", parts[1], parts[2], str(int(parts[2]) + 1), parts[3]]
    tp = os.path.join(ctx.work, "replay.ndjson")
    open(tp, "w").close()
    crashes = common.run_cases(exe, lambda a, b: args, 0, 1, tp,
                               lambda c: 0, max_crashes=1)
    issues = issues_from_crashes(ctx, crashes, "replay")
    if not crashes:
        res = vlib.validate_sharded(TRACE_SPEC[0], TRACE_SPEC[1], tp, ctx.work,
                                    shards=1)
        ctx.machinery_errors += res["errors"]
        issues += issues_from_validation(ctx, res, "replay")
    return issues
