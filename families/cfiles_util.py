"""Helpers shared by the propyaml / calfile / loadfuzz families.

Load-proof execution: the driver work is cut into rounds of small shards so
that one process never has much to do, the wall-clock limit of a process is
far above (>= 100 x) what its share takes on an idle box, and a process that
nevertheless exceeds it is a MACHINERY ERROR (exit 2), never a violation:
wall-clock time says nothing about the library on a machine whose load we do
not control.  Only drv_loadfuzz's CPU-time watchdog may report a hang.
"""
import os

import vlib
from families import common

# wall-clock limit of one driver process; its share of the work (<= PER_SHARD
# cases) takes seconds on an idle machine
WALL_LIMIT = int(os.environ.get("VERIF_WALL_LIMIT", "7200"))


def run_rounds(exe, mkargs, total, workdir, name, case_index, per_shard,
               env=None, nshards=None, timeout=WALL_LIMIT):
    """Like common.run_sharded, but in successive rounds of nshards
    processes with at most per_shard cases each.  Returns (paths, crashes)."""
    nshards = nshards or vlib.NCPU
    per_round = max(1, per_shard) * nshards
    paths, crashes = [], []
    lo = 0
    rnd = 0
    while lo < total:
        n = min(per_round, total - lo)

        def mk(a, b, lo=lo):
            return mkargs(a + lo, b + lo)

        def idx(cid, lo=lo):
            return case_index(cid) - lo

        p, c = common.run_sharded(exe, mk, n, workdir, "%s-r%d" % (name, rnd),
                                  idx, nshards=min(nshards, n), timeout=timeout,
                                  env=env)
        paths += p
        crashes += c
        lo += n
        rnd += 1
    return paths, crashes


def split_timeouts(ctx, crashes, label):
    """Driver processes killed by the wall-clock limit (rc -9) become
    machinery errors; the remaining crash records are returned."""
    rest = []
    for c in crashes:
        if c["rc"] == -9:
            ctx.machinery_errors.append(
                "%s: a driver process exceeded the wall-clock limit of %d s "
                "(last case %s): machine overloaded or driver stuck -- no "
                "verdict is derived from wall-clock time" %
                (label, WALL_LIMIT, c["case"]))
        else:
            rest.append(c)
    return rest
