"""FileFmt family, vnadata part: vnadata_cksave / save / fsave / load / fload
against FileFmt.tla (C06) and equivalent spellings (C08).

  mc(ctx, tier)        TLC: exhaustive check of the save-acceptance rules over
                       the configuration product + export of the table
  build(ctx)           compile harness/drv_vfiles.c against the current tree
  run_c06(ctx, ...)    replay (a sample of / all of) the table through the
                       real library, run the independent readers, validate
                       every recorded call against FileFmtTrace
  replay(ctx, exe, f)  re-execute one recorded case and validate it alone
"""
import concurrent.futures
import json
import os
import random
import re
import sys

import vlib
from families import common

HARNESS = os.path.join(vlib.VERIF, "harness")
if HARNESS not in sys.path:
    sys.path.insert(0, HARNESS)

SOURCES = ["drv_vfiles.c", "vt.c", "vt_alloc.c"]
PRECS = ["1", "2", "3", "6", "9", "15", "17", "MAX"]
MAGS = [-12, 0, 12]


def mc(ctx, tier):
    """model-check FileFmtMC; returns (tlc result, table)"""
    cfg = "FileFmtMC_quick.cfg" if tier == "quick" else "FileFmtMC_thorough.cfg"
    table = os.path.join(ctx.work, "vfiles-table.json")
    r = vlib.tlc_model_check("FileFmtMC.tla", cfg, ctx.work, workers=8,
                             timeout=1500, env={"VFILES_TABLE": table})
    ctx.add_mc("FileFmtMC/" + cfg, r)
    with open(table) as fp:
        t = json.load(fp)
    if r["distinct"] != len(t["rows"]):
        raise vlib.MachineryError("FileFmtMC: %d states but %d table rows" %
                                  (r["distinct"], len(t["rows"])))
    return r, t


def build(ctx):
    lib = vlib.build_lib("san")
    return vlib.build_driver("drv_vfiles", SOURCES, lib, ctx.work,
                             wrap_alloc=True)


# --------------------------------------------------------------------------
# case selection
# --------------------------------------------------------------------------

def _case_line(row, fmts, prec, mag, nf, fprec, twin):
    typ, rows, cols, ext, fset, fid, z0c = row[:7]
    names = fmts[fid]
    return "%s %d %d %d %s %s %s %s %s %d %s %d %s" % (
        typ, rows, cols, nf, ext, fset, ",".join(names) if names else "-",
        z0c, prec, mag, fprec, twin, "".join(str(b) for b in row[9]))


def make_cases(table, tier, seed, path, quick_n=4200):
    """Write the case file.  quick: a stratified seeded sample of the table;
    thorough: every row once (precision / magnitude / frequency count drawn
    per row) plus every accepted row under a second precision."""
    rng = random.Random(seed)
    rows = table["rows"]
    fmts = table["fmts"]
    chosen = []
    if tier == "quick":
        strata = {}
        for i, r in enumerate(rows):
            strata.setdefault((r[7], r[8]), []).append(i)
        quota = {("refuse", "none"): int(quick_n * 0.27),
                 ("either", "none"): int(quick_n * 0.03),
                 ("accept", "ts1"): int(quick_n * 0.12),
                 ("accept", "ts2"): int(quick_n * 0.16),
                 ("accept", "npd"): int(quick_n * 0.42)}
        for key, idxs in sorted(strata.items()):
            k = min(len(idxs), quota.get(key, 50))
            chosen += rng.sample(idxs, k)
        chosen.sort()
        plan = [(i, None) for i in chosen]
        # histories the sample must not miss: file type fixed to Touchstone 1,
        # saved under *.ts, promoted to version 2 (always on twin objects)
        promo = [i for i, r in enumerate(rows)
                 if r[3] == "ts" and r[4] == "ts1" and r[8] == "ts2"]
        two = [i for i in promo if rows[i][2] == 2]
        plan += [(i, "promo") for i in rng.sample(two, min(len(two), 40))]
        plan += [(i, "promo") for i in rng.sample(promo, min(len(promo), 30))]
        # impedance equality patterns other than all-equal / all-distinct
        # (block C of the table): accepted ones with >= 3 ports first
        def odd(r):
            q = r[9]
            return len(set(q)) not in (1, len(q))
        pat = [i for i, r in enumerate(rows) if odd(r) and r[7] == "accept"]
        pts = [i for i in pat if rows[i][8] in ("ts1", "ts2")]
        plan += [(i, "pat") for i in rng.sample(pts, min(len(pts), 160))]
        plan += [(i, "pat") for i in rng.sample(pat, min(len(pat), 120))]
    else:
        plan = [(i, None) for i in range(len(rows))]
        plan += [(i, "second") for i, r in enumerate(rows) if r[7] == "accept"]
    n = 0
    counter = 0
    with open(path, "w") as fp:
        for i, tag in plan:
            r = rows[i]
            if r[7] == "accept":
                # walk precision x magnitude systematically over accepted rows
                prec = PRECS[counter % len(PRECS)]
                mag = MAGS[(counter // len(PRECS)) % len(MAGS)]
                counter += 1 if tag is None else 5
            else:
                prec = rng.choice(PRECS)
                mag = rng.choice(MAGS)
            names = fmts[r[5]]
            if r[7] == "accept" and mag != 0 and rng.random() < 0.7 and any(
                    not nm.startswith(r[0]) or nm.lower().startswith("zin") !=
                    (r[0] == "Zin") for nm in names):
                mag = 0      # converted parameters are compared at moderate scale only
            nf = rng.choice((1, 2, 3, 3))
            if r[7] == "either" and rng.random() < 0.5 and r[0] != "undef":
                nf = 0
            if r[0] != "undef" and rng.random() < 0.004:
                nf = 0
            # frequency and data precision vary independently (7 = the
            # default fprecision); in half of the cases cksave, save and
            # fsave each get their own, identically built object
            u = rng.random()
            if u < 0.35:
                fprec = prec
            elif u < 0.5:
                fprec = "7"
            else:
                fprec = rng.choice(PRECS)
            twin = 1 if tag == "promo" else rng.randrange(2)
            fp.write(_case_line(r, fmts, prec, mag, nf, fprec, twin) + "\n")
            n += 1
    return n


def _case_index(cid):
    return int(cid.split(":")[2])


# --------------------------------------------------------------------------
# issues
# --------------------------------------------------------------------------

_WHY_RE = re.compile(r'why \|-> "([^"]*)"')
_FT_RE = re.compile(r'ft \|-> "([^"]*)"')


def _case_fields(lines):
    m = common.CASE_RE.search(lines[0]) if lines else None
    if not m:
        return None
    p = m.group(1).split(":")
    if len(p) != 16:
        return None
    return {"id": m.group(1), "type": p[3], "rows": int(p[4]), "cols": int(p[5]),
            "nf": int(p[6]), "ext": p[7], "set": p[8], "fmt": p[9],
            "z0c": p[10], "prec": p[11], "mag": p[12], "fprec": p[13],
            "twin": p[14], "z0p": p[15]}


def _prec_class(p):
    if p == "MAX":
        return "MAX"
    return "p<=6" if int(p) <= 6 else "p>=9"


def _fmt_class(cf):
    """coarse shape of the format list relative to the object's type"""
    if cf["fmt"] == "-":
        return "default"
    out = []
    for name in cf["fmt"].split(","):
        u = name.upper()
        if u in ("IL", "RL", "VSWR", "PRC", "PRL", "SRC", "SRL"):
            out.append(u)
        else:
            p, f = name[:-2], name[-2:].lower()
            out.append(("=" if p == cf["type"] else p) + f)
    uniq = []
    for x in out:
        if x not in uniq:
            uniq.append(x)
    return "+".join(uniq[:4]) + ("+.." if len(uniq) > 4 else "")


def _ports_class(n):
    return {1: "1p", 2: "2p"}.get(n, "3-4p" if n <= 4 else "5+p")


def issues_from_validation(ctx, res, label, prop="C06"):
    issues = []
    per_group = {}
    dropped = {}
    for f in res["failures"]:
        idx, evname, field = common.parse_mismatch(f["mismatch"])
        cf = _case_fields(f["lines"])
        try:
            ev = json.loads(f["event"]) if f["event"] else {}
        except ValueError:
            ev = {}
        exp = f.get("expected") or ""
        props = {prop}
        if cf is None:
            sig = "FileFmt:%s:%s:?" % (evname, field)
            what = "%s: %s" % (label, (f["event"] or "")[:300])
        elif evname == "End":
            sig = "FileFmt:End:live:%s" % _fmt_class(cf)
            props = {"C03"}
            what = ("allocation made inside libvna still live after "
                    "vnadata_free (case %s)" % cf["id"])
        elif evname == "Save3":
            why = _WHY_RE.search(exp)
            ft = _FT_RE.search(exp)
            sig = "FileFmt:Save3:%s:%s:%s" % (
                field, why.group(1) if why else "?", ft.group(1) if ft else "?")
            if field == "cksaveVsSave" or field == "fsaveVsSave":
                sig += ":%s:%s%s" % (_fmt_class(cf), cf["type"],
                                     _ports_class(cf["cols"]))
            if "Refuses" in field or field.endswith("Err") or field.startswith("cbOn"):
                props.add("C11")
            what = ("%s: cksave/save/fsave outcome not explained by "
                    "FileFmt!SaveVerdict at '%s' (case %s): ck=%s sv=%s fs=%s; "
                    "spec: %s" % (label, field, cf["id"],
                                  json.dumps(ev.get("ck")), json.dumps(ev.get("sv")),
                                  json.dumps(ev.get("fs")), exp[:200]))
        elif evname == "SetFormat":
            sig = "FileFmt:SetFormat:%s:%s" % (field, _fmt_class(cf))
            props.add("C11")
            what = "%s: vnadata_set_format(%s): %s" % (label, cf["fmt"],
                                                        (f["event"] or "")[:200])
        elif evname == "Read":
            det = ev.get("bad") or ev.get("why") or ""
            sig = "FileFmt:Read:%s:%s:%s" % (field, ev.get("ft"), det or
                                             _fmt_class(cf))
            if field in ("valsOK", "z0OK", "freqOK") and cf["mag"] != "0":
                sig += ":extreme-magnitude"
            what = ("%s: the file written by vnadata_save, read by the "
                    "independent reader, does not denote the object at '%s' "
                    "(case %s): %s" % (label, field, cf["id"],
                                       (f["event"] or "").strip()[:300]))
        elif evname in ("Load", "FLoad") and field in ("cbOnSuccess",
                                                       "cbOnFailure"):
            props.add("C11")
            sig = "FileFmt:Load:%s:%s:%s:%s" % (
                field, ev.get("err"), ev.get("msg"),
                "+".join(x.get("cat", "?") for x in ev.get("cb", [])))
            what = ("%s: vnadata_%s broke the error-reporting protocol of "
                    "vnaerr(3) (%s) (case %s): %s" %
                    (label, evname.lower(), field, cf["id"],
                     (f["event"] or "").strip()[:300]))
        elif evname in ("Load", "FLoad"):
            forms = _fmt_class(cf)
            loadable = any(x not in ("IL", "RL", "VSWR") for x in forms.split("+"))
            sig = "FileFmt:%s:%s:%s:%s" % (
                "Load", field, ev.get("ftAfter"),
                (forms + ":" + _ports_class(cf["cols"])) if loadable
                else "no-complex-parameter")
            what = ("%s: vnadata_%s of the file vnadata_save wrote: '%s' not as "
                    "FileFmt requires (case %s): %s; spec: %s" %
                    (label, evname.lower(), field, cf["id"],
                     (f["event"] or "").strip()[:300], exp[:120]))
        elif evname == "LoadCmp":
            sig = "FileFmt:LoadCmp:%s:%s:%s%s" % (
                field, cf["ext"], "+".join(_fmt_class(cf).split("+")[:2]),
                ":extreme-magnitude" if cf["mag"] != "0" else "")
            what = ("%s: object produced by vnadata_load differs from the "
                    "file / the original at '%s' (case %s): %s" %
                    (label, field, cf["id"], (f["event"] or "").strip()[:300]))
        else:
            sig = "FileFmt:%s:%s:%s" % (evname, field, _fmt_class(cf))
            what = "%s: %s" % (label, (f["event"] or "")[:300])
        group = (evname, field)
        seen = per_group.setdefault(group, {})
        if sig not in seen:
            if len(seen) >= MAX_SIGS_PER_FIELD:
                dropped[group] = dropped.get(group, 0) + 1
                continue
            seen[sig] = True
        else:
            continue
        rp = ctx.save_replay("vfiles-%s.ndjson" % common.sig_hash(sig),
                             "".join(f["lines"]))
        issues.append(vlib.Issue(props, sig, what, replay=rp,
                                 detail=f["mismatch"]))
    for group, n in dropped.items():
        print("note: %d further failing episode(s) at %s/%s with other "
              "signatures not listed individually" % (n, group[0], group[1]))
    return issues


MAX_SIGS_PER_FIELD = 6


def issues_from_crashes(ctx, crashes, label, prop="C06"):
    issues = []
    for c in crashes:
        s = vlib.sanitizer_signature(c["stderr"])
        if s is None:
            s = ("exit%d" % c["rc"], "?")
        sig = "FileFmt:crash:%s:%s" % s
        rp = ctx.save_replay("vfiles-crash-%s.txt" % common.sig_hash(sig),
                             "case %s\nrc %s\n%s" % (c["case"], c["rc"],
                                                     c["stderr"]))
        issues.append(vlib.Issue({"C03", prop}, sig,
                                 "%s: driver process died in case %s: %s in %s"
                                 % (label, c["case"], s[0], s[1]), replay=rp))
    return issues


# --------------------------------------------------------------------------
# monitor-style trace validation
# --------------------------------------------------------------------------
# FileFmtTrace / FileFmtSpellTrace do not block on an unexplained event:
# they print it (MISMATCH / EXPECTED) and go on, so that a single TLC run
# reports every unexplained event of a shard.  A trace is accepted iff TLC
# consumed every line (POSTCONDITION) and printed no MISMATCH.  Episodes with
# a mismatch are validated once more on their own before they are reported
# (a rejection is reported only if it repeats).

_MM_RE = re.compile(r'<<"MISMATCH", (\d+), "([^"]*)", "([^"]*)">>')
_STOP_RE = re.compile(r'\n(?=<<\s*"MISMATCH"|Model checking|Finished|Progress|'
                      r'Error|The |\d+ states|Checking|Computing)')


def _parse_mismatches(out):
    res = []
    seen = set()
    for m in _MM_RE.finditer(out):
        l, ev, field = int(m.group(1)), m.group(2), m.group(3)
        if (l, field) in seen:
            continue
        seen.add((l, field))
        rest = out[m.end():]
        exp = ""
        em = re.match(r'\s*<<\s*"EXPECTED",\s*', rest)
        if em:
            body = rest[em.end():]
            stop = _STOP_RE.search(body)
            body = body[:stop.start()] if stop else body
            body = body.rstrip()
            if body.endswith(">>"):
                body = body[:-2]
            exp = re.sub(r"\s+", " ", body)[:600]
        res.append((l, ev, field, exp))
    return res


def _monitor_run(module, cfg, path, workdir, timeout):
    """one TLC run over a trace file.  Returns (complete, stuck_at,
    mismatches, generated, out): complete = every line consumed; stuck_at =
    0-based index of the first line no action matches (or None)."""
    with open(path) as fp:
        total = sum(1 for _ in fp)
    r = vlib.tlc(module, cfg, workdir, env={"TRACE": path}, workers=1,
                 timeout=timeout, heap="3g")
    out = r["out"]
    done = (r["rc"] == 0 and
            "Model checking completed. No error has been found" in out)
    mm = _parse_mismatches(out)
    stuck = None
    if not done:
        if r["depth"] >= 1 and ("ostcondition" in out or r["rc"] in (10, 12, 13)):
            stuck = r["depth"] - 1
        else:
            return (False, -1, mm, r["generated"], out)
    return (done, stuck, mm, r["generated"], out)


def validate_monitor(module, cfg, trace_path, workdir, shards=None,
                     timeout=3000):
    """Same result shape as vlib.validate_sharded."""
    eps = vlib.split_episodes(trace_path)
    result = {"events": sum(len(e[1]) for e in eps), "episodes": len(eps),
              "failures": [], "errors": [], "generated": 0}
    if not eps:
        return result
    shards = shards or min(vlib.NCPU, max(1, len(eps) // 150 + 1))
    shards = max(1, min(shards, len(eps)))
    bounds = [(len(eps) * i // shards, len(eps) * (i + 1) // shards)
              for i in range(shards)]

    def scan(group, tag):
        """returns (suspects [(episode index in group, idx, ev, field, exp)],
        errors, generated)"""
        suspects, errors, gen = [], [], 0
        base = 0
        rounds = 0
        while base < len(group) and rounds < 40:
            rounds += 1
            p = os.path.join(workdir, "mon-%s-%d.ndjson" % (tag, rounds))
            offs = []
            with open(p, "w") as fp:
                n = 0
                for _, lines in group[base:]:
                    offs.append(n)
                    fp.writelines(lines)
                    n += len(lines)
            done, stuck, mm, g, out = _monitor_run(module, cfg, p, workdir,
                                                   timeout)
            gen += g
            os.unlink(p)
            if stuck == -1:
                errors.append(out[-3000:])
                break

            def locate(line0):
                k = 0
                while k + 1 < len(offs) and offs[k + 1] <= line0:
                    k += 1
                return k
            firsts = {}
            for (l, ev, field, exp) in mm:
                k = locate(l - 1)
                if k not in firsts:
                    firsts[k] = (base + k, l - 1 - offs[k], ev, field, exp)
            if done:
                suspects += [firsts[k] for k in sorted(firsts)]
                break
            k = locate(stuck)
            suspects += [firsts[j] for j in sorted(firsts) if j < k]
            ln = group[base + k][1]
            idx = stuck - offs[k]
            try:
                evn = json.loads(ln[idx]).get("e", "?") if idx < len(ln) else "?"
            except ValueError:
                evn = "?"
            suspects.append((base + k, idx, evn, "shape",
                             "no action of the trace spec matches this event "
                             "here"))
            base = base + k + 1
        return suspects, errors, gen

    def work(i):
        lo, hi = bounds[i]
        return scan(eps[lo:hi], "s%d" % i), lo

    suspects = []
    with concurrent.futures.ThreadPoolExecutor(shards) as ex:
        for (sus, errs, gen), lo in ex.map(work, range(shards)):
            result["errors"] += errs
            result["generated"] += gen
            suspects += [(lo + k, idx, ev, field, exp)
                         for (k, idx, ev, field, exp) in sus]
    if not suspects:
        return result
    # confirmation: the suspect episodes on their own, in one more pass
    sus_eps = [eps[k] for (k, _, _, _, _) in suspects]
    confirmed, errs, gen = scan(sus_eps, "confirm")
    result["generated"] += gen
    result["errors"] += errs
    conf = {k: (idx, ev, field, exp) for (k, idx, ev, field, exp) in confirmed}
    for j, (k, idx, ev, field, exp) in enumerate(suspects):
        if j not in conf:
            result["errors"].append("episode at line %d rejected in its shard "
                                    "but accepted alone: not reported" %
                                    eps[k][0])
            continue
        idx, ev, field, exp = conf[j]
        start, lines = eps[k]
        result["failures"].append({
            "lines": lines, "index": idx,
            "event": lines[idx] if idx < len(lines) else "",
            "mismatch": '%d, "%s", "%s"' % (idx, ev, field),
            "expected": exp, "start": start, "out": ""})
    return result


# --------------------------------------------------------------------------
# running
# --------------------------------------------------------------------------

def _oracle_one(args):
    src, dst = args
    import vfiles_oracle
    return vfiles_oracle.process_c06(src, dst)


def _oracle(paths, workdir):
    """run the numeric oracle over the shard traces in parallel processes"""
    jobs = [(p, p + ".obs") for p in paths]
    stats = {"files": 0, "unqualified": 0, "loads": 0, "margins": {}}
    with concurrent.futures.ProcessPoolExecutor(min(vlib.NCPU, len(jobs))) as ex:
        for st in ex.map(_oracle_one, jobs):
            for k in ("files", "unqualified", "loads"):
                stats[k] += st[k]
            for k, v in st["margins"].items():
                stats["margins"][k] = max(stats["margins"].get(k, 0.0), v)
    return [j[1] for j in jobs], stats


def _clean_replays(prop):
    """replay artefacts of earlier runs of this family are stale"""
    d = os.path.join(vlib.VERIF, "replay", prop)
    if os.path.isdir(d):
        for f in os.listdir(d):
            if f.startswith("vfiles-"):
                os.unlink(os.path.join(d, f))


def _nontrivial_c06(lines):
    """an episode is non-trivial if a file was written and loaded back"""
    return any(ln.startswith('{"e":"LoadCmp"') for ln in lines)


def run_c06(ctx, exe, table, tier, seed):
    issues = []
    _clean_replays(ctx.prop)
    casefile = os.path.join(ctx.work, "c06-cases.txt")
    total = make_cases(table, tier, seed, casefile)
    tmp = os.path.join(ctx.work, "tmpfiles")
    os.makedirs(tmp, exist_ok=True)
    paths, crashes = common.run_sharded(
        exe, lambda a, b: ["c06", casefile, str(seed), str(a), str(b)], total,
        ctx.work, "c06", _case_index, nshards=vlib.NCPU,
        timeout=3000, env={"VFILES_TMP": tmp})
    issues += issues_from_crashes(ctx, crashes, "save/load replay")
    for p in paths:
        common.strip_crashed_episodes(p)
    obs, ostats = _oracle(paths, ctx.work)
    tr = common.concat(obs, os.path.join(ctx.work, "c06-all.ndjson"))
    for p in paths + obs:
        os.unlink(p)
    with open(tr) as fp:
        for i, line in enumerate(fp):
            if line.startswith('{"e":"Save3"') and '"sv":{"ok":1' in line:
                ctx.sample(json.loads(line))
                break
    res = validate_monitor("FileFmtTrace.tla", "FileFmtTrace.cfg", tr,
                           ctx.work, timeout=3000)
    ctx.machinery_errors += res["errors"]
    issues += issues_from_validation(ctx, res, "save/load replay")
    stats = {"cases": total, "events": res["events"], "episodes": res["episodes"],
             "crashes": len(crashes), "tlc_generated": res["generated"],
             "files_read": ostats["files"], "loads_compared": ostats["loads"],
             "unqualified_conversions": ostats["unqualified"],
             "worst_error_over_tolerance": ostats["margins"],
             "distinct_nontrivial": common.count_distinct_nontrivial(
                 tr, _nontrivial_c06)}
    return issues, stats


def replay(ctx, exe, path, prop="C06"):
    with open(path) as fp:
        first = fp.readline()
    m = common.CASE_RE.search(first)
    if m:
        cid = m.group(1)
    elif first.startswith("case "):
        cid = first.split()[1]
    else:
        raise vlib.MachineryError("no case id in " + path)
    tp = os.path.join(ctx.work, "replay.ndjson")
    open(tp, "w").close()
    tmp = os.path.join(ctx.work, "tmpfiles")
    os.makedirs(tmp, exist_ok=True)
    kind = cid.split(":")[0]
    if kind in ("fmt", "stick"):
        parts = cid.split(":")
        tier = parts[3] if len(parts) > 3 else "quick"
        issues, _ = run_ext(ctx, exe, tier, int(parts[1]), prop,
                            only=(kind, int(parts[2])))
        return issues
    args = [kind + "id", cid]
    crashes = common.run_cases(exe, lambda a, b: args, 0, 1, tp, lambda c: 0,
                               max_crashes=1, env={"VFILES_TMP": tmp})
    issues = issues_from_crashes(ctx, crashes, "replay", prop)
    if not crashes:
        import vfiles_oracle
        if kind == "c06":
            vfiles_oracle.process_c06(tp, tp + ".obs")
            res = validate_monitor("FileFmtTrace.tla", "FileFmtTrace.cfg",
                                   tp + ".obs", ctx.work, shards=1)
            ctx.machinery_errors += res["errors"]
            issues += issues_from_validation(ctx, res, "replay", prop)
    return issues


# --------------------------------------------------------------------------
# C08: equivalent spellings
# --------------------------------------------------------------------------

def mc_spell(ctx, tier):
    cfg = ("FileFmtSpellMC_quick.cfg" if tier == "quick"
           else "FileFmtSpellMC_thorough.cfg")
    table = os.path.join(ctx.work, "vfiles-spell.json")
    r = vlib.tlc_model_check("FileFmtSpellMC.tla", cfg, ctx.work, workers=8,
                             timeout=1500, env={"VFILES_SPELL_TABLE": table})
    ctx.add_mc("FileFmtSpellMC/" + cfg, r)
    with open(table) as fp:
        t = json.load(fp)
    if r["distinct"] != len(t):
        raise vlib.MachineryError("FileFmtSpellMC: %d states but %d classes" %
                                  (r["distinct"], len(t)))
    return r, t


def choose_pairs(table, tier, seed, quick_n=1300):
    """(class index, variant index) pairs.  quick: a seeded sample that
    contains every value of every spelling dimension at least 12 times;
    thorough: every variant of every class."""
    allp = [(ci, vi) for ci, rec in enumerate(table)
            for vi in range(len(rec["variants"]))]
    if tier != "quick":
        return allp
    rng = random.Random(seed)
    rng.shuffle(allp)
    dims = ("fr", "unit", "fmt", "mf", "ord", "deco", "num", "lb", "acc", "ref",
            "mfx", "noise", "tol")
    need = {}
    chosen = []
    rest = []
    for (ci, vi) in allp:
        v = table[ci]["variants"][vi]
        if table[ci]["kind"] == "npd":
            keys = [("n" + d, str(v[d])) for d in ("fmt", "names", "deco", "num",
                                                   "acc")]
            keys.append(("norder", ",".join(v["order"])))
        else:
            keys = [(d, str(v[d])) for d in dims] + [
                ("perm", ",".join(v["perm"])), ("omit", ",".join(v["omit"])),
                ("kwp", v["kwp"][0] + v["fr"])]
        if any(need.get(k, 0) < 12 for k in keys):
            for k in keys:
                need[k] = need.get(k, 0) + 1
            chosen.append((ci, vi))
        else:
            rest.append((ci, vi))
    chosen += rest[:max(0, quick_n - len(chosen))]
    chosen.sort()
    return chosen


def _gen_pair(args):
    idx, ci, vi, kind, cls, base, var, seed, outdir, preludes = args
    import tsgen
    cseed = (seed * 1000003 + ci) & 0x7fffffff
    if kind == "npd":
        content = tsgen.make_npd_content(cls, cseed)
    else:
        content = tsgen.make_content(cls, cseed)
    side = {"cls": cls, "seed": cseed, "ci": ci, "vi": vi, "kind": kind}
    fields = [str(idx), str(ci), str(vi)]
    for which, sp in (("a", base), ("b", var)):
        rseed = (seed * 31 + ci) * 1009 + vi * 2 + (which == "b")
        if kind == "npd":
            data = tsgen.render_npd(content, sp, rseed)
            meta = {}
            suf, namesuf, fset, meth = tsgen.npd_access_plan(sp)
        else:
            data, meta = tsgen.render_touchstone(content, sp, rseed)
            suf, namesuf, fset, meth = tsgen.access_plan(content, sp)
        path = os.path.join(outdir, "p%d%s%s" % (idx, which, suf))
        with open(path, "wb") as fp:
            fp.write(data)
        side[which] = {"s": sp, "gen": meta, "path": path}
        fields += [path, path, fset, meth]
    # the chain: one object loads a file of another kind first, then both
    # spellings (order alternates)
    h = (seed * 7 + ci * 13 + vi) % 6
    if kind == "npd":
        pre = "ts1" if h % 2 == 0 else "ts2"
    elif h % 3 == 2:
        pre = "ts2" if base["fr"] == "v1" else "ts1"
    else:
        pre = "npd"
    side["prelude"] = pre
    fields += ["ab" if h < 3 else "ba", preludes[pre]]
    return idx, " ".join(fields), side


def gen_pairs(table, pairs, seed, outdir):
    os.makedirs(outdir, exist_ok=True)
    # prelude files: some 2-port S content as NPD / Touchstone 1 / Touchstone 2
    _stick_files(outdir, seed)
    preludes = {"npd": os.path.join(outdir, "k_npd.npd"),
                "ts1": os.path.join(outdir, "k_ts1.s2p"),
                "ts2": os.path.join(outdir, "k_ts2.ts")}
    jobs = [(i, ci, vi, table[ci]["kind"], table[ci]["content"],
             table[ci]["base"], table[ci]["variants"][vi], seed, outdir,
             preludes)
            for i, (ci, vi) in enumerate(pairs)]
    sidecar = {}
    lines = [None] * len(jobs)
    with concurrent.futures.ProcessPoolExecutor(vlib.NCPU) as ex:
        for idx, line, side in ex.map(_gen_pair, jobs, chunksize=64):
            lines[idx] = line
            sidecar[idx] = side
    manifest = os.path.join(outdir, "manifest.txt")
    with open(manifest, "w") as fp:
        fp.write("\n".join(lines) + "\n")
    return manifest, sidecar


def _oracle08_one(args):
    src, dst, sidepath = args
    import vfiles_oracle
    with open(sidepath) as fp:
        sidecar = {int(k): v for k, v in json.load(fp).items()}
    return vfiles_oracle.process_c08(src, dst, sidecar)


def _spell_class(s):
    return "%s/%s/%s/%s/%s" % (s["fr"], s["unit"], s["fmt"], s["mf"], s["ord"])


def issues_c08(ctx, res, label, sidecar):
    issues = []
    per_group = {}
    dropped = {}
    for f in res["failures"]:
        idx, evname, field = common.parse_mismatch(f["mismatch"])
        try:
            ev = json.loads(f["event"]) if f["event"] else {}
        except ValueError:
            ev = {}
        m = common.CASE_RE.search(f["lines"][0])
        cid = m.group(1) if m else "?"
        props = {"C08"}
        if field.startswith("gen:"):
            ctx.machinery_errors.append(
                "tsgen did not write the spelling the spec asked for (%s, case "
                "%s): %s" % (field, cid, (f.get("expected") or "")[:300]))
            continue
        if evname == "End":
            sig = "Spell:End:live"
            props = {"C03"}
            what = "allocation still live after loading (case %s)" % cid
        else:
            s = ev.get("s", {})
            c = ev.get("c", {})
            if field in ("cbOnSuccess", "cbOnFailure"):
                props.add("C11")
                sig = "Spell:%s:%s:%s:%s:%s%s" % (
                    evname, field, ev.get("err"), ev.get("msg"),
                    "+".join(x.get("cat", "?") for x in ev.get("cb", [])),
                    ":tol=" + s.get("tol") if s.get("tol", "none") != "none" else "")
            elif evname == "NLoad":
                if field == "ok":
                    sig = "Spell:NLoad:ok:%s:%s%s" % (
                        ev.get("err"), ev.get("msg"),
                        ":reused-object" if ev.get("grp") == "chain" else "")
                else:
                    sig = "Spell:NLoad:%s:%s:fmt=%s:%s:%s" % (
                        field, c.get("type"), s.get("fmt"), c.get("z0k"),
                        s.get("deco"))
            elif field == "ok":
                # the library's own message names the call site
                sig = "Spell:SLoad:ok:%s:%s:%s%s" % (
                    ev.get("err"), ev.get("msg"), s.get("fr"),
                    ":reused-object" if ev.get("grp") == "chain" else "")
            elif field == "freqOK":
                sig = "Spell:SLoad:freqOK:%s:%s" % (s.get("fr"), s.get("unit"))
            elif field in ("z0OK", "ftAfter", "type", "nf", "fz0"):
                sig = "Spell:SLoad:%s:%s:%s:%s" % (field, s.get("fr"),
                                                   c.get("z0k"), c.get("param"))
            else:
                norm = s.get("fr") == "v1" and c.get("param") != "S"
                sig = "Spell:SLoad:%s:%s:%s:%s:%s%s%s" % (
                    field, s.get("fr"), s.get("fmt"), s.get("mf"), s.get("ord"),
                    ":normalised-" + str(c.get("param")) if norm else "",
                    ":%dp" % c.get("ports", 0) if field == "dims" else "")
            what = ("%s: vnadata_%s of spelling %s of content %s: '%s' not as the "
                    "format defines (case %s): %s; spec: %s" %
                    (label, ev.get("meth"), json.dumps(s)[:260], json.dumps(c),
                     field, cid, json.dumps({k: ev.get(k) for k in
                                             ("ok", "err", "cb", "p", "obs",
                                              "pairOK", "ftAfter")}),
                     (f.get("expected") or "")[:160]))
        # the replay artefact carries the generated files themselves
        lines = list(f["lines"])
        try:
            pi = int(cid.split(":")[2])
            for which in ("a", "b"):
                with open(sidecar[pi][which]["path"], "rb") as fp:
                    lines.append(json.dumps({"e": "File", "which": which,
                                             "bytes": fp.read().decode("latin-1")})
                                 + "\n")
        except (OSError, KeyError, ValueError, IndexError):
            pass
        group = (evname, field)
        seen = per_group.setdefault(group, set())
        if sig in seen:
            continue
        if len(seen) >= MAX_SIGS_PER_FIELD:
            dropped[group] = dropped.get(group, 0) + 1
            continue
        seen.add(sig)
        rp = ctx.save_replay("vfiles-%s.ndjson" % common.sig_hash(sig),
                             "".join(lines))
        issues.append(vlib.Issue(props, sig, what, replay=rp, detail=f["mismatch"]))
    for group, n in dropped.items():
        print("note: %d further failing episode(s) at %s/%s with other "
              "signatures not listed individually" % (n, group[0], group[1]))
    return issues


def _nontrivial_c08(lines):
    return sum(1 for ln in lines if (ln.startswith('{"e":"SLoad"') or
                                     ln.startswith('{"e":"NLoad"')) and
               '"ok":1' in ln) == 4


def run_c08(ctx, exe, table, tier, seed, only=None):
    """only: list of (ci, vi) to run (replay)"""
    issues = []
    if only is None:
        _clean_replays(ctx.prop)
    pairs = only if only is not None else choose_pairs(table, tier, seed)
    gdir = os.path.join(ctx.work, "spell-files")
    manifest, sidecar = gen_pairs(table, pairs, seed, gdir)
    sidepath = os.path.join(ctx.work, "spell-sidecar.json")
    with open(sidepath, "w") as fp:
        json.dump({str(k): v for k, v in sidecar.items()}, fp)
    total = len(pairs)
    paths, crashes = common.run_sharded(
        exe, lambda a, b: ["c08", manifest, str(seed), str(a), str(b)], total,
        ctx.work, "c08", _case_index, nshards=min(vlib.NCPU, max(1, total // 20)),
        timeout=3000)
    issues += issues_from_crashes(ctx, crashes, "spellings", "C08")
    for p in paths:
        common.strip_crashed_episodes(p)
    jobs = [(p, p + ".obs", sidepath) for p in paths]
    margins = {}
    loads = 0
    with concurrent.futures.ProcessPoolExecutor(min(vlib.NCPU, len(jobs))) as ex:
        for st in ex.map(_oracle08_one, jobs):
            loads += st["loads"]
            for k, v in st["margins"].items():
                margins[k] = max(margins.get(k, 0.0), v)
    tr = common.concat([j[1] for j in jobs],
                       os.path.join(ctx.work, "c08-all.ndjson"))
    for j in jobs:
        os.unlink(j[0])
        os.unlink(j[1])
    with open(tr) as fp:
        for line in fp:
            if line.startswith('{"e":"SLoad"') and '"which":"b"' in line:
                ctx.sample(json.loads(line))
                break
    res = validate_monitor("FileFmtSpellTrace.tla", "FileFmtSpellTrace.cfg", tr,
                           ctx.work, timeout=3000)
    ctx.machinery_errors += res["errors"]
    issues += issues_c08(ctx, res, "spellings", sidecar)
    stats = {"pairs": total, "files": 2 * total, "events": res["events"],
             "episodes": res["episodes"], "crashes": len(crashes),
             "loads": loads, "tlc_generated": res["generated"],
             "worst_error_over_tolerance": margins,
             "distinct_nontrivial": common.count_distinct_nontrivial(
                 tr, _nontrivial_c08)}
    return issues, stats


def replay_c08(ctx, exe, table, path):
    with open(path) as fp:
        first = fp.readline()
    m = common.CASE_RE.search(first)
    if m:
        cid = m.group(1)
    elif first.startswith("case "):
        cid = first.split()[1]
    else:
        raise vlib.MachineryError("no case id in " + path)
    parts = cid.split(":")
    if parts[0] != "c08" or len(parts) != 5:
        raise vlib.MachineryError("not a C08 case id: " + cid)
    seed, ci, vi = int(parts[1]), int(parts[3]), int(parts[4])
    issues, stats = run_c08(ctx, exe, table, "quick", seed, only=[(ci, vi)])
    return issues


# --------------------------------------------------------------------------
# extensions: format-string grammar table, file type memory
# --------------------------------------------------------------------------

def mc_stick(ctx, tier):
    cfg = "FileFmtStickMC.cfg" if tier == "quick" else "FileFmtStickMC_thorough.cfg"
    table = os.path.join(ctx.work, "vfiles-grammar.json")
    r = vlib.tlc_model_check("FileFmtStickMC.tla", cfg, ctx.work, workers=4,
                             timeout=900, env={"VFILES_GRAMMAR_TABLE": table})
    ctx.add_mc("FileFmtStickMC/" + cfg, r)
    with open(table) as fp:
        return r, json.load(fp)


def _stick_files(outdir, seed):
    """the same 2-port S content as NPD / Touchstone 1 / Touchstone 2 under
    every extension class"""
    import tsgen
    os.makedirs(outdir, exist_ok=True)
    cls = {"param": "S", "ports": 2, "nf": 2, "z0k": "r50", "sym": False,
           "noise": 0}
    content = tsgen.make_content(cls, seed)
    base = {"fr": "v1", "unit": "hz", "fmt": "ri", "mf": "full", "ord": "21_12",
            "perm": ["unit", "param", "fmt", "r"], "omit": [],
            "kwp": ["order", "nfreq", "nnoise", "reference", "mformat"],
            "ref": False, "mfx": False, "noise": False, "deco": "plain",
            "num": "exp", "lb": "std", "acc": "load"}
    v1, _ = tsgen.render_touchstone(content, base, 1)
    v2, _ = tsgen.render_touchstone(content, dict(base, fr="v2", ord="12_21"), 1)
    ncont = {"type": "S", "ports": 2, "nf": 2, "freqs": content["freqs"],
             "z0": [complex(50.0, 0.0)] * 2, "fz0": None, "data": content["data"]}
    npd = tsgen.render_npd(ncont, {"order": ["version", "ports", "frequencies",
                                             "parameters", "z0"],
                                   "fmt": "ri", "deco": "plain", "num": "exp",
                                   "names": "asis"}, 1)
    for kind, data in (("ts1", v1), ("ts2", v2), ("npd", npd)):
        for suf in ("", ".dat", ".npd", ".ts", ".s2p"):
            with open(os.path.join(outdir, "k_%s%s" % (kind, suf)), "wb") as fp:
                fp.write(data)


_STICK_OPS = (["set:%s" % x for x in ("auto", "npd", "ts1", "ts2")] +
              ["load:%s:%s" % (e, k) for e in ("none", "other", "npd", "ts", "snp")
               for k in ("npd", "ts1", "ts2")] +
              ["save:%s" % e for e in ("none", "other", "npd", "ts", "snp")])


def issues_ext(ctx, res, label, prop):
    issues = []
    seen = {}
    for f in res["failures"]:
        idx, evname, field = common.parse_mismatch(f["mismatch"])
        try:
            ev = json.loads(f["event"]) if f["event"] else {}
        except ValueError:
            ev = {}
        props = {prop}
        if evname == "SetFmt":
            sig = "Fmt:SetFmt:%s:%s" % (field, "".join(ev.get("toks", [])))
            if field in ("refuses", "err", "keptOnFailure", "cbOnSuccess"):
                props.add("C11")
            what = ("%s: vnadata_set_format / get_format on tokens %s: '%s' not "
                    "as FileFmt!ParseFormat says: %s; spec: %s" %
                    (label, ev.get("toks"), field, (f["event"] or "").strip()[:300],
                     (f.get("expected") or "")[:200]))
        elif evname == "Stick":
            op = ev.get("op", {})
            sig = "Stick:%s:%s:%s:%s" % (field, op.get("op"),
                                         op.get("ext", op.get("ft")),
                                         op.get("kind", ""))
            if field == "refused" or field.startswith("cbOn"):
                props.add("C11")
            what = ("%s: file type memory: %s after %s; spec: %s" %
                    (label, field, (f["event"] or "").strip()[:300],
                     (f.get("expected") or "")[:200]))
        elif evname == "End":
            sig = "Ext:End:live"
            props = {"C03"}
            what = "allocation still live at the end of an episode"
        else:
            sig = "Ext:%s:%s" % (evname, field)
            what = (f["event"] or "")[:300]
        k = (evname, field)
        seen.setdefault(k, set())
        if sig in seen[k] or len(seen[k]) >= MAX_SIGS_PER_FIELD:
            continue
        seen[k].add(sig)
        rp = ctx.save_replay("vfiles-ext-%s.ndjson" % common.sig_hash(sig),
                             "".join(f["lines"]))
        issues.append(vlib.Issue(props, sig, what, replay=rp, detail=f["mismatch"]))
    return issues


def run_ext(ctx, exe, tier, seed, prop="C06", only=None):
    """grammar table replay + file type memory histories.
    only = ("fmt" | "stick", index): re-run that single case (replay)"""
    r, grammar = mc_stick(ctx, tier)
    env = {"VFILES_TAG": tier, "VFILES_SEED": str(seed)}
    rng = random.Random(seed)
    rows = grammar
    if tier == "quick":
        keep = [g for g in rows if g["ok"] != "no"]
        no = [g for g in rows if g["ok"] == "no"]
        rows = keep + rng.sample(no, min(len(no), 1200))
    gfile = os.path.join(ctx.work, "fmt-cases.txt")
    with open(gfile, "w") as fp:
        for i, g in enumerate(rows):
            fp.write("%d %s\n" % (i, " ".join(g["toks"])))
    issues = []
    paths, crashes = [], []
    if only is None:
        paths, crashes = common.run_sharded(
            exe, lambda a, b: ["fmt", gfile, str(seed), str(a), str(b)],
            len(rows), ctx.work, "fmt", _case_index, nshards=8, timeout=1200,
            env=env)
    elif only[0] == "fmt":
        tp = os.path.join(ctx.work, "fmt-one.ndjson")
        open(tp, "w").close()
        crashes = common.run_cases(
            exe, lambda a, b: ["fmt", gfile, str(seed), str(only[1]),
                               str(only[1] + 1)], 0, 1, tp, lambda c: 0,
            max_crashes=1, env=env)
        paths = [tp]
    issues += issues_from_crashes(ctx, crashes, "format grammar", prop)
    # file type memory
    sdir = os.path.join(ctx.work, "stick-files")
    _stick_files(sdir, seed)
    hist = [[a, b] for a in _STICK_OPS for b in _STICK_OPS]
    nrand = 400 if tier == "quick" else 6000
    for _ in range(nrand):
        hist.append([rng.choice(_STICK_OPS) for _ in range(rng.randrange(3, 8))])
    if tier == "quick":
        hist = rng.sample(hist[:len(_STICK_OPS) ** 2], 300) + hist[-nrand:]
    sfile = os.path.join(ctx.work, "stick-cases.txt")
    with open(sfile, "w") as fp:
        for i, h in enumerate(hist):
            fp.write("%d %s\n" % (i, " ".join(h)))
    paths2, crashes2 = [], []
    if only is None:
        paths2, crashes2 = common.run_sharded(
            exe, lambda a, b: ["stick", sfile, sdir, str(a), str(b)], len(hist),
            ctx.work, "stick", _case_index, nshards=8, timeout=1200, env=env)
    elif only[0] == "stick":
        tp = os.path.join(ctx.work, "stick-one.ndjson")
        open(tp, "w").close()
        crashes2 = common.run_cases(
            exe, lambda a, b: ["stick", sfile, sdir, str(only[1]),
                               str(only[1] + 1)], 0, 1, tp, lambda c: 0,
            max_crashes=1, env=env)
        paths2 = [tp]
    issues += issues_from_crashes(ctx, crashes2, "file type memory", prop)
    for p in paths + paths2:
        common.strip_crashed_episodes(p)
    tr = common.concat(paths + paths2, os.path.join(ctx.work, "ext-all.ndjson"))
    for p in paths + paths2:
        os.unlink(p)
    res = validate_monitor("FileFmtStickTrace.tla", "FileFmtStickTrace.cfg", tr,
                           ctx.work, timeout=1800)
    ctx.machinery_errors += res["errors"]
    issues += issues_ext(ctx, res, "grammar / file type", prop)
    stats = {"grammar_rows": len(rows), "histories": len(hist),
             "events": res["events"], "episodes": res["episodes"],
             "crashes": len(crashes) + len(crashes2)}
    return issues, stats
