"""FileFmt family, vnadata part: vnadata_cksave / save / fsave / load / fload
against FileFmt.tla (C06) and equivalent spellings (C08).

  mc(ctx, tier)        TLC: exhaustive check of the save-acceptance rules over
                       the configuration product + export of the table
  build(ctx)           compile harness/drv_vfiles.c against the current tree
  run_c06(ctx, ...)    replay (a sample of / all of) the table through the
                       real library, run the independent readers, validate
                       every recorded call against FileFmtTrace
  replay(ctx, exe, f)  re-execute one recorded case and validate it alone
"""
import concurrent.futures
import json
import os
import random
import re
import sys

import vlib
from families import common

HARNESS = os.path.join(vlib.VERIF, "harness")
if HARNESS not in sys.path:
    sys.path.insert(0, HARNESS)

SOURCES = ["drv_vfiles.c", "vt.c", "vt_alloc.c"]
PRECS = ["1", "2", "3", "6", "9", "15", "17", "MAX"]
MAGS = [-12, 0, 12]


def mc(ctx, tier):
    """model-check FileFmtMC; returns (tlc result, table)"""
    cfg = "FileFmtMC_quick.cfg" if tier == "quick" else "FileFmtMC_thorough.cfg"
    table = os.path.join(ctx.work, "vfiles-table.json")
    r = vlib.tlc_model_check("FileFmtMC.tla", cfg, ctx.work, workers=8,
                             timeout=1500, env={"VFILES_TABLE": table})
    ctx.add_mc("FileFmtMC/" + cfg, r)
    with open(table) as fp:
        t = json.load(fp)
    if r["distinct"] != len(t["rows"]):
        raise vlib.MachineryError("FileFmtMC: %d states but %d table rows" %
                                  (r["distinct"], len(t["rows"])))
    return r, t


def build(ctx):
    lib = vlib.build_lib("san")
    return vlib.build_driver("drv_vfiles", SOURCES, lib, ctx.work,
                             wrap_alloc=True)


# --------------------------------------------------------------------------
# case selection
# --------------------------------------------------------------------------

def _case_line(row, fmts, prec, mag, nf):
    typ, rows, cols, ext, fset, fid, z0c = row[:7]
    names = fmts[fid]
    return "%s %d %d %d %s %s %s %s %s %d" % (
        typ, rows, cols, nf, ext, fset, ",".join(names) if names else "-",
        z0c, prec, mag)


def make_cases(table, tier, seed, path, quick_n=4200):
    """Write the case file.  quick: a stratified seeded sample of the table;
    thorough: every row once (precision / magnitude / frequency count drawn
    per row) plus every accepted row under a second precision."""
    rng = random.Random(seed)
    rows = table["rows"]
    fmts = table["fmts"]
    chosen = []
    if tier == "quick":
        strata = {}
        for i, r in enumerate(rows):
            strata.setdefault((r[7], r[8]), []).append(i)
        quota = {("refuse", "none"): int(quick_n * 0.27),
                 ("either", "none"): int(quick_n * 0.03),
                 ("accept", "ts1"): int(quick_n * 0.12),
                 ("accept", "ts2"): int(quick_n * 0.16),
                 ("accept", "npd"): int(quick_n * 0.42)}
        for key, idxs in sorted(strata.items()):
            k = min(len(idxs), quota.get(key, 50))
            chosen += rng.sample(idxs, k)
        chosen.sort()
        plan = [(i, None) for i in chosen]
    else:
        plan = [(i, None) for i in range(len(rows))]
        plan += [(i, "second") for i, r in enumerate(rows) if r[7] == "accept"]
    n = 0
    counter = 0
    with open(path, "w") as fp:
        for i, tag in plan:
            r = rows[i]
            if r[7] == "accept":
                # walk precision x magnitude systematically over accepted rows
                prec = PRECS[counter % len(PRECS)]
                mag = MAGS[(counter // len(PRECS)) % len(MAGS)]
                counter += 1 if tag is None else 5
            else:
                prec = rng.choice(PRECS)
                mag = rng.choice(MAGS)
            names = fmts[r[5]]
            if r[7] == "accept" and mag != 0 and rng.random() < 0.7 and any(
                    not nm.startswith(r[0]) or nm.lower().startswith("zin") !=
                    (r[0] == "Zin") for nm in names):
                mag = 0      # converted parameters are compared at moderate scale only
            nf = rng.choice((1, 2, 3, 3))
            if r[7] == "either" and rng.random() < 0.5 and r[0] != "undef":
                nf = 0
            if r[0] != "undef" and rng.random() < 0.004:
                nf = 0
            fp.write(_case_line(r, fmts, prec, mag, nf) + "\n")
            n += 1
    return n


def _case_index(cid):
    return int(cid.split(":")[2])


# --------------------------------------------------------------------------
# issues
# --------------------------------------------------------------------------

_WHY_RE = re.compile(r'why \|-> "([^"]*)"')
_FT_RE = re.compile(r'ft \|-> "([^"]*)"')


def _case_fields(lines):
    m = common.CASE_RE.search(lines[0]) if lines else None
    if not m:
        return None
    p = m.group(1).split(":")
    if len(p) != 13:
        return None
    return {"id": m.group(1), "type": p[3], "rows": int(p[4]), "cols": int(p[5]),
            "nf": int(p[6]), "ext": p[7], "set": p[8], "fmt": p[9],
            "z0c": p[10], "prec": p[11], "mag": p[12]}


def _prec_class(p):
    if p == "MAX":
        return "MAX"
    return "p<=6" if int(p) <= 6 else "p>=9"


def _fmt_class(cf):
    """coarse shape of the format list relative to the object's type"""
    if cf["fmt"] == "-":
        return "default"
    out = []
    for name in cf["fmt"].split(","):
        u = name.upper()
        if u in ("IL", "RL", "VSWR", "PRC", "PRL", "SRC", "SRL"):
            out.append(u)
        else:
            p, f = name[:-2], name[-2:].lower()
            out.append(("=" if p == cf["type"] else p) + f)
    uniq = []
    for x in out:
        if x not in uniq:
            uniq.append(x)
    return "+".join(uniq[:4]) + ("+.." if len(uniq) > 4 else "")


def _ports_class(n):
    return {1: "1p", 2: "2p"}.get(n, "3-4p" if n <= 4 else "5+p")


def issues_from_validation(ctx, res, label, prop="C06"):
    issues = []
    for f in res["failures"]:
        idx, evname, field = common.parse_mismatch(f["mismatch"])
        cf = _case_fields(f["lines"])
        try:
            ev = json.loads(f["event"]) if f["event"] else {}
        except ValueError:
            ev = {}
        exp = f.get("expected") or ""
        props = {prop}
        if cf is None:
            sig = "FileFmt:%s:%s:?" % (evname, field)
            what = "%s: %s" % (label, (f["event"] or "")[:300])
        elif evname == "End":
            sig = "FileFmt:End:live:%s" % _fmt_class(cf)
            props = {"C03"}
            what = ("allocation made inside libvna still live after "
                    "vnadata_free (case %s)" % cf["id"])
        elif evname == "Save3":
            why = _WHY_RE.search(exp)
            ft = _FT_RE.search(exp)
            sig = "FileFmt:Save3:%s:%s:%s" % (
                field, why.group(1) if why else "?", ft.group(1) if ft else "?")
            if field == "cksaveVsSave" or field == "fsaveVsSave":
                sig += ":%s:%s%s" % (_fmt_class(cf), cf["type"],
                                     _ports_class(cf["cols"]))
            if "Refuses" in field or field.endswith("Err"):
                props.add("C11")
            what = ("%s: cksave/save/fsave outcome not explained by "
                    "FileFmt!SaveVerdict at '%s' (case %s): ck=%s sv=%s fs=%s; "
                    "spec: %s" % (label, field, cf["id"],
                                  json.dumps(ev.get("ck")), json.dumps(ev.get("sv")),
                                  json.dumps(ev.get("fs")), exp[:200]))
        elif evname == "SetFormat":
            sig = "FileFmt:SetFormat:%s:%s" % (field, _fmt_class(cf))
            props.add("C11")
            what = "%s: vnadata_set_format(%s): %s" % (label, cf["fmt"],
                                                        (f["event"] or "")[:200])
        elif evname == "Read":
            det = ev.get("bad") or ev.get("why") or ""
            sig = "FileFmt:Read:%s:%s:%s" % (field, ev.get("ft"), det or
                                             _fmt_class(cf))
            if field in ("valsOK", "z0OK", "freqOK"):
                sig += ":%s:mag%s" % (_prec_class(cf["prec"]), cf["mag"])
            what = ("%s: the file written by vnadata_save, read by the "
                    "independent reader, does not denote the object at '%s' "
                    "(case %s): %s" % (label, field, cf["id"],
                                       (f["event"] or "").strip()[:300]))
        elif evname in ("Load", "FLoad"):
            forms = _fmt_class(cf)
            loadable = any(x not in ("IL", "RL", "VSWR") for x in forms.split("+"))
            sig = "FileFmt:%s:%s:%s:%s" % (
                "Load", field, ev.get("ftAfter"),
                (forms + ":" + _ports_class(cf["cols"])) if loadable
                else "no-complex-parameter")
            what = ("%s: vnadata_%s of the file vnadata_save wrote: '%s' not as "
                    "FileFmt requires (case %s): %s; spec: %s" %
                    (label, evname.lower(), field, cf["id"],
                     (f["event"] or "").strip()[:300], exp[:120]))
        elif evname == "LoadCmp":
            sig = "FileFmt:LoadCmp:%s:%s:%s:%s:mag%s" % (
                field, cf["ext"] + "/" + cf["set"], _fmt_class(cf),
                _prec_class(cf["prec"]), cf["mag"])
            what = ("%s: object produced by vnadata_load differs from the "
                    "file / the original at '%s' (case %s): %s" %
                    (label, field, cf["id"], (f["event"] or "").strip()[:300]))
        else:
            sig = "FileFmt:%s:%s:%s" % (evname, field, _fmt_class(cf))
            what = "%s: %s" % (label, (f["event"] or "")[:300])
        rp = ctx.save_replay("vfiles-%s.ndjson" % common.sig_hash(sig),
                             "".join(f["lines"]))
        issues.append(vlib.Issue(props, sig, what, replay=rp,
                                 detail=f["mismatch"]))
    return issues


def issues_from_crashes(ctx, crashes, label, prop="C06"):
    issues = []
    for c in crashes:
        s = vlib.sanitizer_signature(c["stderr"])
        if s is None:
            s = ("exit%d" % c["rc"], "?")
        sig = "FileFmt:crash:%s:%s" % s
        rp = ctx.save_replay("vfiles-crash-%s.txt" % common.sig_hash(sig),
                             "case %s\nrc %s\n%s" % (c["case"], c["rc"],
                                                     c["stderr"]))
        issues.append(vlib.Issue({"C03", prop}, sig,
                                 "%s: driver process died in case %s: %s in %s"
                                 % (label, c["case"], s[0], s[1]), replay=rp))
    return issues


# --------------------------------------------------------------------------
# running
# --------------------------------------------------------------------------

def _oracle_one(args):
    src, dst = args
    import vfiles_oracle
    return vfiles_oracle.process_c06(src, dst)


def _oracle(paths, workdir):
    """run the numeric oracle over the shard traces in parallel processes"""
    jobs = [(p, p + ".obs") for p in paths]
    stats = {"files": 0, "unqualified": 0, "loads": 0, "margins": {}}
    with concurrent.futures.ProcessPoolExecutor(min(vlib.NCPU, len(jobs))) as ex:
        for st in ex.map(_oracle_one, jobs):
            for k in ("files", "unqualified", "loads"):
                stats[k] += st[k]
            for k, v in st["margins"].items():
                stats["margins"][k] = max(stats["margins"].get(k, 0.0), v)
    return [j[1] for j in jobs], stats


def _clean_replays(prop):
    """replay artefacts of earlier runs of this family are stale"""
    d = os.path.join(vlib.VERIF, "replay", prop)
    if os.path.isdir(d):
        for f in os.listdir(d):
            if f.startswith("vfiles-"):
                os.unlink(os.path.join(d, f))


def _nontrivial_c06(lines):
    """an episode is non-trivial if a file was written and loaded back"""
    return any(ln.startswith('{"e":"LoadCmp"') for ln in lines)


def run_c06(ctx, exe, table, tier, seed):
    issues = []
    _clean_replays(ctx.prop)
    casefile = os.path.join(ctx.work, "c06-cases.txt")
    total = make_cases(table, tier, seed, casefile)
    tmp = os.path.join(ctx.work, "tmpfiles")
    os.makedirs(tmp, exist_ok=True)
    paths, crashes = common.run_sharded(
        exe, lambda a, b: ["c06", casefile, str(seed), str(a), str(b)], total,
        ctx.work, "c06", _case_index, nshards=vlib.NCPU,
        timeout=3000, env={"VFILES_TMP": tmp})
    issues += issues_from_crashes(ctx, crashes, "save/load replay")
    for p in paths:
        common.strip_crashed_episodes(p)
    obs, ostats = _oracle(paths, ctx.work)
    tr = common.concat(obs, os.path.join(ctx.work, "c06-all.ndjson"))
    for p in paths + obs:
        os.unlink(p)
    with open(tr) as fp:
        for i, line in enumerate(fp):
            if line.startswith('{"e":"Save3"') and '"sv":{"ok":1' in line:
                ctx.sample(json.loads(line))
                break
    res = vlib.validate_sharded("FileFmtTrace.tla", "FileFmtTrace.cfg", tr,
                                ctx.work, max_failures=8 if tier == "quick" else 25,
                                timeout=3000)
    ctx.machinery_errors += res["errors"]
    issues += issues_from_validation(ctx, res, "save/load replay")
    stats = {"cases": total, "events": res["events"], "episodes": res["episodes"],
             "crashes": len(crashes), "tlc_generated": res["generated"],
             "files_read": ostats["files"], "loads_compared": ostats["loads"],
             "unqualified_conversions": ostats["unqualified"],
             "worst_error_over_tolerance": ostats["margins"],
             "distinct_nontrivial": common.count_distinct_nontrivial(
                 tr, _nontrivial_c06)}
    return issues, stats


def replay(ctx, exe, path, prop="C06"):
    with open(path) as fp:
        first = fp.readline()
    m = common.CASE_RE.search(first)
    if m:
        cid = m.group(1)
    elif first.startswith("case "):
        cid = first.split()[1]
    else:
        raise vlib.MachineryError("no case id in " + path)
    tp = os.path.join(ctx.work, "replay.ndjson")
    open(tp, "w").close()
    tmp = os.path.join(ctx.work, "tmpfiles")
    os.makedirs(tmp, exist_ok=True)
    kind = cid.split(":")[0]
    args = [kind + "id", cid]
    crashes = common.run_cases(exe, lambda a, b: args, 0, 1, tp, lambda c: 0,
                               max_crashes=1, env={"VFILES_TMP": tmp})
    issues = issues_from_crashes(ctx, crashes, "replay", prop)
    if not crashes:
        import vfiles_oracle
        if kind == "c06":
            vfiles_oracle.process_c06(tp, tp + ".obs")
            res = vlib.validate_sharded("FileFmtTrace.tla", "FileFmtTrace.cfg",
                                        tp + ".obs", ctx.work, shards=1)
            ctx.machinery_errors += res["errors"]
            issues += issues_from_validation(ctx, res, "replay", prop)
    return issues
