"""SelfCal family (C02): unknown / correlated standard parameters, two-port
TRL and the Levenberg-Marquardt loop against LMLoop.tla / SelfCal.tla.

  mc(ctx, tier)      exhaustive TLC run of the loop skeleton (LMLoopMC,
                     liveness under fairness)
  table(ctx)         TLC evaluates SelfCal!Configs and exports it (JSON)
  run(ctx, exe, ...) executes a seeded, stratified sample of table rows in
                     the real library (hook in the LM loop), validates every
                     recorded episode against LMLoopTrace, returns issues
  replay(ctx, exe, path)
"""
import json
import os
import random
import re

import vlib
from families import common

SOURCES = ["drv_selfcal.c", "vt.c", "vt_alloc.c", "etermsim.c",
           "caleq_oracle.c"]
EXIT_TIMEOUT = 94
FIELDS = ["ty", "p", "k", "topo", "nu", "lim", "pt", "et", "me", "ko"]


def mc(ctx, tier):
    cfg = "LMLoopMC_quick.cfg" if tier == "quick" else "LMLoopMC_thorough.cfg"
    r = vlib.tlc_model_check("LMLoopMC.tla", cfg, ctx.work, workers=4,
                             timeout=900)
    if "Checking temporal properties for the complete state space" not in r["out"]:
        raise vlib.MachineryError("LMLoopMC: liveness was not checked")
    ctx.add_mc("LMLoopMC/" + cfg, r)
    return r


def build(ctx):
    lib = vlib.build_lib("san")
    return vlib.build_driver("drv_selfcal", SOURCES, lib, ctx.work,
                             wrap_alloc=True)


def table(ctx):
    """Rows of the configuration table, computed by TLC from SelfCal.tla."""
    out = os.path.join(ctx.work, "selfcal-table.json")
    r = vlib.tlc("SelfCalTable.tla", "SelfCalTable.cfg", ctx.work,
                 env={"SELFCAL_OUT": out}, timeout=600)
    if r["rc"] != 0 or not os.path.exists(out):
        raise vlib.MachineryError("SelfCalTable export failed:\n" +
                                  r["out"][-2000:])
    with open(out) as fp:
        rows = json.load(fp)
    for i, row in enumerate(rows):
        row["id"] = i
    return rows


def row_line(row):
    return "%d %s %d %d %s %d %d %d %d %d %s\n" % (
        row["id"], row["ty"], row["p"], row.get("k", row["p"]), row["topo"],
        row["nu"], row["lim"], row["pt"], row["et"], row["me"],
        row.get("ko", "use"))


def sample(rows, n, seed):
    """Seeded stratified sample: every (type, family, me) class, every limit
    and every tolerance pair is represented before the rest is drawn
    uniformly."""
    rng = random.Random(seed)
    by = {}
    for r in rows:
        # the kit order is part of the class where the kit is large enough
        # for it to matter
        ko = r["ko"] if r["topo"] == "KIT" else "-"
        by.setdefault((r["ty"], r["topo"], r["me"], r["p"], r["k"], ko),
                      []).append(r)
    chosen = {}
    limits = sorted({r["lim"] for r in rows})
    keys = sorted(by)
    rng.shuffle(keys)
    k = 0
    # one row per class, cycling through the limits so that each limit is
    # met in every neighbourhood of the table
    for key in keys:
        want = limits[k % len(limits)]
        k += 1
        cands = [r for r in by[key] if r["lim"] == want] or by[key]
        r = rng.choice(cands)
        chosen[r["id"]] = r
        if key[1] == "KIT":
            # large kits: also the default limit and the largest one
            for lim in (30, 100):
                r = rng.choice([x for x in by[key] if x["lim"] == lim])
                chosen[r["id"]] = r
    pool = [r for r in rows if r["id"] not in chosen]
    rng.shuffle(pool)
    for r in pool:
        if len(chosen) >= n:
            break
        chosen[r["id"]] = r
    out = list(chosen.values())
    rng.shuffle(out)
    return out[:max(n, len(keys))]


def _case_index(cid):
    return int(cid.split(":")[2])


def _cfg_of(lines):
    for ln in lines[:3]:
        if ln.startswith('{"e":"Cfg"'):
            try:
                return json.loads(ln)
            except ValueError:
                return {}
    return {}


def _cls(cfg):
    dims = "p%s" % cfg.get("p")
    if cfg.get("k", cfg.get("p")) != cfg.get("p"):
        dims += "k%s" % cfg.get("k")
    topo = cfg.get("topo")
    if topo == "KIT":
        topo = "KIT-%s" % cfg.get("ko", "use")
    return "%s:%s:%s:me%s" % (cfg.get("ty"), topo, dims, cfg.get("me"))


def issues_from_validation(ctx, res, label):
    issues = []
    for f in res["failures"]:
        idx, evname, field = common.parse_mismatch(f["mismatch"])
        cfg = _cfg_of(f["lines"])
        case = common.CASE_RE.search(f["lines"][0])
        case = case.group(1) if case else "?"
        limc = "lim>=30" if cfg.get("lim", 0) >= 30 else "lim<30"
        sig = "SelfCal:%s:%s:%s:%s" % (evname, field, _cls(cfg), limc)
        what = ("%s: recorded event not explained by LMLoop/SelfCal at '%s' "
                "of %s (case %s, config %s, event %s); spec expected %s" %
                (label, field, evname, case,
                 {k: cfg.get(k) for k in FIELDS}, f["event"].strip()[:300],
                 f.get("expected")))
        props = {"C02"}
        if evname == "Solve" and field in ("errno", "cb"):
            props.add("C11")
        if evname == "Solve" and field == "underDetermined":
            props.add("C20")
        if cfg.get("k", cfg.get("p")) != cfg.get("p"):
            props.add("C20")    # rectangular determining sets: also C20's
        if cfg.get("topo") in ("TRM", "TRLM"):
            props.add("C20")    # determining three-standard near-TRL sets
        rp = ctx.save_replay("selfcal-%s.ndjson" % common.sig_hash(sig),
                             "".join(f["lines"]))
        issues.append(vlib.Issue(props, sig, what, replay=rp,
                                 detail=f["mismatch"]))
    return issues


def issues_from_crashes(ctx, crashes, label, cfg_by_case):
    issues = []
    for c in crashes:
        cfg = cfg_by_case.get(c["case"], {})
        if c["rc"] == EXIT_TIMEOUT or c["rc"] == -9:
            sig = "SelfCal:timeout:%s" % _cls(cfg)
            props = {"C02"}
            what = ("%s: vnacal_new_solve did not return within the timeout "
                    "(case %s, config %s)" % (label, c["case"], cfg))
        else:
            s = vlib.sanitizer_signature(c["stderr"])
            if s is None:
                s = ("exit%d" % c["rc"], "?")
            sig = "SelfCal:crash:%s:%s" % s
            props = {"C03", "C02"}
            if cfg.get("k", cfg.get("p")) != cfg.get("p"):
                props.add("C20")
            what = ("%s: driver process died in case %s (config %s): %s in %s"
                    % (label, c["case"], cfg, s[0], s[1]))
        rp = ctx.save_replay(
            "selfcal-crash-%s.txt" % common.sig_hash(sig),
            "case %s\ncfg %s\nrc %s\n%s" % (c["case"], json.dumps(cfg),
                                             c["rc"], c["stderr"]))
        issues.append(vlib.Issue(props, sig, what, replay=rp))
    return issues


def issues_from_leaks(ctx, trace_path):
    """End events with in-library blocks still live after every object was
    freed: a C03 matter (not reported by C02)."""
    issues = []
    seen = set()
    for start, lines in vlib.split_episodes(trace_path):
        if not lines or '"leaked":1' not in lines[-1]:
            continue
        cfg = _cfg_of(lines)
        sig = "SelfCal:End:live:%s" % _cls(cfg)
        if sig in seen:
            continue
        seen.add(sig)
        issues.append(vlib.Issue({"C03"}, sig, "allocations made inside "
                                 "libvna still live after vnacal_new_free / "
                                 "vnacal_free (config %s)" % cfg, detail="".join(lines)))
    return issues


def _nontrivial(lines):
    """an episode counts if a solve with unknown parameters succeeded and the
    result was read back and applied"""
    return any('"e":"Apply"' in ln and '"ret":0' in ln for ln in lines)


def write_table(path, rows):
    with open(path, "w") as fp:
        for r in rows:
            fp.write(row_line(r))


def run(ctx, exe, tier, seed, n=None, rows=None, timeout_s=None):
    """Returns (issues, stats)."""
    all_rows = table(ctx) if rows is None else rows
    if n is None:
        n = 2400 if tier == "quick" else min(len(all_rows), 60000)
    picked = sample(all_rows, n, seed)
    tpath = os.path.join(ctx.work, "selfcal-rows.txt")
    write_table(tpath, picked)
    issues = []
    stats = {"table_rows": len(all_rows), "rows_run": len(picked),
             "events": 0, "episodes": 0, "crashes": 0, "tlc_generated": 0}
    cfg_by_case = {"run:%d:%d" % (seed, i): {k: r[k] for k in FIELDS}
                   for i, r in enumerate(picked)}
    tmpd = os.path.join(ctx.work, "tmp")
    os.makedirs(tmpd, exist_ok=True)
    env = {"SC_TIMEOUT": str(timeout_s or os.environ.get("SC_TIMEOUT", 60)),
           "SC_TMP": tmpd}
    paths, crashes = common.run_sharded(
        exe, lambda a, b: ["run", tpath, str(seed), str(a), str(b)],
        len(picked), ctx.work, "selfcal", _case_index, env=env,
        nshards=min(vlib.NCPU, max(1, len(picked) // 8)))
    issues += issues_from_crashes(ctx, crashes, "table rows", cfg_by_case)
    stats["crashes"] = len(crashes)
    for p in paths:
        common.strip_crashed_episodes(p)
    tr = common.concat(paths, os.path.join(ctx.work, "selfcal-all.ndjson"))
    with open(tr) as fp:
        for i, line in enumerate(fp):
            if i in (1, 3, 4):
                ctx.sample(json.loads(line))
            if i > 4:
                break
    issues += issues_from_leaks(ctx, tr)
    res = vlib.validate_sharded("LMLoopTrace.tla", "LMLoopTrace.cfg", tr,
                                ctx.work, max_failures=8)
    ctx.machinery_errors += res["errors"]
    issues += issues_from_validation(ctx, res, "table rows")
    stats["events"] = res["events"]
    stats["episodes"] = res["episodes"]
    stats["tlc_generated"] = res["generated"]
    stats["rejected_episodes"] = len(res["failures"])
    stats["distinct_nontrivial"] = common.count_distinct_nontrivial(
        tr, _nontrivial)
    # measured breakdown
    cnt = {"solves": 0, "solves_ok": 0, "lm_iterations": 0, "lm_loops": 0,
           "limit_failures": 0, "analytic": 0, "ladders": 0, "rejects": 0}
    classes = set()
    with open(tr) as fp:
        for ln in fp:
            if ln.startswith('{"e":"Solve"'):
                cnt["solves"] += 1
                if '"ret":0' in ln:
                    cnt["solves_ok"] += 1
                    if '"lmx":0' in ln:
                        cnt["analytic"] += 1
            elif ln.startswith('{"e":"LMIter"'):
                cnt["lm_iterations"] += 1
                if '"b":0' in ln:
                    cnt["rejects"] += 1
            elif ln.startswith('{"e":"LMExit"'):
                cnt["lm_loops"] += 1
                if '"oc":"limit"' in ln:
                    cnt["limit_failures"] += 1
            elif ln.startswith('{"e":"Ladder"'):
                cnt["ladders"] += 1
            elif ln.startswith('{"e":"Cfg"'):
                try:
                    classes.add(_cls(json.loads(ln)))
                except ValueError:
                    pass
    cnt["config_classes"] = len(classes)
    stats.update(cnt)
    return issues, stats


def replay(ctx, exe, path):
    with open(path) as fp:
        text = fp.read()
    m = common.CASE_RE.search(text) or re.search(r"^case (\S+)", text, re.M)
    if not m:
        raise vlib.MachineryError("no case id in " + path)
    cid = m.group(1)
    _, seed, row = cid.split(":")
    seed, row = int(seed), int(row)
    cfg = None
    m2 = re.search(r'^\{"e":"Cfg".*$', text, re.M)
    if m2:
        cfg = json.loads(m2.group(0))
    else:
        m3 = re.search(r"^cfg (\{.*\})$", text, re.M)
        if m3:
            cfg = json.loads(m3.group(1))
    if not cfg:
        raise vlib.MachineryError("no configuration in " + path)
    cfg.setdefault("id", row)
    cfg.setdefault("k", cfg["p"])
    cfg.setdefault("ko", "use")
    tpath = os.path.join(ctx.work, "replay-rows.txt")
    with open(tpath, "w") as fp:
        for i in range(row):
            fp.write("#\n")
        fp.write(row_line(cfg))
    tp = os.path.join(ctx.work, "replay.ndjson")
    open(tp, "w").close()
    crashes = common.run_cases(
        exe, lambda a, b: ["run", tpath, str(seed), str(row), str(row + 1)],
        0, 1, tp, lambda c: 0, max_crashes=1,
        env={"SC_TIMEOUT": "60", "SC_TMP": ctx.work})
    issues = issues_from_crashes(ctx, crashes, "replay", {cid: cfg})
    if not crashes:
        res = vlib.validate_sharded("LMLoopTrace.tla", "LMLoopTrace.cfg", tp,
                                    ctx.work, shards=1)
        ctx.machinery_errors += res["errors"]
        issues += issues_from_validation(ctx, res, "replay")
        issues += issues_from_leaks(ctx, tp)
    return issues
