"""Independent reader for Touchstone files, written from the format
definitions (Touchstone File Format Specification rev 1.1 and version 2.0);
no libvna code, no knowledge of how libvna writes.

Version 1 (rev 1.1):
  * '!' starts a comment that runs to the end of the line; blank lines are
    ignored; the file is case-insensitive.
  * option line:  # [<unit>] [<parameter>] [<format>] [R <n>]
    any order, all optional; defaults GHz S MA R 50.
  * 1-port: one line per frequency (f + 1 pair); 2-port: one line per
    frequency (f + 4 pairs in the order 11 21 12 22); 3 and more ports:
    matrix rows in order, each row starts on a new line, at most 4 pairs per
    line, the frequency leads the first line.
  * Z, Y, H, G values are normalised to the reference resistance.
  * 2-port files may be followed by noise data (5 numbers per line); the
    noise block starts where the frequency does not increase.
Version 2.0:
  * [Version] 2.0 first, then the option line, [Number of Ports], then (in
    any order) [Two-Port Order] (required for 2 ports), [Number of
    Frequencies], [Number of Noise Frequencies], [Reference], [Matrix
    Format]; [Network Data], data, optional [Noise Data], [End].
  * values are not normalised; [Reference] gives per-port impedances, else
    the option line R applies to all ports.
  * [Matrix Format] Full | Lower | Upper; [Two-Port Order] 12_21 | 21_12.
Numbers: decimal floating point; C99 hexadecimal floating point is accepted
as well because vnadata.h documents it for VNADATA_MAX_PRECISION.
"""
import math
import re

from netgt import decode_pair, ts1_denormalise

UNITS = {"HZ": 1.0, "KHZ": 1e3, "MHZ": 1e6, "GHZ": 1e9}
PARAMS = ("S", "Y", "Z", "H", "G")
FORMATS = ("DB", "MA", "RI")


class TsError(Exception):
    pass


def parse_number(tok):
    t = tok.lower()
    body = t.lstrip("+-")
    try:
        if body.startswith("0x"):
            return float.fromhex(t)
        return float(t)
    except ValueError:
        raise TsError("not a number: %r" % tok)


def is_number(tok):
    try:
        parse_number(tok)
        return True
    except TsError:
        return False


def parse_option_line(text):
    """text after '#'.  Returns dict(unit, param, fmt, r) with defaults."""
    opt = {"unit": "GHZ", "param": "S", "fmt": "MA", "r": 50.0,
           "given": []}
    toks = text.upper().split()
    i = 0
    while i < len(toks):
        t = toks[i]
        if t in UNITS:
            opt["unit"] = t
            opt["given"].append("unit")
        elif t in PARAMS:
            opt["param"] = t
            opt["given"].append("param")
        elif t in FORMATS:
            opt["fmt"] = t
            opt["given"].append("fmt")
        elif t == "R":
            i += 1
            if i >= len(toks):
                raise TsError("R without a value")
            opt["r"] = parse_number(toks[i])
            opt["given"].append("r")
        else:
            raise TsError("unknown option %r" % t)
        i += 1
    return opt


_KW_RE = re.compile(r"^\s*\[([^\]]*)\]\s*(.*)$")


def _logical_lines(text):
    """comment-stripped, non-blank lines"""
    out = []
    for raw in text.split("\n"):
        line = raw.split("!", 1)[0].strip()
        if line:
            out.append(line)
    return out


def read_touchstone(data, ports_hint=None):
    """data: bytes or str.  Returns a dict:
      version (1|2), opt (option line), ports, nf, freqs (Hz),
      z0 (list of float per port), param, fmt ('ri'|'ma'|'db'),
      pairs[f][r][c] = (a, b) numbers as written (storage order resolved to
      row r, column c), values[f][r][c] = complex value denoted (version 1
      de-normalised), noise (list of 5-tuples), order, matrix_format,
      line_shapes (version 1: numbers per data line)."""
    if isinstance(data, bytes):
        text = data.decode("latin-1")
    else:
        text = data
    lines = _logical_lines(text)
    if not lines:
        raise TsError("empty file")
    version = 1
    idx = 0
    m = _KW_RE.match(lines[0])
    if m and m.group(1).strip().upper() == "VERSION":
        if m.group(2).strip() != "2.0":
            raise TsError("unsupported version %r" % m.group(2))
        version = 2
        idx = 1
    if idx >= len(lines) or not lines[idx].startswith("#"):
        raise TsError("option line expected")
    opt = parse_option_line(lines[idx][1:])
    idx += 1
    mult = UNITS[opt["unit"]]
    fmt = opt["fmt"].lower()
    param = opt["param"]
    res = {"version": version, "opt": opt, "param": param, "fmt": fmt,
           "noise": [], "order": None, "matrix_format": "FULL"}
    if version == 1:
        _read_v1(lines[idx:], res, mult, ports_hint)
    else:
        _read_v2(lines[idx:], res, mult)
    return res


def _numbers(line):
    return [parse_number(t) for t in line.split()]


def _read_v1(lines, res, mult, ports_hint):
    rows = []
    for ln in lines:
        if ln.startswith("#"):
            continue                    # later option lines are ignored
        if ln.startswith("["):
            raise TsError("keyword in a version 1 file: %r" % ln)
        rows.append(_numbers(ln))
    if not rows:
        raise TsError("no data")
    res["line_shapes"] = [len(r) for r in rows]
    first = len(rows[0])
    if ports_hint is None:
        if first == 3:
            ports = 1
        elif first == 7:
            ports = 3
        elif first == 9:
            ports = 4 if len(rows) > 1 and len(rows[1]) == 8 else 2
        else:
            raise TsError("cannot infer the port count from %d numbers" % first)
    else:
        ports = ports_hint
    need = 1 + 2 * ports * ports
    param = res["param"]
    if param in ("H", "G") and ports != 2:
        raise TsError("%s needs two ports" % param)
    freqs, pairs = [], []
    k = 0
    nrows = len(rows)
    while k < nrows:
        # noise block: 2-port, 5 numbers, frequency not increasing
        if len(rows[k]) == 5 and freqs:
            break
        nums = list(rows[k])
        k += 1
        if ports >= 3:
            # each matrix row starts a new line; at most 4 pairs per line
            got_rows = []
            cur = nums[1:]
            f = nums[0]
            r = 0
            while True:
                while len(cur) < 2 * ports:
                    if k >= nrows:
                        raise TsError("truncated matrix")
                    cur += rows[k]
                    k += 1
                if len(cur) != 2 * ports:
                    raise TsError("row %d has %d numbers" % (r + 1, len(cur)))
                got_rows.append(cur)
                r += 1
                if r == ports:
                    break
                if k >= nrows:
                    raise TsError("truncated matrix")
                cur = list(rows[k])
                k += 1
            flat = [x for row in got_rows for x in row]
        else:
            if len(nums) != need:
                raise TsError("expected %d numbers, found %d" % (need, len(nums)))
            f = nums[0]
            flat = nums[1:]
        if freqs and f * mult <= freqs[-1]:
            raise TsError("frequencies not increasing")
        freqs.append(f * mult)
        mat = [[None] * ports for _ in range(ports)]
        q = 0
        for r in range(ports):
            for c in range(ports):
                pr = (flat[q], flat[q + 1])
                q += 2
                if ports == 2:
                    mat[c][r] = pr      # 11 21 12 22
                else:
                    mat[r][c] = pr
        pairs.append(mat)
    while k < nrows:
        if len(rows[k]) != 5:
            raise TsError("noise line with %d numbers" % len(rows[k]))
        res["noise"].append(tuple(rows[k]))
        k += 1
    rr = res["opt"]["r"]
    fmt = res["fmt"]
    values = []
    for mat in pairs:
        raw = [[decode_pair(a, b, fmt) for (a, b) in row] for row in mat]
        values.append(ts1_denormalise(param, raw, rr))
    res.update(ports=ports, nf=len(freqs), freqs=freqs, z0=[rr] * ports,
               pairs=pairs, values=values)


def _read_v2(lines, res, mult):
    kw = {}
    k = 0
    tokens = []
    noise_tokens = []
    section = "header"
    ended = False
    order_seen = []
    ref_pending = 0
    while k < len(lines):
        ln = lines[k]
        k += 1
        m = _KW_RE.match(ln)
        if m:
            name = " ".join(m.group(1).upper().split())
            arg = m.group(2).strip()
            order_seen.append(name)
            if name == "NUMBER OF PORTS":
                kw["ports"] = int(arg)
            elif name == "TWO-PORT ORDER":
                if arg not in ("12_21", "21_12"):
                    raise TsError("bad two-port order %r" % arg)
                kw["order"] = arg
            elif name == "NUMBER OF FREQUENCIES":
                kw["nf"] = int(arg)
            elif name == "NUMBER OF NOISE FREQUENCIES":
                kw["nnf"] = int(arg)
            elif name == "REFERENCE":
                if "ports" not in kw:
                    raise TsError("[Reference] before [Number of Ports]")
                kw["ref"] = [parse_number(t) for t in arg.split()]
                section = "reference"
            elif name == "MATRIX FORMAT":
                if arg.upper() not in ("FULL", "LOWER", "UPPER"):
                    raise TsError("bad matrix format %r" % arg)
                kw["mf"] = arg.upper()
            elif name == "BEGIN INFORMATION":
                section = "info"
            elif name == "END INFORMATION":
                section = "header"
            elif name == "NETWORK DATA":
                section = "network"
            elif name == "NOISE DATA":
                section = "noise"
            elif name == "END":
                ended = True
                section = "end"
            elif section == "info":
                pass                    # information keywords are free-form
            else:
                raise TsError("unknown keyword [%s]" % name)
            continue
        if section == "reference":
            kw["ref"] += [parse_number(t) for t in ln.split()]
        elif section == "network":
            tokens += _numbers(ln)
        elif section == "noise":
            noise_tokens += _numbers(ln)
        elif section == "info":
            pass
        elif ln.startswith("#"):
            pass
        else:
            raise TsError("unexpected text %r" % ln)
    for req in ("ports", "nf"):
        if req not in kw:
            raise TsError("missing keyword for %s" % req)
    ports = kw["ports"]
    nf = kw["nf"]
    if ports == 2 and "order" not in kw:
        raise TsError("[Two-Port Order] required for 2 ports")
    if ports != 2 and "order" in kw:
        raise TsError("[Two-Port Order] only for 2 ports")
    if res["param"] in ("H", "G") and ports != 2:
        raise TsError("%s needs two ports" % res["param"])
    mf = kw.get("mf", "FULL")
    npairs = ports * ports if mf == "FULL" else ports * (ports + 1) // 2
    per = 1 + 2 * npairs
    if len(tokens) != nf * per:
        raise TsError("network data: %d numbers, expected %d" %
                      (len(tokens), nf * per))
    rr = res["opt"]["r"]
    if "ref" in kw:
        if len(kw["ref"]) != ports:
            raise TsError("[Reference] needs %d values" % ports)
        z0 = list(kw["ref"])
    else:
        z0 = [rr] * ports
    fmt = res["fmt"]
    freqs, pairs, values = [], [], []
    q = 0
    for fi in range(nf):
        f = tokens[q] * mult
        q += 1
        if freqs and f <= freqs[-1]:
            raise TsError("frequencies not increasing")
        freqs.append(f)
        mat = [[None] * ports for _ in range(ports)]
        if mf == "FULL":
            cells = [(r, c) for r in range(ports) for c in range(ports)]
        elif mf == "UPPER":
            cells = [(r, c) for r in range(ports) for c in range(r, ports)]
        else:
            cells = [(r, c) for r in range(ports) for c in range(0, r + 1)]
        for (r, c) in cells:
            pr = (tokens[q], tokens[q + 1])
            q += 2
            if mf == "FULL":
                if ports == 2 and kw.get("order") == "21_12":
                    mat[c][r] = pr
                else:
                    mat[r][c] = pr
            else:
                mat[r][c] = pr
                mat[c][r] = pr
        pairs.append(mat)
        values.append([[decode_pair(a, b, fmt) for (a, b) in row]
                       for row in mat])
    if "nnf" in kw:
        if len(noise_tokens) != 5 * kw["nnf"]:
            raise TsError("noise data: %d numbers, expected %d" %
                          (len(noise_tokens), 5 * kw["nnf"]))
        for i in range(kw["nnf"]):
            res["noise"].append(tuple(noise_tokens[5 * i:5 * i + 5]))
    elif noise_tokens:
        raise TsError("[Noise Data] without [Number of Noise Frequencies]")
    res.update(ports=ports, nf=nf, freqs=freqs, z0=z0, pairs=pairs,
               values=values, order=kw.get("order"), matrix_format=mf,
               ended=ended, has_reference="ref" in kw,
               keywords=order_seen)


if __name__ == "__main__":
    import sys
    with open(sys.argv[1], "rb") as fp:
        r = read_touchstone(fp.read())
    print({k: r[k] for k in ("version", "opt", "ports", "nf", "freqs", "z0")})
