/*
 * vt_alloc.c -- link-time interposition of the allocator for libvna objects.
 *
 * Linked with -Wl,--wrap=malloc,--wrap=calloc,--wrap=realloc,--wrap=free,
 * --wrap=strdup,--wrap=vasprintf so that every allocation made from the
 * statically linked libvna objects (and the driver itself) comes through
 * here; libyaml (shared) is unaffected.  Only allocations made while a
 * library call is in progress (vt_in_lib > 0) are counted, tracked and
 * eligible for fault injection.  The __real_ symbols resolve to the ASan
 * interceptors, so sanitizer checking is unchanged.
 */
#include <errno.h>
#include <stdarg.h>
#include <stdio.h>
#include <stdlib.h>
#include <string.h>
#include <unistd.h>
#include "vt.h"

extern void *__real_malloc(size_t);
extern void *__real_calloc(size_t, size_t);
extern void *__real_realloc(void *, size_t);
extern void  __real_free(void *);
extern char *__real_strdup(const char *);
extern int   __real_vasprintf(char **, const char *, va_list);

volatile int vt_in_lib;
long vt_alloc_count;
long vt_alloc_live;
long vt_fail_at;
long vt_failed;
volatile int vt_pause;		/* >0: observation calls, not counted/failed */

/* open-addressing pointer set of live in-library blocks */
#define SET_BITS 20
#define SET_SIZE (1u << SET_BITS)
static void *set[SET_SIZE];

static unsigned hashp(const void *p)
{
    uint64_t x = (uint64_t)(uintptr_t)p;

    x ^= x >> 33;
    x *= 0xff51afd7ed558ccdull;
    x ^= x >> 33;
    return (unsigned)x & (SET_SIZE - 1);
}

static void track(void *p)
{
    unsigned h;

    if (p == NULL)
	return;
    if (vt_alloc_live >= (long)(SET_SIZE / 2)) {
	static const char msg[] = "vt_alloc: live-block set full\n";
	(void)!write(2, msg, sizeof(msg) - 1);
	_exit(3);
    }
    for (h = hashp(p); set[h] != NULL; h = (h + 1) & (SET_SIZE - 1))
	;
    set[h] = p;
    ++vt_alloc_live;
}

/* linear-probing delete with backward shift (no tombstones) */
static int untrack(void *p)
{
    unsigned h, i, j;

    if (p == NULL)
	return 0;
    for (h = hashp(p); set[h] != NULL; h = (h + 1) & (SET_SIZE - 1)) {
	if (set[h] == p)
	    break;
    }
    if (set[h] == NULL)
	return 0;
    i = h;
    for (;;) {
	set[i] = NULL;
	j = i;
	for (;;) {
	    unsigned k;

	    j = (j + 1) & (SET_SIZE - 1);
	    if (set[j] == NULL) {
		--vt_alloc_live;
		return 1;
	    }
	    k = hashp(set[j]);
	    /* can set[j] stay where it is?  yes if k lies cyclically in (i, j] */
	    if (i <= j ? (i < k && k <= j) : (i < k || k <= j))
		continue;
	    break;
	}
	set[i] = set[j];
	i = j;
    }
}

void vt_alloc_reset_count(void)
{
    vt_alloc_count = 0;
}

/* returns 1 if this allocation must fail */
static int account(void)
{
    if (vt_in_lib <= 0 || vt_pause > 0)
	return 0;
    ++vt_alloc_count;
    if (vt_fail_at != 0 && vt_alloc_count == vt_fail_at) {
	++vt_failed;
	errno = ENOMEM;
	return 1;
    }
    return 0;
}

void *__wrap_malloc(size_t n)
{
    void *p;

    if (account())
	return NULL;
    p = __real_malloc(n);
    if (vt_in_lib > 0)
	track(p);
    return p;
}

void *__wrap_calloc(size_t a, size_t b)
{
    void *p;

    if (account())
	return NULL;
    p = __real_calloc(a, b);
    if (vt_in_lib > 0)
	track(p);
    return p;
}

void *__wrap_realloc(void *old, size_t n)
{
    void *p;
    int was;

    if (account())
	return NULL;
    was = untrack(old);
    p = __real_realloc(old, n);
    if (p == NULL && n != 0) {
	if (was)
	    track(old);
	return NULL;
    }
    if (was || vt_in_lib > 0)
	track(p);
    return p;
}

void __wrap_free(void *p)
{
    (void)untrack(p);
    __real_free(p);
}

char *__wrap_strdup(const char *s)
{
    char *p;

    if (account())
	return NULL;
    p = __real_strdup(s);
    if (vt_in_lib > 0)
	track(p);
    return p;
}

int __wrap_vasprintf(char **strp, const char *fmt, va_list ap)
{
    int rv;

    if (account()) {
	*strp = NULL;
	return -1;
    }
    rv = __real_vasprintf(strp, fmt, ap);
    if (rv >= 0 && vt_in_lib > 0)
	track(*strp);
    return rv;
}
