/*
 * relcheck.h -- generic checker of network-parameter matrices against the
 * DEFINING PORT RELATIONS of vnaconv(3), which it receives as data from the
 * TLA+ module NetParams (exported by NetParamsTable, see families/netparams.py).
 *
 * Nothing in here is derived from libvna's conversion formulas: a matrix M of
 * type T "is" the n-port whose port states (v, i, a, b per port, for given
 * reference impedances) are exactly those with  dep(state) = M . ind(state),
 * where dep / ind are the tuples of port quantities the table gives for T.
 */
#ifndef RELCHECK_H
#define RELCHECK_H

#include <complex.h>
#include <stdbool.h>

#define RC_MAXN 8

typedef struct rc_term {
    char q;		/* 'v', 'i', 'a', 'b' */
    int p;		/* port, 0-based */
    int s;		/* +1 / -1 */
} rc_term_t;

typedef struct rc_rel {
    char type[8];
    int n;
    rc_term_t dep[RC_MAXN];
    rc_term_t ind[RC_MAXN];
} rc_rel_t;

/* full state of all ports */
typedef struct rc_state {
    int n;
    double complex v[RC_MAXN], i[RC_MAXN], a[RC_MAXN], b[RC_MAXN];
    /* magnitude each quantity would have without any cancellation in the
     * arithmetic that produced it (sum of absolute values of the terms) */
    double mv[RC_MAXN], mi[RC_MAXN], ma[RC_MAXN], mb[RC_MAXN];
} rc_state_t;

typedef struct rc_result {
    bool decided;	/* false: ill-conditioned / degenerate, no verdict */
    double resid;	/* worst scale-free residual of an output equation */
    double cond;	/* conditioning estimate that qualified the case */
} rc_result_t;

/* load the "rel" and "wave" lines of the table; 0 ok, -1 error (message
 * on stderr).  May be called once per process. */
extern int rc_load(const char *path);

/* relation of the given type for n ports; NULL if the table has none */
extern const rc_rel_t *rc_relation(const char *type, int n);

/* port state of the network (rel, m) driven with independent tuple ind[] */
extern int rc_state_from(const rc_rel_t *rel, const double complex *m,
	const double complex *ind, const double complex *z0, rc_state_t *st);

/* dep / ind tuple of a relation evaluated on a state */
extern void rc_tuples(const rc_rel_t *rel, const rc_state_t *st,
	double complex *dep, double complex *ind);

/*
 * rc_check: does (rout, mout) describe the same n-port as (rin, min)?
 * n independent dense states of the input network (independent tuples =
 * columns of the n x n matrix drive[], row-major) must satisfy the output
 * relation.  cond = 1-norm condition number of the matrix of the output
 * relation's independent tuples over those states (the quantity a conversion
 * has to invert), each row measured against the magnitude it would have
 * without cancellation -- a port quantity that only exists as a small
 * difference of large terms counts as (nearly) dependent; decided only if
 * cond <= cond_max.
 */
extern void rc_check(const rc_rel_t *rin, const double complex *min,
	const rc_rel_t *rout, const double complex *mout,
	const double complex *z0, const double complex *drive,
	double cond_max, rc_result_t *res);

/*
 * rc_reference: build the matrix of type rout for the network (rin, min)
 * from the definitions (mout = Dep . Ind^-1 over n independent states).
 * Returns the condition estimate (HUGE_VAL if singular).
 */
extern double rc_reference(const rc_rel_t *rin, const double complex *min,
	const rc_rel_t *rout, double complex *mout,
	const double complex *z0, const double complex *drive);

/*
 * rc_check_zin: zin[k] must equal v_k / i_k of the state of (rin, min) in
 * which every other port j is terminated in its reference impedance
 * (a_j = 0).  resid = worst relative deviation over the ports.
 */
extern void rc_check_zin(const rc_rel_t *rin, const double complex *min,
	const double complex *zin, const double complex *z0,
	double cond_max, rc_result_t *res);

/* ---- structured networks given by linear constraints on the port state ---- */
#define RC_MAXTERMS 12
typedef struct rc_cterm {
    char q;		/* 'v' or 'i' */
    int p;		/* port, 0-based */
    char c[8];		/* coefficient symbol: 1, -1, eK, -eK */
} rc_cterm_t;

typedef struct rc_net {
    char name[16];
    int n, nelem, neq;
    char ekind[8];	/* per element: 'z' impedance, 'y' admittance */
    int nterms[RC_MAXN];
    rc_cterm_t eq[RC_MAXN][RC_MAXTERMS];
} rc_net_t;

/* network of that name with n ports; NULL if the table has none */
extern const rc_net_t *rc_network(const char *name, int n);

/*
 * rc_matrix_of_network: the matrix of type rel of the network whose port
 * states are exactly the solutions of its constraints (element values e[]),
 * built from the definitions alone: for every unit independent tuple solve
 * {constraints, ind(state) = e_j} for the state and read off dep(state).
 * Returns a condition estimate of that solve (HUGE_VAL: the representation
 * does not exist for this network).  2 n <= RC_MAXN.
 */
extern double rc_matrix_of_network(const rc_net_t *net, const double complex *e,
	const rc_rel_t *rel, const double complex *z0, double complex *m);

/* own dense complex inverse (Gauss-Jordan, partial pivoting); returns the
 * 1-norm condition number or HUGE_VAL if singular */
extern double rc_invert(int n, const double complex *a, double complex *inv);

#endif /* RELCHECK_H */
