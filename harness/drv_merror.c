/*
 * drv_merror.c -- conformance driver for measurement-error modelling (C18):
 * vnacal_new_set_m_error / vnacal_new_solve with fully known standards
 * (MError.tla / MErrorTrace.tla).
 *
 * usage:
 *   drv_merror run TABLE SEED FROM TO
 *       TABLE: text rendering of the configuration table exported by TLC
 *       from MErrorTable.tla, one row per line:
 *         id type rows cols sn st grid kind vec ud sh
 * env: VT_TRACE=<path> (default stdout), SC_TIMEOUT=<seconds per solve>,
 *      SC_TMP=<directory for saved calibration files>
 *
 * Per row one episode: Reset, Cfg, Scn, End.  Readings come from etermsim;
 * noise is drawn by the driver with exactly the declared standard deviations
 * (E|n|^2 = sigma_nf^2 + sigma_tr^2 |m|^2 per complex reading).
 */
#include "sc_common.h"

typedef struct cfg {
    int id;
    char type[8];
    int r, c;
    int sn, st;
    char grid[8];
    char kind[12];
    char vec[8];
    char ud[8];			/* "-", "c1", "c2": unevenly determined columns */
    char sh[8];			/* shape of the declared noise over frequency */
} cfg_t;

static int read_row(const char *path, int row, cfg_t *c)
{
    FILE *fp = fopen(path, "r");
    char line[256];
    int n = 0, ok = -1;

    if (fp == NULL) {
	perror(path);
	_exit(3);
    }
    while (fgets(line, sizeof(line), fp) != NULL) {
	if (n++ == row) {
	    if (sscanf(line, "%d %7s %d %d %d %d %7s %11s %7s %7s %7s", &c->id,
			c->type, &c->r, &c->c, &c->sn, &c->st, c->grid,
			c->kind, c->vec, c->ud, c->sh) == 11)
		ok = 0;
	    break;
	}
    }
    fclose(fp);
    return ok;
}

static int g_timeout = 60;
static const char *g_tmp = "/tmp";

static double complex rand_gamma(vt_rng_t *rng, double lo, double hi)
{
    double r = lo + (hi - lo) * vt_unit(rng);
    double a = 6.283185307179586 * vt_unit(rng);

    return r * (cos(a) + I * sin(a));
}

/* ------------------------------------------------------- standard sets */

static int full_cell(sc_scn_t *sc, vt_rng_t *rng, double lo, double hi)
{
    return sc_scalar(sc, rand_gamma(rng, lo, hi));
}

/*
 * Fully known, over-determined standard set for the scenario's type and
 * dimensions.  Every standard specifies its whole S matrix when the type is
 * T16/U16 (vnacal_new(3): required with measurement-error modelling); the
 * other types use reflect pairs (which also observe every leakage cell),
 * throughs and lines on every port pair.  Unused VNA ports are terminated
 * in matched loads.
 */
static void known_set(sc_scn_t *sc, vt_rng_t *rng)
{
    const int P = sc->P;
    const int full16 = sc->type == ETS_T16 || sc->type == ETS_U16;

    if (P == 1) {
	sc_single(sc, NULL, 1, SC_SHORT);
	sc_single(sc, NULL, 1, SC_OPEN);
	sc_single(sc, NULL, 1, SC_MATCH);
	sc_single(sc, NULL, 1, full_cell(sc, rng, 0.3, 0.9));
	sc_single(sc, NULL, 1, full_cell(sc, rng, 0.3, 0.9));
	sc_single(sc, NULL, 1, full_cell(sc, rng, 0.1, 0.6));
	return;
    }
    if (full16 && P == 3) {
	static const int diag[4][3] = {
	    { SC_SHORT, SC_OPEN, SC_MATCH }, { SC_OPEN, SC_MATCH, SC_SHORT },
	    { SC_MATCH, SC_SHORT, SC_OPEN }, { SC_SHORT, SC_SHORT, SC_OPEN } };

	for (int d = 0; d < 4; ++d) {
	    sc_std_t *s = sc_mapped(sc, NULL);

	    for (int i = 0; i < 9; ++i)
		s->cell[i] = SC_ZERO;
	    for (int i = 0; i < 3; ++i)
		s->cell[i * 3 + i] = diag[d][i];
	}
	for (int a = 0; a < 3; ++a) {
	    for (int b = a + 1; b < 3; ++b) {
		sc_std_t *s = sc_mapped(sc, NULL);
		int o = 3 - a - b;

		for (int i = 0; i < 9; ++i)
		    s->cell[i] = SC_ZERO;
		s->cell[a * 3 + b] = SC_ONE;
		s->cell[b * 3 + a] = SC_ONE;
		s->cell[o * 3 + o] = (a + b) & 1 ? SC_SHORT : SC_OPEN;
	    }
	}
	for (int k = 0; k < 4; ++k)
	    sc_mapped_random(sc, rng, 0.7);
	return;
    }
    for (int a = 1; a <= P; ++a) {
	for (int b = a + 1; b <= P; ++b) {
	    sc_double(sc, NULL, a, b, SC_SHORT, SC_OPEN);
	    sc_double(sc, NULL, a, b, SC_OPEN, SC_SHORT);
	    sc_double(sc, NULL, a, b, SC_MATCH, SC_MATCH);
	    sc_double(sc, NULL, a, b, SC_MATCH, SC_SHORT);
	    sc_double(sc, NULL, a, b, SC_OPEN, SC_MATCH);
	    sc_through(sc, NULL, a, b);
	    sc_double(sc, NULL, a, b, full_cell(sc, rng, 0.3, 0.9),
		    full_cell(sc, rng, 0.3, 0.9));
	    sc_line(sc, NULL, a, b, full_cell(sc, rng, 0.0, 0.5),
		    full_cell(sc, rng, 0.3, 0.9), full_cell(sc, rng, 0.3, 0.9),
		    full_cell(sc, rng, 0.0, 0.5));
	    if (full16) {
		sc_line(sc, NULL, a, b, full_cell(sc, rng, 0.0, 0.5),
			full_cell(sc, rng, 0.3, 0.9),
			full_cell(sc, rng, 0.3, 0.9),
			full_cell(sc, rng, 0.0, 0.5));
		sc_line(sc, NULL, a, b, full_cell(sc, rng, 0.2, 0.8),
			full_cell(sc, rng, 0.1, 0.5),
			full_cell(sc, rng, 0.1, 0.5),
			full_cell(sc, rng, 0.2, 0.8));
	    }
	}
    }
}

/*
 * Unevenly determined column systems (UE14 / E12, two columns, 2 or 3 rows):
 * column `exact` (1 or 2) sees short, open, match on its own port and the
 * throughs from its port -- rows + 1 ... exactly 2 rows + 1 equations for
 * its 2 rows + 1 unknowns; the other column additionally sees `extra` known
 * reflects on its own port only and is over-determined.
 */
static void uneven_set(sc_scn_t *sc, vt_rng_t *rng, int exact)
{
    const int other = 3 - exact;
    const int order = vt_below(rng, 2);
    const double phi = 6.283185307179586 * vt_unit(rng);
    const double complex em = 0.7 * (cos(phi) + I * sin(phi));

    /*
     * The port of the over-determined column has a port match of 0.7 (a
     * poor but legitimate test port), and its additional reflects are
     * strong and roughly in anti-phase with it: the relation between a
     * reading's error and the residual of the linear system, 1 - Gamma Em,
     * is then far from 1 for every one of them -- the case in which
     * weighting the residuals correctly matters most.
     */
    for (int k = 0; k < sc->nf; ++k) {
	for (int cc = 0; cc < sc->cols; ++cc)
	    sc->e[k].em[cc][other - 1][other - 1] = em;
    }
    for (int pass = 0; pass < 2; ++pass) {
	int port = (pass ^ order) ? other : exact;

	sc_single(sc, NULL, port, SC_SHORT);
	sc_single(sc, NULL, port, SC_OPEN);
	sc_single(sc, NULL, port, SC_MATCH);
	if (port == other) {
	    for (int k = 0; k < 8; ++k) {
		double rho = 0.7 + 0.3 * vt_unit(rng);
		double d = 0.5 * (vt_unit(rng) - 0.5) - phi;

		sc_single(sc, NULL, port,
			sc_scalar(sc, -rho * (cos(d) + I * sin(d))));
	    }
	}
    }
    sc_through(sc, NULL, 1, 2);
    if (sc->P == 3) {
	sc_through(sc, NULL, 1, 3);
	sc_through(sc, NULL, 2, 3);
    }
}

/* ---------------------------------------------------------- noise model */

typedef struct noise {
    int n;			/* points of the declared vectors */
    int have_f;			/* frequency_vector given */
    int have_tr;
    double f[12], nf[12], tr[12];
} noise_t;

/*
 * Shape of the declared noise over the calibration band, as multipliers of
 * the base values 10^-sn and 10^-st; x is the position in the band (0 at
 * the first, 1 at the last calibration frequency; the linear shapes stay
 * positive a little beyond the band, where own grids have their end points):
 *   const  1, 1
 *   rise   noise floor rising, tracking falling
 *   cross  the same over almost two decades: tracking dominates at the low
 *          end, the noise floor at the high end
 *   step   (by calibration frequency index k of n) one level for the first
 *          half, another for the second, floor and tracking opposite
 */
static void shape_at(const cfg_t *c, double x, int k, int n, double *mnf,
	double *mtr)
{
    if (strcmp(c->sh, "rise") == 0) {
	*mnf = 0.1 + 0.8 * x;
	*mtr = 0.95 - 0.8 * x;
    } else if (strcmp(c->sh, "cross") == 0) {
	*mnf = 0.02 + 0.9 * x;
	*mtr = 0.95 - 0.9 * x;
    } else if (strcmp(c->sh, "step") == 0) {
	int hi = k >= 0 ? 2 * k >= n : x >= 0.5;

	*mnf = hi ? 0.05 : 1.0;
	*mtr = hi ? 1.0 : 0.05;
    } else {
	*mnf = 1.0;
	*mtr = 1.0;
    }
}

static double band_x(const sc_scn_t *sc, double f)
{
    if (sc->nf < 2)
	return 0.0;
    return (f - sc->f[0]) / (sc->f[sc->nf - 1] - sc->f[0]);
}

/*
 * Declared vectors for the configuration and the true standard deviations at
 * the calibration frequencies.  Forms (grid): "one" a single value; "cal"
 * one value per calibration frequency, frequency_vector NULL; own grids:
 * "two" two points just outside the band (the line through them), "n" four
 * or more points among which every calibration frequency (values at the
 * points are what counts), "same" as many points as calibration frequencies
 * but at other positions (first, then bunched right above it, last), values
 * on a straight line -- the natural cubic spline through collinear points
 * is that line.
 */
static void make_noise(sc_scn_t *sc, const cfg_t *c, vt_rng_t *rng,
	noise_t *nz, double true_nf[SC_MAXF], double true_tr[SC_MAXF])
{
    const double nf0 = pow(10.0, -c->sn);
    const double tr0 = c->st ? pow(10.0, -c->st) : 0.0;
    const int contrast = strcmp(c->kind, "iacc") == 0 ? -1 :
	strcmp(c->kind, "irej") == 0 ? 1 : 0;
    const int on_nf = strcmp(c->vec, "nf") == 0;
    const double f_lo = sc->f[0], f_hi = sc->f[sc->nf - 1];
    double mnf, mtr;

    (void)rng;
    memset(nz, 0, sizeof(*nz));
    nz->have_tr = c->st != 0;
    if (strcmp(c->grid, "one") == 0) {
	nz->n = 1;
	nz->nf[0] = nf0;
	nz->tr[0] = tr0;
	for (int k = 0; k < sc->nf; ++k) {
	    true_nf[k] = nf0;
	    true_tr[k] = tr0;
	}
	return;
    }
    if (strcmp(c->grid, "cal") == 0) {
	nz->n = sc->nf;
	for (int k = 0; k < sc->nf; ++k) {
	    shape_at(c, band_x(sc, sc->f[k]), k, sc->nf, &mnf, &mtr);
	    nz->nf[k] = true_nf[k] = nf0 * mnf;
	    nz->tr[k] = true_tr[k] = tr0 * mtr;
	}
	return;
    }
    nz->have_f = 1;
    if (contrast != 0) {
	/*
	 * The vector under test falls (iacc) or rises (irej) by a factor of
	 * 100 along a straight line over the grid.  "two" / "n": one
	 * calibration frequency strictly inside the last segment, at 99 % of
	 * the span.  "same": three or more calibration frequencies and as
	 * many grid points: the first, points bunched at 1 %, 2 % .. of the
	 * span, the last -- so that the k-th grid point is nowhere near the
	 * k-th calibration frequency.
	 */
	const double first = contrast < 0 ? 0.01 : 100.0;
	double fa, fb;

	if (strcmp(c->grid, "same") == 0) {
	    fa = 0.98 * f_lo;
	    fb = 1.02 * f_hi;
	    nz->n = sc->nf;
	    for (int i = 0; i < nz->n; ++i)
		nz->f[i] = i == nz->n - 1 ? fb : fa + 0.01 * i * (fb - fa);
	} else {
	    fa = 0.5 * f_lo;
	    fb = fa + (f_lo - fa) / 0.99;
	    nz->n = strcmp(c->grid, "two") == 0 ? 2 : 4 + vt_below(rng, 3);
	    for (int i = 0; i < nz->n; ++i)
		nz->f[i] = fa + (fb - fa) * i / (nz->n - 1);
	}
	for (int i = 0; i < nz->n; ++i) {
	    double t = (nz->f[i] - fa) / (fb - fa);
	    double v = first + t * (1.0 - first);

	    nz->nf[i] = nf0 * (on_nf ? v : 1.0);
	    nz->tr[i] = tr0 * (!on_nf ? v : 1.0);
	}
	for (int k = 0; k < sc->nf; ++k) {
	    double t = (sc->f[k] - fa) / (fb - fa);
	    double v = first + t * (1.0 - first);

	    true_nf[k] = nf0 * (on_nf ? v : 1.0);
	    true_tr[k] = tr0 * (!on_nf ? v : 1.0);
	}
	return;
    }
    if (strcmp(c->grid, "two") == 0 || strcmp(c->grid, "same") == 0) {
	/* values on a line in frequency: the shape, continued a little
	 * beyond the band; evaluated by the harness */
	const double span = sc->nf > 1 ? f_hi - f_lo : f_lo;
	const double fa = f_lo - 0.005 * span, fb = f_hi + 0.005 * span;

	nz->n = strcmp(c->grid, "two") == 0 ? 2 : sc->nf;
	for (int i = 0; i < nz->n; ++i) {
	    if (nz->n == 2)
		nz->f[i] = i ? fb : fa;
	    else
		nz->f[i] = i == nz->n - 1 ? fb : fa + 0.01 * i * (fb - fa);
	    shape_at(c, band_x(sc, nz->f[i]), -1, 0, &mnf, &mtr);
	    nz->nf[i] = nf0 * mnf;
	    nz->tr[i] = tr0 * mtr;
	}
	for (int k = 0; k < sc->nf; ++k) {
	    shape_at(c, band_x(sc, sc->f[k]), -1, 0, &mnf, &mtr);
	    true_nf[k] = nf0 * mnf;
	    true_tr[k] = tr0 * mtr;
	}
	return;
    }
    /* "n": every calibration frequency is a grid point; extra points below,
     * between and above */
    {
	int n = 0;

	nz->f[n++] = 0.4 * f_lo;
	nz->f[n++] = 0.7 * f_lo;
	for (int k = 0; k < sc->nf; ++k) {
	    nz->f[n++] = sc->f[k];
	    if (k + 1 < sc->nf && n < 9)
		nz->f[n++] = 0.5 * (sc->f[k] + sc->f[k + 1]);
	}
	nz->f[n++] = 1.5 * f_hi;
	nz->n = n;
	for (int i = 0; i < n; ++i) {
	    double x = band_x(sc, nz->f[i]);
	    int kk = -1;

	    for (int k = 0; k < sc->nf; ++k) {
		if (nz->f[i] == sc->f[k])
		    kk = k;
	    }
	    x = x < 0.0 ? 0.0 : x > 1.0 ? 1.0 : x;
	    shape_at(c, x, kk, sc->nf, &mnf, &mtr);
	    /* off the calibration frequencies the values are arbitrary */
	    if (kk < 0) {
		mnf *= 0.5 + 0.5 * vt_unit(rng);
		mtr *= 0.5 + 0.5 * vt_unit(rng);
	    }
	    nz->nf[i] = nf0 * mnf;
	    nz->tr[i] = tr0 * mtr;
	    if (kk >= 0) {
		true_nf[kk] = nz->nf[i];
		true_tr[kk] = nz->tr[i];
	    }
	}
    }
}

/* ------------------------------------------------------ saved-file view */

/* numbers of the calibration named `name` in a saved .vnacal file, as the
 * decimal strings written (at most max of them); returns the count or -1 */
static int saved_numbers(const char *path, const char *name,
	char (*out)[32], int max)
{
    FILE *fp = fopen(path, "r");
    char line[1024], key[64];
    int in = 0, data = 0, n = 0;

    if (fp == NULL)
	return -1;
    snprintf(key, sizeof(key), "- name: %s", name);
    while (fgets(line, sizeof(line), fp) != NULL) {
	if (strncmp(line, "- name: ", 8) == 0) {
	    size_t len = strlen(key);

	    in = strncmp(line, key, len) == 0 &&
		(line[len] == '\n' || line[len] == '\r' || line[len] == '\0');
	    data = 0;
	    continue;
	}
	if (!in)
	    continue;
	if (strncmp(line, "  data:", 7) == 0) {
	    data = 1;
	    continue;
	}
	if (!data)
	    continue;
	for (char *p = line; *p != '\0'; ++p) {
	    if ((*p == '+' || *p == '-') && p[1] >= '0' && p[1] <= '9' &&
		    (p == line || p[-1] == ' ' || p[-1] == '[')) {
		int k = 0;

		while (*p != '\0' && *p != ' ' && *p != 'j' && *p != ']' &&
			*p != ',' && *p != '\n' && k < 31)
		    out[n][k++] = *p++;
		out[n][k] = '\0';
		if (++n >= max) {
		    fclose(fp);
		    return n;
		}
		if (*p == '\0')
		    break;
	    }
	}
    }
    fclose(fp);
    return n;
}

#define MAXNUM 4096
static char num_a[MAXNUM][32], num_b[MAXNUM][32];

/* compare two calibrations of a saved file: *same = numerically equal to
 * rel_tol (relative to the largest term), *bit = identical digit strings */
static int compare_saved(const char *path, const char *na, const char *nb,
	double rel_tol, int *same, int *bit)
{
    int ca = saved_numbers(path, na, num_a, MAXNUM);
    int cb = saved_numbers(path, nb, num_b, MAXNUM);
    double scale = 0.0, worst = 0.0;

    *same = *bit = 0;
    if (ca <= 0 || cb <= 0 || ca != cb)
	return -1;
    *bit = 1;
    for (int i = 0; i < ca; ++i) {
	double a = strtod(num_a[i], NULL), b = strtod(num_b[i], NULL);

	if (strcmp(num_a[i], num_b[i]) != 0)
	    *bit = 0;
	if (fabs(a) > scale)
	    scale = fabs(a);
	if (!(fabs(a - b) <= worst))
	    worst = fabs(a - b);
    }
    *same = worst <= rel_tol * (scale > 1.0 ? scale : 1.0);
    return 0;
}

/* numbers of calibrations na and nb at frequency index j of nf agree to
 * rel_tol of the largest term at that frequency: 1 / 0, -1 unreadable */
static int compare_saved_at(const char *path, const char *na, const char *nb,
	int j, int nf, double rel_tol)
{
    int ca = saved_numbers(path, na, num_a, MAXNUM);
    int cb = saved_numbers(path, nb, num_b, MAXNUM);
    double scale = 1.0, worst = 0.0;
    int per;

    if (ca <= 0 || ca != cb || ca % nf != 0)
	return -1;
    per = ca / nf;
    for (int i = j * per; i < (j + 1) * per; ++i) {
	double a = strtod(num_a[i], NULL), b = strtod(num_b[i], NULL);

	if (fabs(a) > scale)
	    scale = fabs(a);
	if (!(fabs(a - b) <= worst))
	    worst = fabs(a - b);
    }
    return worst <= rel_tol * scale;
}

/* --------------------------------------------------------------- solves */

typedef struct sres {
    int setup;			/* alloc, frequency vector, adds all fine */
    int mset;			/* return of vnacal_new_set_m_error (9: none) */
    int ret, err, cbn, one;
    char cat[16];
    int added;
} sres_t;

/*
 * one_solve: new vnacal_new_t on vcp with the scenario's standards (noise as
 * currently configured in sc, drawn from `noise_seed`), measurement-error
 * model per `mode` (0 none, 1 on, 2 on then cleared), solve, and on success
 * add the calibration under `name`.
 */
/* history of earlier declarations of the noise model on the same
 * vnacal_new_t (re-declaration kinds): first g_pre, optionally cleared with
 * (NULL, NULL), then the final declaration; only the last one counts */
static const noise_t *g_pre;
static int g_pre_clear;

static void one_solve(sc_scn_t *sc, vnacal_t *vcp, const noise_t *nz,
	int mode, uint64_t noise_seed, const char *name, sres_t *r)
{
    vnacal_new_t *vnp;
    vt_rng_t rng;
    int ok = 1;

    memset(r, 0, sizeof(*r));
    r->mset = 9;
    strcpy(r->cat, "NONE");
    vt_seed(&rng, noise_seed ^ 0xabcdefull);
    vt_seed(&sc->noise_rng, noise_seed);
    vt_cb_reset();
    vnp = LIB(vnacal_new_alloc(vcp, sc_libtype(sc->type), sc->rows, sc->cols,
		sc->nf));
    if (vnp == NULL)
	return;
    if (LIB(vnacal_new_set_frequency_vector(vnp, sc->f)) != 0)
	ok = 0;
    for (int si = 0; ok && si < sc->nstd; ++si) {
	if (sc_add_std(sc, vnp, si, &rng) != 0)
	    ok = 0;
    }
    if (ok && vt_cb.n_nonwarn == 0)
	r->setup = 1;
    if (r->setup && mode != 0) {
	vt_cb_reset();
	if (g_pre != NULL && mode == 1) {
	    r->mset = LIB(vnacal_new_set_m_error(vnp,
			g_pre->have_f ? g_pre->f : NULL, g_pre->n, g_pre->nf,
			g_pre->have_tr ? g_pre->tr : NULL));
	    if (r->mset == 0 && g_pre_clear)
		r->mset = LIB(vnacal_new_set_m_error(vnp, NULL, 1, NULL,
			    NULL));
	    if (r->mset != 0)
		r->mset = 6;		/* an earlier declaration refused */
	}
	if (r->mset == 0 || r->mset == 9)
	    r->mset = LIB(vnacal_new_set_m_error(vnp,
			nz->have_f ? nz->f : NULL, nz->n, nz->nf,
			nz->have_tr ? nz->tr : NULL));
	if (r->mset == 0 && mode == 2)
	    r->mset = LIB(vnacal_new_set_m_error(vnp, NULL, 1, NULL, NULL));
	/* the default significance is 0.001; say so explicitly half the time */
	if (r->mset == 0 && mode == 1 && (noise_seed & 1) &&
		LIB(vnacal_new_set_pvalue_limit(vnp, 0.001)) != 0)
	    r->mset = 7;
	if (vt_cb.n_nonwarn != 0 && r->mset == 0)
	    r->mset = 8;		/* succeeded yet reported an error */
    }
    if (r->setup && (mode == 0 || r->mset == 0)) {
	vt_cb_reset();
	sc_watchdog(g_timeout);
	r->ret = LIB(vnacal_new_solve(vnp));
	r->err = errno;
	vt_watchdog_stop();
	r->cbn = vt_cb.n_nonwarn;
	r->one = vt_cb.n >= 1 && vt_cb.one_line[0];
	if (vt_cb.n >= 1)
	    snprintf(r->cat, sizeof(r->cat), "%s", vt_catname(vt_cb.cat[0]));
	if (r->ret == 0 && name != NULL) {
	    vt_cb_reset();
	    if (LIB(vnacal_add_calibration(vcp, name, vnp)) >= 0 &&
		    LIB(vnacal_find_calibration(vcp, name)) >= 0)
		r->added = 1;
	}
    } else {
	r->ret = 9;
    }
    LIBV(vnacal_new_free(vnp));
}

static void run_case(const char *table, uint64_t seed, int row)
{
    cfg_t c;
    sc_scn_t sc;
    vt_rng_t rng;
    noise_t nz;
    double true_nf[SC_MAXF] = { 0 }, true_tr[SC_MAXF] = { 0 };
    vnacal_t *vcp;
    sres_t ref, w, clr;
    int type, nf, same = -1, bit = -1, same_apply = -1;
    long live0 = vt_alloc_live;
    uint64_t nseed;
    char path[512];

    vt_put("{\"e\":\"Reset\",\"mod\":\"MError\",\"case\":\"run:%llu:%d\","
	    "\"seed\":%llu}", (unsigned long long)seed, row,
	    (unsigned long long)seed);
    vt_end_line();
    if (read_row(table, row, &c) != 0 ||
	    (type = sc_type_by_name(c.type)) < 0) {
	vt_put("{\"e\":\"Cfg\",\"bad\":1}");
	vt_end_line();
	vt_put("{\"e\":\"End\",\"live\":0,\"leaked\":0}");
	vt_end_line();
	return;
    }
    vt_seed(&rng, seed * 1000003ull + (uint64_t)row * 7919ull + 17);
    nseed = vt_u64(&rng);
    if (strcmp(c.grid, "same") == 0)
	nf = 3 + vt_below(&rng, 3);		/* needs interior points */
    else if (strcmp(c.sh, "const") != 0)
	nf = 2 + vt_below(&rng, 4);		/* a shape needs a band */
    else if (strcmp(c.kind, "iacc") == 0 || strcmp(c.kind, "irej") == 0)
	nf = 1;
    else if (strcmp(c.kind, "exact") == 0 || strcmp(c.kind, "det") == 0)
	nf = 1 + vt_below(&rng, 3);
    else
	nf = 1 + vt_below(&rng, 2);
    if (strcmp(c.ud, "-") != 0) {
	sc_init(&sc, (ets_type_t)type, c.r, c.c, nf, &rng, 0.5);
	uneven_set(&sc, &rng, c.ud[1] == '1' ? 1 : 2);
    } else {
	sc_init(&sc, (ets_type_t)type, c.r, c.c, nf, &rng, 0.5);
	known_set(&sc, &rng);
    }
    /* exact kinds: one third of the scenarios hand over a and b instead
     * of m (noise is declared on m = b / a, so the noisy kinds use m) */
    if ((strcmp(c.kind, "exact") == 0 || strcmp(c.kind, "det") == 0) &&
	    vt_below(&rng, 3) == 0)
	sc.ab = 1;
    for (int si = 0; si < sc.nstd; ++si)
	sc.std[si].scale = 1.0;
    make_noise(&sc, &c, &rng, &nz, true_nf, true_tr);
    vt_put("{\"e\":\"Cfg\",\"id\":%d,\"ty\":\"%s\",\"r\":%d,\"c\":%d,"
	    "\"sn\":%d,\"st\":%d,\"grid\":\"%s\",\"kind\":\"%s\","
	    "\"vec\":\"%s\",\"ud\":\"%s\",\"sh\":\"%s\",\"nf\":%d,\"pts\":%d,"
	    "\"nstd\":%d,\"fm\":\"%s\"}",
	    c.id, c.type, c.r, c.c, c.sn, c.st, c.grid, c.kind, c.vec, c.ud, c.sh,
	    nf, nz.n, sc.nstd, sc.ab ? "ab" : "m");
    vt_end_line();

    memset(&ref, 0, sizeof(ref));
    memset(&w, 0, sizeof(w));
    memset(&clr, 0, sizeof(clr));
    ref.ret = w.ret = clr.ret = 9;
    ref.mset = w.mset = clr.mset = 9;
    strcpy(ref.cat, "NONE");
    strcpy(w.cat, "NONE");
    strcpy(clr.cat, "NONE");
    vt_cb_reset();
    vcp = LIB(vnacal_create(vt_errfn, NULL));
    if (vcp == NULL || sc_make_params(&sc, vcp) != 0)
	goto report;

    if (strcmp(c.kind, "few") == 0) {
	/* two standards only: too few for every type */
	sc.nstd = 2;
	one_solve(&sc, vcp, &nz, 1, nseed, NULL, &w);
    } else if (strcmp(c.kind, "agree") == 0) {
	/*
	 * The same noisy readings solved under two declarations that agree
	 * at calibration frequency j (> 0) and differ everywhere else (noise
	 * floor 30 x larger, tracking unchanged: another floor / tracking
	 * ratio, and never tighter than the first declaration): the error
	 * terms at frequency j must be the same.
	 */
	noise_t nz2;
	int j = 1 + vt_below(&rng, sc.nf - 1);

	memset(&nz2, 0, sizeof(nz2));
	nz2.n = sc.nf;
	nz2.have_tr = 1;
	for (int k = 0; k < sc.nf; ++k) {
	    nz2.nf[k] = true_nf[k] * (k == j ? 1.0 : 30.0);
	    nz2.tr[k] = true_tr[k];
	    sc.noise_nf[k] = true_nf[k];
	    sc.noise_tr[k] = true_tr[k];
	}
	for (int si = 0; si < sc.nstd; ++si)
	    sc.std[si].scale = 0.3;
	one_solve(&sc, vcp, &nz, 1, nseed, "a1", &w);
	one_solve(&sc, vcp, &nz2, 1, nseed, "a2", &clr);
	if (w.added && clr.added) {
	    snprintf(path, sizeof(path), "%s/merror-%d-%d.vnacal", g_tmp,
		    (int)getpid(), row);
	    (void)LIB(vnacal_set_dprecision(vcp, 17));
	    if (LIB(vnacal_save(vcp, path)) == 0)
		same = compare_saved_at(path, "a1", "a2", j, sc.nf, 1e-9);
	    (void)unlink(path);
	}
    } else if (strcmp(c.kind, "exact") == 0 || strcmp(c.kind, "det") == 0) {
	if (strcmp(c.kind, "det") == 0)
	    sc.nstd = 3;		/* short, open, match: exactly determined */
	/* exact data in all three runs */
	one_solve(&sc, vcp, &nz, 0, nseed, "ref", &ref);
	one_solve(&sc, vcp, &nz, 1, nseed, "w", &w);
	one_solve(&sc, vcp, &nz, 2, nseed, "clr", &clr);
	if (ref.added && (w.added || clr.added)) {
	    int s2, b2;

	    snprintf(path, sizeof(path), "%s/merror-%d-%d.vnacal", g_tmp,
		    (int)getpid(), row);
	    (void)LIB(vnacal_set_dprecision(vcp, 17));
	    if (LIB(vnacal_save(vcp, path)) == 0) {
		if (w.added && compare_saved(path, "ref", "w", 1e-7, &s2,
			    &b2) == 0)
		    same = s2;
		if (clr.added && compare_saved(path, "ref", "clr", 1e-7, &s2,
			    &b2) == 0)
		    bit = b2;
	    }
	    (void)unlink(path);
	    /* second view for square calibrations: corrected S of a device */
	    if (w.added && sc.rows == sc.cols) {
		sc_apply_t a0, a1;
		int c0 = LIB(vnacal_find_calibration(vcp, "ref"));
		int c1 = LIB(vnacal_find_calibration(vcp, "w"));

		sc_apply_dut(&sc, vcp, c0, nseed * 3 + 1, &a0);
		sc_apply_dut(&sc, vcp, c1, nseed * 3 + 1, &a1);
		same_apply = 0;
		if (a0.rv == 0 && a1.rv == 0) {
		    double worst = 0.0;

		    for (int k = 0; k < sc.nf; ++k) {
			for (int i = 0; i < sc.P * sc.P; ++i) {
			    double d = cabs(a0.s[k][i] - a1.s[k][i]);

			    if (!(d <= worst))
				worst = d;
			}
		    }
		    same_apply = worst <= 1e-7 && a0.worst <= 1e-6 &&
			a1.worst <= 1e-6;
		}
		if (same == 1 && same_apply == 0)
		    same = 0;
	    }
	}
    } else {
	/* noisy data: declared sigma at each calibration frequency */
	double amp = 1.0;
	noise_t pre;
	const int rdacc = strcmp(c.kind, "rdacc") == 0;
	const int rdrej = strcmp(c.kind, "rdrej") == 0;

	if (rdacc || rdrej) {
	    /* an earlier, different declaration on the same vnacal_new_t:
	     * 100 x smaller (rdacc) / larger (rdrej) values on another kind
	     * of grid ("regrid", "offon": cleared in between), or the same
	     * noise floor with a tracking vector of 0.1 that the final
	     * declaration drops ("trnull") */
	    const double k = rdacc ? 0.01 : 100.0;

	    memset(&pre, 0, sizeof(pre));
	    if (strcmp(c.vec, "trnull") == 0) {
		pre = nz;
		pre.have_tr = 1;
		for (int i = 0; i < pre.n; ++i)
		    pre.tr[i] = 0.1;
	    } else if (strcmp(c.grid, "two") != 0) {
		pre.n = 2;
		pre.have_f = 1;
		pre.f[0] = 0.5 * sc.f[0];
		pre.f[1] = 2.0 * sc.f[sc.nf - 1];
		pre.have_tr = c.st != 0;
		for (int i = 0; i < 2; ++i) {
		    pre.nf[i] = k * pow(10.0, -c.sn);
		    pre.tr[i] = c.st ? k * pow(10.0, -c.st) : 0.0;
		}
	    } else {
		pre.n = 1;
		pre.have_tr = c.st != 0;
		pre.nf[0] = k * pow(10.0, -c.sn);
		pre.tr[0] = c.st ? k * pow(10.0, -c.st) : 0.0;
	    }
	    g_pre = &pre;
	    g_pre_clear = strcmp(c.vec, "offon") == 0;
	    amp = 0.3;
	}
	if (strcmp(c.kind, "iacc") == 0)
	    amp = 0.3;
	else if (strcmp(c.kind, "irej") == 0)
	    amp = 0.3;
	for (int k = 0; k < sc.nf; ++k) {
	    sc.noise_nf[k] = true_nf[k];
	    sc.noise_tr[k] = true_tr[k];
	}
	for (int si = 0; si < sc.nstd; ++si)
	    sc.std[si].scale = amp;
	if (strcmp(c.kind, "outlier") == 0 || strcmp(c.kind, "irej") == 0 ||
		rdrej) {
	    /* the outlier must be observable: a reflect standard on port 1
	     * (always driven and detected), whose reflection equation is
	     * over-determined by the other reflects on that port */
	    int cand[SC_MAXSTD], nc = 0;
	    /* unevenly determined columns: only the over-determined column
	     * can show an outlier */
	    const int oport = strcmp(c.ud, "c1") == 0 ? 2 : 1;

	    for (int si = 0; si < sc.nstd; ++si) {
		const sc_std_t *s = &sc.std[si];

		if ((s->shape == SCS_SINGLE || s->shape == SCS_DOUBLE) &&
			s->port[0] == oport)
		    cand[nc++] = si;
	    }
	    if (nc == 0) {		/* mapped sets: diagonal standards */
		for (int si = 0; si < 4 && si < sc.nstd; ++si)
		    cand[nc++] = si;
	    }
	    sc.std[cand[vt_below(&rng, nc)]].outlier = 1;
	    sc.outlier_sigmas = 100.0;
	}
	one_solve(&sc, vcp, &nz, 1, nseed, NULL, &w);
	g_pre = NULL;
    }
report:
    vt_put("{\"e\":\"Scn\",\"kind\":\"%s\",\"ty\":\"%s\",\"cls\":\"%s%s\",\"ref\":%d,"
	    "\"refsetup\":%d,\"wsetup\":%d,\"mset\":%d,\"wret\":%d,"
	    "\"werr\":\"%s\",\"wcbn\":%d,\"wcat\":\"%s\",\"wone\":%d,"
	    "\"same\":%d,\"clr\":%d,\"clrmset\":%d,\"bit\":%d}", c.kind, c.type,
	    c.type, strcmp(c.ud, "-") != 0 ? (c.ud[1] == '1' ? "u1" : "u2") : "",
	    ref.ret, ref.setup, w.setup, w.mset, w.ret,
	    vt_errname(w.ret == -1 ? w.err : 0), w.cbn, w.cat, w.one, same,
	    clr.ret, clr.mset, bit);
    vt_end_line();
    if (vcp != NULL) {
	sc_delete_params(&sc, vcp);
	LIBV(vnacal_free(vcp));
    }
    vt_put("{\"e\":\"End\",\"live\":%ld,\"leaked\":%d}",
	    vt_alloc_live - live0, vt_alloc_live != live0);
    vt_end_line();
}

int main(int argc, char **argv)
{
    const char *trace = getenv("VT_TRACE");
    const char *to = getenv("SC_TIMEOUT");
    const char *tmp = getenv("SC_TMP");

    vt_open(trace != NULL ? trace : "-");
    vt_install_crash_handlers();
    if (to != NULL && atoi(to) > 0)
	g_timeout = atoi(to);
    if (tmp != NULL)
	g_tmp = tmp;
    if (argc == 6 && strcmp(argv[1], "run") == 0) {
	uint64_t seed = strtoull(argv[3], NULL, 10);
	int from = atoi(argv[4]), to_ = atoi(argv[5]);

	for (int row = from; row < to_; ++row)
	    run_case(argv[2], seed, row);
	vt_close();
	return 0;
    }
    fprintf(stderr, "usage: drv_merror run TABLE SEED FROM TO\n");
    return 2;
}
