/*
 * drv_calfile.c -- conformance driver for vnacal_save / vnacal_load
 * (CalFile.tla, property C07).
 *
 * Each case is a history on one vnacal_t: add (new name / existing name) of
 * solved calibrations of all 8 types and the dimensions each type allows
 * (including rectangular), delete (valid and invalid indices), the precision
 * setters (1..40, VNACAL_MAX_PRECISION, invalid values), replacement of the
 * global and per-calibration property documents, then save, load and a
 * comparison of the loaded container with the saved one; optionally the
 * history continues on the loaded container.
 *
 * Numeric content never enters the trace.  The harness decides, with its own
 * arithmetic, which calibrations of the saved container a loaded calibration
 * equals "to the saved precision" (fLike / z0Like / termsLike lists of
 * original calibration indices) and whether vnacal_apply_m agrees on the two
 * (apply triples); CalFileTrace decides which index must be in those lists.
 * Error terms are not reachable through public getters; they are read from
 * the bytes of files written by vnacal_save at VNACAL_MAX_PRECISION with the
 * harness's own reader (libyaml + strtod), which is a public observable.
 *
 * usage:
 *   drv_calfile hist SEED FROM TO [MAXDIM]
 *   drv_calfile legacy V2FILE REFTABLE FROM TO
 *   drv_calfile legacyw SEED FROM TO	same content in current and legacy layouts
 *   drv_calfile version FROM TO
 * env: VT_TRACE, VT_TMP
 */
#include <yaml.h>
#include "cf_common.h"

static char path_buf[CF_PATHMAX];
static char file_main[512], file_ref[512], file_re[512], file_tmp[512];

/* ------------------------------------------------ own reader of .vnacal */

#define RD_MAXCAL 16
#define RD_MAXNUM 4096

typedef struct rd_cal {
    char name[512];
    char shape[512];		/* sequence of "key:count," per frequency 0 */
    int nf;
    double f[CF_MAXF + 4];
    int nnum;
    double complex num[RD_MAXNUM];
} rd_cal_t;

typedef struct rd_file {
    int ok;
    int fhex, dhex;		/* every f / every term written in C99 hex notation */
    int ncal;
    rd_cal_t cal[RD_MAXCAL];
} rd_file_t;

static rd_file_t rd_a, rd_b, rd_m;
static rd_file_t *rd_cur;

static int rd_is_hex(const char *v)
{
    while (*v == ' ' || *v == '+' || *v == '-')
	++v;
    return v[0] == '0' && (v[1] == 'x' || v[1] == 'X');
}

static int rd_complex(const char *s, double complex *out)
{
    char *end;
    double re, im;

    re = strtod(s, &end);
    if (end == s)
	return -1;
    s = end;
    im = strtod(s, &end);
    if (end == s)
	return -1;
    while (*end == ' ')
	++end;
    if (*end != 'j')
	return -1;
    *out = re + I * im;
    return 0;
}

static void rd_collect(yaml_document_t *doc, yaml_node_t *n, rd_cal_t *c,
	int *count)
{
    if (n->type == YAML_SCALAR_NODE) {
	const char *v = (const char *)n->data.scalar.value;
	double complex z;

	if (strcmp(v, "~") == 0 || strcmp(v, "null") == 0)
	    return;
	if (rd_complex(v, &z) != 0 || c->nnum >= RD_MAXNUM) {
	    c->nnum = -1000000;
	    return;
	}
	if (!rd_is_hex(v))
	    rd_cur->dhex = 0;
	c->num[c->nnum++] = z;
	++*count;
    } else if (n->type == YAML_SEQUENCE_NODE) {
	for (yaml_node_item_t *it = n->data.sequence.items.start;
		it < n->data.sequence.items.top; ++it)
	    rd_collect(doc, yaml_document_get_node(doc, *it), c, count);
    }
}

static yaml_node_t *rd_lookup(yaml_document_t *doc, yaml_node_t *map,
	const char *key)
{
    if (map == NULL || map->type != YAML_MAPPING_NODE)
	return NULL;
    for (yaml_node_pair_t *p = map->data.mapping.pairs.start;
	    p < map->data.mapping.pairs.top; ++p) {
	yaml_node_t *k = yaml_document_get_node(doc, p->key);

	if (k->type == YAML_SCALAR_NODE &&
		strcmp((const char *)k->data.scalar.value, key) == 0)
	    return yaml_document_get_node(doc, p->value);
    }
    return NULL;
}

static void rd_read(const char *path, rd_file_t *out)
{
    FILE *fp = fopen(path, "r");
    yaml_parser_t parser;
    yaml_document_t doc;
    yaml_node_t *root, *cals;
    char line[256];

    out->ok = 0;
    out->ncal = 0;
    out->fhex = out->dhex = 1;
    rd_cur = out;
    if (fp == NULL)
	return;
    if (fgets(line, sizeof(line), fp) == NULL) {
	fclose(fp);
	return;
    }
    yaml_parser_initialize(&parser);
    yaml_parser_set_input_file(&parser, fp);
    if (!yaml_parser_load(&parser, &doc)) {
	yaml_parser_delete(&parser);
	fclose(fp);
	return;
    }
    root = yaml_document_get_root_node(&doc);
    cals = rd_lookup(&doc, root, "calibrations");
    if (cals != NULL && cals->type == YAML_SEQUENCE_NODE) {
	out->ok = 1;
	for (yaml_node_item_t *it = cals->data.sequence.items.start;
		it < cals->data.sequence.items.top &&
		out->ncal < RD_MAXCAL; ++it) {
	    yaml_node_t *cn = yaml_document_get_node(&doc, *it);
	    rd_cal_t *c = &out->cal[out->ncal++];
	    yaml_node_t *name = rd_lookup(&doc, cn, "name");
	    yaml_node_t *data = rd_lookup(&doc, cn, "data");

	    memset(c->name, 0, sizeof(c->name));
	    c->shape[0] = '\0';
	    c->nf = 0;
	    c->nnum = 0;
	    if (name != NULL && name->type == YAML_SCALAR_NODE)
		snprintf(c->name, sizeof(c->name), "%s",
			(const char *)name->data.scalar.value);
	    if (data == NULL || data->type != YAML_SEQUENCE_NODE) {
		out->ok = 0;
		continue;
	    }
	    for (yaml_node_item_t *fi = data->data.sequence.items.start;
		    fi < data->data.sequence.items.top; ++fi) {
		yaml_node_t *fm = yaml_document_get_node(&doc, *fi);

		if (fm->type != YAML_MAPPING_NODE) {
		    out->ok = 0;
		    break;
		}
		for (yaml_node_pair_t *p = fm->data.mapping.pairs.start;
			p < fm->data.mapping.pairs.top; ++p) {
		    yaml_node_t *k = yaml_document_get_node(&doc, p->key);
		    yaml_node_t *v = yaml_document_get_node(&doc, p->value);
		    const char *ks = (const char *)k->data.scalar.value;

		    if (strcmp(ks, "f") == 0) {
			if (c->nf < CF_MAXF + 4)
			    c->f[c->nf++] = strtod(
				    (const char *)v->data.scalar.value, NULL);
			if (!rd_is_hex((const char *)v->data.scalar.value))
			    out->fhex = 0;
		    } else {
			int count = 0;

			rd_collect(&doc, v, c, &count);
			if (fi == data->data.sequence.items.start) {
			    size_t l = strlen(c->shape);

			    snprintf(c->shape + l, sizeof(c->shape) - l,
				    "%s:%d,", ks, count);
			}
		    }
		}
	    }
	    if (c->nnum < 0)
		out->ok = 0;
	}
    }
    yaml_document_delete(&doc);
    yaml_parser_delete(&parser);
    fclose(fp);
}

/* ------------------------------------------------------- tolerances */

/* relative tolerance for "equal to p significant digits"; -1 = default
 * precision (6 or 7 digits: the weaker reading is used) */
static double tol_of(int p)
{
    double t;

    if (p == VNACAL_MAX_PRECISION)
	return 0.0;
    if (p < 0)
	p = 6;
    t = pow(10.0, 1.0 - (double)p);
    if (t < 4.5e-16)
	t = 4.5e-16;
    return t;
}

static int near_real(double a, double ref, double tol)
{
    if (tol == 0.0)
	return memcmp(&a, &ref, sizeof(a)) == 0 || a == ref;
    return fabs(a - ref) <= tol * fabs(ref) + 1e-300;
}

static int near_complex(double complex a, double complex ref, double tol)
{
    return near_real(creal(a), creal(ref), tol) &&
	near_real(cimag(a), cimag(ref), tol);
}

/* ------------------------------------------------------- generated cals */

#define MAXGEN 64
typedef struct gen {
    int nf;
    double f[CF_MAXF];
    double complex z0;
} gen_t;
static gen_t gens[MAXGEN];
static int ngens;

static const char *type_name(vnacal_type_t t)
{
    switch (t) {
    case VNACAL_T8:   return "T8";
    case VNACAL_U8:   return "U8";
    case VNACAL_TE10: return "TE10";
    case VNACAL_UE10: return "UE10";
    case VNACAL_T16:  return "T16";
    case VNACAL_U16:  return "U16";
    case VNACAL_UE14: return "UE14";
    case VNACAL_E12:  return "E12";
    default:	      return "?";
    }
}

/* projection of the container through the public getters; numeric content
 * is named by the generated calibrations it equals bit for bit */
static void put_container(vnacal_t *vcp)
{
    int end = LIB(vnacal_get_calibration_end(vcp));

    vt_put("{\"end\":%d,\"slots\":[", end);
    for (int ci = 0; ci < end; ++ci) {
	const char *name = LIB(vnacal_get_name(vcp, ci));

	if (ci)
	    vt_put(",");
	if (name == NULL) {
	    vt_put("{\"u\":0}");
	    continue;
	}
	{
	    int nf = LIB(vnacal_get_frequencies(vcp, ci));
	    const double *fv = LIB(vnacal_get_frequency_vector(vcp, ci));
	    double complex z0 = LIB(vnacal_get_z0(vcp, ci));
	    int first = 1;

	    vt_put("{\"u\":1,\"name\":");
	    cf_put_sid(name);
	    vt_put(",\"type\":\"%s\",\"rows\":%d,\"cols\":%d,\"nf\":%d,"
		    "\"fmin\":%d,\"fmax\":%d,\"num\":[",
		    type_name(LIB(vnacal_get_type(vcp, ci))),
		    LIB(vnacal_get_rows(vcp, ci)),
		    LIB(vnacal_get_columns(vcp, ci)), nf,
		    fv != NULL && nf > 0 &&
			LIB(vnacal_get_fmin(vcp, ci)) == fv[0],
		    fv != NULL && nf > 0 &&
			LIB(vnacal_get_fmax(vcp, ci)) == fv[nf - 1]);
	    for (int g = 0; g < ngens; ++g) {
		int same = fv != NULL && gens[g].nf == nf &&
		    near_complex(z0, gens[g].z0, 0.0);

		for (int k = 0; same && k < nf; ++k)
		    same = near_real(fv[k], gens[g].f[k], 0.0);
		if (same) {
		    vt_put("%s%d", first ? "" : ",", g);
		    first = 0;
		}
	    }
	    vt_put("]}");
	}
    }
    vt_put("]}");
}

/* ------------------------------------------------------------- apply */

/* apply calibration ci of vcp to a fixed pseudo-random M; returns 0 and the
 * S values in out[] (n*n*nf), or -1 if the library refuses */
static int do_apply(vnacal_t *vcp, int ci, uint64_t seed,
	double complex *out, int *count)
{
    int rows = LIB(vnacal_get_rows(vcp, ci));
    int cols = LIB(vnacal_get_columns(vcp, ci));
    int nf = LIB(vnacal_get_frequencies(vcp, ci));
    const double *fv = LIB(vnacal_get_frequency_vector(vcp, ci));
    int n = rows > cols ? rows : cols;
    static double complex mbuf[CF_MAXPORTS * CF_MAXPORTS][CF_MAXF + 4];
    double complex *mptr[CF_MAXPORTS * CF_MAXPORTS];
    vt_rng_t rng;
    vnadata_t *vdp;
    int rv;

    *count = 0;
    if (fv == NULL || nf <= 0 || nf > CF_MAXF || n > CF_MAXPORTS)
	return -1;
    vt_seed(&rng, seed);
    for (int i = 0; i < n * n; ++i) {
	mptr[i] = mbuf[i];
	for (int k = 0; k < nf; ++k) {
	    int r = i / n, c = i % n;

	    mbuf[i][k] = cf_crand(&rng, 0.3) + (r == c ? 0.2 : 0.0);
	}
    }
    vdp = LIB(vnadata_alloc(vt_errfn, NULL));
    if (vdp == NULL)
	return -1;
    rv = LIB(vnacal_apply_m(vcp, ci, fv, nf, mptr, n, n, vdp));
    if (rv == 0) {
	int sr = LIB(vnadata_get_rows(vdp)), sc = LIB(vnadata_get_columns(vdp));
	int sf = LIB(vnadata_get_frequencies(vdp));

	for (int k = 0; k < sf && k < nf; ++k)
	    for (int r = 0; r < sr; ++r)
		for (int c = 0; c < sc; ++c)
		    out[(*count)++] = LIB(vnadata_get_cell(vdp, k, r, c));
    }
    LIBV(vnadata_free(vdp));
    return rv;
}

static double apply_max_ratio;
static int apply_stat_on;

/* 1 agree, 0 disagree, 2 refused on both, 3 tolerance too coarse to tell */
static int apply_agrees(vnacal_t *a, int ca, vnacal_t *b, int cb, int dp)
{
    static double complex sa[CF_MAXPORTS * CF_MAXPORTS * (CF_MAXF + 4)];
    static double complex sb[CF_MAXPORTS * CF_MAXPORTS * (CF_MAXF + 4)];
    int na, nb, ra, rb;
    double tol = tol_of(dp);

    vt_cb_reset();
    ra = do_apply(a, ca, 991, sa, &na);
    rb = do_apply(b, cb, 991, sb, &nb);
    if (ra != 0 && rb != 0)
	return 2;
    if (ra != 0 || rb != 0 || na != nb)
	return 0;
    if (tol == 0.0) {
	for (int i = 0; i < na; ++i) {
	    if (!near_complex(sb[i], sa[i], 0.0))
		return 0;
	}
	return 1;
    }
    /* the corrected S depends smoothly on the error terms of the
     * well-conditioned model used here: over 2000 histories (dims <= 4) the
     * largest deviation observed on correct code was 0.32 x tol x (1+|S|).
     * Allow 5000 x tol (> 10^4 x the observed value); refuse to judge when
     * that is not << 1 (a wrong term gives deviations of order 0.1 .. 1) */
    if (5000.0 * tol > 0.05)
	return 3;
    for (int i = 0; i < na; ++i) {
	double ratio = cabs(sb[i] - sa[i]) / (tol * (1.0 + cabs(sa[i])));

	if (ratio > apply_max_ratio && apply_stat_on)
	    apply_max_ratio = ratio;	/* statistics for tolerance sizing */
	if (ratio > 5000.0)
	    return 0;
    }
    return 1;
}

/* ------------------------------------------------------ one history */

static const int name_pool[] = { 3, 1, 2, 5, 6, 36, 37, 46, 11, 12, 18, 54,
    85, 86, 98, 101, 117, 126, 127, 128 };
#define N_NAMES ((int)(sizeof(name_pool) / sizeof(name_pool[0])))

static const int dims_t[][2] = {	/* rows <= cols */
    {1, 1}, {1, 2}, {2, 2}, {1, 3}, {2, 3}, {3, 3}, {1, 4}, {2, 4}, {3, 4},
    {4, 4}
};

typedef struct hist {
    vnacal_t *vcp;
    vt_rng_t rng;
    int maxdim;
    int fp, dp;			/* harness's record: -1 = default */
    int gen_fail;
    int legacy;			/* 0: load what vnacal_save wrote; 1: load the
				 * harness's "#VNACAL 2.0" rendering of it;
				 * 2: load it under a "#VNACAL 3.0" first line */
    int only_e12;		/* generate E12 calibrations only (format 2.0
				 * knows nothing else) */
} hist_t;

static void ev_setprec(hist_t *h, int which, int p)
{
    int rv, e;

    vt_cb_reset();
    if (which == 'f')
	rv = LIB(vnacal_set_fprecision(h->vcp, p));
    else
	rv = LIB(vnacal_set_dprecision(h->vcp, p));
    e = errno;
    if (rv == 0) {
	if (which == 'f')
	    h->fp = p;
	else
	    h->dp = p;
    }
    vt_put("{\"e\":\"SetPrec\",\"w\":\"%c\",\"p\":%d,\"ok\":%d,\"err\":\"%s\",",
	    which, p, rv == 0, vt_errname(e));
    cf_put_cb();
    vt_put("}");
    vt_end_line();
}

static int pick_prec(vt_rng_t *rng)
{
    int r = vt_below(rng, 45);

    if (r < 40)
	return r + 1;
    return VNACAL_MAX_PRECISION;
}

/* solve a fresh calibration and add it under the given name */
static void ev_add(hist_t *h, int name_sid, int tindex, int dindex)
{
    vnacal_type_t type = h->only_e12 ? VNACAL_E12 : cf_types[tindex % 8];
    int rows, cols, nf, g, rv, e, ci;
    cf_model_t model;
    const char *why;
    vnacal_new_t *vnp;
    double complex z0;
    int nd = 0;

    for (int i = 0; i < (int)(sizeof(dims_t) / sizeof(dims_t[0])); ++i) {
	if (dims_t[i][1] <= h->maxdim)
	    nd = i + 1;
    }
    rows = dims_t[dindex % nd][0];
    cols = dims_t[dindex % nd][1];
    if (!cf_dims_ok(type, rows, cols)) {
	int t = rows;

	rows = cols;
	cols = t;
    }
    nf = 1 + vt_below(&h->rng, 5);
    cf_model_init(&model, &h->rng, rows > cols ? rows : cols, nf, 0);
    /* frequency grid: ratio >= 2.5 between neighbours, so that rounding to
     * a single significant digit keeps the vector strictly ascending */
    for (int k = 1; k < nf; ++k)
	model.f[k] = model.f[k - 1] * (2.5 + 1.5 * vt_unit(&h->rng));
    switch (vt_below(&h->rng, 4)) {
    case 0:  z0 = 50.0; break;
    case 1:  z0 = 75.0; break;
    default:
	{
	    double re = 20.0 + 80.0 * vt_unit(&h->rng);
	    double im = 60.0 * vt_unit(&h->rng) - 30.0;

	    z0 = re + I * im;
	}
    }
    vt_cb_reset();
    vnp = cf_make_new(h->vcp, &h->rng, type, rows, cols, &model, z0, &why);
    if (vnp == NULL || ngens >= MAXGEN) {
	vt_put("{\"e\":\"GenFail\",\"type\":\"%s\",\"rows\":%d,\"cols\":%d,"
		"\"nf\":%d,\"why\":\"%s\",\"err\":\"%s\",", type_name(type), rows,
		cols, nf, why != NULL ? why : "table full", vt_errname(errno));
	cf_put_cb();
	vt_put("}");
	vt_end_line();
	h->gen_fail++;
	return;
    }
    g = ngens++;
    gens[g].nf = nf;
    memcpy(gens[g].f, model.f, sizeof(double) * (size_t)nf);
    gens[g].z0 = z0;
    vt_cb_reset();
    rv = LIB(vnacal_add_calibration(h->vcp, cf_pool[name_sid], vnp));
    e = errno;
    ci = LIB(vnacal_find_calibration(h->vcp, cf_pool[name_sid]));
    LIBV(vnacal_new_free(vnp));
    vt_put("{\"e\":\"Add\",\"g\":%d,\"name\":\"s%d\",\"type\":\"%s\",\"rows\":%d,"
	    "\"cols\":%d,\"nf\":%d,\"ok\":%d,\"retci\":%d,\"ci\":%d,\"err\":\"%s\",",
	    g, name_sid, type_name(type), rows, cols, nf, rv != -1, rv, ci,
	    vt_errname(e));
    cf_put_cb();
    vt_put(",\"obs\":");
    put_container(h->vcp);
    vt_put("}");
    vt_end_line();
}

static void ev_delete(hist_t *h, int ci)
{
    int rv, e;

    vt_cb_reset();
    rv = LIB(vnacal_delete_calibration(h->vcp, ci));
    e = errno;
    vt_put("{\"e\":\"Delete\",\"ci\":%d,\"ok\":%d,\"err\":\"%s\",", ci, rv == 0,
	    vt_errname(e));
    cf_put_cb();
    vt_put(",\"obs\":");
    put_container(h->vcp);
    vt_put("}");
    vt_end_line();
}

/* replace the property document of root ci by a generated tree */
static void ev_props(hist_t *h, int ci, int plain)
{
    cf_calctx_t cc;
    cf_node_t *t;
    int budget = 4 + vt_below(&h->rng, 10);
    int bad;

    cf_nnodes = 0;
    {
	int depth = 1 + vt_below(&h->rng, 3);

	t = cf_gen(&h->rng, depth, &budget, plain);
    }
    cc.vcp = h->vcp;
    cc.ci = ci;
    (void)LIB(vnacal_property_delete(h->vcp, ci, "."));
    path_buf[0] = '\0';
    bad = cf_build(cf_set_vnacal, &cc, t, path_buf, 0, vt_below(&h->rng, 2));
    vt_put("{\"e\":\"Props\",\"ci\":%d,\"bad\":%d,\"gen\":", ci, bad);
    cf_put_tree(t);
    vt_put(",\"obs\":");
    cf_project_cal(h->vcp, ci);
    vt_put("}");
    vt_end_line();
}

static void put_like(const char *key, const int *v, int n)
{
    vt_put(",\"%s\":[", key);
    for (int i = 0; i < n; ++i)
	vt_put("%s%d", i ? "," : "", v[i]);
    vt_put("]");
}

static void copy_with_header(const char *src, const char *dst,
	const char *header);

/*
 * write_v2: the harness's own writer of the pre-release "#VNACAL 2.0"
 * layout, derived from src/tests/compat-V2.vnacal: a top-level "sets"
 * sequence; per set name, rows, columns, frequencies, z0 and "data", a
 * sequence of {f, e} where e is a rows x columns matrix whose cells are the
 * triples [el, er, em] of the E12 terms of that cell.  The numbers are those
 * the harness's reader found in the current-format file (written in C99
 * hexadecimal notation: no further rounding).  Returns 0 on success.
 */
static int write_v2(const char *path, vnacal_t *vcp, const rd_file_t *rf)
{
    FILE *fp = fopen(path, "w");
    int end = LIB(vnacal_get_calibration_end(vcp));
    int k = 0;

    if (fp == NULL)
	return -1;
    fprintf(fp, "#VNACAL 2.0\n%%YAML 1.1\n---\nsets:\n");
    for (int ci = 0; ci < end; ++ci) {
	const char *name = LIB(vnacal_get_name(vcp, ci));
	int rows, cols, nf;
	double complex z0;
	const rd_cal_t *rc;

	if (name == NULL)
	    continue;
	if (k >= rf->ncal) {
	    fclose(fp);
	    return -1;
	}
	rc = &rf->cal[k++];
	rows = LIB(vnacal_get_rows(vcp, ci));
	cols = LIB(vnacal_get_columns(vcp, ci));
	nf = LIB(vnacal_get_frequencies(vcp, ci));
	z0 = LIB(vnacal_get_z0(vcp, ci));
	if (LIB(vnacal_get_type(vcp, ci)) != VNACAL_E12 || rc->nf != nf ||
		rc->nnum != 3 * rows * cols * nf) {
	    fclose(fp);
	    return -1;
	}
	fprintf(fp, "- name: \"%s\"\n  rows: %d\n  columns: %d\n"
		"  frequencies: %d\n  z0: \"%+a %+aj\"\n  data:\n", name, rows,
		cols, nf, creal(z0), cimag(z0));
	for (int f = 0; f < nf; ++f) {
	    const double complex *el = &rc->num[f * 3 * rows * cols];
	    const double complex *er = el + rows * cols;
	    const double complex *em = er + rows * cols;

	    fprintf(fp, "  - f: %a\n    e:\n", rc->f[f]);
	    for (int r = 0; r < rows; ++r) {
		for (int c = 0; c < cols; ++c) {
		    int cell = r * cols + c;

		    fprintf(fp, "    %s - [\"%+a %+aj\", \"%+a %+aj\", "
			    "\"%+a %+aj\"]\n", c == 0 ? "-" : " ",
			    creal(el[cell]), cimag(el[cell]),
			    creal(er[cell]), cimag(er[cell]),
			    creal(em[cell]), cimag(em[cell]));
		}
	    }
	}
    }
    fprintf(fp, "...\n");
    return fclose(fp);
}

/*
 * save, load and compare.  Returns the loaded container (or NULL).
 */
static vnacal_t *ev_save_load(hist_t *h)
{
    int rv, e, fp = h->fp, dp = h->dp;
    vnacal_t *v2;
    int oend, lend;
    int live_ci[RD_MAXCAL], nlive = 0;

    vt_cb_reset();
    rv = LIB(vnacal_save(h->vcp, file_main));
    e = errno;
    vt_put("{\"e\":\"Save\",\"ok\":%d,\"err\":\"%s\",", rv == 0, vt_errname(e));
    cf_put_cb();
    vt_put(",\"obs\":");
    put_container(h->vcp);
    vt_put(",\"g\":");
    cf_project_cal(h->vcp, -1);
    vt_put("}");
    vt_end_line();
    if (rv != 0)
	return NULL;

    {
	const char *toload = file_main;

	if (h->legacy == 1) {
	    /* the same content in the old layout, by the harness's writer */
	    rd_read(file_main, &rd_m);
	    if (!rd_m.ok || write_v2(file_tmp, h->vcp, &rd_m) != 0) {
		fprintf(stderr, "write_v2 failed\n");
		exit(3);
	    }
	    toload = file_tmp;
	} else if (h->legacy == 2) {
	    copy_with_header(file_main, file_tmp, "#VNACAL 3.0");
	    toload = file_tmp;
	}
	vt_cb_reset();
	v2 = LIB(vnacal_load(toload, vt_errfn, NULL));
	e = errno;
    }
    if (v2 == NULL) {
	vt_put("{\"e\":\"Load\",\"ok\":0,\"err\":\"%s\",", vt_errname(e));
	cf_put_cb();
	vt_put("}");
	vt_end_line();
	return NULL;
    }
    {
	/* remember the callback record of the load itself */
	vt_cb_t cbsave = vt_cb;

	/* reference numbers of the saved container: its bytes at maximum
	 * precision, read by the harness's own reader */
	ev_setprec(h, 'f', VNACAL_MAX_PRECISION);
	ev_setprec(h, 'd', VNACAL_MAX_PRECISION);
	vt_cb_reset();
	rv = LIB(vnacal_save(h->vcp, file_ref));
	e = errno;
	vt_put("{\"e\":\"Save\",\"ref\":1,\"ok\":%d,\"err\":\"%s\",", rv == 0,
		vt_errname(e));
	cf_put_cb();
	vt_put(",\"obs\":");
	put_container(h->vcp);
	vt_put(",\"g\":");
	cf_project_cal(h->vcp, -1);
	vt_put("}");
	vt_end_line();
	rd_read(file_ref, &rd_a);
	rd_read(file_main, &rd_m);
	/* the loaded container's numbers, the same way */
	(void)LIB(vnacal_set_fprecision(v2, VNACAL_MAX_PRECISION));
	(void)LIB(vnacal_set_dprecision(v2, VNACAL_MAX_PRECISION));
	rv = LIB(vnacal_save(v2, file_re));
	rd_read(file_re, &rd_b);
	vt_cb = cbsave;
	if (rv != 0)
	    rd_b.ok = 0;
    }
    oend = LIB(vnacal_get_calibration_end(h->vcp));
    lend = LIB(vnacal_get_calibration_end(v2));
    for (int ci = 0; ci < oend && nlive < RD_MAXCAL; ++ci) {
	if (LIB(vnacal_get_name(h->vcp, ci)) != NULL)
	    live_ci[nlive++] = ci;
    }
    vt_put("{\"e\":\"Load\",\"via\":\"%s\",\"ok\":1,\"err\":\"%s\",",
	    h->legacy == 1 ? "v2-writer" : h->legacy == 2 ? "v3-header" :
	    "current", vt_errname(e));
    cf_put_cb();
    vt_put(",\"fp\":%d,\"dp\":%d", fp < 0 ? 0 : fp, dp < 0 ? 0 : dp);
    vt_put(",\"fhex\":%d,\"dhex\":%d", rd_m.ok && rd_m.ncal > 0 ? rd_m.fhex : -1,
	    rd_m.ok && rd_m.ncal > 0 ? rd_m.dhex : -1);
    vt_put(",\"refOk\":%d,\"g\":", rd_a.ok && rd_b.ok &&
	    rd_a.ncal == nlive && rd_b.ncal <= lend);
    cf_project_cal(v2, -1);
    vt_put(",\"end\":%d,\"slots\":[", lend);
    {
	int bslot = 0;		/* position in rd_b (live calibrations of v2) */

	for (int i = 0; i < lend; ++i) {
	    const char *name = LIB(vnacal_get_name(v2, i));
	    int nf, fl[RD_MAXCAL], zl[RD_MAXCAL], tl[RD_MAXCAL];
	    int nfl = 0, nzl = 0, ntl = 0;
	    const double *fv;
	    double complex z0;
	    rd_cal_t *rb;

	    if (i)
		vt_put(",");
	    if (name == NULL) {
		vt_put("{\"u\":0}");
		continue;
	    }
	    rb = bslot < rd_b.ncal ? &rd_b.cal[bslot] : NULL;
	    ++bslot;
	    nf = LIB(vnacal_get_frequencies(v2, i));
	    fv = LIB(vnacal_get_frequency_vector(v2, i));
	    z0 = LIB(vnacal_get_z0(v2, i));
	    for (int k = 0; k < nlive; ++k) {
		int oc = live_ci[k];
		int onf = LIB(vnacal_get_frequencies(h->vcp, oc));
		const double *ofv = LIB(vnacal_get_frequency_vector(h->vcp, oc));
		double complex oz0 = LIB(vnacal_get_z0(h->vcp, oc));
		rd_cal_t *ra = k < rd_a.ncal ? &rd_a.cal[k] : NULL;
		int same;

		same = fv != NULL && ofv != NULL && nf == onf;
		for (int q = 0; same && q < nf; ++q)
		    same = near_real(fv[q], ofv[q], tol_of(fp));
		if (same)
		    fl[nfl++] = oc;
		if (near_complex(z0, oz0, tol_of(dp)))
		    zl[nzl++] = oc;
		/* the reference file lists the live calibrations; entry k
		 * must carry the name the getter reports for index oc */
		same = ra != NULL && rb != NULL && rd_a.ok && rd_b.ok &&
		    strcmp(ra->name, LIB(vnacal_get_name(h->vcp, oc))) == 0 &&
		    strcmp(ra->shape, rb->shape) == 0 &&
		    ra->nnum == rb->nnum && ra->nnum > 0;
		for (int q = 0; same && q < ra->nnum; ++q)
		    same = near_complex(rb->num[q], ra->num[q], tol_of(dp));
		if (same)
		    tl[ntl++] = oc;
	    }
	    vt_put("{\"u\":1,\"name\":");
	    cf_put_sid(name);
	    {
		int asc = fv != NULL;

		for (int q = 1; asc && q < nf; ++q)
		    asc = fv[q] > fv[q - 1];
		vt_put(",\"type\":\"%s\",\"rows\":%d,\"cols\":%d,\"nf\":%d,"
			"\"asc\":%d", type_name(LIB(vnacal_get_type(v2, i))),
			LIB(vnacal_get_rows(v2, i)),
			LIB(vnacal_get_columns(v2, i)), nf, asc);
	    }
	    put_like("fLike", fl, nfl);
	    put_like("z0Like", zl, nzl);
	    put_like("termsLike", tl, ntl);
	    vt_put(",\"props\":");
	    cf_project_cal(v2, i);
	    vt_put("}");
	}
    }
    vt_put("],\"apply\":[");
    {
	int first = 1;

	for (int k = 0; k < nlive; ++k) {
	    int oc = live_ci[k];

	    for (int i = 0; i < lend; ++i) {
		if (LIB(vnacal_get_name(v2, i)) == NULL)
		    continue;
		if (LIB(vnacal_get_type(v2, i)) !=
			LIB(vnacal_get_type(h->vcp, oc)) ||
			LIB(vnacal_get_rows(v2, i)) !=
			LIB(vnacal_get_rows(h->vcp, oc)) ||
			LIB(vnacal_get_columns(v2, i)) !=
			LIB(vnacal_get_columns(h->vcp, oc)) ||
			LIB(vnacal_get_frequencies(v2, i)) !=
			LIB(vnacal_get_frequencies(h->vcp, oc)))
		    continue;
		/* (statistics only: same name = presumably the same content) */
		apply_stat_on = strcmp(LIB(vnacal_get_name(v2, i)),
			LIB(vnacal_get_name(h->vcp, oc))) == 0;
		vt_put("%s[%d,%d,%d]", first ? "" : ",", oc, i,
			apply_agrees(h->vcp, oc, v2, i, dp));
		first = 0;
	    }
	}
    }
    vt_put("]}");
    vt_end_line();
    return v2;
}

/* the loaded container becomes the current one: its (rounded) numbers get
 * fresh identities */
static void ev_switch(hist_t *h, vnacal_t *v2)
{
    int end;

    LIBV(vnacal_free(h->vcp));
    h->vcp = v2;
    h->fp = VNACAL_MAX_PRECISION;	/* set by ev_save_load on v2 */
    h->dp = VNACAL_MAX_PRECISION;
    end = LIB(vnacal_get_calibration_end(v2));
    vt_put("{\"e\":\"Switch\",\"renum\":[");
    for (int ci = 0; ci < end; ++ci) {
	const double *fv = LIB(vnacal_get_frequency_vector(v2, ci));
	int nf = LIB(vnacal_get_frequencies(v2, ci));
	int g = -1;

	if (fv != NULL && ngens < MAXGEN && nf <= CF_MAXF) {
	    g = ngens++;
	    gens[g].nf = nf;
	    memcpy(gens[g].f, fv, sizeof(double) * (size_t)nf);
	    gens[g].z0 = LIB(vnacal_get_z0(v2, ci));
	}
	vt_put("%s%d", ci ? "," : "", g);
    }
    vt_put("],\"obs\":");
    put_container(v2);
    vt_put("}");
    vt_end_line();
}

static void end_case(long live0)
{
    int leak = cf_leak_check();

    vt_put("{\"e\":\"End\",\"live\":%ld,\"leak\":%d}", vt_alloc_live - live0,
	    leak);
    vt_end_line();
    unlink(file_main);
    unlink(file_ref);
    unlink(file_re);
    unlink(file_tmp);
    if (leak)
	_exit(CF_EXIT_LEAK);
}

static const int prec_table[] = {
    1, 2, 3, 4, 5, 6, 7, 8, 9, 10, 11, 12, 13, 14, 15, 16, 17, 18, 19, 20, 21,
    22, 23, 24, 25, 26, 27, 28, 29, 30, 31, 32, 33, 34, 35, 36, 37, 38, 39, 40,
    VNACAL_MAX_PRECISION
};
#define N_PREC 41

static void run_hist(uint64_t seed, long c, int maxdim)
{
    hist_t h;
    long live0 = vt_alloc_live;
    int ncal = (int)(c % 5);
    int rounds = 1 + (int)((c / 5) % 2);
    int used_names[8], nused = 0;

    memset(&h, 0, sizeof(h));
    vt_seed(&h.rng, seed * 1000003ull + (uint64_t)c);
    h.maxdim = maxdim;
    h.fp = h.dp = -1;
    ngens = 0;
    cf_extra_reset();
    cf_pairs = 0;
    vt_put("{\"e\":\"Reset\",\"case\":\"hist:%llu:%ld:%d\"}",
	    (unsigned long long)seed, c, maxdim);
    vt_end_line();
    vt_cb_reset();
    h.vcp = LIB(vnacal_create(vt_errfn, NULL));
    if (h.vcp == NULL) {
	fprintf(stderr, "vnacal_create failed\n");
	exit(3);
    }
    vt_put("{\"e\":\"Create\",\"obs\":");
    put_container(h.vcp);
    vt_put("}");
    vt_end_line();

    for (int round = 0; round < rounds && h.gen_fail == 0; ++round) {
	int nops = ncal + vt_below(&h.rng, 4);

	/* additions: new names first, then a mix */
	for (int i = 0; i < nops && h.gen_fail == 0; ++i) {
	    int r = vt_below(&h.rng, 100);
	    int end = LIB(vnacal_get_calibration_end(h.vcp));

	    if (i < ncal || r < 30) {
		int sid;

		if (nused > 0 && (nused >= 6 || vt_below(&h.rng, 4) == 0)) {
		    sid = used_names[vt_below(&h.rng, nused)];	/* replace */
		} else {
		    int dup;

		    do {
			sid = name_pool[vt_below(&h.rng, N_NAMES)];
			dup = 0;
			for (int k = 0; k < nused; ++k)
			    dup |= used_names[k] == sid;
		    } while (dup);
		    used_names[nused++] = sid;
		}
		ev_add(&h, sid, (int)(c + i + round * 3),
			(int)(c / 8 + i + round));
	    } else if (r < 55) {
		int ci;

		switch (vt_below(&h.rng, 8)) {
		case 0:  ci = -1; break;
		case 1:  ci = end; break;
		case 2:  ci = end + 1; break;
		default: ci = end > 0 ? vt_below(&h.rng, end) : 0; break;
		}
		ev_delete(&h, ci);
	    } else if (r < 70) {
		int p = vt_below(&h.rng, 6) == 0 ?
		    (vt_below(&h.rng, 2) ? 0 : -3) : pick_prec(&h.rng);

		ev_setprec(&h, vt_below(&h.rng, 2) ? 'f' : 'd', p);
	    } else {
		int ci = -1;

		if (end > 0 && vt_below(&h.rng, 3) != 0) {
		    ci = vt_below(&h.rng, end);
		    if (LIB(vnacal_get_name(h.vcp, ci)) == NULL)
			ci = -1;
		}
		ev_props(&h, ci, vt_below(&h.rng, 3) == 0);
	    }
	}
	if (h.gen_fail != 0)
	    break;
	/*
	 * Hole scenarios (two cases out of three): delete a calibration that
	 * is not the last one, then add (a) a new name -- it may fill the
	 * hole --, (b) the name of a calibration stored ABOVE the hole -- it
	 * must be replaced in place and the hole stays --, (c) the name of one
	 * stored below; possibly a second hole; then save and load.
	 */
	if (c % 3 != 0) {
	    int holes = 1 + (int)((c / 3) % 2);

	    for (int hno = 0; hno < holes && h.gen_fail == 0; ++hno) {
		int end = LIB(vnacal_get_calibration_end(h.vcp));
		int live[16], nl = 0, victim, variant;
		const char *nm;

		for (int ci = 0; ci < end && nl < 16; ++ci) {
		    if (LIB(vnacal_get_name(h.vcp, ci)) != NULL)
			live[nl++] = ci;
		}
		if (nl < 2)
		    break;
		victim = live[vt_below(&h.rng, nl - 1)];	/* not the last */
		ev_delete(&h, victim);
		variant = (int)((c / 6 + hno) % 3);
		if (variant == 0) {
		    int sid, dup;

		    do {
			sid = name_pool[vt_below(&h.rng, N_NAMES)];
			dup = 0;
			for (int k = 0; k < nused; ++k)
			    dup |= used_names[k] == sid;
		    } while (dup);
		    if (nused < 8)
			used_names[nused++] = sid;
		    ev_add(&h, sid, (int)(c + 5 + hno), (int)(c / 4 + hno));
		} else {
		    /* a live name above (variant 1) or below (2) the hole */
		    int pick = -1;

		    for (int k = 0; k < nl; ++k) {
			if (variant == 1 ? live[k] > victim : live[k] < victim)
			    pick = live[k];
			if (pick >= 0 && variant == 1)
			    break;
		    }
		    if (pick < 0) {
			for (int k = 0; k < nl; ++k) {
			    if (live[k] != victim)
				pick = live[k];
			}
		    }
		    nm = LIB(vnacal_get_name(h.vcp, pick));
		    for (int k = 0; nm != NULL && k < CF_NPOOL; ++k) {
			if (strcmp(nm, cf_pool[k]) == 0) {
			    ev_add(&h, k, (int)(c + 2 + hno), (int)(c / 5 + hno));
			    break;
			}
		    }
		}
	    }
	    if (h.gen_fail != 0)
		break;
	}
	/* properties on every root now and then */
	if (vt_below(&h.rng, 2) == 0) {
	    int end = LIB(vnacal_get_calibration_end(h.vcp));

	    ev_props(&h, -1, 0);
	    for (int ci = 0; ci < end; ++ci) {
		if (LIB(vnacal_get_name(h.vcp, ci)) != NULL &&
			vt_below(&h.rng, 2) == 0)
		    ev_props(&h, ci, 0);
	    }
	}
	/* precisions of this round: the case index walks through all
	 * values; every 7th case saves once with the defaults */
	if (!(round == 0 && c % 7 == 0)) {
	    ev_setprec(&h, 'f', prec_table[(c + 11 * round) % N_PREC]);
	    ev_setprec(&h, 'd', prec_table[(c / N_PREC + c + 17 * round + 5)
		    % N_PREC]);
	}
	{
	    vnacal_t *v2 = ev_save_load(&h);

	    if (v2 != NULL) {
		if (round + 1 < rounds)
		    ev_switch(&h, v2);
		else
		    LIBV(vnacal_free(v2));
	    } else {
		break;
	    }
	}
    }
    LIBV(vnacal_free(h.vcp));
    end_case(live0);
}

/* ------------------------------------------------------------- legacy */

/*
 * legacy V2FILE REFTABLE: REFTABLE is a text file written by the check from
 * the tables of the repository's own compatibility test:
 *   nf
 *   f[0..nf)
 *   4 x nf measured (re im)   rows s11 s12 s21 s22
 *   4 x nf expected (re im)
 * Cases: 0 load the file, apply to the measured data, compare with expected
 *        1 the same after re-saving in the current format and re-loading
 *        2.. a file of the current format with older-version first lines
 */
static int read_reftable(const char *path, int *nf, double *f,
	double complex m[4][32], double complex x[4][32])
{
    FILE *fp = fopen(path, "r");

    if (fp == NULL)
	return -1;
    if (fscanf(fp, "%d", nf) != 1 || *nf > 32) {
	fclose(fp);
	return -1;
    }
    for (int k = 0; k < *nf; ++k) {
	if (fscanf(fp, "%lf", &f[k]) != 1) {
	    fclose(fp);
	    return -1;
	}
    }
    for (int t = 0; t < 2; ++t) {
	for (int c = 0; c < 4; ++c) {
	    for (int k = 0; k < *nf; ++k) {
		double re, im;

		if (fscanf(fp, "%lf %lf", &re, &im) != 2) {
		    fclose(fp);
		    return -1;
		}
		if (t == 0)
		    m[c][k] = re + I * im;
		else
		    x[c][k] = re + I * im;
	    }
	}
    }
    fclose(fp);
    return 0;
}

static void put_loaded_brief(vnacal_t *v)
{
    int end = LIB(vnacal_get_calibration_end(v));

    vt_put("{\"end\":%d,\"slots\":[", end);
    for (int ci = 0; ci < end; ++ci) {
	const char *name = LIB(vnacal_get_name(v, ci));

	if (ci)
	    vt_put(",");
	if (name == NULL) {
	    vt_put("{\"u\":0}");
	    continue;
	}
	vt_put("{\"u\":1,\"type\":\"%s\",\"rows\":%d,\"cols\":%d,\"nf\":%d}",
		type_name(LIB(vnacal_get_type(v, ci))),
		LIB(vnacal_get_rows(v, ci)), LIB(vnacal_get_columns(v, ci)),
		LIB(vnacal_get_frequencies(v, ci)));
    }
    vt_put("]}");
}

static int v2_matches_expected(vnacal_t *v, int nf, const double *f,
	double complex m[4][32], double complex x[4][32])
{
    double complex *mptr[4] = { m[0], m[1], m[2], m[3] };
    vnadata_t *vdp = LIB(vnadata_alloc(vt_errfn, NULL));
    int ok = 1;

    if (vdp == NULL)
	return 0;
    if (LIB(vnacal_apply_m(v, 0, f, nf, mptr, 2, 2, vdp)) != 0) {
	ok = 0;
    } else {
	for (int k = 0; k < nf && ok; ++k) {
	    for (int c = 0; c < 4; ++c) {
		double complex s = LIB(vnadata_get_cell(vdp, k, c / 2, c % 2));

		/* the tables carry 7 significant digits */
		if (cabs(s - x[c][k]) > 2e-5 * (1.0 + cabs(x[c][k])))
		    ok = 0;
	    }
	}
    }
    LIBV(vnadata_free(vdp));
    return ok;
}

static void copy_with_header(const char *src, const char *dst,
	const char *header)
{
    size_t len;
    char *data = cf_read_file(src, &len);
    const char *nl;
    FILE *fp;

    if (data == NULL)
	exit(3);
    nl = strchr(data, '\n');
    fp = fopen(dst, "wb");
    if (fp == NULL || nl == NULL)
	exit(3);
    fprintf(fp, "%s\n", header);
    fwrite(nl + 1, 1, len - (size_t)(nl + 1 - data), fp);
    fclose(fp);
    free(data);
}

static const struct { const char *line; const char *style; int major; }
headers[] = {
    { "#VNACal 1.0", "VNACal", 1 },
    { "#VNACAL 3.0", "VNACAL", 3 },
    { "#VNACAL 3.1", "VNACAL", 3 },
    { "#VNACAL 3.14", "VNACAL", 3 },
    { "#VNACal 1.1", "VNACal", 1 },
    { "#VNACal 1.27", "VNACal", 1 },
    { "#VNACal 2.0", "VNACal", 2 },
    { "#VNACal 9.3", "VNACal", 9 },
    { "#VNACAL 4.0", "VNACAL", 4 },
    { "#VNACAL 1.0", "VNACAL", 1 },
    { "#VNACAL 10.2", "VNACAL", 10 },
};
#define N_HEADERS ((int)(sizeof(headers) / sizeof(headers[0])))

static void run_legacy(const char *v2file, const char *reftable, long c)
{
    long live0 = vt_alloc_live;
    int nf = 0;
    static double f[32];
    static double complex m[4][32], x[4][32];
    vnacal_t *v;
    int e;

    ngens = 0;
    vt_put("{\"e\":\"Reset\",\"case\":\"legacy:0:%ld\"}", c);
    vt_end_line();
    if (read_reftable(reftable, &nf, f, m, x) != 0) {
	fprintf(stderr, "cannot read %s\n", reftable);
	exit(3);
    }
    if (c < 2) {
	vt_cb_reset();
	v = LIB(vnacal_load(v2file, vt_errfn, NULL));
	e = errno;
	vt_put("{\"e\":\"LegacyLoad\",\"kind\":\"v2\",\"style\":\"VNACAL\","
		"\"major\":2,\"resaved\":%d,\"ok\":%d,\"err\":\"%s\",", (int)c,
		v != NULL, vt_errname(e));
	cf_put_cb();
	if (v != NULL && c == 1) {
	    /* re-save in the current format, load again */
	    int rv;
	    vnacal_t *v3 = NULL;

	    (void)LIB(vnacal_set_fprecision(v, VNACAL_MAX_PRECISION));
	    (void)LIB(vnacal_set_dprecision(v, VNACAL_MAX_PRECISION));
	    rv = LIB(vnacal_save(v, file_main));
	    if (rv == 0)
		v3 = LIB(vnacal_load(file_main, vt_errfn, NULL));
	    LIBV(vnacal_free(v));
	    v = v3;
	    vt_put(",\"reloadOk\":%d", v != NULL);
	}
	if (v != NULL) {
	    vt_put(",\"sameAsRef\":%d,\"obs\":",
		    v2_matches_expected(v, nf, f, m, x));
	    put_loaded_brief(v);
	    LIBV(vnacal_free(v));
	} else {
	    /* (re-)load failed: nothing to compare */
	    vt_put(",\"sameAsRef\":0,\"obs\":{\"end\":0,\"slots\":[]}");
	}
	vt_put("}");
	vt_end_line();
    } else {
	/* a current-format file carrying an older / newer first line */
	int hi = (int)(c - 2) % N_HEADERS;
	hist_t h;
	vnacal_t *v1;

	memset(&h, 0, sizeof(h));
	vt_seed(&h.rng, 4242u + (uint64_t)c);
	h.maxdim = 2;
	h.fp = h.dp = -1;
	vt_cb_reset();
	h.vcp = LIB(vnacal_create(vt_errfn, NULL));
	vt_put("{\"e\":\"Create\",\"obs\":");
	put_container(h.vcp);
	vt_put("}");
	vt_end_line();
	ev_add(&h, 3, (int)c, (int)(c / 3));
	ev_add(&h, 1, (int)c + 3, (int)(c / 3) + 1);
	ev_setprec(&h, 'f', VNACAL_MAX_PRECISION);
	ev_setprec(&h, 'd', VNACAL_MAX_PRECISION);
	if (h.gen_fail == 0 && LIB(vnacal_save(h.vcp, file_tmp)) == 0) {
	    copy_with_header(file_tmp, file_main, headers[hi].line);
	    vt_cb_reset();
	    v1 = LIB(vnacal_load(file_main, vt_errfn, NULL));
	    e = errno;
	    vt_put("{\"e\":\"LegacyLoad\",\"kind\":\"header\",\"style\":\"%s\","
		    "\"major\":%d,\"resaved\":0,\"ok\":%d,\"err\":\"%s\",",
		    headers[hi].style, headers[hi].major, v1 != NULL,
		    vt_errname(e));
	    cf_put_cb();
	    if (v1 != NULL) {
		/* same terms as the reference = the bytes of a maximum
		 * precision re-save are those of the original file */
		int same = 0;

		(void)LIB(vnacal_set_fprecision(v1, VNACAL_MAX_PRECISION));
		(void)LIB(vnacal_set_dprecision(v1, VNACAL_MAX_PRECISION));
		if (LIB(vnacal_save(v1, file_re)) == 0) {
		    size_t la, lb;
		    char *a = cf_read_file(file_tmp, &la);
		    char *b = cf_read_file(file_re, &lb);

		    same = a != NULL && b != NULL && la == lb &&
			memcmp(a, b, la) == 0;
		    free(a);
		    free(b);
		}
		vt_put(",\"sameAsRef\":%d,\"obs\":", same);
		put_loaded_brief(v1);
		LIBV(vnacal_free(v1));
	    } else {
		vt_put(",\"sameAsRef\":0,\"obs\":{\"end\":0,\"slots\":[]}");
	    }
	    vt_put("}");
	    vt_end_line();
	}
	LIBV(vnacal_free(h.vcp));
    }
    end_case(live0);
}

/*
 * legacyw SEED FROM TO: the same calibrations once in the current format and
 * once in a legacy format (cases 3k, 3k+1: "#VNACAL 2.0" layout written by
 * write_v2, E12 of all dimensions 1x1 .. 3x3, 1..3 calibrations; cases 3k+2:
 * "#VNACAL 3.0" first line, all types): the ordinary Save / Load events, so
 * CalFileTrace demands Load = Compact(saved container) with equal terms,
 * types, dimensions, frequencies, z0 and agreeing vnacal_apply_m.
 */
static void run_legacyw(uint64_t seed, long c)
{
    static const int plain_names[] = { 3, 1, 2, 4 };
    hist_t h;
    long live0 = vt_alloc_live;
    int ncal = 1 + (int)((c / 3) % 3);
    vnacal_t *v2;

    memset(&h, 0, sizeof(h));
    vt_seed(&h.rng, seed * 1000003ull + 77u + (uint64_t)c);
    h.maxdim = 3;
    h.fp = h.dp = -1;
    h.legacy = c % 3 == 2 ? 2 : 1;
    h.only_e12 = h.legacy == 1;
    ngens = 0;
    cf_extra_reset();
    cf_pairs = 0;
    vt_put("{\"e\":\"Reset\",\"case\":\"legacyw:%llu:%ld\"}",
	    (unsigned long long)seed, c);
    vt_end_line();
    vt_cb_reset();
    h.vcp = LIB(vnacal_create(vt_errfn, NULL));
    if (h.vcp == NULL)
	exit(3);
    vt_put("{\"e\":\"Create\",\"obs\":");
    put_container(h.vcp);
    vt_put("}");
    vt_end_line();
    for (int i = 0; i < ncal && h.gen_fail == 0; ++i)
	ev_add(&h, plain_names[i], (int)(c + i), (int)(c / 9 + 2 * i + c));
    if (h.gen_fail == 0) {
	/* a hole in the slot vector now and then */
	if (ncal >= 2 && c % 4 == 1)
	    ev_delete(&h, 0);
	ev_setprec(&h, 'f', prec_table[(c * 7 + 3) % N_PREC]);
	ev_setprec(&h, 'd', prec_table[(c * 5 + 11) % N_PREC]);
	v2 = ev_save_load(&h);
	if (v2 != NULL)
	    LIBV(vnacal_free(v2));
    }
    LIBV(vnacal_free(h.vcp));
    end_case(live0);
}

int main(int argc, char **argv)
{
    const char *tp = getenv("VT_TRACE");

    vt_open(tp != NULL ? tp : "-");
    vt_install_crash_handlers();
    snprintf(file_main, sizeof(file_main), "%s/c-%d.vnacal", cf_tmpdir(),
	    (int)getpid());
    snprintf(file_ref, sizeof(file_ref), "%s/c-%d-ref.vnacal", cf_tmpdir(),
	    (int)getpid());
    snprintf(file_re, sizeof(file_re), "%s/c-%d-re.vnacal", cf_tmpdir(),
	    (int)getpid());
    snprintf(file_tmp, sizeof(file_tmp), "%s/c-%d-tmp.vnacal", cf_tmpdir(),
	    (int)getpid());
    if (argc >= 5 && strcmp(argv[1], "hist") == 0) {
	uint64_t seed = strtoull(argv[2], NULL, 10);
	long from = atol(argv[3]), to = atol(argv[4]);
	int maxdim = argc >= 6 ? atoi(argv[5]) : 3;

	for (long c = from; c < to; ++c)
	    run_hist(seed, c, maxdim);
	if (getenv("CF_STATS") != NULL)
	    fprintf(stderr, "apply_max_ratio %g\n", apply_max_ratio);
	return 0;
    }
    if (argc >= 6 && strcmp(argv[1], "legacy") == 0) {
	long from = atol(argv[4]), to = atol(argv[5]);

	for (long c = from; c < to; ++c)
	    run_legacy(argv[2], argv[3], c);
	return 0;
    }
    if (argc >= 5 && strcmp(argv[1], "legacyw") == 0) {
	uint64_t seed = strtoull(argv[2], NULL, 10);
	long from = atol(argv[3]), to = atol(argv[4]);

	for (long c = from; c < to; ++c)
	    run_legacyw(seed, c);
	return 0;
    }
    if (argc >= 2 && strcmp(argv[1], "count-legacy") == 0) {
	printf("%d\n", 2 + 2 * N_HEADERS);
	fflush(stdout);	/* LeakSanitizer may _exit before stdio is flushed */
	return 0;
    }
    fprintf(stderr, "usage: %s hist SEED FROM TO [MAXDIM] | "
	    "legacy V2FILE REFTABLE FROM TO | count-legacy\n", argv[0]);
    return 3;
}
