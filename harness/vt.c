/*
 * vt.c -- trace emission, callback recorder, RNG, crash handlers.
 */
#include <errno.h>
#include <fcntl.h>
#include <math.h>
#include <signal.h>
#include <stdarg.h>
#include <stdio.h>
#include <stdlib.h>
#include <string.h>
#include <sys/time.h>
#include <unistd.h>
#include "vt.h"

static int vt_fd = 1;
static char vt_buf[1 << 20];
static size_t vt_len;
long vt_lines;

void vt_open(const char *path)
{
    if (strcmp(path, "-") == 0) {
	vt_fd = 1;
	return;
    }
    vt_fd = open(path, O_WRONLY | O_CREAT | O_TRUNC | O_APPEND, 0644);
    if (vt_fd < 0) {
	perror(path);
	_exit(3);
    }
}

void vt_close(void)
{
    if (vt_fd > 2)
	close(vt_fd);
}

static void vt_write_all(const char *p, size_t n)
{
    while (n > 0) {
	ssize_t w = write(vt_fd, p, n);
	if (w < 0) {
	    if (errno == EINTR)
		continue;
	    _exit(3);
	}
	p += w;
	n -= (size_t)w;
    }
}

void vt_put(const char *fmt, ...)
{
    va_list ap;
    int saved = errno;
    int n;

    va_start(ap, fmt);
    n = vsnprintf(vt_buf + vt_len, sizeof(vt_buf) - vt_len - 2, fmt, ap);
    va_end(ap);
    if (n < 0 || (size_t)n >= sizeof(vt_buf) - vt_len - 2) {
	static const char msg[] = "vt_put: trace line too long\n";
	(void)!write(2, msg, sizeof(msg) - 1);
	_exit(3);
    }
    vt_len += (size_t)n;
    errno = saved;
}

void vt_end_line(void)
{
    int saved = errno;

    vt_buf[vt_len++] = '\n';
    vt_write_all(vt_buf, vt_len);
    vt_len = 0;
    ++vt_lines;
    errno = saved;
}

const char *vt_errname(int e)
{
    switch (e) {
    case 0:		return "OK";
    case EINVAL:	return "EINVAL";
    case EDOM:		return "EDOM";
    case EBADMSG:	return "EBADMSG";
    case ENOENT:	return "ENOENT";
    case ENOPROTOOPT:	return "ENOPROTOOPT";
    case ENOMEM:	return "ENOMEM";
    case ENOSYS:	return "ENOSYS";
    case ERANGE:	return "ERANGE";
    default:		return "OTHER";
    }
}

vt_cb_t vt_cb;

void vt_cb_reset(void)
{
    vt_cb.n = 0;
    vt_cb.n_nonwarn = 0;
    vt_cb.last[0] = '\0';
}

const char *vt_catname(int cat)
{
    switch (cat) {
    case VNAERR_SYSTEM:		return "SYSTEM";
    case VNAERR_USAGE:		return "USAGE";
    case VNAERR_VERSION:	return "VERSION";
    case VNAERR_SYNTAX:		return "SYNTAX";
    case VNAERR_WARNING:	return "WARNING";
    case VNAERR_MATH:		return "MATH";
    case VNAERR_INTERNAL:	return "INTERNAL";
    default:			return "UNKNOWN";
    }
}

void vt_errfn(const char *message, void *arg, vnaerr_category_t cat)
{
    int saved = errno;
    int in = vt_in_lib;

    (void)arg;
    vt_in_lib = 0;	/* the user's callback is not library code */
    if (vt_cb.n < VT_CB_MAX) {
	vt_cb.cat[vt_cb.n] = (int)cat;
	vt_cb.one_line[vt_cb.n] = message != NULL &&
	    strchr(message, '\n') == NULL;
    }
    ++vt_cb.n;
    if (cat != VNAERR_WARNING)
	++vt_cb.n_nonwarn;
    if (message != NULL) {
	strncpy(vt_cb.last, message, sizeof(vt_cb.last) - 1);
	vt_cb.last[sizeof(vt_cb.last) - 1] = '\0';
    }
    vt_in_lib = in;
    /* vnaerr(3): "The library sets errno before calling error_fn and again
     * [after it returns]" -- a user's error function may change errno, so
     * this one always does; the value seen on entry is kept for the record */
    vt_cb.errno_at_entry = saved;
    errno = E2BIG;
}

void vt_put_cb(void)
{
    vt_put("\"cb\":[");
    for (int i = 0; i < vt_cb.n && i < VT_CB_MAX; ++i) {
	vt_put("%s{\"cat\":\"%s\",\"one\":%d}", i ? "," : "",
		vt_catname(vt_cb.cat[i]), vt_cb.one_line[i] ? 1 : 0);
    }
    vt_put("]");
}

void vt_seed(vt_rng_t *r, uint64_t seed)
{
    /* run the seed through the splitmix finalizer: with a linear map of the
     * seed, seeds c and c+1 would produce the same stream shifted by one */
    uint64_t z = seed + 0x9E3779B97F4A7C15ull;

    z = (z ^ (z >> 30)) * 0xBF58476D1CE4E5B9ull;
    z = (z ^ (z >> 27)) * 0x94D049BB133111EBull;
    r->s = z ^ (z >> 31);
}

uint64_t vt_u64(vt_rng_t *r)
{
    uint64_t z = (r->s += 0x9E3779B97F4A7C15ull);

    z = (z ^ (z >> 30)) * 0xBF58476D1CE4E5B9ull;
    z = (z ^ (z >> 27)) * 0x94D049BB133111EBull;
    return z ^ (z >> 31);
}

int vt_below(vt_rng_t *r, int n)
{
    if (n <= 1)
	return 0;
    return (int)(vt_u64(r) % (uint64_t)n);
}

double vt_unit(vt_rng_t *r)
{
    return (double)(vt_u64(r) >> 11) / 9007199254740992.0;
}

double vt_normal(vt_rng_t *r)
{
    double u1, u2;

    do {
	u1 = vt_unit(r);
    } while (u1 <= 1e-300);
    u2 = vt_unit(r);
    return sqrt(-2.0 * log(u1)) * cos(6.283185307179586 * u2);
}

static void vt_crash(int sig)
{
    char line[96];
    int n = snprintf(line, sizeof(line),
	    "\n{\"e\":\"Crash\",\"sig\":%d}\n", sig);

    vt_in_lib = 0;
    if (n > 0)
	(void)!write(vt_fd, line, (size_t)n);
    signal(sig, SIG_DFL);
    raise(sig);
}

void vt_install_crash_handlers(void)
{
    signal(SIGABRT, vt_crash);
    signal(SIGFPE, vt_crash);
}

void vt_watchdog_start(int cpu_seconds, void (*handler)(int))
{
    struct itimerval it;

    signal(SIGPROF, handler);
    memset(&it, 0, sizeof(it));
    it.it_value.tv_sec = cpu_seconds;
    (void)setitimer(ITIMER_PROF, &it, NULL);
}

void vt_watchdog_stop(void)
{
    struct itimerval it;

    memset(&it, 0, sizeof(it));
    (void)setitimer(ITIMER_PROF, &it, NULL);
}
