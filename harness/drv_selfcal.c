/*
 * drv_selfcal.c -- conformance driver for self-calibration (C02): unknown
 * and correlated standard parameters, two-port TRL, the Levenberg-Marquardt
 * loop and its limits (LMLoop.tla / SelfCal.tla / LMLoopTrace.tla).
 *
 * usage:
 *   drv_selfcal run TABLE SEED FROM TO
 *       TABLE: text rendering of the configuration table exported by TLC
 *       from SelfCalTable.tla, one row per line:
 *         id type P k topo nu lim pt et me ko
 *       runs rows FROM..TO-1 (row = line number, 0-based)
 * env: VT_TRACE=<path> (default stdout), SC_TIMEOUT=<seconds per solve>
 *
 * Per row one episode:
 *   Reset, Cfg (the row, echoed), Setup (parameters made, standards added),
 *   per solved frequency LMIter* LMExit (written by the hook while
 *   vnacal_new_solve runs), Solve, [Params, Apply], [ladder: the same data
 *   solved again under each tolerance of the ladder + Ladder], End.
 * The trace carries only small integers, names and harness booleans.
 */
#include "archdep.h"
#include <assert.h>
#include "sc_common.h"
#include "caleq_oracle.h"
#include "vnacal_new_internal.h"	/* hook declaration only */

/* ------------------------------------------------------------ config row */

typedef struct cfg {
    int id;
    char type[8];
    int P;
    int k;			/* smaller dimension; k == P: square */
    char topo[8];
    int nu;			/* unknown + correlated parameters */
    int lim;
    int pt, et;			/* tolerances 10^-pt, 10^-et */
    int me;			/* measurement error model on */
    char ko[8];			/* kit order: use, rev, hi8, pad */
} cfg_t;

static int read_row(const char *path, int row, cfg_t *c)
{
    FILE *fp = fopen(path, "r");
    char line[256];
    int n = 0, ok = -1;

    if (fp == NULL) {
	perror(path);
	_exit(3);
    }
    while (fgets(line, sizeof(line), fp) != NULL) {
	if (n++ == row) {
	    if (sscanf(line, "%d %7s %d %d %7s %d %d %d %d %d %7s", &c->id,
			c->type, &c->P, &c->k, c->topo, &c->nu, &c->lim,
			&c->pt, &c->et, &c->me, c->ko) == 11)
		ok = 0;
	    break;
	}
    }
    fclose(fp);
    return ok;
}

/* ------------------------------------------------------------- the hook */

static struct {
    int active;
    int count;			/* iteration events of the current frequency */
    int total;			/* iteration events of the current solve */
    int exits;
    double prev_mult;
    double prev_best;
    double p_tol, et_tol;
    int have_x;
    int x_length;
    double complex prev_x[512];
    double last_best_p_err;	/* |p_returned - best_p| is checked later */
    int p_length;
    double complex last_best_p[SC_MAXF][64];
    int last_ok[SC_MAXF];
} hk;

static void hook_reset_frequency(void)
{
    hk.count = 0;
    hk.prev_mult = 1.0;
    hk.prev_best = INFINITY;
    hk.have_x = 0;
}

static void lm_hook(const vnacal_verif_lm_event_t *ev)
{
    int saved_in = vt_in_lib;
    int saved_errno = errno;

    vt_in_lib = 0;
    if (!hk.active)
	goto out;
    if (!ev->vle_exit) {
	double rms_d = 0.0, rms_dx = 0.0, step_err = 0.0, step_scale = 0.0;
	int dxk = -1;

	/* a loop that overruns its limit is already convicted by its first
	 * excess event: do not fill the disk while the watchdog runs */
	if (hk.count > ev->vle_iteration_limit + 3) {
	    ++hk.count;
	    ++hk.total;
	    goto out;
	}

	for (int i = 0; i < ev->vle_p_length; ++i) {
	    double complex back = ev->vle_p_vector[i] + ev->vle_d_vector[i];

	    rms_d += creal(ev->vle_d_vector[i] * conj(ev->vle_d_vector[i]));
	    step_err = fmax(step_err, cabs(back - ev->vle_best_p_vector[i]));
	    step_scale = fmax(step_scale, cabs(ev->vle_best_p_vector[i]) +
		    cabs(ev->vle_d_vector[i]));
	}
	rms_d = sqrt(rms_d / (ev->vle_p_length > 0 ? ev->vle_p_length : 1));
	if (hk.have_x && ev->vle_x_length == hk.x_length) {
	    for (int i = 0; i < ev->vle_x_length; ++i) {
		double complex d = ev->vle_x_vector[i] - hk.prev_x[i];

		rms_dx += creal(d * conj(d));
	    }
	    rms_dx = sqrt(rms_dx / ev->vle_x_length);
	    dxk = rms_dx <= hk.et_tol;
	}
	vt_put("{\"e\":\"LMIter\",\"fi\":%d,\"it\":%d,\"b\":%d,\"cv\":%d,",
		ev->vle_findex, ev->vle_iteration, ev->vle_better != 0,
		ev->vle_converged != 0);
	vt_put("\"mc\":\"%s\",\"mg\":%d,\"kc\":\"%s\",\"bc\":\"%s\","
		"\"bk\":%d,\"sb\":%d,\"dp\":%d,\"dx\":%d,\"lim\":%d}",
		sc_cmp(ev->vle_multiplier, hk.prev_mult),
		ev->vle_multiplier >= 1.0,
		sc_cmp(ev->vle_sum_k_squared, hk.prev_best),
		sc_cmp(ev->vle_best_sum_k_squared, hk.prev_best),
		ev->vle_best_sum_k_squared == ev->vle_sum_k_squared,
		step_err <= 1e-9 * (1.0 + step_scale),
		rms_d <= hk.p_tol, dxk, ev->vle_iteration_limit);
	vt_end_line();
	hk.prev_mult = ev->vle_multiplier;
	hk.prev_best = ev->vle_best_sum_k_squared;
	if (ev->vle_better && ev->vle_x_length <= 512) {
	    memcpy(hk.prev_x, ev->vle_x_vector,
		    ev->vle_x_length * sizeof(double complex));
	    hk.x_length = ev->vle_x_length;
	    hk.have_x = 1;
	}
	++hk.count;
	++hk.total;
    } else {
	static const char *oc[] = { "ok", "limit", "singular", "error" };

	vt_put("{\"e\":\"LMExit\",\"fi\":%d,\"it\":%d,\"n\":%d,\"oc\":\"%s\","
		"\"lim\":%d}", ev->vle_findex, ev->vle_iteration, hk.count,
		oc[ev->vle_outcome & 3], ev->vle_iteration_limit);
	vt_end_line();
	if (ev->vle_findex >= 0 && ev->vle_findex < SC_MAXF) {
	    hk.last_ok[ev->vle_findex] = ev->vle_outcome == 0;
	    hk.p_length = ev->vle_p_length;
	    for (int i = 0; i < ev->vle_p_length && i < 64; ++i)
		hk.last_best_p[ev->vle_findex][i] = ev->vle_best_p_vector[i];
	}
	++hk.exits;
	hook_reset_frequency();
    }
out:
    vt_in_lib = saved_in;
    errno = saved_errno;
}

/* --------------------------------------------------- scenario generation */

static double complex rand_gamma(vt_rng_t *rng, double lo, double hi)
{
    double r = lo + (hi - lo) * vt_unit(rng);
    double a = 6.283185307179586 * vt_unit(rng);

    return r * (cos(a) + I * sin(a));
}

static int is_leaky(ets_type_t t)
{
    return t == ETS_TE10 || t == ETS_UE10 || t == ETS_UE14 || t == ETS_E12;
}

/*
 * Known base: by itself enough to determine every error term (and to observe
 * every leakage cell) with redundancy.
 */
static void base_known(sc_scn_t *sc, vt_rng_t *rng)
{
    const int P = sc->P;
    const int full16 = sc->type == ETS_T16 || sc->type == ETS_U16;

    if (P == 1) {
	sc_single(sc, rng, 1, SC_SHORT);
	sc_single(sc, rng, 1, SC_OPEN);
	sc_single(sc, rng, 1, SC_MATCH);
	sc_single(sc, rng, 1, sc_scalar(sc, rand_gamma(rng, 0.3, 0.9)));
	return;
    }
    for (int a = 1; a <= P; ++a) {
	for (int b = a + 1; b <= P; ++b) {
	    sc_double(sc, rng, a, b, SC_SHORT, SC_OPEN);
	    sc_double(sc, rng, a, b, SC_OPEN, SC_SHORT);
	    sc_double(sc, rng, a, b, SC_MATCH, SC_MATCH);
	    sc_through(sc, rng, a, b);
	    sc_double(sc, rng, a, b, sc_scalar(sc, rand_gamma(rng, 0.3, 0.9)),
		    sc_scalar(sc, rand_gamma(rng, 0.3, 0.9)));
	    if (full16 || vt_below(rng, 2)) {
		sc_line(sc, rng, a, b,
			sc_scalar(sc, rand_gamma(rng, 0.0, 0.5)),
			sc_scalar(sc, rand_gamma(rng, 0.3, 0.9)),
			sc_scalar(sc, rand_gamma(rng, 0.3, 0.9)),
			sc_scalar(sc, rand_gamma(rng, 0.0, 0.5)));
	    }
	    if (full16) {
		sc_line(sc, rng, a, b,
			sc_scalar(sc, rand_gamma(rng, 0.0, 0.5)),
			sc_scalar(sc, rand_gamma(rng, 0.3, 0.9)),
			sc_scalar(sc, rand_gamma(rng, 0.3, 0.9)),
			sc_scalar(sc, rand_gamma(rng, 0.0, 0.5)));
	    }
	}
    }
}

static int band(int nf, int which, double *f);

/* returns 0, or -1 when the row names a topology this driver cannot build
 * (logged and rejected by the trace spec) */
static int build_scenario(sc_scn_t *sc, const cfg_t *c, vt_rng_t *rng,
	int *analytic_shape)
{
    const double radius = 0.2;
    const int vg = vt_below(rng, 2);
    int u[3] = { -1, -1, -1 };

    *analytic_shape = 0;
    if (strcmp(c->topo, "TRL") == 0 || strcmp(c->topo, "TRLX") == 0) {
	/* through, reflect (same unknown on both ports), line with unknown
	 * transmission; guess resolves the sign of r and l vs. 1/l */
	double complex r = rand_gamma(rng, 0.6, 1.0);
	double la = (0.6 + 1.9 * vt_unit(rng)) * (vt_below(rng, 2) ? 1 : -1);
	double complex l = (0.5 + 0.4 * vt_unit(rng)) *
	    (cos(la) + I * sin(la));
	int order = vt_below(rng, 6);
	int ur, ul;

	ur = sc_unknown(sc, rng, r, radius, vg);
	ul = sc_unknown(sc, rng, l, radius, vg);
	for (int k = 0; k < 3; ++k) {
	    static const int perm[6][3] = { {0,1,2}, {0,2,1}, {1,0,2},
		{1,2,0}, {2,0,1}, {2,1,0} };

	    switch (perm[order][k]) {
	    case 0: sc_through(sc, rng, 1, 2); break;
	    case 1: sc_double(sc, rng, 1, 2, ur, ur); break;
	    case 2: sc_line(sc, rng, 1, 2, SC_MATCH, ul, ul, SC_MATCH); break;
	    }
	}
	if (strcmp(c->topo, "TRLX") == 0)
	    sc_double(sc, rng, 1, 2, SC_MATCH, SC_MATCH);
	else
	    *analytic_shape = 1;
	return 0;
    }
    if (strcmp(c->topo, "SOLR") == 0) {
	/* short/open/load on both ports and an unknown reciprocal through */
	double la = (0.3 + 2.5 * vt_unit(rng)) * (vt_below(rng, 2) ? 1 : -1);
	double complex l = (0.6 + 0.4 * vt_unit(rng)) *
	    (cos(la) + I * sin(la));
	int ul = sc_unknown(sc, rng, l, radius, vg);

	sc_double(sc, rng, 1, 2, SC_SHORT, SC_OPEN);
	sc_double(sc, rng, 1, 2, SC_OPEN, SC_SHORT);
	sc_double(sc, rng, 1, 2, SC_MATCH, SC_MATCH);
	sc_line(sc, rng, 1, 2, SC_MATCH, ul, ul, SC_MATCH);
	return 0;
    }
    if (strcmp(c->topo, "TRM") == 0 || strcmp(c->topo, "TRLM") == 0) {
	/* TRL-shaped sets of three standards with two unknowns that are NOT
	 * the two-port TRL problem: TRM has the unknown reflect on port 1
	 * and a different, known reflect on port 2; TRLM has a line with
	 * known non-zero reflection */
	double complex r = rand_gamma(rng, 0.6, 1.0);
	double la = (0.6 + 1.9 * vt_unit(rng)) * (vt_below(rng, 2) ? 1 : -1);
	double complex l = (0.5 + 0.4 * vt_unit(rng)) *
	    (cos(la) + I * sin(la));
	int order = vt_below(rng, 3);
	int ur = sc_unknown(sc, rng, r, radius, vg);
	int ul = sc_unknown(sc, rng, l, radius, vg);
	int trm = strcmp(c->topo, "TRM") == 0;
	/* the known reflect: predefined OPEN / SHORT or a scalar parameter */
	int kind_kr = vt_below(rng, 3);
	int kr = !trm ? -1 : kind_kr == 0 ? SC_OPEN : kind_kr == 1 ? SC_SHORT :
	    sc_scalar(sc, rand_gamma(rng, 0.6, 1.0));
	int km = trm ? SC_MATCH : sc_scalar(sc, rand_gamma(rng, 0.1, 0.3));

	for (int k = 0; k < 3; ++k) {
	    switch ((k + order) % 3) {
	    case 0:
		sc_through(sc, rng, 1, 2);
		break;
	    case 1:
		if (trm && vt_below(rng, 2))
		    sc_double(sc, rng, 1, 2, kr, ur);
		else
		    sc_double(sc, rng, 1, 2, ur, trm ? kr : ur);
		break;
	    case 2:
		sc_line(sc, rng, 1, 2, km, ul, ul, km);
		break;
	    }
	}
	return 0;
    }
    if (strcmp(c->topo, "SHORT1") == 0) {
	/* exactly one equation short of error terms + unknown parameters,
	 * two or three unknowns, not TRL-shaped */
	for (int i = 0; i < c->nu; ++i)
	    u[i] = sc_unknown(sc, rng, rand_gamma(rng, 0.3, 0.9), radius, vg);
	if (sc->P == 1) {
	    /* 3 error terms: 2 + nu equations */
	    sc_single(sc, rng, 1, SC_SHORT);
	    sc_single(sc, rng, 1, SC_OPEN);
	    for (int i = 0; i < c->nu; ++i)
		sc_single(sc, rng, 1, u[i]);
	} else {
	    /* 2x2 8/10-term, 7 error terms: through 4, double reflects 2
	     * each, single reflect 1: 8 for nu = 2, 9 for nu = 3 */
	    sc_through(sc, rng, 1, 2);
	    sc_double(sc, rng, 1, 2, u[0], u[0]);
	    sc_double(sc, rng, 1, 2, u[1], u[1]);
	    if (c->nu == 3)
		sc_single(sc, rng, 1 + vt_below(rng, 2), u[2]);
	}
	return 0;
    }
    if (strcmp(c->topo, "PRIORV") == 0) {
	/* PRIOR with a frequency-dependent known value on its own grid */
	double fs[3 * SC_MAXF];
	int n = 0, k, cp;

	for (int b = 0; b < 3; ++b)
	    n += band(sc->nf, b, &fs[n]);
	k = sc_known_vector(sc, rng, fs, n);
	cp = sc_corr(sc, k, pow(10.0, -1.0 - 2.0 * vt_unit(rng)));
	sc_single(sc, rng, 1, SC_SHORT);
	sc_single(sc, rng, 1, SC_OPEN);
	sc_single(sc, rng, 1, cp);
	return 0;
    }
    if (strcmp(c->topo, "FEW") == 0) {
	/* through, reflect (one unknown on both ports) and a single reflect
	 * with a second unknown: 4 + 2 + 1 equations for 7 error terms and
	 * 2 parameters */
	int ur = sc_unknown(sc, rng, rand_gamma(rng, 0.6, 1.0), radius, vg);
	int us = sc_unknown(sc, rng, rand_gamma(rng, 0.3, 0.9), radius, vg);
	int order = vt_below(rng, 3);

	for (int k = 0; k < 3; ++k) {
	    switch ((k + order) % 3) {
	    case 0: sc_through(sc, rng, 1, 2); break;
	    case 1: sc_double(sc, rng, 1, 2, ur, ur); break;
	    case 2: sc_single(sc, rng, 1 + vt_below(rng, 2), us); break;
	    }
	}
	return 0;
    }
    if (strcmp(c->topo, "KIT") == 0) {
	/* multi-line TRL; parameters enter the table in order of first use:
	 * line 1, reflect, lines 2..5, three known lines */
	double fs[3 * SC_MAXF];
	int n = 0, ul[5], ur = -1, ks1, ks2, kv;
	double complex r = rand_gamma(rng, 0.6, 1.0);

	for (int b = 0; b < 3; ++b)
	    n += band(sc->nf, b, &fs[n]);
	for (int i = 0; i < 5; ++i) {
	    /* phases spread over +-(30..150) degrees, away from the through */
	    double la = (0.5 + 0.42 * i) * (i & 1 ? -1 : 1);
	    double complex l = (0.5 + 0.4 * vt_unit(rng)) *
		(cos(la) + I * sin(la));

	    if (i == 1)
		ur = sc_unknown(sc, rng, r, radius, vg);
	    ul[i] = sc_unknown(sc, rng, l, radius, vg);
	}
	ks1 = sc_scalar(sc, rand_gamma(rng, 0.5, 0.9));
	kv = sc_known_vector(sc, rng, fs, n);
	ks2 = sc_scalar(sc, rand_gamma(rng, 0.5, 0.9));
	sc_line(sc, rng, 1, 2, SC_MATCH, ul[0], ul[0], SC_MATCH);
	sc_single(sc, rng, 1, ur);
	sc_through(sc, rng, 1, 2);
	for (int i = 1; i < 5; ++i)
	    sc_line(sc, rng, 1, 2, SC_MATCH, ul[i], ul[i], SC_MATCH);
	sc_line(sc, rng, 1, 2, SC_MATCH, ks1, ks1, SC_MATCH);
	sc_line(sc, rng, 1, 2, SC_MATCH, kv, kv, SC_MATCH);
	sc_line(sc, rng, 1, 2, SC_MATCH, ks2, ks2, SC_MATCH);
	sc_single(sc, rng, 2, ur);
	return 0;
    }
    if (strcmp(c->topo, "RLINE") == 0) {
	/* rectangular calibration: rich known base on every port pair, and
	 * nu matched lines from port 1 (always driven and detected) to later
	 * ports, each with its own unknown reciprocal transmission */
	const int full16 = sc->type == ETS_T16 || sc->type == ETS_U16;
	int first_b = sc->P == 2 ? 2 : 2 + vt_below(rng, 2);

	for (int a = 1; a <= sc->P; ++a) {
	    for (int b = a + 1; b <= sc->P; ++b) {
		sc_double(sc, rng, a, b, SC_SHORT, SC_OPEN);
		sc_double(sc, rng, a, b, SC_OPEN, SC_SHORT);
		sc_double(sc, rng, a, b, SC_MATCH, SC_MATCH);
		sc_double(sc, rng, a, b, SC_MATCH, SC_SHORT);
		sc_double(sc, rng, a, b, SC_OPEN, SC_MATCH);
		sc_through(sc, rng, a, b);
		for (int k = 0; k < (full16 ? 3 : 1); ++k)
		    sc_line(sc, rng, a, b,
			    sc_scalar(sc, rand_gamma(rng, 0.0, 0.5)),
			    sc_scalar(sc, rand_gamma(rng, 0.3, 0.9)),
			    sc_scalar(sc, rand_gamma(rng, 0.3, 0.9)),
			    sc_scalar(sc, rand_gamma(rng, 0.0, 0.5)));
	    }
	}
	for (int i = 0; i < c->nu; ++i) {
	    int b = c->nu == 2 ? 2 + i : first_b;

	    u[i] = sc_unknown(sc, rng, rand_gamma(rng, 0.4, 0.9), radius, vg);
	    sc_line(sc, rng, 1, b, SC_MATCH, u[i], u[i], SC_MATCH);
	}
	return 0;
    }
    if (strcmp(c->topo, "PRIOR") == 0) {
	/* exactly determined error terms; the only information about the
	 * parameter is its correlation with a known value */
	double complex v = rand_gamma(rng, 0.3, 0.9);
	int k = sc_scalar(sc, v);
	int cp = sc_corr(sc, k, pow(10.0, -1.0 - 2.0 * vt_unit(rng)));

	sc_single(sc, rng, 1, SC_SHORT);
	sc_single(sc, rng, 1, SC_OPEN);
	sc_single(sc, rng, 1, cp);
	return 0;
    }
    /* the remaining topologies stand on the known base */
    base_known(sc, rng);
    if (strcmp(c->topo, "WEAK") == 0) {
	/* as REFL, but every receiver reads 1e-100 times the signal */
	for (int k = 0; k < sc->nf; ++k) {
	    double complex *el = (double complex *)sc->e[k].el;
	    double complex *er = (double complex *)sc->e[k].er;

	    for (size_t i = 0; i < sizeof(sc->e[k].el) / sizeof(*el); ++i)
		el[i] *= 1e-100;
	    for (size_t i = 0; i < sizeof(sc->e[k].er) / sizeof(*er); ++i)
		er[i] *= 1e-100;
	}
    }
    if (strcmp(c->topo, "REFL") == 0 || strcmp(c->topo, "WEAK") == 0) {
	/* unknown reflects paired with known ones (1 port: alone) */
	for (int i = 0; i < c->nu; ++i) {
	    u[i] = sc_unknown(sc, rng, rand_gamma(rng, 0.3, 0.9), radius, vg);
	    if (sc->P == 1)
		sc_single(sc, rng, 1, u[i]);
	    else {
		int a = 1 + i % sc->P, b = 1 + (i + 1) % sc->P;

		sc_double(sc, rng, a, b, u[i], (i & 1) ? SC_SHORT : SC_OPEN);
	    }
	}
	return 0;
    }
    if (strcmp(c->topo, "SREF") == 0) {
	/* single reflects: only one S cell is specified */
	for (int i = 0; i < c->nu; ++i) {
	    u[i] = sc_unknown(sc, rng, rand_gamma(rng, 0.3, 0.9), radius, vg);
	    sc_single(sc, rng, 1 + (i + 1) % sc->P, u[i]);
	}
	return 0;
    }
    if (strcmp(c->topo, "LINE") == 0 && sc->P >= 2) {
	/* lines with unknown transmission and/or reflection cells */
	int a = 1, b = 2;

	for (int i = 0; i < c->nu; ++i)
	    u[i] = sc_unknown(sc, rng, rand_gamma(rng, 0.3, 0.9), radius, vg);
	if (sc->P == 3 && vt_below(rng, 2)) {
	    a = 2;
	    b = 3;
	}
	switch (c->nu) {
	case 1:
	    sc_line(sc, rng, a, b, SC_MATCH, u[0], u[0], SC_MATCH);
	    break;
	case 2:
	    sc_line(sc, rng, a, b, sc_scalar(sc, rand_gamma(rng, 0.0, 0.4)),
		    u[0], u[1], sc_scalar(sc, rand_gamma(rng, 0.0, 0.4)));
	    break;
	default:
	    sc_line(sc, rng, a, b, u[2], u[0], u[1],
		    sc_scalar(sc, rand_gamma(rng, 0.0, 0.4)));
	    break;
	}
	return 0;
    }
    if (strcmp(c->topo, "CORRV") == 0) {
	/* reflects whose parameters are correlated with known, strongly
	 * frequency-dependent vector parameters (data-sheet models) given
	 * on their own grids */
	double fs[3 * SC_MAXF];
	int n = 0;

	for (int b = 0; b < 3; ++b)
	    n += band(sc->nf, b, &fs[n]);
	for (int i = 0; i < c->nu; ++i) {
	    int k = sc_known_vector(sc, rng, fs, n);

	    u[i] = sc_corr(sc, k, pow(10.0, -1.0 - 2.0 * vt_unit(rng)));
	    if (sc->P == 1)
		sc_single(sc, rng, 1, u[i]);
	    else
		sc_double(sc, rng, 1 + i % sc->P, 1 + (i + 1) % sc->P, u[i],
			(i & 1) ? SC_SHORT : SC_OPEN);
	}
	return 0;
    }
    if (strcmp(c->topo, "CORR") == 0 && c->nu >= 2) {
	/* the same reflect connected nu times: one unknown and nu-1
	 * parameters correlated with it (perfect repeatability) */
	double sigma = pow(10.0, -1.0 - 2.0 * vt_unit(rng));

	u[0] = sc_unknown(sc, rng, rand_gamma(rng, 0.3, 0.9), radius, vg);
	for (int i = 1; i < c->nu; ++i)
	    u[i] = sc_corr(sc, u[0], sigma);
	for (int i = 0; i < c->nu; ++i) {
	    if (sc->P == 1)
		sc_single(sc, rng, 1, u[i]);
	    else
		sc_double(sc, rng, 1 + i % sc->P, 1 + (i + 1) % sc->P, u[i],
			(i & 1) ? SC_SHORT : SC_OPEN);
	}
	return 0;
    }
    return -1;
}

/* ------------------------------------------------------------ one solve */

typedef struct solve_res {
    int setup_ok;		/* parameters made and all standards added */
    int setup_errno;
    int rv, err;
    int cb_n, cb_math, cb_one;
    int lm_events, lm_exits;
    double perr, pscale;	/* parameter error (successful solve) */
    int getters_ok;
    int near_best;
    sc_apply_t ap;
    int applied;
    int live_after;
} solve_res_t;

static int g_timeout = 60;

/*
 * run_solve: build the calibration from the scenario under the given
 * tolerances / limit, solve, read back the parameters and apply to an
 * independent device.  Emits Setup, (LM*), Solve, Params, Apply events.
 */
static const char *g_tmp = "/tmp";

/*
 * saved_residual: out->worst = largest scaled residual of the saved error
 * terms of calibration `name` in the documented M/S equation for a random
 * device (caleq_oracle's reader and residual; no libvna algebra).
 */
static void saved_residual(sc_scn_t *sc, vnacal_t *vcp, const char *name,
	uint64_t dut_seed, sc_apply_t *out)
{
    static cq_terms_t terms;
    char path[512], why[128];
    vt_rng_t rng;

    memset(out, 0, sizeof(*out));
    snprintf(path, sizeof(path), "%s/selfcal-%d.vnacal", g_tmp, (int)getpid());
    (void)LIB(vnacal_set_dprecision(vcp, 17));
    out->rv = LIB(vnacal_save(vcp, path));
    out->err = errno;
    if (out->rv != 0)
	return;
    if (cq_read_saved(path, name, &terms, why, sizeof(why)) != 0) {
	out->rv = -1;
	out->err = EBADMSG;
	(void)unlink(path);
	return;
    }
    (void)unlink(path);
    vt_seed(&rng, dut_seed);
    for (int k = 0; k < sc->nf; ++k) {
	double complex st[SC_MAXP * SC_MAXP], m[SC_MAXP * SC_MAXP];
	double r;

	for (;;) {
	    for (int i = 0; i < sc->P * sc->P; ++i)
		st[i] = ets_cunit_disc(&rng, 0.8);
	    if (ets_measure(&sc->e[k], st, m) == 0)
		break;
	}
	r = cq_saved_residual(&terms, k, st, m);
	if (!(r <= out->worst))
	    out->worst = r;
    }
}

static void do_solve(sc_scn_t *sc, const cfg_t *c, vnacal_t *vcp, int pt,
	int et, uint64_t seed, const char *tag, solve_res_t *res)
{
    vnacal_new_t *vnp = NULL;
    vt_rng_t rng;
    double p_tol = pow(10.0, -pt), et_tol = pow(10.0, -et);
    int adds = 0;

    memset(res, 0, sizeof(*res));
    vt_seed(&rng, seed);
    vt_seed(&sc->noise_rng, seed ^ 0x5bd1e995u);
    vt_cb_reset();
    vnp = LIB(vnacal_new_alloc(vcp, sc_libtype(sc->type), sc->rows, sc->cols,
		sc->nf));
    if (vnp == NULL) {
	res->setup_errno = errno;
	goto setup_done;
    }
    if (LIB(vnacal_new_set_frequency_vector(vnp, sc->f)) != 0 ||
	    LIB(vnacal_new_set_p_tolerance(vnp, p_tol)) != 0 ||
	    LIB(vnacal_new_set_et_tolerance(vnp, et_tol)) != 0 ||
	    LIB(vnacal_new_set_iteration_limit(vnp, c->lim)) != 0) {
	res->setup_errno = errno;
	goto setup_done;
    }
    for (int si = 0; si < sc->nstd; ++si) {
	if (sc_add_std(sc, vnp, si, &rng) != 0) {
	    res->setup_errno = errno;
	    goto setup_done;
	}
	++adds;
    }
    if (c->me) {
	/* exact data: the declared noise only sets the weights */
	double nf = pow(10.0, -3.0 - 3.0 * vt_unit(&rng));
	double tr = vt_below(&rng, 2) ? pow(10.0, -2.0 - 3.0 * vt_unit(&rng))
	    : 0.0;

	if (LIB(vnacal_new_set_m_error(vnp, NULL, 1, &nf,
			tr != 0.0 ? &tr : NULL)) != 0) {
	    res->setup_errno = errno;
	    goto setup_done;
	}
    }
    res->setup_ok = 1;
setup_done:
    vt_put("{\"e\":\"Setup\",\"tag\":\"%s\",\"ok\":%d,\"adds\":%d,\"nstd\":%d,"
	    "\"err\":\"%s\",\"cbn\":%d,\"nf\":%d}", tag, res->setup_ok, adds,
	    sc->nstd, vt_errname(res->setup_errno), vt_cb.n_nonwarn, sc->nf);
    vt_end_line();
    if (!res->setup_ok)
	goto cleanup;

    /* ---- solve, under the watchdog ---- */
    vt_cb_reset();
    hk.active = 1;
    hk.total = 0;
    hk.exits = 0;
    hk.p_tol = p_tol;
    hk.et_tol = et_tol;
    hook_reset_frequency();
    memset(hk.last_ok, 0, sizeof(hk.last_ok));
    sc_watchdog(g_timeout);
    res->rv = LIB(vnacal_new_solve(vnp));
    res->err = errno;
    vt_watchdog_stop();
    hk.active = 0;
    res->lm_events = hk.total;
    res->lm_exits = hk.exits;
    res->cb_n = vt_cb.n_nonwarn;
    res->cb_math = vt_cb.n >= 1 && vt_cb.cat[0] == VNAERR_MATH;
    res->cb_one = vt_cb.n >= 1 && vt_cb.one_line[0];
    vt_put("{\"e\":\"Solve\",\"tag\":\"%s\",\"ret\":%d,\"errno\":\"%s\","
	    "\"cbn\":%d,\"cat\":\"%s\",\"one\":%d,\"lmn\":%d,\"lmx\":%d,"
	    "\"lim\":%d,\"pt\":%d,\"et\":%d}", tag, res->rv,
	    vt_errname(res->rv == 0 ? 0 : res->err), res->cb_n,
	    vt_cb.n >= 1 ? vt_catname(vt_cb.cat[0]) : "NONE", res->cb_one,
	    res->lm_events, res->lm_exits, c->lim, pt, et);
    vt_end_line();

    if (res->rv == 0) {
	double floor_p = 1e-9, floor_s = 1e-8;
	int ci;

	/* ---- parameters through the public getter ---- */
	vt_cb_reset();
	res->perr = sc_param_error(sc, vcp, &res->pscale);
	res->getters_ok = res->perr >= 0.0;
	/* ResultIsBest: what the getter returns is the loop's best point
	 * (up to the last, converged, correction) */
	res->near_best = 1;
	if (res->lm_exits > 0) {
	    /* unknown indices follow the order of first use, which the
	     * driver does not know: compare as sets */
	    /* set comparison: every returned value is within p_tol * sqrt(n)
	     * of some component of the best vector at that frequency */
	    for (int i = 0; i < sc->npar && res->near_best; ++i) {
		sc_par_t *p = &sc->par[i];

		if (p->kind != SCP_UNKNOWN && p->kind != SCP_CORR)
		    continue;
		for (int k = 0; k < sc->nf; ++k) {
		    double complex v = LIB(vnacal_get_parameter_value(vcp,
				p->handle, sc->f[k]));
		    double bestd = INFINITY;

		    for (int j = 0; j < hk.p_length && j < 64; ++j)
			bestd = fmin(bestd, cabs(v - hk.last_best_p[k][j]));
		    if (!(bestd <= p_tol * sqrt((double)hk.p_length) + 1e-12))
			res->near_best = 0;
		}
	    }
	}
	vt_put("{\"e\":\"Params\",\"tag\":\"%s\",\"ok\":%d,\"rec\":%d,"
		"\"nearBest\":%d,\"pe\":%d,\"cbn\":%d}", tag, res->getters_ok,
		res->getters_ok && res->perr <= 100.0 * p_tol * res->pscale +
		floor_p, res->near_best,
		res->perr > 0 ? (int)floor(log10(res->perr)) : -99,
		vt_cb.n_nonwarn);
	vt_end_line();

	/* ---- apply to an independent device ---- */
	vt_cb_reset();
	{
	    char name[32];
	    int arv;

	    snprintf(name, sizeof(name), "cal-%s", tag);
	    arv = LIB(vnacal_add_calibration(vcp, name, vnp));
	    ci = arv < 0 ? -1 : LIB(vnacal_find_calibration(vcp, name));
	    if (ci >= 0 && sc->rows == sc->cols) {
		sc_apply_dut(sc, vcp, ci, seed * 31 + 7, &res->ap);
		res->applied = 1;
	    } else if (ci >= 0) {
		/* a rectangular calibration cannot be applied: read the
		 * error terms vnacal_save writes and put them, together
		 * with the readings and the true S of an independent
		 * simulated device, into the documented equation */
		saved_residual(sc, vcp, name, seed * 31 + 7, &res->ap);
		res->applied = 1;
	    }
	    vt_put("{\"e\":\"Apply\",\"tag\":\"%s\",\"added\":%d,\"ret\":%d,"
		    "\"errno\":\"%s\",\"rec\":%d,\"se\":%d,\"cbn\":%d,"
		    "\"via\":\"%s\"}", tag,
		    ci >= 0, res->ap.rv, vt_errname(res->ap.rv == 0 ? 0 :
			res->ap.err), res->applied && res->ap.rv == 0 &&
		    res->ap.worst <= 100.0 * et_tol * 10.0 + floor_s,
		    res->ap.worst > 0 ? (int)floor(log10(res->ap.worst)) : -99,
		    vt_cb.n_nonwarn, sc->rows == sc->cols ? "apply" : "saved");
	    vt_end_line();
	}
    }
cleanup:
    if (vnp != NULL)
	LIBV(vnacal_new_free(vnp));
}

/*
 * Frequency grids: band 0 is the scenario's own grid 1, 2, .. GHz; band 1
 * has the same number of points at other frequencies inside it, band 2 a
 * different number of points.  Returns the number of points.
 */
static int band(int nf, int which, double *f)
{
    const double f0 = 1.0e9, span = 1.0e9 * (nf - 1);
    int n;

    if (which == 0) {
	for (int k = 0; k < nf; ++k)
	    f[k] = 1.0e9 * (1.0 + k);
	return nf;
    }
    if (which == 1) {
	if (nf == 1) {
	    f[0] = 1.3e9;
	    return 1;
	}
	for (int k = 0; k < nf; ++k)
	    f[k] = f0 + span * (0.1 + 0.8 * k / (nf - 1));
	return nf;
    }
    n = nf < 3 ? nf + 1 : nf - 1;
    if (nf == 1) {
	f[0] = 1.2e9;
	f[1] = 1.6e9;
	return 2;
    }
    for (int k = 0; k < n; ++k)
	f[k] = f0 + span * (0.05 + 0.9 * k / (n - 1));
    return n;
}

/*
 * run_solve: one vnacal_t with the scenario's parameters; solve (tag), and
 * with resolve != 0 measure the same standards -- the same parameter
 * handles -- again on another frequency grid (1: same number of points,
 * 2: another number) with a second vnacal_new_t and solve that too.
 */
static void run_solve(sc_scn_t *sc, const cfg_t *c, int pt, int et,
	uint64_t seed, const char *tag, solve_res_t *res, int resolve)
{
    vnacal_t *vcp;

    memset(res, 0, sizeof(*res));
    vt_cb_reset();
    vcp = LIB(vnacal_create(vt_errfn, NULL));
    if (vcp == NULL || sc_make_params(sc, vcp) != 0) {
	res->setup_errno = errno;
	vt_put("{\"e\":\"Setup\",\"tag\":\"%s\",\"ok\":0,\"adds\":0,"
		"\"nstd\":%d,\"err\":\"%s\",\"cbn\":%d,\"nf\":%d}", tag, sc->nstd,
		vt_errname(res->setup_errno), vt_cb.n_nonwarn, sc->nf);
	vt_end_line();
    } else {
	do_solve(sc, c, vcp, pt, et, seed, tag, res);
	if (resolve != 0 && res->setup_ok) {
	    static sc_scn_t sc2;
	    solve_res_t r2;
	    vt_rng_t rng;
	    double f[SC_MAXF];
	    int n;

	    sc2 = *sc;
	    vt_seed(&rng, seed * 977 + 5);
	    n = band(sc->nf, resolve, f);
	    sc_retune(&sc2, &rng, n, f, 0.6);
	    do_solve(&sc2, c, vcp, pt, et, seed + 977,
		    resolve == 1 ? "re" : "rc", &r2);
	}
    }
    if (vcp != NULL) {
	sc_delete_params(sc, vcp);
	LIBV(vnacal_free(vcp));
    }
    res->live_after = (int)vt_alloc_live;
}

/* ------------------------------------------------------------- one case */

static const int ladder[] = { 4, 6, 8, 10, 12 };
#define N_LADDER ((int)(sizeof(ladder) / sizeof(ladder[0])))

static void run_case(const char *table, uint64_t seed, int row)
{
    cfg_t c;
    sc_scn_t sc;
    vt_rng_t rng;
    int type, nf, analytic_shape = 0;
    solve_res_t res;
    long live0 = vt_alloc_live;

    vt_put("{\"e\":\"Reset\",\"mod\":\"SelfCal\",\"case\":\"run:%llu:%d\","
	    "\"seed\":%llu}", (unsigned long long)seed, row,
	    (unsigned long long)seed);
    vt_end_line();
    if (read_row(table, row, &c) != 0) {
	vt_put("{\"e\":\"Cfg\",\"bad\":1}");
	vt_end_line();
	vt_put("{\"e\":\"End\",\"live\":0,\"leaked\":0}");
	vt_end_line();
	return;
    }
    vt_seed(&rng, seed * 1000003ull + (uint64_t)row * 7919ull + 11);
    type = sc_type_by_name(c.type);
    nf = 1 + vt_below(&rng, 3);
    {
	/* k < P: rectangular; T types have more columns, the others more
	 * rows (vnacal_new(3)) */
	int rows = c.P, cols = c.P;

	if (c.k != c.P) {
	    if (type >= 0 && ets_is_t((ets_type_t)type))
		rows = c.k;
	    else
		cols = c.k;
	}
	sc_init(&sc, (ets_type_t)(type < 0 ? 0 : type), rows, cols, nf, &rng,
		0.6);
    }
    sc.ab = vt_below(&rng, 3) == 0;
    snprintf(sc.kit, sizeof(sc.kit), "%s", c.ko);
    vt_put("{\"e\":\"Cfg\",\"id\":%d,\"ty\":\"%s\",\"p\":%d,\"k\":%d,\"r\":%d,"
	    "\"c\":%d,\"topo\":\"%s\","
	    "\"nu\":%d,\"lim\":%d,\"pt\":%d,\"et\":%d,\"me\":%d,\"nf\":%d,"
	    "\"fm\":\"%s\",\"ko\":\"%s\"}", c.id, c.type, c.P, c.k, sc.rows,
	    sc.cols, c.topo, c.nu, c.lim, c.pt, c.et, c.me, nf,
	    sc.ab ? "ab" : "m", c.ko);
    vt_end_line();
    if (type < 0 || build_scenario(&sc, &c, &rng, &analytic_shape) != 0) {
	vt_put("{\"e\":\"Setup\",\"tag\":\"main\",\"ok\":0,\"adds\":0,"
		"\"nstd\":0,\"err\":\"OTHER\",\"cbn\":0,\"nf\":1}");
	vt_end_line();
	vt_put("{\"e\":\"End\",\"live\":0,\"leaked\":0}");
	vt_end_line();
	return;
    }
    {
	int resolve = 0;

	if (strcmp(c.topo, "FEW") != 0 && strcmp(c.topo, "SHORT1") != 0)
	    resolve = row % 3;		/* 0: none, 1: other band, 2: other count */
	run_solve(&sc, &c, c.pt, c.et, seed + (uint64_t)row, "main", &res,
		resolve);
    }

    /* tolerance ladder on the same data (same readings: the scenario's
     * noise generator is re-seeded identically in run_solve) */
    if (res.setup_ok && (row % 4) == 0 && c.lim >= 30) {
	double pe[N_LADDER], se[N_LADDER];
	int ok[N_LADDER], n = 0, mono = 1;
	solve_res_t r;

	for (int i = 0; i < N_LADDER; ++i) {
	    char tag[16];

	    snprintf(tag, sizeof(tag), "lad%d", ladder[i]);
	    run_solve(&sc, &c, ladder[i], ladder[i], seed + (uint64_t)row,
		    tag, &r, 0);
	    ok[i] = r.rv == 0 && r.getters_ok && r.applied && r.ap.rv == 0;
	    pe[i] = r.perr;
	    se[i] = r.ap.worst;
	    n += ok[i];
	}
	/* tighter tolerance => not farther from truth than under the
	 * previous (looser) tolerance that solved, except below 100 x the
	 * tighter tolerance (plus rounding floor) */
	for (int i = 1, prev = -1; i < N_LADDER; ++i) {
	    double tol = pow(10.0, -ladder[i]);

	    if (ok[i - 1])
		prev = i - 1;
	    if (!ok[i] || prev < 0)
		continue;
	    if (pe[i] > fmax(pe[prev], 100.0 * tol) + 1e-9)
		mono = 0;
	    if (se[i] > fmax(se[prev], 1000.0 * tol) + 1e-8)
		mono = 0;
	}
	vt_put("{\"e\":\"Ladder\",\"n\":%d,\"allOk\":%d,\"mono\":%d}",
		N_LADDER, n == N_LADDER, mono);
	vt_end_line();
    }
    vt_put("{\"e\":\"End\",\"live\":%ld,\"leaked\":%d}",
	    vt_alloc_live - live0, vt_alloc_live != live0);
    vt_end_line();
}

int main(int argc, char **argv)
{
    const char *trace = getenv("VT_TRACE");
    const char *to = getenv("SC_TIMEOUT");

    vt_open(trace != NULL ? trace : "-");
    vt_install_crash_handlers();
    if (to != NULL && atoi(to) > 0)
	g_timeout = atoi(to);
    if (getenv("SC_TMP") != NULL)
	g_tmp = getenv("SC_TMP");
    _vnacal_verif_lm_hook = lm_hook;
    if (argc == 6 && strcmp(argv[1], "run") == 0) {
	uint64_t seed = strtoull(argv[3], NULL, 10);
	int from = atoi(argv[4]), to_ = atoi(argv[5]);

	for (int row = from; row < to_; ++row)
	    run_case(argv[2], seed, row);
	vt_close();
	return 0;
    }
    fprintf(stderr, "usage: drv_selfcal run TABLE SEED FROM TO\n");
    return 2;
}
