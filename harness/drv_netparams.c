/*
 * drv_netparams.c -- C04: every vnaconv_* function against the defining port
 * relations (relcheck.c), over the case list exported by TLC from
 * NetParamsTable.tla.
 *
 * usage:
 *   drv_netparams TABLE SEED DRAWS FROM TO     run cases FROM..TO-1 (order
 *                                              of the "case" lines)
 *   drv_netparams TABLE SEED DRAWS key KEY     run the one case with that key
 *   drv_netparams TABLE count                  number of cases
 * Output (VT_TRACE): one ndjson line per case, integers and strings only:
 *   {"e":"Case","case":"<seed>:<draws>:<key>","kind":..,"from":..,"via":..,
 *    "to":..,"n":..,"alias":..,"z0":..,"draws":D,"decided":k,"failed":m,
 *    "firstBad":draw|-1,"what":"rel|alias|agree|round|-","lg":ceil(log10 worst)}
 * A draw: reference impedances of the case's class, a random n-port given as
 * S parameters, the input matrix of the case's type built from it BY THE
 * DEFINITIONS (rc_reference), then the libvna call(s) and the relation test.
 */
#include <complex.h>
#include <errno.h>
#include <fenv.h>
#include <math.h>
#include <stdio.h>
#include <stdlib.h>
#include <string.h>
#include "convreg.h"
#include "relcheck.h"
#include "vt.h"

#define MAXCASES 8192
#define NMAX 6

typedef struct kase {
    char kind[12], from[8], via[8], to[8], z0[8], net[16], mag[8], pat[8],
	 shape[12];
    int n, alias;
} kase_t;

static kase_t cases[MAXCASES];
static int ncases;

#define COND_IN   1.0e3		/* building the input matrix */
#define COND_MAX  1.0e4		/* conversion under test */
#define TOL_REL   1.0e-9	/* relation residual (observed <= 1e-13) */
#define TOL_AGREE 1.0e-8	/* two libvna results that must agree */

static int load_cases(const char *path)
{
    FILE *fp = fopen(path, "r");
    char line[512];

    if (fp == NULL) {
	perror(path);
	return -1;
    }
    while (fgets(line, sizeof(line), fp) != NULL) {
	kase_t *k;

	if (strncmp(line, "case\t", 5) != 0)
	    continue;
	if (ncases >= MAXCASES) {
	    fprintf(stderr, "too many cases\n");
	    return -1;
	}
	k = &cases[ncases];
	if (sscanf(line, "case\t%11s\t%7s\t%7s\t%7s\t%d\t%d\t%7s\t%15s\t%7s"
		    "\t%7s\t%11s",
		    k->kind, k->from, k->via, k->to, &k->n, &k->alias, k->z0,
		    k->net, k->mag, k->pat, k->shape) != 11) {
	    fprintf(stderr, "bad case line: %s", line);
	    return -1;
	}
	++ncases;
    }
    fclose(fp);
    return 0;
}

static void case_key(const kase_t *k, char *buf, size_t len)
{
    snprintf(buf, len, "%s:%s:%s:%s:%d:%d:%s:%s:%s:%s:%s", k->kind, k->from,
	    k->via, k->to, k->n, k->alias, k->z0, k->net, k->mag, k->pat,
	    k->shape);
}

static uint64_t hash_str(const char *s)
{
    uint64_t h = 1469598103934665603ull;

    for (; *s; ++s)
	h = (h ^ (unsigned char)*s) * 1099511628211ull;
    return h;
}

static double complex cgauss(vt_rng_t *r, double scale)
{
    return scale * (vt_normal(r) + I * vt_normal(r));
}

/*
 * reference impedances with a prescribed equality pattern: pat[p] names the
 * group of port p; flavour peq = one real value per group, pce = one complex
 * value per group, pre = one real part per group with imaginary parts that
 * differ from port to port.  Different groups get clearly different real
 * parts.
 */
static void draw_z0_pattern(vt_rng_t *r, const char *flavour, const char *pat,
	int n, double complex *z0)
{
    double re[8], im[8];
    int ng = 0;

    for (int p = 0; p < n; ++p) {
	if (pat[p] - 'a' + 1 > ng)
	    ng = pat[p] - 'a' + 1;
    }
    for (int g = 0; g < ng && g < 8; ++g) {
	int ok;

	do {
	    re[g] = vt_below(r, 4) == 0 ? 50.0 : 20.0 + 130.0 * vt_unit(r);
	    ok = 1;
	    for (int h = 0; h < g; ++h) {
		if (fabs(re[g] - re[h]) < 0.02 * re[h])
		    ok = 0;
	    }
	} while (!ok);
	im[g] = 160.0 * vt_unit(r) - 80.0;
    }
    for (int p = 0; p < n; ++p) {
	int g = pat[p] - 'a';

	if (strcmp(flavour, "peq") == 0)
	    z0[p] = re[g];
	else if (strcmp(flavour, "pce") == 0)
	    z0[p] = re[g] + I * im[g];
	else
	    z0[p] = re[g] + I * (10.0 * (p + 1) + 150.0 * vt_unit(r) - 80.0);
    }
}

/* may entry (i, j) of an n x n matrix of that shape be non-zero?  (the
 * same table as NetParams!ShapeEntry; the spec decides which conversions
 * are regular for it, the driver only has to produce such a matrix) */
static int shape_entry(const char *shape, int n, int i, int j)
{
    if (strcmp(shape, "diag") == 0)
	return i == j;
    if (strcmp(shape, "upper") == 0)
	return i <= j;
    if (strcmp(shape, "lower") == 0)
	return i >= j;
    if (strcmp(shape, "blockdiag") == 0)
	return (i < (n + 1) / 2) == (j < (n + 1) / 2);
    if (strcmp(shape, "pair") == 0)
	return i == j || (i == 0 && j == n - 1) || (i == n - 1 && j == 0);
    return 1;
}

/* natural magnitude of a port quantity in root-power units */
static double term_unit(const rc_term_t *t, const double complex *z0)
{
    double rt = sqrt(cabs(z0[t->p]));

    return t->q == 'v' ? rt : (t->q == 'i' ? 1.0 / rt : 1.0);
}

static void draw_z0(vt_rng_t *r, const char *cls, int n, double complex *z0)
{
    if (strcmp(cls, "eq") == 0) {
	/* the same impedance at every port: 50 ohm, another real value, or
	 * (every third draw) a complex one */
	int k = vt_below(r, 3);
	double complex v = k == 0 ? 50.0 : 20.0 + 130.0 * vt_unit(r);

	if (k == 2)
	    v += I * (160.0 * vt_unit(r) - 80.0);
	for (int p = 0; p < n; ++p)
	    z0[p] = v;
    } else if (strcmp(cls, "uneq") == 0) {
	for (int p = 0; p < n; ++p)
	    z0[p] = 20.0 + 130.0 * vt_unit(r);
    } else {
	for (int p = 0; p < n; ++p)
	    z0[p] = 10.0 + 140.0 * vt_unit(r) +
		I * (160.0 * vt_unit(r) - 80.0);
    }
}

/* dense, perfectly conditioned drive matrix: DFT with random row phases */
static void draw_drive(vt_rng_t *r, int n, double complex *drive)
{
    for (int k = 0; k < n; ++k) {
	double ph = 6.283185307179586 * vt_unit(r);

	for (int j = 0; j < n; ++j) {
	    drive[k * n + j] = cexp(I * (ph + 6.283185307179586 *
			(double)(k * j) / (double)n));
	}
    }
}

static const char *letter(const char *type)
{
    static const struct { const char *t, *l; } map[] = {
	{"S", "s"}, {"T", "t"}, {"U", "u"}, {"Z", "z"}, {"Y", "y"},
	{"H", "h"}, {"G", "g"}, {"A", "a"}, {"B", "b"}, {"ZIN", "zi"},
    };

    for (size_t i = 0; i < sizeof(map) / sizeof(map[0]); ++i) {
	if (strcmp(map[i].t, type) == 0)
	    return map[i].l;
    }
    return "?";
}

/* the function the spec's naming rule gives: <from>to<to>[n] */
static const cr_entry_t *find_fn(const char *from, const char *to, int nport)
{
    char name[32];
    const cr_entry_t *e;

    snprintf(name, sizeof(name), "%sto%s%s", letter(from), letter(to),
	    nport ? "n" : "");
    e = cr_find(name);
    if (e == NULL) {
	fprintf(stderr, "no vnaconv function named %s\n", name);
	exit(3);
    }
    return e;
}

static int impure_calls;	/* calls whose result depended on more than
				   their arguments, this draw */
static int unwritten_calls;	/* calls that left a cell of a separate output
				   buffer untouched, this draw */

/* poison patterns: two NaNs with distinct payloads and a huge finite value */
static double complex poison(int which)
{
    static const uint64_t bits[3] = {
	0x7ff8dead0000beefull, 0x7ff8c0de5a5a0001ull, 0x7fe1234567890abcull
    };
    uint64_t b[2];
    double complex z;

    b[0] = b[1] = bits[which % 3];
    memcpy(&z, b, sizeof(z));
    return z;
}

static int has_poison(const double complex *x, int len, int which)
{
    double complex p = poison(which);

    for (int i = 0; i < len; ++i) {
	if (memcmp(&x[i], &p, sizeof(p)) == 0)
	    return 1;
    }
    return 0;
}

static void apply_once(const cr_entry_t *e, const double complex *in,
	double complex *out, const double complex *z0, int n, int aliased,
	int which)
{
    int outn = (e->kind == CR_FI2 || e->kind == CR_FIN) ? n : n * n;

    if (!aliased) {
	/* a separate output buffer holds no information: every cell must
	 * be stored by the call */
	for (int i = 0; i < NMAX * NMAX; ++i)
	    out[i] = poison(which);
	LIBV(cr_call(e, in, out, z0, n));
	if (has_poison(out, outn, which))
	    ++unwritten_calls;
	return;
    }
    if (aliased) {
	double complex buf[NMAX * NMAX];
	int outlen = (e->kind == CR_FI2 || e->kind == CR_FIN) ? n : n * n;

	memcpy(buf, in, (size_t)(n * n) * sizeof(double complex));
	LIBV(cr_call(e, buf, buf, z0, n));
	memcpy(out, buf, (size_t)outlen * sizeof(double complex));
    } else {
	LIBV(cr_call(e, in, out, z0, n));
    }
}

/*
 * out = fn(in); aliased: the same buffer is input and output.
 * "Same input, same output": the call is made with the floating-point
 * exception flags cleared, again with them raised, and again after a call
 * of the same function on a singular (all-zero) input; the three results
 * must be bit-identical (no dependence on sticky flags or hidden state).
 */
static void apply(const cr_entry_t *e, const double complex *in,
	double complex *out, const double complex *z0, int n, int aliased)
{
    double complex o2[NMAX * NMAX], o3[NMAX * NMAX], zero[NMAX * NMAX],
		   junk[NMAX * NMAX];
    size_t outlen = (size_t)((e->kind == CR_FI2 || e->kind == CR_FIN) ?
	    n : n * n) * sizeof(double complex);

    feclearexcept(FE_ALL_EXCEPT);
    apply_once(e, in, out, z0, n, aliased, 0);
    feclearexcept(FE_ALL_EXCEPT);
    feraiseexcept(FE_DIVBYZERO | FE_INVALID | FE_OVERFLOW | FE_INEXACT);
    apply_once(e, in, o2, z0, n, aliased, 1);
    feclearexcept(FE_ALL_EXCEPT);
    memset(zero, 0, sizeof(zero));
    {
	int before = unwritten_calls;

	/* singular input: only its side effects matter */
	apply_once(e, zero, junk, z0, n, 0, 1);
	unwritten_calls = before;
    }
    apply_once(e, in, o3, z0, n, aliased, 2);
    feclearexcept(FE_ALL_EXCEPT);
    if (memcmp(out, o2, outlen) != 0 || memcmp(out, o3, outlen) != 0)
	++impure_calls;
}

static double max_rel_diff(int len, const double complex *x,
	const double complex *y)
{
    double scale = 0.0, d = 0.0;

    for (int i = 0; i < len; ++i) {
	if (!isfinite(cabs(x[i])) || !isfinite(cabs(y[i])))
	    return HUGE_VAL;
	scale = fmax(scale, fmax(cabs(x[i]), cabs(y[i])));
	d = fmax(d, cabs(x[i] - y[i]));
    }
    return scale > 0.0 ? d / scale : 0.0;
}

typedef struct verdict {
    int decided;		/* 0 undecided, 1 decided */
    int failed;
    double worst;
    const char *what;
} verdict_t;

static void note(verdict_t *v, double resid, double tol, const char *what)
{
    if (resid > v->worst)
	v->worst = resid;
    if (!(resid <= tol) && !v->failed) {
	v->failed = 1;
	v->what = what;
    }
}

/* check a matrix-valued result against the definitions */
static int check_matrix(const rc_rel_t *rin, const double complex *min,
	const char *type, const double complex *mout,
	const double complex *z0, const double complex *drive, verdict_t *v)
{
    const rc_rel_t *rout = rc_relation(type, rin->n);
    rc_result_t res;

    if (rout == NULL) {
	fprintf(stderr, "no relation for %s n=%d\n", type, rin->n);
	exit(3);
    }
    rc_check(rin, min, rout, mout, z0, drive, COND_MAX, &res);
    if (getenv("VT_RELDEBUG") != NULL)
	fprintf(stderr, "check %s->%s decided=%d cond=%g resid=%g\n",
		rin->type, type, res.decided, res.cond, res.resid);
    if (!res.decided)
	return 0;
    note(v, res.resid, TOL_REL * fmax(1.0, res.cond), "rel");
    return 1;
}

static int check_zin(const rc_rel_t *rin, const double complex *min,
	const double complex *zin, const double complex *z0, verdict_t *v)
{
    rc_result_t res;

    rc_check_zin(rin, min, zin, z0, COND_MAX, &res);
    if (!res.decided)
	return 0;
    note(v, res.resid, TOL_REL * fmax(1.0, res.cond), "rel");
    return 1;
}

static void run_draw(const kase_t *k, vt_rng_t *r, verdict_t *v)
{
    int n = k->n;
    double complex z0[NMAX], s[NMAX * NMAX], min[NMAX * NMAX],
		   drive[NMAX * NMAX];
    double complex o1[NMAX * NMAX], o2[NMAX * NMAX], o3[NMAX * NMAX];
    const rc_rel_t *rs = rc_relation("S", n);
    const rc_rel_t *rin = rc_relation(k->from, n);
    int nport = strcmp(k->kind, "convn") == 0 || strcmp(k->kind, "zinn") == 0
	|| strcmp(k->kind, "roundn") == 0 || strcmp(k->kind, "sconvn") == 0
	|| strcmp(k->kind, "szinn") == 0;
    int structured = strcmp(k->net, "-") != 0;
    int ok = 0;

    v->decided = 0;
    v->failed = 0;
    v->worst = 0.0;
    v->what = "-";
    impure_calls = 0;
    unwritten_calls = 0;
    if (rs == NULL || rin == NULL) {
	fprintf(stderr, "no relation for %s n=%d\n", k->from, n);
	exit(3);
    }
    /* input network: away from the singular set of building `from` */
    for (int tries = 0; tries < 50 && !ok; ++tries) {
	if (strcmp(k->pat, "-") != 0)
	    draw_z0_pattern(r, k->z0, k->pat, n, z0);
	else
	    draw_z0(r, k->z0, n, z0);
	draw_drive(r, n, drive);
	if (strcmp(k->shape, "dense") != 0) {
	    /* input matrix with exact zeros outside the shape, entries of
	     * the natural magnitude of its type; whether the conversion is
	     * regular for it was decided by the spec, how well conditioned
	     * this instance is by the check below */
	    int symm = strcmp(k->shape, "sym") == 0;

	    for (int i = 0; i < n; ++i) {
		for (int j = 0; j < n; ++j) {
		    double u = term_unit(&rin->dep[i], z0) /
			term_unit(&rin->ind[j], z0);

		    if (!shape_entry(k->shape, n, i, j))
			min[i * n + j] = 0.0;
		    else if (symm && j < i)
			min[i * n + j] = min[j * n + i] /
			    (term_unit(&rin->dep[j], z0) /
			     term_unit(&rin->ind[i], z0)) * u;
		    else
			min[i * n + j] = u * cgauss(r, 0.45);
		}
	    }
	    ok = 1;
	    continue;
	}
	if (structured) {
	    /* a network for which some OTHER representation does not exist:
	     * its matrix of the input type comes from its constraints */
	    const rc_net_t *net = rc_network(k->net, n);
	    double complex e[8];

	    if (net == NULL) {
		fprintf(stderr, "no network %s n=%d\n", k->net, n);
		exit(3);
	    }
	    for (int i = 0; i < net->nelem && i < 8; ++i) {
		double complex zel = 5.0 + 145.0 * vt_unit(r) +
		    I * (160.0 * vt_unit(r) - 80.0);

		e[i] = net->ekind[i] == 'y' ? 1.0 / zel : zel;
	    }
	    if (rc_matrix_of_network(net, e, rin, z0, min) <= COND_IN)
		ok = 1;
	    continue;
	}
	for (int i = 0; i < n * n; ++i)
	    s[i] = cgauss(r, 0.45);
	/* magnitude class: size of the reference impedances ... */
	if (strcmp(k->mag, "z0lo") == 0 || strcmp(k->mag, "z0hi") == 0) {
	    double f = (k->mag[2] == 'l' ? 1.0e-3 : 1.0e5) / 50.0 *
		(0.5 + 1.5 * vt_unit(r));

	    for (int p = 0; p < n; ++p)
		z0[p] *= f;
	} else if (strcmp(k->mag, "z0mix") == 0) {
	    for (int p = 0; p < n; ++p) {
		double m = pow(10.0, -3.0 + 8.0 * vt_unit(r));
		double ph = (100.0 * vt_unit(r) - 50.0) * 0.017453292519943295;

		z0[p] = m * cexp(I * ph);
	    }
	}
	/* ... or impedance level of the network relative to them: the random
	 * n-port is matched to L z0 and then expressed, through its Z (or Y)
	 * matrix, in the input type (voltage/current family only) */
	if (k->mag[0] == 'l' || k->mag[0] == 'h') {
	    double L = (strcmp(k->mag, "lo6") == 0 ? 1.0e-6 :
		    strcmp(k->mag, "lo3") == 0 ? 1.0e-3 :
		    strcmp(k->mag, "hi3") == 0 ? 1.0e3 : 1.0e6) *
		(0.5 + 1.5 * vt_unit(r));
	    double complex zaux[NMAX], mid[NMAX * NMAX];
	    const char *midtype = vt_below(r, 2) ? "Z" : "Y";
	    const rc_rel_t *rmid = rc_relation(midtype, n);

	    for (int p = 0; p < n; ++p)
		zaux[p] = L * z0[p];
	    if (getenv("VT_RELDEBUG") != NULL)
		fprintf(stderr, "build mid %s cond=%g\n", midtype,
			rc_reference(rs, s, rmid, mid, zaux, drive));
	    if (!(rc_reference(rs, s, rmid, mid, zaux, drive) <= COND_IN))
		continue;
	    if (getenv("VT_RELDEBUG") != NULL && strcmp(k->from, midtype) != 0)
		fprintf(stderr, "build %s from %s cond=%g\n", k->from, midtype,
			rc_reference(rmid, mid, rin, min, z0, drive));
	    if (strcmp(k->from, midtype) == 0) {
		memcpy(min, mid, sizeof(mid));
		ok = 1;
	    } else if (rc_reference(rmid, mid, rin, min, z0, drive) <=
		    COND_IN) {
		ok = 1;
	    }
	    continue;
	}
	if (strcmp(k->from, "S") == 0) {
	    memcpy(min, s, sizeof(s));
	    ok = 1;
	} else if (rc_reference(rs, s, rin, min, z0, drive) <= COND_IN) {
	    ok = 1;
	}
    }
    if (!ok)
	return;

    if (strcmp(k->kind, "conv2") == 0 || strcmp(k->kind, "convn") == 0 ||
	    strcmp(k->kind, "sconv2") == 0 || strcmp(k->kind, "sconvn") == 0) {
	const cr_entry_t *e = find_fn(k->from, k->to, nport);

	apply(e, min, o1, z0, n, k->alias);
	if (!check_matrix(rin, min, k->to, o1, z0, drive, v))
	    return;
	if (k->alias) {
	    apply(e, min, o2, z0, n, 0);
	    note(v, max_rel_diff(n * n, o1, o2), TOL_AGREE, "alias");
	}
	v->decided = 1;
    } else if (strcmp(k->kind, "zin2") == 0 || strcmp(k->kind, "zinn") == 0 ||
	    strcmp(k->kind, "szin2") == 0 || strcmp(k->kind, "szinn") == 0) {
	const cr_entry_t *e = find_fn(k->from, "ZIN", nport);

	apply(e, min, o1, z0, n, k->alias);
	if (!check_zin(rin, min, o1, z0, v))
	    return;
	if (k->alias) {
	    apply(e, min, o2, z0, n, 0);
	    note(v, max_rel_diff(n, o1, o2), TOL_AGREE, "alias");
	}
	v->decided = 1;
    } else if (strcmp(k->kind, "round2") == 0 ||
	    strcmp(k->kind, "roundn") == 0) {
	const cr_entry_t *e1 = find_fn(k->from, k->via, nport);
	const cr_entry_t *e2 = find_fn(k->via, k->from, nport);
	verdict_t leg = {0, 0, 0.0, "-"};

	apply(e1, min, o1, z0, n, 0);
	/* qualify the first leg by its own conditioning (its correctness is
	 * the business of the conv cases) */
	if (!check_matrix(rin, min, k->via, o1, z0, drive, &leg))
	    return;
	apply(e2, o1, o2, z0, n, 0);
	if (!check_matrix(rin, min, k->from, o2, z0, drive, v))
	    return;
	note(v, max_rel_diff(n * n, o2, min), TOL_AGREE * COND_MAX, "round");
	v->decided = 1;
    } else if (strcmp(k->kind, "chain2") == 0) {
	const cr_entry_t *e1 = find_fn(k->from, k->via, 0);
	const cr_entry_t *e2 = find_fn(k->via, k->to, 0);
	const cr_entry_t *e3 = find_fn(k->from, k->to, 0);
	const rc_rel_t *rvia = rc_relation(k->via, n);
	verdict_t leg = {0, 0, 0.0, "-"};
	int tozin = strcmp(k->to, "ZIN") == 0;

	apply(e1, min, o1, z0, n, 0);
	if (!check_matrix(rin, min, k->via, o1, z0, drive, &leg))
	    return;
	apply(e2, o1, o2, z0, n, 0);
	apply(e3, min, o3, z0, n, 0);
	if (tozin) {
	    rc_result_t q;

	    /* second leg conditioning, measured on the via network */
	    rc_check_zin(rvia, o1, o2, z0, COND_MAX, &q);
	    if (!q.decided)
		return;
	    if (!check_zin(rin, min, o2, z0, v))
		return;
	    if (!check_zin(rin, min, o3, z0, v))
		return;
	    note(v, max_rel_diff(n, o2, o3), TOL_AGREE * COND_MAX, "agree");
	} else {
	    if (!check_matrix(rin, min, k->to, o2, z0, drive, v))
		return;
	    if (!check_matrix(rin, min, k->to, o3, z0, drive, v))
		return;
	    note(v, max_rel_diff(n * n, o2, o3), TOL_AGREE * COND_MAX,
		    "agree");
	}
	v->decided = 1;
    } else if (strcmp(k->kind, "nvs2") == 0) {
	const cr_entry_t *e2 = find_fn(k->from, k->to, 0);
	const cr_entry_t *en = find_fn(k->from, k->to, 1);
	int tozin = strcmp(k->to, "ZIN") == 0;

	apply(e2, min, o1, z0, n, 0);
	apply(en, min, o2, z0, n, 0);
	if (tozin) {
	    if (!check_zin(rin, min, o1, z0, v))
		return;
	    if (!check_zin(rin, min, o2, z0, v))
		return;
	    note(v, max_rel_diff(n, o1, o2), TOL_AGREE * COND_MAX, "agree");
	} else {
	    if (!check_matrix(rin, min, k->to, o1, z0, drive, v))
		return;
	    if (!check_matrix(rin, min, k->to, o2, z0, drive, v))
		return;
	    note(v, max_rel_diff(n * n, o1, o2), TOL_AGREE * COND_MAX,
		    "agree");
	}
	v->decided = 1;
    } else {
	fprintf(stderr, "unknown case kind %s\n", k->kind);
	exit(3);
    }
}

static void run_case(const kase_t *k, uint64_t seed, int draws)
{
    char key[192];
    int decided = 0, failed = 0, first_bad = -1;
    int impure = 0, first_impure = -1, unwritten = 0;
    double worst = 0.0;
    const char *what = "-";

    case_key(k, key, sizeof(key));
    for (int d = 0; d < draws; ++d) {
	vt_rng_t r;
	verdict_t v;

	vt_seed(&r, seed * 0x100000001B3ull ^ hash_str(key) ^
		((uint64_t)d << 40));
	run_draw(k, &r, &v);
	if (impure_calls > 0 && impure++ == 0)
	    first_impure = d;
	if (unwritten_calls > 0)
	    ++unwritten;
	if (!v.decided)
	    continue;
	++decided;
	if (v.worst > worst)
	    worst = v.worst;
	if (v.failed) {
	    if (failed++ == 0) {
		first_bad = d;
		what = v.what;
	    }
	}
    }
    vt_put("{\"e\":\"Case\",\"case\":\"%llu:%d:%s\",\"kind\":\"%s\","
	    "\"from\":\"%s\",\"via\":\"%s\",\"to\":\"%s\",\"n\":%d,"
	    "\"alias\":%d,\"z0\":\"%s\",\"net\":\"%s\",\"mag\":\"%s\","
	    "\"draws\":%d,\"decided\":%d,\"pure\":%d,\"impure\":%d,"
	    "\"firstImpure\":%d,\"pat\":\"%s\",\"shape\":\"%s\","
	    "\"allWritten\":%d,\"unwritten\":%d,"
	    "\"failed\":%d,\"firstBad\":%d,\"what\":\"%s\",\"lg\":%d}",
	    (unsigned long long)seed, draws, key, k->kind, k->from, k->via,
	    k->to, k->n, k->alias, k->z0, k->net, k->mag, draws, decided,
	    impure == 0, impure, first_impure, k->pat, k->shape,
	    unwritten == 0, unwritten, failed, first_bad,
	    what, worst > 0.0 && isfinite(worst) ?
		(int)ceil(log10(worst)) : (worst == 0.0 ? -99 : 99));
    vt_end_line();
}

int main(int argc, char **argv)
{
    const char *tp = getenv("VT_TRACE");
    uint64_t seed;
    int draws;

    if (argc < 3) {
	fprintf(stderr, "usage: %s TABLE SEED DRAWS FROM TO | "
		"TABLE SEED DRAWS key KEY | TABLE count\n", argv[0]);
	return 3;
    }
    if (load_cases(argv[1]) != 0 || rc_load(argv[1]) != 0)
	return 3;
    if (strcmp(argv[2], "count") == 0) {
	printf("%d\n", ncases);
	return 0;
    }
    if (argc < 6)
	return 3;
    vt_open(tp != NULL ? tp : "-");
    seed = strtoull(argv[2], NULL, 10);
    draws = atoi(argv[3]);
    if (strcmp(argv[4], "key") == 0) {
	for (int i = 0; i < ncases; ++i) {
	    char key[192];

	    case_key(&cases[i], key, sizeof(key));
	    if (strcmp(key, argv[5]) == 0) {
		run_case(&cases[i], seed, draws);
		return 0;
	    }
	}
	fprintf(stderr, "no case with key %s\n", argv[5]);
	return 3;
    }
    for (int i = atoi(argv[4]); i < atoi(argv[5]) && i < ncases; ++i)
	run_case(&cases[i], seed, draws);
    return 0;
}
