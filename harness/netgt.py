"""Ground truth for network-parameter files, independent of libvna.

Everything here is derived from the *definitions* in vnaconv(3) (power
waves a_i = K_i (v_i + Z_i i_i)/2, b_i = K_i (v_i - conj(Z_i) i_i)/2,
K_i = 1/sqrt|re Z_i|, and the defining port relation of each parameter
type) -- not from conversion formulas.  A network with n ports is the
n-dimensional subspace of port vectors w = (v_1..v_n, i_1..i_n) that satisfy
dep(w) = M . indep(w); converting to another type means re-expressing the same
subspace with the other type's dep/indep split.

Pure Python (lists of complex), no numpy: matrices are at most 12 x 12.
"""
import cmath
import math

EPS = 2.220446049250313e-16

TWO_PORT = ("T", "U", "H", "G", "A", "B")
MATRIX_TYPES = ("S", "Z", "Y") + TWO_PORT


# --------------------------------------------------------------------------
# small dense complex linear algebra
# --------------------------------------------------------------------------

def matmul(a, b):
    n, m, k = len(a), len(b[0]), len(b)
    return [[sum(a[i][l] * b[l][j] for l in range(k)) for j in range(m)]
            for i in range(n)]


def solve(a, b):
    """X with a X = b (a square n x n, b n x m), Gaussian elimination with
    partial pivoting.  Raises ZeroDivisionError on a singular matrix."""
    n = len(a)
    m = len(b[0])
    aug = [list(a[i]) + list(b[i]) for i in range(n)]
    for c in range(n):
        p = max(range(c, n), key=lambda r: abs(aug[r][c]))
        if abs(aug[p][c]) == 0.0:
            raise ZeroDivisionError("singular")
        aug[c], aug[p] = aug[p], aug[c]
        piv = aug[c][c]
        for r in range(c + 1, n):
            f = aug[r][c] / piv
            if f != 0:
                rowc = aug[c]
                rowr = aug[r]
                for k in range(c, n + m):
                    rowr[k] -= f * rowc[k]
    x = [[0j] * m for _ in range(n)]
    for j in range(m):
        for r in range(n - 1, -1, -1):
            s = aug[r][n + j] - sum(aug[r][k] * x[k][j] for k in range(r + 1, n))
            x[r][j] = s / aug[r][r]
    return x


def maxabs(m):
    return max((abs(x) for row in m for x in row), default=0.0)


# --------------------------------------------------------------------------
# defining relations
# --------------------------------------------------------------------------

def _rows_ab(z0):
    """rows (over w = v_1..v_n, i_1..i_n) of a_i and b_i"""
    n = len(z0)
    a, b = [], []
    for i in range(n):
        k = 1.0 / math.sqrt(abs(z0[i].real))
        ra = [0j] * (2 * n)
        rb = [0j] * (2 * n)
        ra[i] = 0.5 * k
        ra[n + i] = 0.5 * k * z0[i]
        rb[i] = 0.5 * k
        rb[n + i] = -0.5 * k * z0[i].conjugate()
        a.append(ra)
        b.append(rb)
    return a, b


def _unit(n, idx, sign=1.0):
    r = [0j] * (2 * n)
    r[idx] = sign
    return r


def relation(ptype, z0):
    """(D, E): dep = D w, indep = E w for parameter type ptype"""
    n = len(z0)
    a, b = _rows_ab(z0)
    v = [_unit(n, i) for i in range(n)]
    cur = [_unit(n, n + i) for i in range(n)]
    if ptype == "S":
        return b, a
    if ptype == "Z":
        return v, cur
    if ptype == "Y":
        return cur, v
    if n != 2:
        raise ValueError("%s needs two ports" % ptype)
    if ptype == "T":
        return [b[0], a[0]], [a[1], b[1]]
    if ptype == "U":
        return [a[1], b[1]], [b[0], a[0]]
    if ptype == "H":
        return [v[0], cur[1]], [cur[0], v[1]]
    if ptype == "G":
        return [cur[0], v[1]], [v[0], cur[1]]
    neg_i2 = _unit(2, 3, -1.0)
    if ptype == "A":
        return [v[0], cur[0]], [v[1], neg_i2]
    if ptype == "B":
        return [v[1], neg_i2], [v[0], cur[0]]
    raise ValueError(ptype)


def convert(ftype, m, z0, ttype):
    """Matrix of type ttype describing the same network as m (type ftype)."""
    if ftype == ttype:
        return [list(r) for r in m]
    n = len(z0)
    d, e = relation(ftype, z0)
    p = d + e                                   # 2n x 2n
    rhs = [list(m[i]) for i in range(n)] + \
          [[1.0 + 0j if i == j else 0j for j in range(n)] for i in range(n)]
    w = solve(p, rhs)                           # 2n x n: basis of the network
    d2, e2 = relation(ttype, z0)
    dw = matmul(d2, w)
    ew = matmul(e2, w)
    # M' = dw . ew^-1   <=>   ew^T M'^T = dw^T
    ewt = [[ew[j][i] for j in range(n)] for i in range(n)]
    dwt = [[dw[j][i] for j in range(n)] for i in range(n)]
    mt = solve(ewt, dwt)
    return [[mt[j][i] for j in range(n)] for i in range(n)]


def zin_from_s(s, z0):
    """input impedance at each port, all other ports terminated in their
    system impedance (a_j = 0 for j != i):  v_i / i_i with b_i = s_ii a_i"""
    return [(z0[i].conjugate() + z0[i] * s[i][i]) / (1.0 - s[i][i])
            for i in range(len(z0))]


def to_param(ftype, m, z0, ttype):
    """m: matrix (ftype in MATRIX_TYPES) or Zin row vector (ftype == 'Zin').
    Returns a matrix for matrix targets, a list for 'Zin'."""
    if ftype == "Zin":
        if ttype != "Zin":
            raise ValueError("nothing converts from Zin")
        return list(m[0])
    if ttype == "Zin":
        s = convert(ftype, m, z0, "S")
        return zin_from_s(s, z0)
    return convert(ftype, m, z0, ttype)


def cond_estimate(ftype, m, z0, ttype, rng):
    """Empirical normwise amplification of a relative perturbation of the
    input by the conversion (>= 1)."""
    if ftype == ttype or ftype == "Zin":
        return 1.0
    delta = 1e-7
    base = to_param(ftype, m, z0, ttype)
    if ttype == "Zin":
        base = [base]
    nb = maxabs(base)
    nm = maxabs(m)
    worst = 1.0
    for _ in range(2):
        mp = [[x + delta * nm * complex(rng.uniform(-1, 1), rng.uniform(-1, 1))
               for x in row] for row in m]
        out = to_param(ftype, mp, z0, ttype)
        if ttype == "Zin":
            out = [out]
        diff = max(abs(out[i][j] - base[i][j])
                   for i in range(len(base)) for j in range(len(base[0])))
        if nb > 0:
            worst = max(worst, diff / (delta * 1.5 * nb))
    return worst


# --------------------------------------------------------------------------
# forms
# --------------------------------------------------------------------------

def form_pair(v, form):
    """the two numbers a file shows for complex v in ri / ma / db form"""
    if form == "ri":
        return (v.real, v.imag)
    ang = math.degrees(cmath.phase(v))
    if form == "ma":
        return (abs(v), ang)
    if form == "db":
        return (20.0 * math.log10(abs(v)), ang)
    raise ValueError(form)


def decode_pair(a, b, form):
    if form == "ri":
        return complex(a, b)
    if form == "ma":
        return a * cmath.exp(1j * math.radians(b))
    if form == "db":
        return (10.0 ** (a / 20.0)) * cmath.exp(1j * math.radians(b))
    raise ValueError(form)


def zin_rx_pair(z, f, form):
    """series / parallel R-C / R-L equivalents of impedance z at frequency f"""
    w = 2.0 * math.pi * f
    if form == "src":                 # z = R + 1/(jwC)
        return (z.real, -1.0 / (w * z.imag))
    if form == "srl":                 # z = R + jwL
        return (z.real, z.imag / w)
    y = 1.0 / z                       # parallel: y = 1/R + jwC = 1/R + 1/(jwL)
    if form == "prc":
        return (1.0 / y.real, y.imag / w)
    if form == "prl":
        return (1.0 / y.real, -1.0 / (w * y.imag))
    raise ValueError(form)


def zin_rx_decode(a, b, f, form):
    w = 2.0 * math.pi * f
    if form == "src":
        return complex(a, -1.0 / (w * b))
    if form == "srl":
        return complex(a, w * b)
    if form == "prc":
        return 1.0 / complex(1.0 / a, w * b)
    if form == "prl":
        return 1.0 / complex(1.0 / a, -1.0 / (w * b))
    raise ValueError(form)


def il(s, r, c):
    return -20.0 * math.log10(abs(s[r][c]))


def rl(s, p):
    return -20.0 * math.log10(abs(s[p][p]))


def vswr(s, p):
    a = abs(s[p][p])
    return (1.0 + a) / abs(1.0 - a)


def ts1_normalise(ptype, m, r):
    """Touchstone 1: Z, Y, H, G are stored normalised to the reference R"""
    if ptype == "S":
        return [list(x) for x in m]
    if ptype == "Z":
        return [[x / r for x in row] for row in m]
    if ptype == "Y":
        return [[x * r for x in row] for row in m]
    if ptype == "H":
        return [[m[0][0] / r, m[0][1]], [m[1][0], m[1][1] * r]]
    if ptype == "G":
        return [[m[0][0] * r, m[0][1]], [m[1][0], m[1][1] / r]]
    raise ValueError(ptype)


def ts1_denormalise(ptype, m, r):
    return ts1_normalise(ptype, m, 1.0 / r)


def angle_diff(a, b):
    """|a - b| in degrees modulo 360"""
    d = math.fmod(a - b, 360.0)
    if d > 180.0:
        d -= 360.0
    if d < -180.0:
        d += 360.0
    return abs(d)
