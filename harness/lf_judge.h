/*
 * lf_judge.h -- run one input through its loader and record the outcome
 * (included once from drv_loadfuzz.c).
 */
#ifndef LF_JUDGE_H
#define LF_JUDGE_H

/*
 * Termination is judged on CPU time, not on wall-clock time: the watchdog is
 * ITIMER_PROF (user + system time consumed by this process), so it does not
 * fire because other processes hog the cores.  A load normally takes well
 * under 10 ms of CPU.
 */
#define LF_WATCHDOG_CPU_SECONDS 10
#define LF_EXIT_HANG 94

#include <sys/time.h>

static void lf_watchdog(int seconds)
{
    struct itimerval it;

    memset(&it, 0, sizeof(it));
    it.it_value.tv_sec = seconds;
    (void)setitimer(ITIMER_PROF, &it, NULL);
}

static char hang_kind[16], hang_mut[16];
static int hang_seed;

static void on_alarm(int sig)
{
    (void)sig;
    vt_in_lib = 0;
    /* the loader did not return: record the input as a hang and leave */
    vt_put("{\"e\":\"Load\",\"kind\":\"%s\",\"mut\":\"%s\",\"seed\":%d,"
	    "\"hang\":1,\"ok\":0,\"err\":\"OK\",\"cbn\":0,\"cbw\":0,"
	    "\"cbcat\":\"none\",\"cb1\":1,\"usable\":0,\"obj\":0,\"struct\":-1,"
	    "\"lines\":[]}", hang_kind, hang_mut, hang_seed);
    vt_end_line();
    vt_put("{\"e\":\"End\",\"live\":0,\"leak\":0}");
    vt_end_line();
    _exit(LF_EXIT_HANG);
}

static void lf_install_alarm(void)
{
    signal(SIGPROF, on_alarm);
}

/* the outcome is assembled here and written only after the loader returned,
 * so that the alarm handler finds an empty trace line buffer */
static char resbuf[16384];
static size_t reslen;

static void res_put(const char *fmt, ...)
    __attribute__((__format__(__printf__, 1, 2)));
static void res_put(const char *fmt, ...)
{
    va_list ap;
    int n;

    va_start(ap, fmt);
    n = vsnprintf(resbuf + reslen, sizeof(resbuf) - reslen, fmt, ap);
    va_end(ap);
    if (n < 0 || (size_t)n >= sizeof(resbuf) - reslen) {
	fprintf(stderr, "res_put: overflow\n");
	exit(3);
    }
    reslen += (size_t)n;
}

static void res_put_cb(void)
{
    const char *cat = "none";
    int one = 1;

    for (int i = 0; i < vt_cb.n && i < VT_CB_MAX; ++i) {
	if (vt_cb.cat[i] != VNAERR_WARNING && strcmp(cat, "none") == 0)
	    cat = vt_catname(vt_cb.cat[i]);
	if (!vt_cb.one_line[i])
	    one = 0;
    }
    res_put("\"cbn\":%d,\"cbw\":%d,\"cbcat\":\"%s\",\"cb1\":%d",
	    vt_cb.n_nonwarn, vt_cb.n - vt_cb.n_nonwarn, cat, one);
}

/* ---------------------------------------------------------- vnadata */

static const char *ptype_name(vnadata_parameter_type_t t)
{
    switch (t) {
    case VPT_UNDEF: return "UNDEF";
    case VPT_S: return "S";
    case VPT_T: return "T";
    case VPT_U: return "U";
    case VPT_Z: return "Z";
    case VPT_Y: return "Y";
    case VPT_H: return "H";
    case VPT_G: return "G";
    case VPT_A: return "A";
    case VPT_B: return "B";
    case VPT_ZIN: return "ZIN";
    default: return "BAD";
    }
}

/* read everything the getters offer; 1 if no call reported an error */
static int data_readable(vnadata_t *v)
{
    int rows = LIB(vnadata_get_rows(v)), cols = LIB(vnadata_get_columns(v));
    int nf = LIB(vnadata_get_frequencies(v));
    int ports = rows > cols ? rows : cols;
    int before = vt_cb.n_nonwarn;
    volatile double sink = 0.0;

    if (rows < 0 || cols < 0 || nf < 0)
	return 0;
    if ((long)rows * cols * (nf > 0 ? nf : 1) > 4000000L)
	return 1;			/* too large to walk; not judged */
    for (int f = 0; f < nf; ++f) {
	sink += LIB(vnadata_get_frequency(v, f));
	for (int r = 0; r < rows; ++r)
	    for (int c = 0; c < cols; ++c)
		sink += creal(LIB(vnadata_get_cell(v, f, r, c)));
    }
    if (LIB(vnadata_has_fz0(v))) {
	for (int f = 0; f < nf; ++f)
	    for (int p = 0; p < ports; ++p)
		sink += creal(LIB(vnadata_get_fz0(v, f, p)));
    } else {
	for (int p = 0; p < ports; ++p)
	    sink += creal(LIB(vnadata_get_z0(v, p)));
    }
    (void)sink;
    return vt_cb.n_nonwarn == before;
}

static int same_double(double a, double b, double scale)
{
    if (isnan(a) || isnan(b))
	return isnan(a) && isnan(b);
    if (a == b)
	return 1;
    if (isinf(a) || isinf(b))
	return 0;
    if (!isfinite(scale))
	scale = fabs(a);
    return fabs(a - b) <= 1e-9 * scale + 1e-300;
}

/*
 * data_same: same type, dimensions, frequency vector and z0 mode; cells and
 * z0 values compared numerically only when the data are tame (all finite,
 * no magnitude above 1e6): vnadata_save may legitimately route the data
 * through a parameter conversion (Touchstone 1 normalises Z/Y/H/G through
 * S), whose rounding grows with the dynamic range of the matrix.
 * *judged tells whether the cells were compared.
 */
static int data_same(vnadata_t *a, vnadata_t *b, int *judged)
{
    int rows = LIB(vnadata_get_rows(a)), cols = LIB(vnadata_get_columns(a));
    int nf = LIB(vnadata_get_frequencies(a));
    int ports = rows > cols ? rows : cols;
    int tame = 1;
    double scale = 1.0;

    *judged = 0;
    if (LIB(vnadata_get_type(a)) != LIB(vnadata_get_type(b)) ||
	    rows != LIB(vnadata_get_rows(b)) ||
	    cols != LIB(vnadata_get_columns(b)) ||
	    nf != LIB(vnadata_get_frequencies(b)))
	return 0;
    for (int f = 0; f < nf; ++f) {
	double fa = LIB(vnadata_get_frequency(a, f));

	if (!same_double(fa, LIB(vnadata_get_frequency(b, f)), fabs(fa)))
	    return 0;
	for (int r = 0; r < rows; ++r) {
	    for (int c = 0; c < cols; ++c) {
		double m = cabs(LIB(vnadata_get_cell(a, f, r, c)));

		if (!isfinite(m) || m > 1e6)
		    tame = 0;
		else if (m > scale)
		    scale = m;
	    }
	}
    }
    if (LIB(vnadata_has_fz0(a)) != LIB(vnadata_has_fz0(b)))
	return 0;
    for (int p = 0; p < ports; ++p) {
	for (int f = 0; f < (LIB(vnadata_has_fz0(a)) ? nf : 1); ++f) {
	    double complex x = LIB(vnadata_get_fz0(a, f, p));
	    double complex y = LIB(vnadata_get_fz0(b, f, p));

	    if (!isfinite(cabs(x)) || cabs(x) > 1e6 || cabs(x) < 1e-6)
		tame = 0;
	    if (!same_double(creal(x), creal(y), cabs(x)) ||
		    !same_double(cimag(x), cimag(y), cabs(x)))
		return 0;
	}
    }
    if (!tame)
	return 1;
    *judged = 1;
    for (int f = 0; f < nf; ++f) {
	for (int r = 0; r < rows; ++r) {
	    for (int c = 0; c < cols; ++c) {
		double complex x = LIB(vnadata_get_cell(a, f, r, c));
		double complex y = LIB(vnadata_get_cell(b, f, r, c));

		/* 1e-6 of the largest magnitude: >= 10^4 x the rounding of a
		 * conversion round trip on tame data (observed <= 1e-11) */
		if (cabs(x - y) > 1e-6 * scale)
		    return 0;
	    }
	}
    }
    return 1;
}

static void judge_data(int kind, const buf_t *in, int prefill)
{
    vnadata_t *v;
    int rv, e;

    snprintf(path_in, sizeof(path_in), "%s/in-%d%s", cf_tmpdir(),
	    (int)getpid(), kind_ext[kind]);
    if (cf_write_file(path_in, in->p, in->n) != 0)
	exit(3);
    v = LIB(vnadata_alloc(vt_errfn, NULL));
    if (v == NULL)
	exit(3);
    if (prefill) {
	(void)LIB(vnadata_init(v, VPT_S, 2, 2, 2));
	(void)LIB(vnadata_set_cell(v, 1, 1, 1, 0.5 + 0.25 * I));
    }
    vt_cb_reset();
    lf_watchdog(LF_WATCHDOG_CPU_SECONDS);
    rv = LIB(vnadata_load(v, path_in));
    e = errno;
    lf_watchdog(0);
    res_put("\"hang\":0,\"ok\":%d,\"err\":\"%s\",", rv == 0, vt_errname(e));
    res_put_cb();
    if (rv == 0) {
	int rows = LIB(vnadata_get_rows(v)), cols = LIB(vnadata_get_columns(v));
	int nf = LIB(vnadata_get_frequencies(v));
	int readable, resave = -1, reload = -1, same = -1, judged = 0;

	vt_cb_reset();
	readable = data_readable(v);
	if (rows >= 1 && cols >= 1 && nf >= 1) {
	    vnadata_t *v2;

	    snprintf(path_out, sizeof(path_out), "%s/out-%d%s", cf_tmpdir(),
		    (int)getpid(), kind == K_NPD ? ".npd" : ".ts");
	    (void)LIB(vnadata_set_fprecision(v, 17));
	    (void)LIB(vnadata_set_dprecision(v, 17));
	    vt_cb_reset();
	    resave = LIB(vnadata_save(v, path_out)) == 0;
	    if (resave) {
		v2 = LIB(vnadata_alloc(vt_errfn, NULL));
		vt_cb_reset();
		reload = v2 != NULL && LIB(vnadata_load(v2, path_out)) == 0;
		same = reload ? data_same(v, v2, &judged) : 0;
		LIBV(vnadata_free(v2));
	    } else {
		reload = 0;
		same = 0;
	    }
	    unlink(path_out);
	}
	res_put(",\"o\":{\"type\":\"%s\",\"rows\":%d,\"cols\":%d,\"nf\":%d,"
		"\"readable\":%d,\"resave\":%d,\"reload\":%d,\"same\":%d,"
		"\"cellsJudged\":%d}",
		ptype_name(LIB(vnadata_get_type(v))), rows, cols,
		nf > 1000000 ? 1000000 : nf, readable, resave, reload, same,
		judged);
    } else {
	/* the destination must still answer queries, accept a re-init and
	 * be freed */
	int usable;

	vt_cb_reset();
	usable = data_readable(v);
	usable = usable && LIB(vnadata_init(v, VPT_S, 1, 1, 1)) == 0 &&
	    LIB(vnadata_set_cell(v, 0, 0, 0, 1.0)) == 0;
	res_put(",\"usable\":%d,\"obj\":0", usable);
    }
    LIBV(vnadata_free(v));
    unlink(path_in);
}

/* ---------------------------------------------------------- property trees */

/* walks a tree through the public getters; 1 if every node answers and no
 * map has duplicate keys */
static int tree_clean(const vnaproperty_t *node, int depth)
{
    int t;

    if (node == NULL)
	return 1;
    if (depth > 64)
	return 1;
    t = LIB(vnaproperty_type(node, "."));
    if (t == 's')
	return LIB(vnaproperty_get(node, ".")) != NULL;
    if (t == 'm') {
	const char **keys = LIB(vnaproperty_keys(node, "."));
	int count = LIB(vnaproperty_count(node, "."));
	int n = 0, ok = 1;

	if (keys == NULL)
	    return 0;
	for (const char **k = keys; *k != NULL; ++k, ++n) {
	    char *q = malloc(2 * strlen(*k) + 1);
	    vnaproperty_t *sub;

	    for (const char **k2 = keys; k2 < k; ++k2) {
		if (strcmp(*k, *k2) == 0)
		    ok = 0;
	    }
	    cf_quote_own(*k, q);
	    sub = LIB(vnaproperty_get_subtree(node, "%s", q));
	    if (sub == NULL && errno != 0)
		ok = 0;
	    else if (!tree_clean(sub, depth + 1))
		ok = 0;
	    free(q);
	}
	free((void *)keys);
	return ok && n == count;
    }
    if (t == 'l') {
	int count = LIB(vnaproperty_count(node, "."));

	if (count < 0)
	    return 0;
	for (int i = 0; i < count; ++i) {
	    vnaproperty_t *sub = LIB(vnaproperty_get_subtree(node, "[%d]", i));

	    if (sub == NULL && errno != 0)
		return 0;
	    if (!tree_clean(sub, depth + 1))
		return 0;
	}
	return 1;
    }
    return 0;
}

static int tree_same(const vnaproperty_t *a, const vnaproperty_t *b, int depth)
{
    int ta, tb;

    if (a == NULL || b == NULL)
	return a == NULL && b == NULL;
    if (depth > 64)
	return 1;
    ta = LIB(vnaproperty_type(a, "."));
    tb = LIB(vnaproperty_type(b, "."));
    if (ta != tb)
	return 0;
    if (ta == 's') {
	const char *x = LIB(vnaproperty_get(a, "."));
	const char *y = LIB(vnaproperty_get(b, "."));

	return x != NULL && y != NULL && strcmp(x, y) == 0;
    }
    if (ta == 'm') {
	const char **keys = LIB(vnaproperty_keys(a, "."));
	int ok = keys != NULL &&
	    LIB(vnaproperty_count(a, ".")) == LIB(vnaproperty_count(b, "."));

	for (const char **k = keys; ok && *k != NULL; ++k) {
	    char *q = malloc(2 * strlen(*k) + 1);
	    vnaproperty_t *sa, *sb;
	    int ea, eb;

	    cf_quote_own(*k, q);
	    sa = LIB(vnaproperty_get_subtree(a, "%s", q));
	    ea = errno;
	    sb = LIB(vnaproperty_get_subtree(b, "%s", q));
	    eb = errno;
	    if ((sa == NULL && ea != 0) || (sb == NULL && eb != 0))
		ok = 0;
	    else
		ok = tree_same(sa, sb, depth + 1);
	    free(q);
	}
	free((void *)keys);
	return ok;
    }
    if (ta == 'l') {
	int n = LIB(vnaproperty_count(a, "."));

	if (n != LIB(vnaproperty_count(b, ".")))
	    return 0;
	for (int i = 0; i < n; ++i) {
	    if (!tree_same(LIB(vnaproperty_get_subtree(a, "[%d]", i)),
			LIB(vnaproperty_get_subtree(b, "[%d]", i)), depth + 1))
		return 0;
	}
	return 1;
    }
    return 0;
}

static void judge_yaml(int kind, const buf_t *in, int prefill)
{
    vnaproperty_t *root = NULL, *before = NULL;
    int rv, e;

    if (prefill) {
	(void)LIB(vnaproperty_set(&root, "key=old"));
	(void)LIB(vnaproperty_set(&root, "list[1]=x"));
	(void)LIB(vnaproperty_copy(&before, root));
    }
    vt_cb_reset();
    lf_watchdog(LF_WATCHDOG_CPU_SECONDS);
    if (kind == K_YAMLFILE) {
	FILE *fp;

	snprintf(path_in, sizeof(path_in), "%s/in-%d.yaml", cf_tmpdir(),
		(int)getpid());
	if (cf_write_file(path_in, in->p, in->n) != 0)
	    exit(3);
	fp = fopen(path_in, "r");
	if (fp == NULL)
	    exit(3);
	rv = LIB(vnaproperty_import_yaml_from_file(&root, fp, path_in,
		    vt_errfn, NULL));
	e = errno;
	fclose(fp);
	unlink(path_in);
    } else {
	rv = LIB(vnaproperty_import_yaml_from_string(&root, in->p, vt_errfn,
		    NULL));
	e = errno;
    }
    lf_watchdog(0);
    res_put("\"hang\":0,\"ok\":%d,\"err\":\"%s\",", rv == 0, vt_errname(e));
    res_put_cb();
    if (rv == 0) {
	int clean = tree_clean(root, 0);
	int resave = 0, reload = 0, same = 0;
	FILE *fp;

	snprintf(path_out, sizeof(path_out), "%s/out-%d.yaml", cf_tmpdir(),
		(int)getpid());
	fp = fopen(path_out, "w");
	if (fp == NULL)
	    exit(3);
	vt_cb_reset();
	resave = LIB(vnaproperty_export_yaml_to_file(root, fp, path_out,
		    vt_errfn, NULL)) == 0;
	fclose(fp);
	if (resave) {
	    vnaproperty_t *r2 = NULL;

	    fp = fopen(path_out, "r");
	    if (fp == NULL)
		exit(3);
	    reload = LIB(vnaproperty_import_yaml_from_file(&r2, fp, path_out,
			vt_errfn, NULL)) == 0;
	    fclose(fp);
	    same = reload && tree_same(root, r2, 0);
	    (void)LIB(vnaproperty_delete(&r2, "."));
	}
	unlink(path_out);
	res_put(",\"o\":{\"clean\":%d,\"resave\":%d,\"reload\":%d,\"same\":%d}",
		clean, resave, reload, same);
    } else {
	int usable = tree_clean(root, 0);
	const char *dest = tree_same(root, before, 0) ? "unchanged" :
	    root == NULL ? "empty" : "partial";

	usable = usable && LIB(vnaproperty_set(&root, "after=1")) == 0;
	res_put(",\"usable\":%d,\"obj\":0,\"dest\":\"%s\"", usable, dest);
    }
    (void)LIB(vnaproperty_delete(&root, "."));
    (void)LIB(vnaproperty_delete(&before, "."));
}

/* ---------------------------------------------------------- calibrations */

static const char *ctype_name(vnacal_type_t t)
{
    switch (t) {
    case VNACAL_T8:   return "T8";
    case VNACAL_U8:   return "U8";
    case VNACAL_TE10: return "TE10";
    case VNACAL_UE10: return "UE10";
    case VNACAL_T16:  return "T16";
    case VNACAL_U16:  return "U16";
    case VNACAL_UE14: return "UE14";
    case VNACAL_E12:  return "E12";
    default:	      return "BAD";
    }
}

static int cal_same_shape(vnacal_t *a, vnacal_t *b)
{
    int ea = LIB(vnacal_get_calibration_end(a));
    int ib = 0;

    /* b must be the compacted image of a */
    for (int ia = 0; ia < ea; ++ia) {
	const char *na = LIB(vnacal_get_name(a, ia));
	const char *nb;
	int nf;
	const double *fa, *fb;

	if (na == NULL)
	    continue;
	nb = LIB(vnacal_get_name(b, ib));
	if (nb == NULL || strcmp(na, nb) != 0)
	    return 0;
	if (LIB(vnacal_get_type(a, ia)) != LIB(vnacal_get_type(b, ib)) ||
		LIB(vnacal_get_rows(a, ia)) != LIB(vnacal_get_rows(b, ib)) ||
		LIB(vnacal_get_columns(a, ia)) !=
		LIB(vnacal_get_columns(b, ib)) ||
		LIB(vnacal_get_frequencies(a, ia)) !=
		LIB(vnacal_get_frequencies(b, ib)))
	    return 0;
	nf = LIB(vnacal_get_frequencies(a, ia));
	fa = LIB(vnacal_get_frequency_vector(a, ia));
	fb = LIB(vnacal_get_frequency_vector(b, ib));
	for (int k = 0; k < nf; ++k) {
	    if (fa == NULL || fb == NULL || memcmp(&fa[k], &fb[k],
			sizeof(double)) != 0)
		return 0;
	}
	if (!tree_same(LIB(vnacal_property_get_subtree(a, ia, ".")),
		    LIB(vnacal_property_get_subtree(b, ib, ".")), 0))
	    return 0;
	++ib;
    }
    if (ib != LIB(vnacal_get_calibration_end(b)))
	return 0;
    return tree_same(LIB(vnacal_property_get_subtree(a, -1, ".")),
	    LIB(vnacal_property_get_subtree(b, -1, ".")), 0);
}

static void judge_vnacal(const buf_t *in)
{
    vnacal_t *v;
    int e;

    snprintf(path_in, sizeof(path_in), "%s/in-%d.vnacal", cf_tmpdir(),
	    (int)getpid());
    if (cf_write_file(path_in, in->p, in->n) != 0)
	exit(3);
    vt_cb_reset();
    lf_watchdog(LF_WATCHDOG_CPU_SECONDS);
    v = LIB(vnacal_load(path_in, vt_errfn, NULL));
    e = errno;
    lf_watchdog(0);
    res_put("\"hang\":0,\"ok\":%d,\"err\":\"%s\",", v != NULL, vt_errname(e));
    res_put_cb();
    if (v != NULL) {
	int end = LIB(vnacal_get_calibration_end(v));
	int props, anyf = 0, resave = -1, reload = -1, same = -1;

	res_put(",\"o\":{\"end\":%d,\"cals\":[", end);
	props = tree_clean(LIB(vnacal_property_get_subtree(v, -1, ".")), 0);
	for (int ci = 0; ci < end && ci < 40; ++ci) {
	    const char *name = LIB(vnacal_get_name(v, ci));
	    int nf, asc = 1, readable = 1;
	    const double *fv;
	    double complex z0;

	    if (ci)
		res_put(",");
	    if (name == NULL) {
		res_put("{\"u\":0}");
		continue;
	    }
	    nf = LIB(vnacal_get_frequencies(v, ci));
	    fv = LIB(vnacal_get_frequency_vector(v, ci));
	    z0 = LIB(vnacal_get_z0(v, ci));
	    if (nf > 0 && fv == NULL)
		readable = 0;
	    for (int k = 0; readable && k < nf; ++k) {
		if (!isfinite(fv[k]) || fv[k] < 0.0 ||
			(k > 0 && !(fv[k] > fv[k - 1])))
		    asc = 0;
	    }
	    if (nf > 0 && readable) {
		anyf = 1;
		if (LIB(vnacal_get_fmin(v, ci)) != fv[0] ||
			LIB(vnacal_get_fmax(v, ci)) != fv[nf - 1])
		    readable = readable && !asc;
	    }
	    if (isnan(creal(z0)) && isnan(cimag(z0)))
		readable = readable && 1;	/* value not judged */
	    if (!tree_clean(LIB(vnacal_property_get_subtree(v, ci, ".")), 0))
		props = 0;
	    res_put("{\"u\":1,\"type\":\"%s\",\"rows\":%d,\"cols\":%d,\"nf\":%d,"
		    "\"asc\":%d,\"readable\":%d}",
		    ctype_name(LIB(vnacal_get_type(v, ci))),
		    LIB(vnacal_get_rows(v, ci)), LIB(vnacal_get_columns(v, ci)),
		    nf > 1000000 ? 1000000 : nf, asc, readable);
	}
	if (anyf) {
	    vnacal_t *v2;

	    snprintf(path_out, sizeof(path_out), "%s/out-%d.vnacal",
		    cf_tmpdir(), (int)getpid());
	    snprintf(path_out2, sizeof(path_out2), "%s/out2-%d.vnacal",
		    cf_tmpdir(), (int)getpid());
	    (void)LIB(vnacal_set_fprecision(v, VNACAL_MAX_PRECISION));
	    (void)LIB(vnacal_set_dprecision(v, VNACAL_MAX_PRECISION));
	    vt_cb_reset();
	    resave = LIB(vnacal_save(v, path_out)) == 0;
	    reload = 0;
	    same = 0;
	    if (resave) {
		v2 = LIB(vnacal_load(path_out, vt_errfn, NULL));
		if (v2 != NULL) {
		    reload = 1;
		    same = cal_same_shape(v, v2);
		    (void)LIB(vnacal_set_fprecision(v2, VNACAL_MAX_PRECISION));
		    (void)LIB(vnacal_set_dprecision(v2, VNACAL_MAX_PRECISION));
		    if (same && LIB(vnacal_save(v2, path_out2)) == 0) {
			size_t la, lb;
			char *a = cf_read_file(path_out, &la);
			char *b = cf_read_file(path_out2, &lb);

			/* at maximum precision the numbers are written
			 * exactly: equal content <=> equal bytes */
			same = a != NULL && b != NULL && la == lb &&
			    memcmp(a, b, la) == 0;
			free(a);
			free(b);
		    } else {
			same = 0;
		    }
		    LIBV(vnacal_free(v2));
		}
	    }
	    unlink(path_out);
	    unlink(path_out2);
	}
	res_put("],\"props\":%d,\"resave\":%d,\"reload\":%d,\"same\":%d}", props,
		resave, reload, same);
	LIBV(vnacal_free(v));
    } else {
	res_put(",\"usable\":1,\"obj\":0");
    }
    unlink(path_in);
}

/* ------------------------------------------------------------ dispatch */

static void lf_load_and_judge(int kind, int mut, int seedno, const buf_t *in)
{
    snprintf(hang_kind, sizeof(hang_kind), "%s", kind_name[kind]);
    snprintf(hang_mut, sizeof(hang_mut), "%s", mut_name[mut]);
    hang_seed = seedno;
    reslen = 0;
    resbuf[0] = '\0';
    if (IS_DATA(kind))
	judge_data(kind, in, (int)(in->n % 2));
    else if (kind == K_VNACAL)
	judge_vnacal(in);
    else
	judge_yaml(kind, in, (int)(in->n % 2));
    classify_input(kind, in);
    vt_put("{\"e\":\"Load\",\"kind\":\"%s\",\"mut\":\"%s\",\"seed\":%d,"
	    "\"len\":%ld,\"struct\":%d,", kind_name[kind], mut_name[mut], seedno,
	    (long)in->n, structure_accepted(kind));
    put_classes();
    vt_put(",%s}", resbuf);
    vt_end_line();
}

#endif /* LF_JUDGE_H */
