/*
 * drv_linsys.c -- replay of the structured linear-system cases exported by
 * TLC from LinSysTable.tla (property C19).  The solvers are reached through
 * public paths only:
 *
 *   conv    vnaconv_ztoyn / ytozn / stozn / ztosn / stoyn / ytosn
 *   ab      the a/b -> m reduction of vnacal_apply (identity calibration)
 *   abadd   the a/b -> m reduction of vnacal_new_add_* (then solve, apply_m)
 *   tall    vnacal_new_solve on exactly- and over-determined one-port
 *           systems with duplicated equations / missing unknowns
 *   applym  vnacal_apply_m on multi-port calibrations whose receivers have
 *           badly scaled gains (row-scaled systems)
 *   wsolve  over-determined noisy 2 x 2 solves (E12 / UE14 column systems,
 *           T8) with and without a measurement-error model, each solved
 *           with the standards in two different orders
 *
 * usage: drv_linsys CASEFILE SEED FROM TO
 * Every line of CASEFILE is one case:
 *   kind fn n m | perm | scale | rowmap | pattern | valueclass
 * (lists of ints; see families/linsys.py).  env: VT_TRACE=<path>.
 *
 * The harness rebuilds the linear system behind each call from the public
 * inputs with its own arithmetic (own_clin.h, long double) following the
 * definitions in vnaconv(3) / vnacal(3) and logs boolean observations:
 *   fin   every output value is finite
 *   huge  some output value is >= 1e12 x the plausible output scale
 *   res   the residual obeys  ||A x - b|| <= 1e3 n eps (||A|| ||x|| + ||b||)
 *         in the UNSCALED system (row scalings are exact powers of two and
 *         are undone exactly)
 *   qual  the unscaled system's condition estimate is <= 1e6
 * The expectation is computed by TLC (LinSysTrace.tla) from the pattern.
 */
#include <complex.h>
#include <errno.h>
#include <float.h>
#include <math.h>
#include <stdio.h>
#include <stdlib.h>
#include <string.h>
#include <vnacal.h>
#include <vnaconv.h>
#include <vnadata.h>
#include "vt.h"
#include "own_clin.h"

#define NMAX 8
#define MMAX 16
#define FREQ 1.0e9

static vt_rng_t rng;
static vnacal_t *vcp;
static int dbg;

typedef struct lcase {
    char kind[16], fn[16];
    int n, m;
    int perm[MMAX], scale[MMAX], rowmap[MMAX];
    int pat[NMAX * NMAX];
    int nperm, nscale, nrowmap, npat;
    int vc;			/* value class, see vc_names */
} lcase_t;

/* ---------------------------------------------------------------- helpers */

static double urand(double a, double b)
{
    return a + (b - a) * vt_unit(&rng);
}

static double complex cphase(void)
{
    double t = 6.283185307179586 * vt_unit(&rng);

    return cos(t) + I * sin(t);
}

static double complex crand(double radius)
{
    return radius * sqrt(vt_unit(&rng)) * cphase();
}

static void put_ints(const char *name, const int *v, int n)
{
    vt_put("\"%s\":[", name);
    for (int i = 0; i < n; ++i)
	vt_put("%s%d", i ? "," : "", v[i]);
    vt_put("]");
}

static void put_result(int ok, int err)
{
    int cat = -1, one = 1;

    for (int i = 0; i < vt_cb.n && i < VT_CB_MAX; ++i) {
	if (vt_cb.cat[i] != VNAERR_WARNING && cat == -1)
	    cat = vt_cb.cat[i];
	if (!vt_cb.one_line[i])
	    one = 0;
    }
    vt_put(",\"ok\":%d,\"err\":\"%s\",\"cb\":%d,\"cat\":\"%s\",\"one\":%d",
	    ok, vt_errname(err), vt_cb.n_nonwarn,
	    cat < 0 ? "-" : vt_catname(cat), one);
}

static int parse_list(char *s, int *out, int max)
{
    int n = 0;
    char *tok;

    for (tok = strtok(s, " \t\n"); tok != NULL; tok = strtok(NULL, " \t\n")) {
	if (n < max)
	    out[n++] = atoi(tok);
    }
    return n;
}

static int parse_case(const char *line, lcase_t *lc)
{
    char buf[2048];
    char *parts[6];
    int np = 0;
    char *p;

    memset(lc, 0, sizeof(*lc));
    strncpy(buf, line, sizeof(buf) - 1);
    buf[sizeof(buf) - 1] = '\0';
    p = buf;
    parts[np++] = p;
    while ((p = strchr(p, '|')) != NULL && np < 6) {
	*p++ = '\0';
	parts[np++] = p;
    }
    if (np != 5 && np != 6)
	return -1;
    if (sscanf(parts[0], "%15s %15s %d %d", lc->kind, lc->fn, &lc->n,
		&lc->m) != 4)
	return -1;
    lc->nperm = parse_list(parts[1], lc->perm, MMAX);
    lc->nscale = parse_list(parts[2], lc->scale, MMAX);
    lc->nrowmap = parse_list(parts[3], lc->rowmap, MMAX);
    lc->npat = parse_list(parts[4], lc->pat, NMAX * NMAX);
    lc->vc = np == 6 ? atoi(parts[5]) : 0;
    if (lc->n < 1 || lc->n > NMAX || lc->m > MMAX)
	return -1;
    return 0;
}

/*
 * value classes (LinSys.tla ValueClasses): how the non-zero entries of the
 * case matrix are drawn
 */
enum { VC_GENERIC, VC_REAL, VC_IMAG, VC_REALSYM, VC_PHASE, VC_MIXED,
    VC_SMALLDIAG, VC_COUNT };
static const char *vc_names[] = { "generic", "real", "imag", "realsym",
    "phase", "mixed", "smalldiag" };

static double complex draw_entry(int vc, double complex common)
{
    double r = urand(0.5, 2.0);
    double sgn = vt_below(&rng, 2) ? 1.0 : -1.0;

    switch (vc) {
    case VC_REAL:
    case VC_REALSYM:
	return sgn * r;
    case VC_IMAG:
	return I * sgn * r;
    case VC_PHASE:
	return common * (sgn * r);
    case VC_MIXED:
	return vt_below(&rng, 2) ? sgn * r : I * sgn * r;
    default:
	return cphase() * r;
    }
}

static double pow2(int cls)
{
    return ldexp(1.0, 28 * cls);
}

/*
 * build_matrix: the n x n system matrix of the case.
 *   G0  unscaled (rows permuted, duplicates applied)
 *   G   what is given to the library: row i of G0 times 2^(28 scale[i])
 *   actual pattern (after permutation / duplication) goes to apat
 * Entry (i,j) = random value where pat[perm[i]][j] = 1, exact 0 elsewhere.
 * graded: a third of the entries is 2^-30 times smaller.
 * The non-zero values follow the case's value class (lc->vc).
 * rowmap[i] != i+1 (1-based) makes row i an exact copy of row rowmap[i].
 */
static void build_matrix(const lcase_t *lc, int graded, double complex *G0,
	double complex *G, int *apat)
{
    int n = lc->n, vc = lc->vc;
    double complex base[NMAX * NMAX];
    double complex common = cphase();

    for (int i = 0; i < n; ++i) {
	for (int j = 0; j < n; ++j) {
	    int bit = lc->npat == n * n ? lc->pat[i * n + j] : 1;

	    base[i * n + j] = bit ? draw_entry(vc, common) : 0.0;
	    /* real symmetric: mirror the upper triangle where the pattern
	     * has both entries */
	    if (vc == VC_REALSYM && j < i && bit &&
		    (lc->npat != n * n || lc->pat[j * n + i]))
		base[i * n + j] = base[j * n + i];
	    /* small diagonal, large off-diagonals: pivoting required */
	    if (vc == VC_SMALLDIAG && i == j)
		base[i * n + j] *= ldexp(1.0, -30);
	    /* graded: some entries 2^-30 times smaller than the others
	     * (the case is used only if the matrix stays well conditioned) */
	    if (graded && vt_below(&rng, 3) == 0)
		base[i * n + j] *= ldexp(1.0, -30);
	}
    }
    for (int i = 0; i < n; ++i) {
	int src = lc->nperm == n ? lc->perm[i] - 1 : i;

	for (int j = 0; j < n; ++j) {
	    G0[i * n + j] = base[src * n + j];
	    apat[i * n + j] = lc->npat == n * n ? lc->pat[src * n + j] : 1;
	}
    }
    if (lc->nrowmap == n) {
	for (int i = 0; i < n; ++i) {
	    int src = lc->rowmap[i] - 1;

	    if (src != i && src >= 0 && src < n) {
		for (int j = 0; j < n; ++j) {
		    G0[i * n + j] = G0[src * n + j];
		    apat[i * n + j] = apat[src * n + j];
		}
	    }
	}
    }
    for (int i = 0; i < n; ++i) {
	double d = lc->nscale == n ? pow2(lc->scale[i]) : 1.0;

	for (int j = 0; j < n; ++j)
	    G[i * n + j] = G0[i * n + j] * d;
    }
}

static double dscale(const lcase_t *lc, int i)
{
    return lc->nscale == lc->n ? pow2(lc->scale[i]) : 1.0;
}

/*
 * residual checks in long double:
 *   left:   || A X - B ||_F <= tol (||A|| ||X|| + ||B||)
 *   right:  || X A - B ||_F <= tol (||X|| ||A|| + ||B||)
 */
/*
 * Where A and B are sums of terms that can cancel (K Z0* + S K Z0, 1 - S,
 * Z + Z0 ...) the library cannot form them more accurately than eps times
 * the size of the terms: the caller adds the norms of the summands.
 */
static long double resid_extra_a, resid_extra_b;

static int resid_ok(int left, const double complex *A, const double complex *X,
	const double complex *B, int n, double factor, double *ratio)
{
    oc_t R[n * n];
    long double r = 0.0L, bound;

    if (left)
	oc_mul(A, X, R, n, n, n);
    else
	oc_mul(X, A, R, n, n, n);
    for (int i = 0; i < n * n; ++i) {
	long double v = cabsl(R[i] - (oc_t)B[i]);

	r += v * v;
    }
    r = sqrtl(r);
    bound = 1.0e3L * n * DBL_EPSILON * factor *
	((oc_fnorm(A, n, n) + resid_extra_a) * oc_fnorm(X, n, n) +
	 oc_fnorm(B, n, n) + resid_extra_b);
    if (ratio != NULL)
	*ratio = (double)(r / bound);
    return r <= bound;
}

static long double _cabs2(double complex v)
{
    long double a = cabsl((oc_t)v);

    return a * a;
}

static int any_huge(const double complex *X, int count, long double scale)
{
    for (int i = 0; i < count; ++i) {
	if (cabsl((oc_t)X[i]) >= 1.0e12L * scale)
	    return 1;
    }
    return 0;
}

static void ep_begin(uint64_t seed, int idx)
{
    vt_seed(&rng, seed * 1000003ull + (uint64_t)idx * 7919ull + 17ull);
    vt_put("{\"e\":\"Reset\",\"mod\":\"LinSys\",\"case\":\"lin:%llu:%d\"}",
	    (unsigned long long)seed, idx);
    vt_end_line();
}

static void ep_end(void)
{
    vt_put("{\"e\":\"End\"}");
    vt_end_line();
}

/* ---------------------------------------------------------- conversions */

/*
 * Each conversion solves a system whose matrix G is an affine image of the
 * input matrix (vnaconv(3), a = K (V + Z0 I)/2, b = K (V - Z0* I)/2,
 * b = S a, V = Z I, I = Y V, K = |re Z0|^-1/2):
 *   ztoy:  Z Y = 1                         G = Z            (left)
 *   ytoz:  Y Z = 1                         G = Y            (left)
 *   stoz:  (K - S K) Z = K Z0* + S K Z0    G K = (1 - S) K  (left)
 *   stoy:  (K Z0* + S K Z0) Y = K - S K                     (left)
 *   ztos:  S K (Z + Z0) = K (Z - Z0*)                       (right)
 *   ytos:  S K (1 + Z0 Y) = K (1 - Z0* Y)                   (right)
 * For pattern cases z0 is the same real power of two on every port, so
 * that the input X with G(X) = the wanted pattern matrix is exact where
 * the pattern has zeros.
 */
static void do_conv(const lcase_t *lc)
{
    int n = lc->n;
    double complex G0[NMAX * NMAX], G[NMAX * NMAX];
    double complex X[NMAX * NMAX], Xu[NMAX * NMAX];
    double complex in[NMAX * NMAX], out[NMAX * NMAX];
    double complex A[NMAX * NMAX], B[NMAX * NMAX];
    double complex z0[NMAX];
    double k[NMAX];
    int apat[NMAX * NMAX];
    int left = 1, fin, huge, res = -1, qual;
    int zvar = lc->m % 10;	/* z0 variant: 0 equal real 2^k, 1 unequal
				   real, 2 complex */
    int graded = lc->m >= 10;
    double ratio = 0.0;
    long double cond, ea2 = 0.0L, eb2 = 0.0L;
    const char *fn = lc->fn;
    int scaled = 0;

    build_matrix(lc, graded, G0, G, apat);
    for (int i = 0; i < n; ++i) {
	if (zvar == 0)
	    z0[i] = 64.0;
	else if (zvar == 1)
	    z0[i] = urand(10.0, 200.0);
	else
	    z0[i] = urand(10.0, 200.0) + I * urand(-80.0, 80.0);
	if (lc->nscale == n && lc->scale[i] != 0)
	    scaled = 1;
    }
    /*
     * Input of the conversion such that the library's system matrix is G
     * (or, for scaled z-to-s / y-to-s cases, the symmetric scaling
     * D G0' D of the unscaled problem, with z0' = D^2 z0).
     */
    if (strcmp(fn, "ztoy") == 0 || strcmp(fn, "ytoz") == 0) {
	memcpy(in, G, sizeof(double complex) * n * n);
    } else if (strcmp(fn, "stoz") == 0) {
	/* G = 1 - S (scalings are not applied to s-parameter inputs) */
	for (int i = 0; i < n; ++i)
	    for (int j = 0; j < n; ++j)
		in[i * n + j] = (i == j ? 1.0 : 0.0) - G0[i * n + j];
	scaled = 0;
    } else if (strcmp(fn, "stoy") == 0) {
	/* G = Z0* + S Z0 (equal real z0: S = G/z0 - 1) */
	for (int i = 0; i < n; ++i)
	    for (int j = 0; j < n; ++j)
		in[i * n + j] = zvar == 0
		    ? G0[i * n + j] - (i == j ? 1.0 : 0.0)
		    : (G0[i * n + j] * 64.0 - (i == j ? conj(z0[i]) : 0.0))
			/ z0[j];
	scaled = 0;
    } else if (strcmp(fn, "ztos") == 0) {
	/*
	 * G = Z + Z0.  Row scaling: Z' = D Z, z0' = D z0, so that the
	 * library's matrix Z' + Z0' = D (Z + Z0) is the row-scaled one and
	 * S' = D^1/2 S D^-1/2 (D = even powers of two: exact).
	 */
	for (int i = 0; i < n; ++i) {
	    for (int j = 0; j < n; ++j) {
		double complex g = G0[i * n + j] * 64.0;

		in[i * n + j] = (g - (i == j ? z0[i] : 0.0)) * dscale(lc, i);
	    }
	}
	for (int i = 0; i < n; ++i)
	    z0[i] *= dscale(lc, i);
    } else {	/* ytos: G = 1 + Z0 Y (no row scaling through the inputs) */
	for (int i = 0; i < n; ++i) {
	    for (int j = 0; j < n; ++j) {
		double complex g = G0[i * n + j];

		in[i * n + j] = (g - (i == j ? 1.0 : 0.0)) / z0[i];
	    }
	}
	scaled = 0;
    }
    for (int i = 0; i < n; ++i)
	k[i] = 1.0 / sqrt(fabs(creal(z0[i])));
    for (int i = 0; i < n * n; ++i)
	out[i] = NAN;

    if (strcmp(fn, "ztoy") == 0)
	LIBV(vnaconv_ztoyn(in, out, n));
    else if (strcmp(fn, "ytoz") == 0)
	LIBV(vnaconv_ytozn(in, out, n));
    else if (strcmp(fn, "stoz") == 0)
	LIBV(vnaconv_stozn(in, out, z0, n));
    else if (strcmp(fn, "stoy") == 0)
	LIBV(vnaconv_stoyn(in, out, z0, n));
    else if (strcmp(fn, "ztos") == 0)
	LIBV(vnaconv_ztosn(in, out, z0, n));
    else
	LIBV(vnaconv_ytosn(in, out, z0, n));

    /*
     * Rebuild the system in unscaled form from the inputs actually passed.
     */
    memcpy(X, out, sizeof(double complex) * n * n);
    if (strcmp(fn, "ztoy") == 0 || strcmp(fn, "ytoz") == 0) {
	/* (D G0) X = 1  <=>  G0 (X D) = 1 */
	for (int i = 0; i < n; ++i) {
	    for (int j = 0; j < n; ++j) {
		A[i * n + j] = G0[i * n + j];
		B[i * n + j] = i == j ? 1.0 : 0.0;
		Xu[i * n + j] = X[i * n + j] * dscale(lc, j);
	    }
	}
	left = 1;
    } else if (strcmp(fn, "stoz") == 0) {
	for (int i = 0; i < n; ++i) {
	    for (int j = 0; j < n; ++j) {
		A[i * n + j] = ((i == j ? 1.0 : 0.0) - in[i * n + j]) * k[j];
		B[i * n + j] = (i == j ? k[i] * conj(z0[i]) : 0.0) +
		    in[i * n + j] * k[j] * z0[j];
		Xu[i * n + j] = X[i * n + j];
		ea2 += (i == j ? k[j] * k[j] : 0.0) +
		    _cabs2(in[i * n + j] * k[j]);
		eb2 += (i == j ? _cabs2(k[i] * z0[i]) : 0.0) +
		    _cabs2(in[i * n + j] * k[j] * z0[j]);
	    }
	}
	left = 1;
    } else if (strcmp(fn, "stoy") == 0) {
	for (int i = 0; i < n; ++i) {
	    for (int j = 0; j < n; ++j) {
		A[i * n + j] = (i == j ? k[i] * conj(z0[i]) : 0.0) +
		    in[i * n + j] * k[j] * z0[j];
		B[i * n + j] = ((i == j ? 1.0 : 0.0) - in[i * n + j]) * k[j];
		Xu[i * n + j] = X[i * n + j];
		eb2 += (i == j ? k[j] * k[j] : 0.0) +
		    _cabs2(in[i * n + j] * k[j]);
		ea2 += (i == j ? _cabs2(k[i] * z0[i]) : 0.0) +
		    _cabs2(in[i * n + j] * k[j] * z0[j]);
	    }
	}
	left = 1;
    } else if (strcmp(fn, "ztos") == 0) {
	/*
	 * unscaled system S K (Z + Z0) = K (Z - Z0*) with Z = D^-1 Z',
	 * z0 = D^-1 z0', S = D^-1/2 S' D^1/2
	 */
	for (int i = 0; i < n; ++i) {
	    double di = dscale(lc, i);
	    double complex z0u = z0[i] / di;
	    double ku = 1.0 / sqrt(fabs(creal(z0u)));

	    for (int j = 0; j < n; ++j) {
		double complex zu = in[i * n + j] / di;

		A[i * n + j] = ku * (zu + (i == j ? z0u : 0.0));
		B[i * n + j] = ku * (zu - (i == j ? conj(z0u) : 0.0));
		ea2 += _cabs2(ku * zu) + (i == j ? _cabs2(ku * z0u) : 0.0);
		eb2 = ea2;
		Xu[i * n + j] = X[i * n + j] * sqrt(dscale(lc, j)) /
		    sqrt(di);
	    }
	}
	left = 0;
    } else {
	for (int i = 0; i < n; ++i) {
	    for (int j = 0; j < n; ++j) {
		double complex yu = in[i * n + j];

		A[i * n + j] = k[i] * ((i == j ? 1.0 : 0.0) + z0[i] * yu);
		B[i * n + j] = k[i] * ((i == j ? 1.0 : 0.0) -
			conj(z0[i]) * yu);
		ea2 += (i == j ? k[i] * k[i] : 0.0) +
		    _cabs2(k[i] * z0[i] * yu);
		eb2 = ea2;
		Xu[i * n + j] = X[i * n + j];
	    }
	}
	left = 0;
    }
    resid_extra_a = sqrtl(ea2);
    resid_extra_b = sqrtl(eb2);
    fin = oc_all_finite(X, n * n);
    cond = oc_cond(n, A);
    qual = cond <= 1.0e6L;
    huge = 0;
    if (fin) {
	long double an = oc_fnorm(A, n, n), bn = oc_fnorm(B, n, n);

	huge = any_huge(Xu, n * n, an > 0.0L ? bn / an : 1.0L);
	res = resid_ok(left, A, Xu, B, n, 1.0, &ratio);
    }
    resid_extra_a = resid_extra_b = 0.0L;
    if (dbg)
	fprintf(stderr, "conv %s n=%d fin=%d huge=%d res=%d ratio=%.3g "
		"cond=%.3Lg\n", fn, n, fin, huge, res, ratio, cond);
    vt_put("{\"e\":\"Conv\",\"fn\":\"%s\",\"n\":%d,\"zv\":%d,\"gr\":%d,\"vc\":\"%s\",",
	    fn, n, zvar, graded, vc_names[lc->vc % VC_COUNT]);
    put_ints("p", apat, n * n);
    vt_put(",");
    put_ints("rowmap", lc->rowmap, lc->nrowmap);
    vt_put(",\"scaled\":%d,\"qual\":%d,\"fin\":%d,\"huge\":%d,\"res\":%d}",
	    scaled, qual, fin, huge, res);
    vt_end_line();
}

/* -------------------------------------------- identity calibration (T8) */

static int ident_ci[NMAX + 1];

/*
 * An n-port T8 calibration of an ideal VNA (M = S): short, open, match on
 * every port, through between port 1 and every other port.
 */
static int ident_cal(int n)
{
    vnacal_new_t *vnp;
    double f = FREQ;
    char name[16];
    int ci = -1;

    if (ident_ci[n] > 0)
	return ident_ci[n] - 1;
    vnp = LIB(vnacal_new_alloc(vcp, VNACAL_T8, n, n, 1));
    if (vnp == NULL)
	return -1;
    if (LIB(vnacal_new_set_frequency_vector(vnp, &f)) == -1)
	goto out;
    for (int port = 1; port <= n; ++port) {
	static const int std[3] = { VNACAL_SHORT, VNACAL_OPEN, VNACAL_MATCH };
	static const double g[3] = { -1.0, 1.0, 0.0 };

	for (int s = 0; s < 3; ++s) {
	    double complex mv = g[s];
	    double complex *mp[1] = { &mv };

	    if (LIB(vnacal_new_add_single_reflect_m(vnp, mp, 1, 1, std[s],
			    port)) == -1)
		goto out;
	}
    }
    for (int port = 2; port <= n; ++port) {
	double complex mv[4] = { 0.0, 1.0, 1.0, 0.0 };
	double complex *mp[4] = { &mv[0], &mv[1], &mv[2], &mv[3] };

	if (LIB(vnacal_new_add_through_m(vnp, mp, 2, 2, 1, port)) == -1)
	    goto out;
    }
    if (LIB(vnacal_new_solve(vnp)) == -1)
	goto out;
    snprintf(name, sizeof(name), "ident%d", n);
    if (LIB(vnacal_add_calibration(vcp, name, vnp)) == -1)
	goto out;
    ci = LIB(vnacal_find_calibration(vcp, name));
out:
    LIBV(vnacal_new_free(vnp));
    if (ci >= 0)
	ident_ci[n] = ci + 1;
    return ci;
}

/*
 * ab: vnacal_apply with a = the case matrix, b = M0 a: the library reduces
 * m = b a^-1 and, the calibration being the identity, returns s = m.
 * Unscaled system:  (S D) G0 = B'   with a = D G0, B' = M0 a.
 */
static void do_ab(const lcase_t *lc)
{
    int n = lc->n, ci, rc, err;
    double complex G0[NMAX * NMAX], G[NMAX * NMAX], M0[NMAX * NMAX];
    double complex Bm[NMAX * NMAX], S[NMAX * NMAX], Su[NMAX * NMAX];
    double complex *ap[NMAX * NMAX], *bp[NMAX * NMAX];
    int apat[NMAX * NMAX];
    oc_t T[NMAX * NMAX];
    double f = FREQ, ratio = 0.0;
    vnadata_t *vdp;
    int res = -1, qual, fin = 0, huge = 0;
    long double cond;

    ci = ident_cal(n);
    build_matrix(lc, lc->m >= 10, G0, G, apat);
    for (int i = 0; i < n * n; ++i)
	M0[i] = crand(1.0);
    oc_mul(M0, G, T, n, n, n);
    for (int i = 0; i < n * n; ++i) {
	Bm[i] = (double complex)T[i];
	ap[i] = &G[i];
	bp[i] = &Bm[i];
    }
    cond = oc_cond(n, G0);
    qual = cond <= 1.0e6L;
    vdp = LIB(vnadata_alloc(vt_errfn, NULL));
    vt_cb_reset();
    rc = ci < 0 ? -2 : LIB(vnacal_apply(vcp, ci, &f, 1, ap, n, n, bp, n, n,
		vdp));
    err = errno;
    if (rc == 0) {
	for (int i = 0; i < n; ++i) {
	    for (int j = 0; j < n; ++j) {
		S[i * n + j] = vnadata_get_cell(vdp, 0, i, j);
		Su[i * n + j] = S[i * n + j] * dscale(lc, j);
	    }
	}
	fin = oc_all_finite(S, n * n);
	/* the identity calibration is itself solved to a few ulps: allow a
	 * factor 10 on the bound for that (documented in the notes) */
	if (fin) {
	    long double an = oc_fnorm(G0, n, n), bn = oc_fnorm(Bm, n, n);

	    res = resid_ok(0, G0, Su, Bm, n, 10.0, &ratio);
	    huge = any_huge(Su, n * n, an > 0.0L ? bn / an : 1.0L);
	}
    }
    if (dbg)
	fprintf(stderr, "ab n=%d rc=%d err=%d fin=%d res=%d ratio=%.3g "
		"cond=%.3Lg\n", n, rc, err, fin, res, ratio, cond);
    vt_put("{\"e\":\"ApplyAB\",\"n\":%d,\"gr\":%d,\"vc\":\"%s\",", n, lc->m >= 10,
	    vc_names[lc->vc % VC_COUNT]);
    put_ints("p", apat, n * n);
    vt_put(",");
    put_ints("rowmap", lc->rowmap, lc->nrowmap);
    vt_put(",\"setup\":%d,\"qual\":%d,\"fin\":%d,\"huge\":%d,\"res\":%d",
	    ci >= 0, qual, fin, huge, res);
    put_result(rc == 0, err);
    vt_put("}");
    vt_end_line();
    LIBV(vnadata_free(vdp));
}

/* ------------------------------------------- one- and multi-port models */

/* 8-term model with per-port receiver gain: M = Ed + A N B, N = S(1-Em S)^-1 */
typedef struct m8 {
    int p;
    double complex ed[NMAX], a[NMAX], b[NMAX], em[NMAX];
} m8_t;

static void m8_draw(m8_t *e, int p, const int *scale, int vc)
{
    e->p = p;
    for (int i = 0; i < p; ++i) {
	double d = scale != NULL ? pow2(scale[i]) : 1.0;

	e->ed[i] = crand(0.2) * d;
	e->a[i] = cphase() * urand(0.8, 1.2) * d;
	e->b[i] = cphase() * urand(0.8, 1.2);
	e->em[i] = crand(0.2);
	if (vc == VC_REAL || vc == VC_REALSYM) {
	    /* a purely real instrument: with real standards every system
	     * the solve and the apply build is purely real */
	    e->ed[i] = creal(e->ed[i]);
	    e->a[i] = (creal(e->a[i]) >= 0.0 ? 1.0 : -1.0) * cabs(e->a[i]);
	    e->b[i] = (creal(e->b[i]) >= 0.0 ? 1.0 : -1.0) * cabs(e->b[i]);
	    e->em[i] = creal(e->em[i]);
	}
    }
}

/* reflection coefficient / s-parameter value of the case's value class */
static double complex draw_gamma(int vc, double lo, double hi,
	double complex common)
{
    double r = urand(lo, hi);
    double sgn = vt_below(&rng, 2) ? 1.0 : -1.0;

    switch (vc) {
    case VC_REAL:
    case VC_REALSYM:
	return sgn * r;
    case VC_IMAG:
	return I * sgn * r;
    case VC_PHASE:
	return common * (sgn * r);
    case VC_MIXED:
	return vt_below(&rng, 2) ? sgn * r : I * sgn * r;
    default:
	return cphase() * r;
    }
}

static void m8_measure(const m8_t *e, const double complex *S,
	double complex *M)
{
    int p = e->p;
    oc_t Wt[p * p], St[p * p];

    for (int i = 0; i < p; ++i) {
	for (int j = 0; j < p; ++j) {
	    Wt[j * p + i] = (i == j ? 1.0L : 0.0L) -
		(oc_t)e->em[i] * (oc_t)S[i * p + j];
	    St[j * p + i] = S[i * p + j];
	}
    }
    if (oc_solve(p, Wt, St, p, NULL) == -1) {
	for (int i = 0; i < p * p; ++i)
	    M[i] = NAN;
	return;
    }
    for (int i = 0; i < p; ++i) {
	for (int j = 0; j < p; ++j) {
	    M[i * p + j] = (double complex)((i == j ? (oc_t)e->ed[i] : 0.0L) +
		    (oc_t)e->a[i] * St[j * p + i] * (oc_t)e->b[j]);
	}
    }
}

static const vnacal_type_t t1_types[] = {
    VNACAL_T8, VNACAL_U8, VNACAL_TE10, VNACAL_UE10, VNACAL_UE14, VNACAL_E12
};
static const char *t1_names[] = { "T8", "U8", "TE10", "UE10", "UE14", "E12" };

/*
 * tall: one-port calibration, m reflect standards; row i repeats equation
 * rowmap[i] (same gamma, bit-identical measurement); zero = 1: every
 * standard is a match, so that the unknowns multiplying S never occur.
 */
static void do_tall(const lcase_t *lc)
{
    int type = atoi(lc->fn) % 6;
    int m = lc->m;
    int zero = lc->nscale >= 1 && lc->scale[0] != 0;	/* zero-column flag */
    vnacal_new_t *vnp;
    m8_t e;
    double f = FREQ;
    double complex gamma[MMAX];
    int h[MMAX], rc = -1, err = 0, stage = 0, rec = -1;
    char name[24];
    static int serial;

    double complex common = cphase();

    m8_draw(&e, 1, NULL, lc->vc);
    for (int i = 0; i < m; ++i) {
	gamma[i] = zero ? 0.0 : draw_gamma(lc->vc, 0.3, 1.0, common);
	h[i] = -1;
    }
    vt_cb_reset();
    vnp = LIB(vnacal_new_alloc(vcp, t1_types[type], 1, 1, 1));
    if (vnp == NULL)
	goto emit;
    if (LIB(vnacal_new_set_frequency_vector(vnp, &f)) == -1)
	goto emit;
    stage = 1;
    for (int i = 0; i < m; ++i) {
	int id = lc->rowmap[i] - 1;
	double complex mv;
	double complex *mp[1] = { &mv };

	if (h[id] < 0)
	    h[id] = LIB(vnacal_make_scalar_parameter(vcp, gamma[id]));
	m8_measure(&e, &gamma[id], &mv);
	if (LIB(vnacal_new_add_single_reflect_m(vnp, mp, 1, 1, h[id], 1))
		== -1)
	    goto emit;
    }
    stage = 2;
    vt_cb_reset();
    rc = LIB(vnacal_new_solve(vnp));
    err = errno;
    if (rc == 0) {
	vt_cb_t saved = vt_cb;
	int ci;

	snprintf(name, sizeof(name), "tall%d", serial++);
	if (LIB(vnacal_add_calibration(vcp, name, vnp)) != -1 &&
		(ci = LIB(vnacal_find_calibration(vcp, name))) >= 0) {
	    /* forward-model residual of the applied result */
	    double complex s_true = draw_gamma(lc->vc, 0.05, 0.8, common);
	    double complex mv, s_out, m_back;
	    double complex *mp[1] = { &mv };
	    vnadata_t *vdp = LIB(vnadata_alloc(vt_errfn, NULL));

	    m8_measure(&e, &s_true, &mv);
	    rec = 0;
	    if (LIB(vnacal_apply_m(vcp, ci, &f, 1, mp, 1, 1, vdp)) == 0) {
		s_out = vnadata_get_cell(vdp, 0, 0, 0);
		m8_measure(&e, &s_out, &m_back);
		rec = cabs(m_back - mv) <= 1.0e-10 * (1.0 + cabs(mv));
		if (dbg)
		    fprintf(stderr, "tall rec err=%.3g\n", cabs(m_back - mv));
	    }
	    LIBV(vnadata_free(vdp));
	    LIB(vnacal_delete_calibration(vcp, ci));
	}
	vt_cb = saved;
    }
emit:
    vt_put("{\"e\":\"Solve\",\"type\":\"%s\",\"vc\":\"%s\",\"m\":%d,\"n\":3,",
	    t1_names[type], vc_names[lc->vc % VC_COUNT], m);
    put_ints("rowmap", lc->rowmap, m);
    vt_put(",\"zero\":%d,\"stage\":%d,\"rec\":%d", zero, stage, rec);
    put_result(rc == 0, err);
    vt_put("}");
    vt_end_line();
    if (vnp != NULL)
	LIBV(vnacal_new_free(vnp));
    for (int i = 0; i < m; ++i) {
	if (h[i] >= 0)
	    LIB(vnacal_delete_parameter(vcp, h[i]));
    }
}

/*
 * add the standard set of a p-port 8-term calibration from the model:
 * short/open/match on every port, through 1-k (over-determined for p >= 2),
 * or an exactly determined subset.
 */
static int add_throughs(vnacal_new_t *vnp, const m8_t *e);

static int add_standards(vnacal_new_t *vnp, const m8_t *e, int exact,
	int reversed)
{
    int p = e->p;
    static const int std[3] = { VNACAL_SHORT, VNACAL_OPEN, VNACAL_MATCH };
    static const double g[3] = { -1.0, 1.0, 0.0 };

    /* reversed: throughs first, then the reflects from the last port down
     * (a row permutation of every system the solve builds) */
    if (reversed && add_throughs(vnp, e) == -1)
	return -1;
    for (int pi = 1; pi <= p; ++pi) {
	int port = reversed ? p + 1 - pi : pi;

	m8_t one;

	one.p = 1;
	one.ed[0] = e->ed[port - 1];
	one.a[0] = e->a[port - 1];
	one.b[0] = e->b[port - 1];
	one.em[0] = e->em[port - 1];
	for (int s = 0; s < 3; ++s) {
	    double complex gv = g[s], mv;
	    double complex *mp[1] = { &mv };

	    /*
	     * exactly determined sets (4p-1 equations): p = 1: short, open,
	     * match; p = 2: through, match on both ports, short on port 1
	     */
	    if (exact && p >= 2 && s != 2 && !(p == 2 && port == 1 && s == 0))
		continue;
	    m8_measure(&one, &gv, &mv);
	    if (LIB(vnacal_new_add_single_reflect_m(vnp, mp, 1, 1, std[s],
			    port)) == -1)
		return -1;
	}
    }
    if (!reversed && add_throughs(vnp, e) == -1)
	return -1;
    return 0;
}

static int add_throughs(vnacal_new_t *vnp, const m8_t *e)
{
    int p = e->p;

    for (int port = 2; port <= p; ++port) {
	m8_t two;
	double complex S[4] = { 0.0, 1.0, 1.0, 0.0 }, M[4];
	double complex *mp[4] = { &M[0], &M[1], &M[2], &M[3] };

	two.p = 2;
	two.ed[0] = e->ed[0];
	two.a[0] = e->a[0];
	two.b[0] = e->b[0];
	two.em[0] = e->em[0];
	two.ed[1] = e->ed[port - 1];
	two.a[1] = e->a[port - 1];
	two.b[1] = e->b[port - 1];
	two.em[1] = e->em[port - 1];
	m8_measure(&two, S, M);
	if (LIB(vnacal_new_add_through_m(vnp, mp, 2, 2, 1, port)) == -1)
	    return -1;
    }
    return 0;
}

/*
 * applym: p-port T8 / U8 calibration of a VNA whose receiver on port i has
 * gain 2^(28 scale[i]) (rows of every measurement matrix scaled), solved
 * from exact data, then vnacal_apply_m on the exact measurement of a
 * random DUT.  Observation: the applied result reproduces the measurement
 * through the harness's own forward model (backward error in measurement
 * space), row by row relative to the row's own scale.
 */
static void do_applym(const lcase_t *lc)
{
    int p = lc->n, type = atoi(lc->fn) % 2;
    int exact = lc->m == 1 && p <= 2;
    vnacal_new_t *vnp;
    m8_t e;
    double f = FREQ, worst = 0.0;
    int setup = 0, rc = -1, err = 0, res = -1, fin = 0, ci = -1;
    double complex S[NMAX * NMAX], M[NMAX * NMAX], So[NMAX * NMAX],
	   Mb[NMAX * NMAX];
    double complex *mp[NMAX * NMAX];
    vnadata_t *vdp;
    char name[24];
    static int serial;

    m8_draw(&e, p, lc->nscale == p ? lc->scale : NULL, lc->vc);
    vt_cb_reset();
    vnp = LIB(vnacal_new_alloc(vcp, type ? VNACAL_U8 : VNACAL_T8, p, p, 1));
    if (vnp != NULL && LIB(vnacal_new_set_frequency_vector(vnp, &f)) == 0 &&
	    add_standards(vnp, &e, exact, lc->nperm > 0) == 0 &&
	    LIB(vnacal_new_solve(vnp)) == 0) {
	snprintf(name, sizeof(name), "am%d", serial++);
	if (LIB(vnacal_add_calibration(vcp, name, vnp)) != -1 &&
		(ci = LIB(vnacal_find_calibration(vcp, name))) >= 0)
	    setup = 1;
    }
    if (dbg && !setup)
	fprintf(stderr, "applym setup failed: %s\n", vt_cb.last);
    {
	double complex common = cphase();

	for (int i = 0; i < p * p; ++i) {
	    S[i] = draw_gamma(lc->vc, 0.05, 0.6, common);
	    mp[i] = &M[i];
	}
	if (lc->vc == VC_REALSYM) {
	    for (int i = 0; i < p; ++i)
		for (int j = 0; j < i; ++j)
		    S[i * p + j] = S[j * p + i];
	}
    }
    m8_measure(&e, S, M);
    vdp = LIB(vnadata_alloc(vt_errfn, NULL));
    vt_cb_reset();
    if (setup) {
	rc = LIB(vnacal_apply_m(vcp, ci, &f, 1, mp, p, p, vdp));
	err = errno;
    }
    if (rc == 0) {
	for (int i = 0; i < p; ++i)
	    for (int j = 0; j < p; ++j)
		So[i * p + j] = vnadata_get_cell(vdp, 0, i, j);
	fin = oc_all_finite(So, p * p);
	if (fin) {
	    m8_measure(&e, So, Mb);
	    res = 1;
	    for (int i = 0; i < p; ++i) {
		double d = lc->nscale == p ? pow2(lc->scale[i]) : 1.0;

		for (int j = 0; j < p; ++j) {
		    double r = cabs(Mb[i * p + j] - M[i * p + j]) / d;

		    if (!(r <= worst))
			worst = r;
		}
	    }
	    if (!(worst <= 1.0e3 * p * DBL_EPSILON * 100.0))
		res = 0;
	}
    }
    if (dbg)
	fprintf(stderr, "applym p=%d type=%d setup=%d rc=%d worst=%.3g\n", p,
		type, setup, rc, worst);
    vt_put("{\"e\":\"ApplyM\",\"type\":\"%s\",\"vc\":\"%s\",\"p\":%d,", type ? "U8" : "T8",
	    vc_names[lc->vc % VC_COUNT], p);
    put_ints("sc", lc->scale, lc->nscale);
    vt_put(",\"det\":\"%s\",\"rev\":%d,\"setup\":%d,\"fin\":%d,\"res\":%d",
	    exact || p == 1 ? "exact" : "over", lc->nperm > 0, setup, fin, res);
    put_result(rc == 0, err);
    vt_put("}");
    vt_end_line();
    LIBV(vnadata_free(vdp));
    if (ci >= 0)
	LIB(vnacal_delete_calibration(vcp, ci));
    if (vnp != NULL)
	LIBV(vnacal_new_free(vnp));
}

/*
 * abadd: 2-port T8 calibration whose through standard is given in a/b form
 * with a = the case matrix (2 x 2), b = M a.  Regular a: the solved
 * calibration must correct an exact measurement; singular a: the add or
 * the solve must fail with EDOM.
 */
static void do_abadd(const lcase_t *lc)
{
    int p = 2;
    vnacal_new_t *vnp;
    m8_t e;
    double f = FREQ;
    double complex G0[4], G[4], M[4], Bm[4];
    double complex *ap[4], *bp[4];
    int apat[4];
    oc_t T[4];
    int addrc = -2, adderr = 0, solverc = -2, solveerr = 0, rec = -1;
    int addcb = 0, solvecb = 0, qual;
    static const int std[3] = { VNACAL_SHORT, VNACAL_OPEN, VNACAL_MATCH };
    static const double g[3] = { -1.0, 1.0, 0.0 };
    char name[24];
    static int serial;
    double complex S[4] = { 0.0, 1.0, 1.0, 0.0 };

    m8_draw(&e, p, NULL, VC_GENERIC);
    build_matrix(lc, lc->m >= 10, G0, G, apat);
    qual = oc_cond(2, G0) <= 1.0e6L;
    vt_cb_reset();
    vnp = LIB(vnacal_new_alloc(vcp, VNACAL_T8, p, p, 1));
    if (vnp == NULL || LIB(vnacal_new_set_frequency_vector(vnp, &f)) == -1)
	goto emit;
    for (int port = 1; port <= p; ++port) {
	m8_t one;

	one.p = 1;
	one.ed[0] = e.ed[port - 1];
	one.a[0] = e.a[port - 1];
	one.b[0] = e.b[port - 1];
	one.em[0] = e.em[port - 1];
	for (int s = 0; s < 3; ++s) {
	    double complex gv = g[s], mv;
	    double complex *mp[1] = { &mv };

	    m8_measure(&one, &gv, &mv);
	    if (LIB(vnacal_new_add_single_reflect_m(vnp, mp, 1, 1, std[s],
			    port)) == -1)
		goto emit;
	}
    }
    m8_measure(&e, S, M);
    oc_mul(M, G, T, 2, 2, 2);
    for (int i = 0; i < 4; ++i) {
	Bm[i] = (double complex)T[i];
	ap[i] = &G[i];
	bp[i] = &Bm[i];
    }
    vt_cb_reset();
    addrc = LIB(vnacal_new_add_through(vnp, ap, 2, 2, bp, 2, 2, 1, 2));
    adderr = errno;
    addcb = vt_cb.n_nonwarn;
    if (addrc == 0) {
	vt_cb_reset();
	solverc = LIB(vnacal_new_solve(vnp));
	solveerr = errno;
	solvecb = vt_cb.n_nonwarn;
	if (solverc == 0) {
	    int ci;

	    snprintf(name, sizeof(name), "aa%d", serial++);
	    if (LIB(vnacal_add_calibration(vcp, name, vnp)) != -1 &&
		    (ci = LIB(vnacal_find_calibration(vcp, name))) >= 0) {
		double complex Sd[4], Md[4], Mb[4], So[4];
		double complex *mp[4] = { &Md[0], &Md[1], &Md[2], &Md[3] };
		vnadata_t *vdp = LIB(vnadata_alloc(vt_errfn, NULL));

		for (int i = 0; i < 4; ++i)
		    Sd[i] = crand(0.6);
		m8_measure(&e, Sd, Md);
		rec = 0;
		if (LIB(vnacal_apply_m(vcp, ci, &f, 1, mp, 2, 2, vdp)) == 0) {
		    double worst = 0.0;

		    for (int i = 0; i < 4; ++i)
			So[i] = vnadata_get_cell(vdp, 0, i / 2, i % 2);
		    m8_measure(&e, So, Mb);
		    for (int i = 0; i < 4; ++i) {
			double r = cabs(Mb[i] - Md[i]);

			if (!(r <= worst))
			    worst = r;
		    }
		    rec = worst <= 1.0e-9;
		    if (dbg)
			fprintf(stderr, "abadd worst=%.3g\n", worst);
		}
		LIBV(vnadata_free(vdp));
		LIB(vnacal_delete_calibration(vcp, ci));
	    }
	}
    }
emit:
    vt_put("{\"e\":\"AddAB\",\"n\":2,\"vc\":\"%s\",", vc_names[lc->vc % VC_COUNT]);
    put_ints("p", apat, 4);
    vt_put(",");
    put_ints("rowmap", lc->rowmap, lc->nrowmap);
    vt_put(",\"qual\":%d,\"addok\":%d,\"adderr\":\"%s\",\"addcb\":%d,"
	    "\"solveok\":%d,\"solveerr\":\"%s\",\"solvecb\":%d,\"rec\":%d}",
	    qual, addrc == 0 ? 1 : (addrc == -1 ? 0 : -1),
	    vt_errname(adderr), addcb,
	    solverc == 0 ? 1 : (solverc == -1 ? 0 : -1),
	    vt_errname(solveerr), solvecb, rec);
    vt_end_line();
    if (vnp != NULL)
	LIBV(vnacal_new_free(vnp));
}

/*
 * wsolve: an over-determined, inconsistent (noisy) 2 x 2 calibration solved
 * twice with its standards added in two different orders -- a pure row
 * permutation of the least-squares systems -- with or without a
 * measurement-error model (vnacal_new_set_m_error: every equation weighted
 * by 1/sqrt(sigma_nf^2 + sigma_tr^2 |m|^2)).  Types solved as one system
 * per driven column (E12, UE14) and one single-system type (T8).
 * Standards: m1 reflects on port 1 (1 x 1 readings), m2 reflects on port 2,
 * one through (2 x 2).  Observation: both solves succeed alike and the two
 * calibrations correct one probe measurement to the same S (1e-9): the
 * (weighted) least-squares minimiser does not depend on the row order.
 */
static void do_wsolve(const lcase_t *lc)
{
    static const vnacal_type_t types[3] = { VNACAL_E12, VNACAL_UE14,
	VNACAL_T8 };
    static const char *tnames[3] = { "E12", "UE14", "T8" };
    int ti = atoi(lc->fn) % 3;
    int weighted = lc->m != 0;
    int order = lc->nperm >= 1 ? lc->perm[0] : 0;
    int m1 = lc->nrowmap >= 2 ? lc->rowmap[0] : 4;
    int m2 = lc->nrowmap >= 2 ? lc->rowmap[1] : 4;
    m8_t e;
    double f = FREQ;
    double snf = 2.0e-3, str = 5.0e-3;
    double complex g1[MMAX], g2[MMAX], r1[MMAX], r2[MMAX], thru[4];
    int h1[MMAX], h2[MMAX];
    double complex Sp[4], Mp[4], out[2][4];
    double complex common = cphase();
    int okv[2] = { 0, 0 }, same = 0;
    static int serial;

    if (m1 > MMAX)
	m1 = MMAX;
    if (m2 > MMAX)
	m2 = MMAX;
    m8_draw(&e, 2, NULL, lc->vc);
    /* port 2 sees much smaller signals than port 1: the weights of the two
     * column systems differ */
    e.a[1] *= 0.05;
    e.ed[1] *= 0.05;
    for (int k = 0; k < 2; ++k) {
	int m = k == 0 ? m1 : m2;
	double complex *g = k == 0 ? g1 : g2, *r = k == 0 ? r1 : r2;
	int *h = k == 0 ? h1 : h2;
	m8_t one;

	one.p = 1;
	one.ed[0] = e.ed[k];
	one.a[0] = e.a[k];
	one.b[0] = e.b[k];
	one.em[0] = e.em[k];
	for (int i = 0; i < m; ++i) {
	    g[i] = draw_gamma(lc->vc, 0.2, 1.0, common);
	    m8_measure(&one, &g[i], &r[i]);
	    /* noise of about half a sigma */
	    r[i] += cphase() * 0.5 * sqrt(snf * snf + str * str *
		    creal(r[i] * conj(r[i])));
	    h[i] = LIB(vnacal_make_scalar_parameter(vcp, g[i]));
	}
    }
    {
	double complex St[4] = { 0.0, 1.0, 1.0, 0.0 };

	m8_measure(&e, St, thru);
	for (int i = 0; i < 4; ++i)
	    thru[i] += cphase() * 0.5 * sqrt(snf * snf + str * str *
		    creal(thru[i] * conj(thru[i])));
    }
    for (int i = 0; i < 4; ++i)
	Sp[i] = crand(0.6);
    m8_measure(&e, Sp, Mp);
    for (int run = 0; run < 2; ++run) {
	vnacal_new_t *vnp;
	int idx1[MMAX], ci = -1, bad = 0;
	int thru_first = run == 1 && order == 2;
	char name[24];

	for (int i = 0; i < m1; ++i) {
	    idx1[i] = i;
	    if (run == 1 && order == 0)
		idx1[i] = m1 - 1 - i;		/* reversed */
	    if (run == 1 && order == 1)
		idx1[i] = (i + 1) % m1;		/* rotated */
	}
	vt_cb_reset();
	vnp = LIB(vnacal_new_alloc(vcp, types[ti], 2, 2, 1));
	if (vnp == NULL)
	    continue;
	if (LIB(vnacal_new_set_frequency_vector(vnp, &f)) == -1)
	    bad = 1;
	if (!bad && weighted) {
	    if (LIB(vnacal_new_set_m_error(vnp, NULL, 1, &snf, &str)) == -1 ||
		    LIB(vnacal_new_set_pvalue_limit(vnp, 1.0e-300)) == -1)
		bad = 1;
	}
	for (int step = 0; step < 3 && !bad; ++step) {
	    int what = thru_first ? (step + 2) % 3 : step;

	    if (what == 0) {
		for (int i = 0; i < m1 && !bad; ++i) {
		    double complex *mp[1] = { &r1[idx1[i]] };

		    if (LIB(vnacal_new_add_single_reflect_m(vnp, mp, 1, 1,
				    h1[idx1[i]], 1)) == -1)
			bad = 1;
		}
	    } else if (what == 1) {
		for (int i = 0; i < m2 && !bad; ++i) {
		    double complex *mp[1] = { &r2[i] };

		    if (LIB(vnacal_new_add_single_reflect_m(vnp, mp, 1, 1,
				    h2[i], 2)) == -1)
			bad = 1;
		}
	    } else {
		double complex *mp[4] = { &thru[0], &thru[1], &thru[2],
		    &thru[3] };

		if (LIB(vnacal_new_add_through_m(vnp, mp, 2, 2, 1, 2)) == -1)
		    bad = 1;
	    }
	}
	if (!bad && LIB(vnacal_new_solve(vnp)) == 0) {
	    snprintf(name, sizeof(name), "ws%d", serial++);
	    if (LIB(vnacal_add_calibration(vcp, name, vnp)) != -1 &&
		    (ci = LIB(vnacal_find_calibration(vcp, name))) >= 0) {
		double complex *mp[4] = { &Mp[0], &Mp[1], &Mp[2], &Mp[3] };
		vnadata_t *vdp = LIB(vnadata_alloc(vt_errfn, NULL));

		if (LIB(vnacal_apply_m(vcp, ci, &f, 1, mp, 2, 2, vdp)) == 0) {
		    for (int i = 0; i < 4; ++i)
			out[run][i] = vnadata_get_cell(vdp, 0, i / 2, i % 2);
		    okv[run] = oc_all_finite(out[run], 4);
		}
		LIBV(vnadata_free(vdp));
		LIB(vnacal_delete_calibration(vcp, ci));
	    }
	} else if (dbg) {
	    fprintf(stderr, "wsolve run %d failed: %s\n", run, vt_cb.last);
	}
	LIBV(vnacal_new_free(vnp));
    }
    if (okv[0] && okv[1]) {
	double worst = 0.0;

	for (int i = 0; i < 4; ++i) {
	    double d = cabs(out[0][i] - out[1][i]);

	    if (!(d <= worst))
		worst = d;
	}
	same = worst <= 1.0e-9;
	if (dbg)
	    fprintf(stderr, "wsolve %s w=%d order=%d worst=%.3g\n",
		    tnames[ti], weighted, order, worst);
    }
    vt_put("{\"e\":\"WSolve\",\"type\":\"%s\",\"vc\":\"%s\",\"weighted\":%d,"
	    "\"order\":%d,\"m1\":%d,\"m2\":%d,\"ok1\":%d,\"ok2\":%d,\"same\":%d}",
	    tnames[ti], vc_names[lc->vc % VC_COUNT], weighted, order, m1, m2,
	    okv[0], okv[1], same);
    vt_end_line();
    for (int i = 0; i < m1; ++i)
	LIB(vnacal_delete_parameter(vcp, h1[i]));
    for (int i = 0; i < m2; ++i)
	LIB(vnacal_delete_parameter(vcp, h2[i]));
}

/* ------------------------------------------------------------------ main */

int main(int argc, char **argv)
{
    const char *trace = getenv("VT_TRACE");
    uint64_t seed;
    int from, to, nlines = 0;
    char **lines = NULL;
    char buf[2048];
    FILE *fp;

    if (argc != 5) {
	fprintf(stderr, "usage: %s CASEFILE SEED FROM TO\n", argv[0]);
	return 2;
    }
    if ((fp = fopen(argv[1], "r")) == NULL) {
	perror(argv[1]);
	return 2;
    }
    while (fgets(buf, sizeof(buf), fp) != NULL) {
	lines = realloc(lines, sizeof(char *) * (nlines + 1));
	lines[nlines++] = strdup(buf);
    }
    fclose(fp);
    seed = strtoull(argv[2], NULL, 10);
    from = atoi(argv[3]);
    to = atoi(argv[4]);
    if (to > nlines)
	to = nlines;
    dbg = getenv("VT_DEBUG") != NULL;
    vt_open(trace != NULL ? trace : "-");
    vt_install_crash_handlers();
    vt_cb_reset();
    vcp = LIB(vnacal_create(vt_errfn, NULL));
    if (vcp == NULL)
	return 3;
    for (int idx = from; idx < to; ++idx) {
	lcase_t lc;

	if (parse_case(lines[idx], &lc) == -1) {
	    fprintf(stderr, "bad case line %d: %s", idx, lines[idx]);
	    return 2;
	}
	ep_begin(seed, idx);
	if (strcmp(lc.kind, "conv") == 0)
	    do_conv(&lc);
	else if (strcmp(lc.kind, "ab") == 0)
	    do_ab(&lc);
	else if (strcmp(lc.kind, "abadd") == 0)
	    do_abadd(&lc);
	else if (strcmp(lc.kind, "tall") == 0)
	    do_tall(&lc);
	else if (strcmp(lc.kind, "applym") == 0)
	    do_applym(&lc);
	else if (strcmp(lc.kind, "wsolve") == 0)
	    do_wsolve(&lc);
	else {
	    fprintf(stderr, "unknown kind %s\n", lc.kind);
	    return 2;
	}
	ep_end();
    }
    LIBV(vnacal_free(vcp));
    vt_close();
    for (int i = 0; i < nlines; ++i)
	free(lines[i]);
    free(lines);
    return 0;
}
