/*
 * lf_mutate.h -- structure-aware mutators and the line-structure automata
 * of drv_loadfuzz.c (included once from there).
 */
#ifndef LF_MUTATE_H
#define LF_MUTATE_H

/* ------------------------------------------------------------- tokens */

typedef struct tok { size_t off, len; int space; } tok_t;
#define MAXTOK 20000
static tok_t toks[MAXTOK];
static int ntoks;

static void tokenize(const buf_t *b)
{
    size_t i = 0;

    ntoks = 0;
    while (i < b->n && ntoks < MAXTOK) {
	size_t j = i;
	int sp = isspace((unsigned char)b->p[i]) != 0;

	while (j < b->n && (isspace((unsigned char)b->p[j]) != 0) == sp)
	    ++j;
	toks[ntoks].off = i;
	toks[ntoks].len = j - i;
	toks[ntoks].space = sp;
	++ntoks;
	i = j;
    }
}

static int pick_word(vt_rng_t *rng)
{
    int words = 0, k;

    for (int i = 0; i < ntoks; ++i)
	words += !toks[i].space;
    if (words == 0)
	return -1;
    k = vt_below(rng, words);
    for (int i = 0; i < ntoks; ++i) {
	if (!toks[i].space && k-- == 0)
	    return i;
    }
    return -1;
}

/* growing output buffer */
typedef struct out { char *p; size_t n, cap; } out_t;

static void out_add(out_t *o, const char *d, size_t n)
{
    if (o->n + n + 1 > o->cap) {
	o->cap = 2 * (o->n + n) + 64;
	o->p = realloc(o->p, o->cap);
    }
    memcpy(o->p + o->n, d, n);
    o->n += n;
    o->p[o->n] = '\0';
}

static void out_str(out_t *o, const char *s)
{
    out_add(o, s, strlen(s));
}

/* --------------------------------------------------------------- lines */

typedef struct line { size_t off, len; } line_t;	/* len includes '\n' */
#define MAXLINES 4000
static line_t lines_[MAXLINES];
static int nlines;

static void split_lines(const buf_t *b)
{
    size_t i = 0;

    nlines = 0;
    while (i < b->n && nlines < MAXLINES) {
	size_t j = i;

	while (j < b->n && b->p[j] != '\n')
	    ++j;
	if (j < b->n)
	    ++j;
	lines_[nlines].off = i;
	lines_[nlines].len = j - i;
	++nlines;
	i = j;
    }
}

static int is_number_token(const char *s, size_t n)
{
    char tmp[128];
    char *end;

    if (n == 0 || n >= sizeof(tmp))
	return 0;
    memcpy(tmp, s, n);
    tmp[n] = '\0';
    (void)strtod(tmp, &end);
    if (end == tmp)
	return 0;
    /* allow the j of a complex number */
    if (*end == 'j' && end[1] == '\0')
	return 1;
    return *end == '\0';
}

static int is_keyword_line(int kind, const char *s, size_t n)
{
    size_t i = 0;

    while (i < n && (s[i] == ' ' || s[i] == '\t'))
	++i;
    if (i >= n)
	return 0;
    if (IS_TOUCHSTONE(kind))
	return s[i] == '[' || s[i] == '#';
    if (kind == K_NPD)
	return s[i] == '#' && i + 1 < n && s[i + 1] == ':';
    /* YAML: "key:" lines */
    for (size_t j = i; j < n; ++j) {
	if (s[j] == ':' && (j + 1 == n || s[j + 1] == ' ' || s[j + 1] == '\n'))
	    return s[i] != '-';
    }
    return 0;
}

/* ---------------------------------------------------------- dictionaries */

static const char *const dict_ts[] = {
    "[Reference]", "[Reference] 50 75", "[Number of Ports] 3",
    "[Number of Ports] 0", "[Number of Ports] -1", "[Number of Ports] 99999",
    "[Network Data]", "[End]", "[Noise Data]", "[Matrix Format] Lower",
    "[Matrix Format] Upper", "[Matrix Format] Full", "[Matrix Format] Bogus",
    "[Two-Port Data Order] 21_12", "[Two-Port Data Order] 12_21",
    "[Two-Port Order] 21_12", "[Version] 2.0", "[Version] 1.0",
    "[Version] 2.1", "[Number of Frequencies] 0", "[Number of Frequencies] 3",
    "[Number of Frequencies] -1", "[Number of Frequencies] -7",
    "[Number of Frequencies] 100000", "[Number of Frequencies] 99999999999", "[Number of Noise Frequencies] 2",
    "[Mixed-Mode Order] D2,3 D6,5 C2,3 C6,5 S4 S1", "[Begin Information]",
    "[End Information]", "[Unknown Keyword] 7", "[", "]", "[]",
    "# GHz Z DB R 75", "# kHz Y RI", "#", "# R", "# R -50", "# R 0", "# THz",
    "# Hz S MA R 50 R 60", "# Hz S S", "# MHz H MA R 1e400", "!", "! comment",
    "1e9", "-1e9", "0",
};
static const char *const dict_npd[] = {
    "#:parameters", "#:parameters Sri", "#:parameters Sri,Sri",
    "#:parameters Xyz", "#:parameters Zin", "#:parameters IL,RL",
    "#:parameters Sri,Tdb,VSWR", "#:parameters ,", "#:z0", "#:z0 50",
    "#:z0 50 +1j 60 -1j", "#:z0 PER-FREQUENCY", "#:fz0", "#:ports 0",
    "#:ports -1", "#:ports 1000000", "#:ports 2", "#:ports 3 3",
    "#:ports 2 x 3", "#:rows 2", "#:columns 3", "#:frequencies 0",
    "#:frequencies 100000", "#:frequencies 99999999999", "#:frequencies -2", "#NPD", "#:version 9.0",
    "#:version 1.0", "#:version", "#:fprecision 0", "#:fprecision MAX",
    "#:dprecision 1000", "#:", "#: ", "#:unknown 1", "#", "1e9", "nan",
};
static const char *const dict_cal[] = {
    "rows: 0", "columns: 0", "rows: -1", "rows: 100000", "columns: 70000",
    "frequencies: 0", "frequencies: 100000", "frequencies: 99999999999",
    "frequencies: -1",
    "type: X9", "type: E12", "type: T16", "type: [T8]", "data: 5",
    "data: []", "data: {}", "- 3", "- [1, 2, 3]", "- x", "- [1, 2, 3, 4, 5]", "- f: 1", "ts: x", "ts: [1, 2]", "e: []",
    "el: ~", "z0: j", "z0: 1 2 3", "z0: +j", "name: [a]", "name: ~",
    "#VNACal 2.0", "#VNACAL 2.0", "#VNACal 1.0", "? [a, b] : c",
    "properties: [x]", "properties: {a..b: 1}", "properties: {'': 1}",
    "calibrations: 7", "calibrations: {}", "sets: []", "f: -1", "f: nan",
    "f: 0", "f: 1e400", "- ~", "~", "&a", "*a", "<<: *a",
};
static const char *const dict_yaml[] = {
    "a..b: 1", "'': 1", "? [1, 2]\n: 3", "&x y", "*x", "!!binary AAAA",
    "%YAML 9.9", "---", "...", "\t", "{a: b", "[1, 2", "- - - x", "a: b: c",
    "\"unterminated", "'it''s'", "k: |\n  lit\n", "k: >-\n  fold\n", "~",
    "null: null", "[0]: x", "a[0]: x", "a{}: x", "a\\: x", ".: x", "\\: x",
    "? ~\n: z", "{}", "[]", "- ", "k: &a [1]\nj: *a", "<<: {a: 1}", ": v",
    "a b  : v", "#c: v", "x: #c", "\xef\xbb\xbf", "\xc2\x85", "\xff\xfe",
};

static const char *dict_pick(int kind, vt_rng_t *rng)
{
    if (IS_TOUCHSTONE(kind))
	return dict_ts[vt_below(rng, (int)(sizeof(dict_ts) / sizeof(*dict_ts)))];
    if (kind == K_NPD)
	return dict_npd[vt_below(rng, (int)(sizeof(dict_npd) / sizeof(*dict_npd)))];
    if (kind == K_VNACAL && vt_below(rng, 3) != 0)
	return dict_cal[vt_below(rng, (int)(sizeof(dict_cal) / sizeof(*dict_cal)))];
    return dict_yaml[vt_below(rng, (int)(sizeof(dict_yaml) / sizeof(*dict_yaml)))];
}

static const char *const num_subst[] = {
    "0", "-1", "-7", "1e308", "1e-320", "nan", "inf", "-inf", "1e999", "0x10", "007",
    "99999999999", "2147483648", "-2147483649", "-0", "+", "1e", ".", "1.2.3",
    "1,5", "1e+", "0.0000000000000000000000000000000001", "4294967296",
    "1e-999", "NaN", "Infinity", "1d3", "١", "1_000", "0b1", "  ", "",
};

/* ------------------------------------------------------------ mutators */

static int all_numbers(const char *s, size_t n);
static int ci_prefix(const char *s, size_t n, const char *kw);
static const char *classify(int kind, int lineno, const char *s, size_t n);

static void lf_mutate(int kind, int mut, int seedno, vt_rng_t *rng, buf_t *res)
{
    const buf_t *b = &seeds[kind][seedno];
    out_t o = { NULL, 0, 0 };

    out_add(&o, "", 0);
    switch (mut) {
    case M_NONE:
	out_add(&o, b->p, b->n);
	break;
    case M_TOKDEL:
	{
	    int n = 1 + vt_below(rng, 3);
	    int del[3] = { -1, -1, -1 };

	    tokenize(b);
	    for (int i = 0; i < n; ++i)
		del[i] = pick_word(rng);
	    for (int i = 0; i < ntoks; ++i) {
		if (i == del[0] || i == del[1] || i == del[2])
		    continue;
		out_add(&o, b->p + toks[i].off, toks[i].len);
	    }
	}
	break;
    case M_TOKDUP:
	{
	    int d;

	    tokenize(b);
	    d = pick_word(rng);
	    for (int i = 0; i < ntoks; ++i) {
		out_add(&o, b->p + toks[i].off, toks[i].len);
		if (i == d) {
		    out_str(&o, vt_below(rng, 4) == 0 ? "\n" : " ");
		    out_add(&o, b->p + toks[i].off, toks[i].len);
		}
	    }
	}
	break;
    case M_TOKSWAP:
	{
	    int a, c;

	    tokenize(b);
	    a = pick_word(rng);
	    c = vt_below(rng, 2) ? pick_word(rng) : a + 2;
	    if (c < 0 || c >= ntoks || toks[c].space)
		c = pick_word(rng);
	    for (int i = 0; i < ntoks; ++i) {
		int k = i == a ? c : i == c ? a : i;

		if (k < 0)
		    k = i;
		out_add(&o, b->p + toks[k].off, toks[k].len);
	    }
	}
	break;
    case M_NUMPERTURB:
	{
	    int cand[MAXTOK / 8], nc = 0, pick;

	    tokenize(b);
	    for (int i = 0; i < ntoks && nc < MAXTOK / 8; ++i) {
		if (!toks[i].space &&
			is_number_token(b->p + toks[i].off, toks[i].len))
		    cand[nc++] = i;
	    }
	    pick = nc > 0 ? cand[vt_below(rng, nc)] : -1;
	    for (int i = 0; i < ntoks; ++i) {
		if (i == pick) {
		    int r = vt_below(rng, 40);

		    if (r < (int)(sizeof(num_subst) / sizeof(*num_subst))) {
			out_str(&o, num_subst[r]);
		    } else {
			char tmp[160], num[64];
			size_t l = toks[i].len < sizeof(tmp) - 1 ?
			    toks[i].len : sizeof(tmp) - 1;
			double v;

			memcpy(tmp, b->p + toks[i].off, l);
			tmp[l] = '\0';
			v = strtod(tmp, NULL);
			switch (r % 4) {
			case 0: v = -v; break;
			case 1: v *= 1.001; break;
			case 2: v *= 1e6; break;
			default: v = v / 3.0; break;
			}
			snprintf(num, sizeof(num), "%.7e", v);
			out_str(&o, num);
			if (l > 0 && tmp[l - 1] == 'j')
			    out_str(&o, "j");
		    }
		} else {
		    out_add(&o, b->p + toks[i].off, toks[i].len);
		}
	    }
	}
	break;
    case M_KWREORDER:
    case M_LINEDEL:
    case M_LINEDUP:
	{
	    int a = -1, c = -1;

	    split_lines(b);
	    if (mut == M_KWREORDER) {
		int kw[MAXLINES], nk = 0;

		for (int i = 0; i < nlines; ++i) {
		    if (is_keyword_line(kind, b->p + lines_[i].off,
				lines_[i].len))
			kw[nk++] = i;
		}
		if (nk >= 2) {
		    int x = vt_below(rng, nk), y = vt_below(rng, nk - 1);

		    if (y >= x)
			++y;
		    a = kw[x];
		    c = kw[y];
		} else if (nlines >= 2) {
		    a = 0;
		    c = nlines - 1;
		}
		for (int i = 0; i < nlines; ++i) {
		    int k = i == a ? c : i == c ? a : i;

		    out_add(&o, b->p + lines_[k].off, lines_[k].len);
		    if (lines_[k].len > 0 &&
			    b->p[lines_[k].off + lines_[k].len - 1] != '\n')
			out_str(&o, "\n");
		}
	    } else {
		if (nlines > 0)
		    a = vt_below(rng, nlines);
		/* prefer structural lines half of the time */
		if (vt_below(rng, 2) == 0) {
		    for (int t = 0; t < 8 && nlines > 0; ++t) {
			int i = vt_below(rng, nlines);

			if (is_keyword_line(kind, b->p + lines_[i].off,
				    lines_[i].len)) {
			    a = i;
			    break;
			}
		    }
		}
		for (int i = 0; i < nlines; ++i) {
		    if (i == a && mut == M_LINEDEL)
			continue;
		    out_add(&o, b->p + lines_[i].off, lines_[i].len);
		    if (i == a && mut == M_LINEDUP)
			out_add(&o, b->p + lines_[i].off, lines_[i].len);
		}
	    }
	}
	break;
    case M_TRUNCATE:
	out_add(&o, b->p, (size_t)vt_below(rng, (int)b->n + 1));
	break;
    case M_YAMLKIND:
	{
	    static const char *const repl[] = {
		" [1, 2]", " {a: b}", " ~", "", " |\n      text\n      more",
		" &a x", " *a", " !!binary x", "\n    - 1\n    - 2",
		"\n      k: v", " 'q'", " \"d\\n\"", " !!map {}", " !!seq []",
		" - 1", " ? x", " >\n   folded",
	    };
	    int cand[MAXLINES], nc = 0, pick, how;

	    split_lines(b);
	    for (int i = 0; i < nlines; ++i) {
		const char *s = b->p + lines_[i].off;
		size_t n = lines_[i].len;

		if (is_keyword_line(kind, s, n) ||
			(n > 2 && memchr(s, '-', n) != NULL))
		    cand[nc++] = i;
	    }
	    pick = nc > 0 ? cand[vt_below(rng, nc)] : -1;
	    how = vt_below(rng, 4);
	    for (int i = 0; i < nlines; ++i) {
		const char *s = b->p + lines_[i].off;
		size_t n = lines_[i].len;
		const char *colon = NULL;

		if (i != pick) {
		    out_add(&o, s, n);
		    continue;
		}
		for (size_t j = 0; j + 1 <= n; ++j) {
		    if (s[j] == ':' && (j + 1 == n || s[j + 1] == ' ' ||
				s[j + 1] == '\n')) {
			colon = s + j;
			break;
		    }
		}
		if (colon != NULL && how != 3) {
		    /* replace the value of "key: value" */
		    out_add(&o, s, (size_t)(colon - s) + 1);
		    out_str(&o, repl[vt_below(rng,
				(int)(sizeof(repl) / sizeof(*repl)))]);
		    out_str(&o, "\n");
		} else {
		    /* sequence entry <-> mapping entry, or re-indent */
		    const char *dash = memchr(s, '-', n);

		    if (dash != NULL && how < 2) {
			out_add(&o, s, (size_t)(dash - s));
			out_str(&o, how == 0 ? "k:" : "? ");
			out_add(&o, dash + 1, n - (size_t)(dash - s) - 1);
		    } else if (how == 2) {
			out_str(&o, "  ");
			out_add(&o, s, n);
		    } else {
			size_t sk = 0;

			while (sk < n && sk < 2 && s[sk] == ' ')
			    ++sk;
			out_add(&o, s + sk, n - sk);
		    }
		}
	    }
	}
	break;
    case M_RANDBYTES:
	{
	    int n = 1 + vt_below(rng, 4);

	    out_add(&o, b->p, b->n);
	    for (int i = 0; i < n && o.n > 0; ++i) {
		size_t pos = (size_t)vt_below(rng, (int)o.n);
		int r = vt_below(rng, 8);
		unsigned char c;

		switch (r) {
		case 0:  c = 0x00; break;
		case 1:  c = 0xff; break;
		case 2:  c = 0x80 | (unsigned char)vt_below(rng, 64); break;
		case 3:  c = (unsigned char)"\n\r\t :-#[]{}!,'\"%&*"
			     [vt_below(rng, 18)]; break;
		default: c = (unsigned char)vt_below(rng, 256); break;
		}
		if (vt_below(rng, 3) == 0) {
		    /* insert */
		    out_add(&o, "x", 1);
		    memmove(o.p + pos + 1, o.p + pos, o.n - 1 - pos);
		}
		o.p[pos] = (char)c;
	    }
	}
	break;
    case M_INSERT:
	{
	    int at, asline = vt_below(rng, 3) != 0;
	    const char *w = dict_pick(kind, rng);

	    if (asline) {
		split_lines(b);
		at = nlines > 0 ? vt_below(rng, nlines + 1) : 0;
		for (int i = 0; i <= nlines; ++i) {
		    if (i == at) {
			/* keep the indentation of the following line */
			if (i < nlines && !IS_DATA(kind)) {
			    size_t sk = 0;
			    const char *s = b->p + lines_[i].off;

			    while (sk < lines_[i].len && s[sk] == ' ')
				++sk;
			    out_add(&o, s, sk);
			}
			out_str(&o, w);
			out_str(&o, "\n");
		    }
		    if (i < nlines)
			out_add(&o, b->p + lines_[i].off, lines_[i].len);
		}
	    } else {
		tokenize(b);
		at = pick_word(rng);
		for (int i = 0; i < ntoks; ++i) {
		    if (i == at) {
			out_str(&o, w);
			out_str(&o, " ");
		    }
		    out_add(&o, b->p + toks[i].off, toks[i].len);
		}
	    }
	}
	break;
    case M_YAMLALIAS:
	{
	    /* YAML anchors and aliases: cycles (alias to an enclosing node),
	     * self reference, nested mutual references, shared subtrees,
	     * undefined aliases, deep nesting */
	    static const char *const snip[] = {
		"cyc1: &c1 [*c1]", "cyc2: &c2 {k: *c2}",
		"cyc3: &c3\n  - x\n  - - *c3", "cyc4: &c4\n  k:\n    j: [1, *c4]",
		"mut1: &m1 [&m2 [*m1], *m2]", "self: &s *s", "und: *nope",
		"dag1: &d1 [x, y]\ndag2: [*d1, *d1, {k: *d1}]",
		"fan: &f1 [&f2 [&f3 [&f4 [a, a], *f4], *f3], *f2]",
		"&k1 key: *k1", "? &k2 [a]\n: *k2", "*a", "&a", "&a [*a]",
		"- &e1 [*e1]", "- &e2 {k: [*e2]}", "anc: &x1 {a: &x2 {b: *x1}}",
	    };
	    int r = vt_below(rng, 10);

	    split_lines(b);
	    if (r < 4) {
		/* a snippet as a new line with the indentation of its
		 * successor */
		int at = nlines > 0 ? vt_below(rng, nlines + 1) : 0;
		const char *w = snip[vt_below(rng,
			(int)(sizeof(snip) / sizeof(*snip)))];

		for (int i = 0; i <= nlines; ++i) {
		    if (i == at) {
			size_t sk = 0;

			if (i < nlines) {
			    const char *s = b->p + lines_[i].off;

			    while (sk < lines_[i].len && s[sk] == ' ')
				++sk;
			}
			/* indent every line of the snippet */
			for (const char *p = w; *p != '\0'; ) {
			    const char *e = strchr(p, '\n');
			    size_t l = e != NULL ? (size_t)(e - p) : strlen(p);

			    if (i < nlines)
				out_add(&o, b->p + lines_[i].off, sk);
			    out_add(&o, p, l);
			    out_str(&o, "\n");
			    p += l + (e != NULL);
			}
		    }
		    if (i < nlines)
			out_add(&o, b->p + lines_[i].off, lines_[i].len);
		}
	    } else if (r < 6) {
		/* deep nesting */
		int depth = r == 4 ? 200 + vt_below(rng, 1800) : 20000;

		out_add(&o, b->p, b->n);
		if (o.n > 0 && o.p[o.n - 1] != '\n')
		    out_str(&o, "\n");
		if (IS_YAMLTEXT(kind) || vt_below(rng, 2))
		    o.n = 0;		/* the nest is the whole document */
		if (kind == K_VNACAL && o.n == 0)
		    out_str(&o, "#VNACal 1.0\nproperties: ");
		else if (o.n > 0)
		    out_str(&o, "deep: ");
		for (int i = 0; i < depth; ++i)
		    out_str(&o, vt_below(rng, 4) == 0 ? "{a: " : "[");
		out_str(&o, "x\n");	/* brackets deliberately left open or */
		if (vt_below(rng, 2) == 0) {	/* closed as sequences */
		    o.n -= 2;
		    o.p[o.n] = '\0';
		    o.n = 0;
		    if (kind == K_VNACAL)
			out_str(&o, "#VNACal 1.0\nproperties: ");
		    for (int i = 0; i < depth; ++i)
			out_str(&o, "[");
		    out_str(&o, "x");
		    for (int i = 0; i < depth; ++i)
			out_str(&o, "]");
		    out_str(&o, "\n");
		}
	    } else {
		/* anchor an existing block, alias it from inside (cycle) or
		 * from a later place (shared subtree) */
		int par[MAXLINES], np = 0, pi = -1, target = -1;
		size_t pind = 0;

		for (int i = 0; i + 1 < nlines; ++i) {
		    const char *s = b->p + lines_[i].off;
		    size_t n = lines_[i].len;

		    while (n > 0 && isspace((unsigned char)s[n - 1]))
			--n;
		    if (n > 0 && s[n - 1] == ':')
			par[np++] = i;
		}
		if (np > 0) {
		    int inside = vt_below(rng, 3) != 0;
		    int cand[MAXLINES], nc = 0;

		    pi = par[vt_below(rng, np)];
		    while (pind < lines_[pi].len &&
			    b->p[lines_[pi].off + pind] == ' ')
			++pind;
		    for (int j = pi + 1; j < nlines; ++j) {
			const char *s = b->p + lines_[j].off;
			size_t ind = 0;

			while (ind < lines_[j].len && s[ind] == ' ')
			    ++ind;
			if (inside && ind <= pind && s[ind] != '-')
			    break;	/* left the block */
			if (!inside && ind > pind)
			    continue;	/* still inside */
			if (memchr(s, ':', lines_[j].len) != NULL ||
				memchr(s, '-', lines_[j].len) != NULL)
			    cand[nc++] = j;
		    }
		    if (nc > 0)
			target = cand[vt_below(rng, nc)];
		}
		for (int i = 0; i < nlines; ++i) {
		    const char *s = b->p + lines_[i].off;
		    size_t n = lines_[i].len;

		    if (i == pi && target >= 0) {
			size_t e = n;

			while (e > 0 && isspace((unsigned char)s[e - 1]))
			    --e;
			out_add(&o, s, e);
			out_str(&o, " &zz\n");
		    } else if (i == target) {
			const char *colon = NULL;
			const char *dash = memchr(s, '-', n);

			for (size_t j = 0; j < n; ++j) {
			    if (s[j] == ':' && (j + 1 == n || s[j + 1] == ' ' ||
					s[j + 1] == '\n')) {
				colon = s + j;
				break;
			    }
			}
			if (colon != NULL) {
			    out_add(&o, s, (size_t)(colon - s) + 1);
			    out_str(&o, " *zz\n");
			} else if (dash != NULL) {
			    out_add(&o, s, (size_t)(dash - s) + 1);
			    out_str(&o, " *zz\n");
			} else {
			    out_add(&o, s, n);
			}
		    } else {
			out_add(&o, s, n);
		    }
		}
	    }
	}
	break;
    case M_TOKLEN:
	{
	    /* a token whose length sits on a buffer-size boundary: 2^k - 1,
	     * 2^k, 2^k + 1 characters for k = 4..12 (tokenizers grow their
	     * text buffers by doubling) */
	    int k = 4 + vt_below(rng, 9);
	    size_t len = ((size_t)1 << k) + (size_t)vt_below(rng, 3) - 1;
	    int how = vt_below(rng, 6);
	    char *tok = malloc(len + 8);
	    int at;

	    tokenize(b);
	    at = pick_word(rng);
	    /* prefer a numeric token for the numeric shapes */
	    if (how < 3) {
		for (int t = 0; t < 12; ++t) {
		    int w = pick_word(rng);

		    if (w >= 0 && is_number_token(b->p + toks[w].off,
				toks[w].len)) {
			at = w;
			break;
		    }
		}
	    }
	    switch (how) {
	    case 0:			/* 1.5000...0 */
		memset(tok, '0', len);
		tok[0] = '1';
		if (len > 1)
		    tok[1] = '.';
		if (len > 2)
		    tok[2] = '5';
		break;
	    case 1:			/* 000...017 (leading zeros) */
		memset(tok, '0', len);
		tok[len - 1] = '7';
		if (len > 1)
		    tok[len - 2] = '1';
		break;
	    case 2:			/* 0.000...01e+05 */
		memset(tok, '0', len);
		if (len > 8) {
		    tok[1] = '.';
		    memcpy(tok + len - 5, "1e+05", 5);
		}
		break;
	    case 3:			/* a long word */
		for (size_t i = 0; i < len; ++i)
		    tok[i] = (char)('a' + (int)(i % 26));
		break;
	    case 4:			/* a long [keyword] / "#:keyword" */
		for (size_t i = 0; i < len; ++i)
		    tok[i] = (char)('A' + (int)(i % 26));
		if (IS_TOUCHSTONE(kind)) {
		    /* the tokenizer collects what is between the brackets:
		     * make that part len characters long */
		    char *t2 = malloc(len + 8);

		    t2[0] = '[';
		    memcpy(t2 + 1, tok, len);
		    t2[len + 1] = ']';
		    len += 2;
		    free(tok);
		    tok = t2;
		} else if (kind == K_NPD && len > 2) {
		    tok[0] = '#';
		    tok[1] = ':';
		}
		break;
	    default:			/* a long format list / key: value */
		for (size_t i = 0; i < len; ++i)
		    tok[i] = "Sri,Zma,"[i % 8];
		break;
	    }
	    tok[len] = '\0';
	    if (how == 5 || (how >= 3 && !IS_DATA(kind)) || vt_below(rng, 5) == 0) {
		/* as a line of its own: comment, header or "key: value" */
		int ln;

		split_lines(b);
		ln = nlines > 0 ? vt_below(rng, nlines + 1) : 0;
		for (int i = 0; i <= nlines; ++i) {
		    if (i == ln) {
			if (IS_TOUCHSTONE(kind)) {
			    out_str(&o, how == 5 ? "! " : "");
			} else if (kind == K_NPD) {
			    out_str(&o, how == 5 ? "#:parameters " :
				    how == 3 ? "# " : "");
			} else {
			    size_t sk = 0;

			    if (i < nlines) {
				const char *s = b->p + lines_[i].off;

				while (sk < lines_[i].len && s[sk] == ' ')
				    ++sk;
				out_add(&o, s, sk);
			    }
			    if (how != 5)	/* long key */
				out_add(&o, tok, len);
			    out_str(&o, how != 5 ? ": v" : "k: ");
			}
			if (IS_DATA(kind) || how == 5)
			    out_add(&o, tok, len);
			out_str(&o, "\n");
		    }
		    if (i < nlines)
			out_add(&o, b->p + lines_[i].off, lines_[i].len);
		}
	    } else {
		for (int i = 0; i < ntoks; ++i) {
		    if (i == at)
			out_add(&o, tok, len);
		    else
			out_add(&o, b->p + toks[i].off, toks[i].len);
		}
	    }
	    free(tok);
	}
	break;
    case M_FREQEQ:
	{
	    /* frequency entries: make one equal to its predecessor (same
	     * text or an equivalent spelling), swap two neighbours, or make
	     * it zero / negative */
	    int fl[MAXLINES], nfl = 0, pick, how;
	    size_t foff[MAXLINES], flen[MAXLINES];

	    split_lines(b);
	    for (int i = 0; i < nlines; ++i) {
		const char *s = b->p + lines_[i].off;
		size_t n = lines_[i].len, j = 0, e;

		if (kind == K_VNACAL) {
		    /* "  - f: <number>" or "    f: <number>" */
		    while (j < n && (s[j] == ' ' || s[j] == '-'))
			++j;
		    if (j + 2 >= n || s[j] != 'f' || s[j + 1] != ':')
			continue;
		    j += 2;
		    while (j < n && s[j] == ' ')
			++j;
		} else {
		    /* data lines that start in column 0 carry the frequency
		     * in their first field */
		    if (n == 0 || isspace((unsigned char)s[0]) ||
			    !all_numbers(s, n))
			continue;
		}
		e = j;
		while (e < n && !isspace((unsigned char)s[e]))
		    ++e;
		if (e == j)
		    continue;
		fl[nfl] = i;
		foff[nfl] = j;
		flen[nfl] = e - j;
		++nfl;
	    }
	    pick = nfl >= 2 ? 1 + vt_below(rng, nfl - 1) : -1;
	    how = vt_below(rng, 9);
	    for (int i = 0; i < nlines; ++i) {
		const char *s = b->p + lines_[i].off;
		size_t n = lines_[i].len;
		int q = -1;

		if (pick >= 0 && (i == fl[pick] ||
			    (how == 6 && i == fl[pick - 1])))
		    q = i == fl[pick] ? pick : pick - 1;
		if (q < 0) {
		    out_add(&o, s, n);
		    continue;
		}
		{
		    /* the text and value of the OTHER entry of the pair */
		    int other = q == pick ? pick - 1 : pick;
		    const char *os = b->p + lines_[fl[other]].off + foff[other];
		    char prev[128], num[160];
		    size_t pl = flen[other] < sizeof(prev) - 1 ?
			flen[other] : sizeof(prev) - 1;
		    double v;

		    memcpy(prev, os, pl);
		    prev[pl] = '\0';
		    v = strtod(prev, NULL);
		    switch (how) {
		    case 0:  snprintf(num, sizeof(num), "%s", prev); break;
		    case 1:  snprintf(num, sizeof(num), "%.0f", v); break;
		    case 2:  snprintf(num, sizeof(num), "%.17g", v); break;
		    case 3:  snprintf(num, sizeof(num), "+%s", prev); break;
		    case 4:  snprintf(num, sizeof(num), "00%s", prev); break;
		    case 5:  snprintf(num, sizeof(num), "%.1f", v); break;
		    case 6:  snprintf(num, sizeof(num), "%s", prev); break; /* swap */
		    case 7:  snprintf(num, sizeof(num), "0"); break;
		    default: snprintf(num, sizeof(num), "-%s", prev); break;
		    }
		    /* 00<text> must stay a decimal number */
		    if (how == 4 && (prev[0] == '+' || prev[0] == '-'))
			snprintf(num, sizeof(num), "%c00%s", prev[0], prev + 1);
		    out_add(&o, s, foff[q]);
		    out_str(&o, num);
		    out_add(&o, s + foff[q] + flen[q], n - foff[q] - flen[q]);
		}
	    }
	}
	break;
    case M_KWRESTATE:
	{
	    /*
	     * Re-state a header keyword LATER in the header with a different
	     * argument (or move it across the lines that depend on it),
	     * optionally rewriting the Touchstone 2 data section so that it
	     * is consistent with the new value.  Header = the lines before
	     * [Network Data] / the first data line / "data:".
	     */
	    int hdr_end = 0, cand[MAXLINES], nc = 0, dimc[MAXLINES], nd = 0;
	    int src = -1, at = -1, move, rewrite;
	    long newv = -1;
	    int is_ports = 0, is_nfreq = 0;

	    split_lines(b);
	    for (hdr_end = 0; hdr_end < nlines; ++hdr_end) {
		const char *s = b->p + lines_[hdr_end].off;
		size_t n = lines_[hdr_end].len;
		const char *c = classify(kind, hdr_end, s, n);

		if (c == NULL)
		    continue;
		if (IS_DATA(kind) && (strcmp(c, "data") == 0 ||
			    strcmp(c, "kw:NetworkData") == 0)) {
		    /* [Reference] continuation lines are data lines too */
		    if (strcmp(c, "data") == 0 && hdr_end > 0 &&
			    IS_TOUCHSTONE(kind)) {
			int seen_net = 0;

			for (int q = hdr_end; q < nlines; ++q) {
			    const char *c2 = classify(kind, q,
				    b->p + lines_[q].off, lines_[q].len);

			    seen_net |= c2 != NULL &&
				strcmp(c2, "kw:NetworkData") == 0;
			}
			if (seen_net)
			    continue;
		    }
		    break;
		}
		if (kind == K_VNACAL) {
		    size_t j = 0;

		    while (j < n && s[j] == ' ')
			++j;
		    if (n - j >= 5 && strncmp(s + j, "data:", 5) == 0)
			break;
		}
	    }
	    for (int i = 0; i < hdr_end; ++i) {
		const char *s = b->p + lines_[i].off;
		size_t n = lines_[i].len;
		int digit = 0;

		if (!is_keyword_line(kind, s, n))
		    continue;
		for (size_t j = 0; j < n; ++j)
		    digit |= isdigit((unsigned char)s[j]) != 0;
		cand[nc++] = i;
		if (digit && (ci_prefix(s, n, "[number of ports]") ||
			    ci_prefix(s, n, "#:ports") ||
			    ci_prefix(s, n, "#:rows") ||
			    ci_prefix(s, n, "#:columns") ||
			    strstr(s, "rows:") == s + strspn(s, " -") ||
			    strstr(s, "columns:") == s + strspn(s, " -")))
		    dimc[nd++] = i;
	    }
	    move = vt_below(rng, 4) == 0;
	    rewrite = vt_below(rng, 2);
	    if (nd > 0 && vt_below(rng, 2) == 0)
		src = dimc[vt_below(rng, nd)];	/* dimension keywords */
	    else if (nc > 0)
		src = cand[vt_below(rng, nc)];
	    if (src >= 0) {
		/* insertion point: a later header position, half of the time
		 * the last one (just before the data) */
		if (move && vt_below(rng, 2) == 0 && src > 0)
		    at = vt_below(rng, src);		/* move up */
		else if (vt_below(rng, 2) == 0 || hdr_end - src <= 1)
		    at = hdr_end;
		else
		    at = src + 1 + vt_below(rng, hdr_end - src);
		is_ports = ci_prefix(b->p + lines_[src].off, lines_[src].len,
			"[number of ports]");
		is_nfreq = ci_prefix(b->p + lines_[src].off, lines_[src].len,
			"[number of frequencies]");
	    }
	    for (int i = 0; i <= nlines; ++i) {
		if (i == at && src >= 0) {
		    const char *s = b->p + lines_[src].off;
		    size_t n = lines_[src].len, j = n, e;

		    while (j > 0 && !isdigit((unsigned char)s[j - 1]))
			--j;
		    e = j;
		    while (j > 0 && (isdigit((unsigned char)s[j - 1]) ||
				s[j - 1] == '.'))
			--j;
		    if (move || e == 0) {
			out_add(&o, s, n);
		    } else {
			char num[32];
			long v = strtol(s + j, NULL, 10);

			switch (vt_below(rng, 7)) {
			case 0:  newv = v + 1; break;
			case 1:  newv = v + 2; break;
			case 2:  newv = 2 * v; break;
			case 3:  newv = v > 1 ? v - 1 : v + 3; break;
			case 4:  newv = 0; break;
			case 5:  newv = v + 5; break;
			default: newv = v; break;
			}
			snprintf(num, sizeof(num), "%ld", newv);
			out_add(&o, s, j);
			out_str(&o, num);
			/* keep what follows the number except a fraction */
			out_add(&o, s + e, n - e);
		    }
		    if (n == 0 || s[n - 1] != '\n')
			out_str(&o, "\n");
		}
		if (i >= nlines || (move && i == src))
		    continue;
		if (rewrite && !move && newv > 0 && newv <= 8 &&
			IS_TOUCHSTONE(kind) && (is_ports || is_nfreq) &&
			i >= hdr_end) {
		    /* a data section for the new value: full matrices of
		     * newv ports (or newv frequencies of the old size) */
		    if (i == hdr_end) {
			long ports = is_ports ? newv : 2, nf = is_ports ? 2 : newv;
			char tmp[64];

			if (!is_ports) {
			    for (int q = 0; q < hdr_end; ++q) {
				const char *s = b->p + lines_[q].off;

				if (ci_prefix(s, lines_[q].len,
					    "[number of ports]"))
				    ports = strtol(s + 17, NULL, 10);
			    }
			    if (ports < 1 || ports > 8)
				ports = 2;
			}
			out_str(&o, "[Network Data]\n");
			for (long f = 0; f < nf; ++f) {
			    snprintf(tmp, sizeof(tmp), "%ld.5e9", f + 1);
			    out_str(&o, tmp);
			    for (long c = 0; c < ports * ports; ++c) {
				snprintf(tmp, sizeof(tmp), " 0.%ld -0.%ld",
					(c % 9) + 1, (f % 9) + 1);
				out_str(&o, tmp);
				if (c % 4 == 3 && c + 1 < ports * ports)
				    out_str(&o, "\n   ");
			    }
			    out_str(&o, "\n");
			}
			out_str(&o, "[End]\n");
		    }
		    continue;
		}
		out_add(&o, b->p + lines_[i].off, lines_[i].len);
	    }
	}
	break;
    case M_VERCROSS:
	{
	    /* .vnacal only: keys and version numbers of OTHER versions of the
	     * format -- "type:" and the current matrix keys in pre-release
	     * files, "e:" in current ones, sets <-> calibrations, another
	     * first line */
	    static const char *const heads[] = {
		"#VNACal 1.0", "#VNACal 2.0", "#VNACAL 2.0", "#VNACAL 3.0",
		"#VNACal 0.2", "#VNACal 0.9", "#VNACal 9.9", "#VNACAL 9.9",
		"#VNACal 1.7", "#VNACAL 2.9", "#VNACal -1.0",
	    };
	    static const char *const types[] = {
		"T8", "U8", "TE10", "UE10", "T16", "U16", "UE14", "E12", "e12",
	    };
	    static const char *const mkeys[] = {
		"ts: [\"+1 +0j\"]", "ti: [\"+0 +0j\"]", "tx: [\"+0 +0j\"]",
		"tm: [\"+1 +0j\"]", "um: [\"+1 +0j\"]", "ui: [\"+0 +0j\"]",
		"ux: [\"+0 +0j\"]", "us: [\"+1 +0j\"]",
		"el: [[\"+0 +0j\"]]", "er: [[\"+1 +0j\"]]", "em: [[\"+0 +0j\"]]",
		"e: [[[\"+0 +0j\", \"+1 +0j\", \"+0 +0j\"]]]", "e: []", "e: ~",
	    };
	    int how = vt_below(rng, 10);
	    int anchor[MAXLINES], na = 0, pick;
	    const char *want = how < 4 ? "rows:" : "f:";

	    split_lines(b);
	    /* lines after which a key of a set (rows:) or of a data entry
	     * (f:) can be added at the same indentation */
	    for (int i = 0; i < nlines; ++i) {
		const char *s = b->p + lines_[i].off;
		size_t n = lines_[i].len, j = 0;

		while (j < n && (s[j] == ' ' || s[j] == '-'))
		    ++j;
		if (n - j >= strlen(want) && strncmp(s + j, want,
			    strlen(want)) == 0)
		    anchor[na++] = i;
	    }
	    pick = na > 0 ? anchor[vt_below(rng, na)] : -1;
	    for (int i = 0; i < nlines; ++i) {
		const char *s = b->p + lines_[i].off;
		size_t n = lines_[i].len;

		if (i == 0 && (how == 7 || how == 8 || vt_below(rng, 4) == 0)) {
		    out_str(&o, heads[vt_below(rng,
				(int)(sizeof(heads) / sizeof(*heads)))]);
		    out_str(&o, "\n");
		    continue;
		}
		if (how == 9) {
		    /* sets <-> calibrations */
		    if (n >= 5 && strncmp(s, "sets:", 5) == 0) {
			out_str(&o, "calibrations:");
			out_add(&o, s + 5, n - 5);
			continue;
		    }
		    if (n >= 13 && strncmp(s, "calibrations:", 13) == 0) {
			out_str(&o, "sets:");
			out_add(&o, s + 13, n - 13);
			continue;
		    }
		}
		out_add(&o, s, n);
		if (i == pick && how < 7) {
		    size_t ind = 0;

		    while (ind < n && (s[ind] == ' ' || s[ind] == '-'))
			++ind;
		    for (size_t q = 0; q < ind; ++q)
			out_str(&o, " ");
		    if (how < 4) {
			out_str(&o, "type: ");
			out_str(&o, types[vt_below(rng,
				    (int)(sizeof(types) / sizeof(*types)))]);
		    } else {
			out_str(&o, mkeys[vt_below(rng,
				    (int)(sizeof(mkeys) / sizeof(*mkeys)))]);
		    }
		    out_str(&o, "\n");
		}
	    }
	}
	break;
    case M_KWREPEAT:
	{
	    /* repeat a keyword / header line further down with its numeric
	     * argument changed (a second [Number of Ports], rows:, #:ports
	     * ... that contradicts the first) */
	    int cand[MAXLINES], nc = 0, src = -1, at = -1;

	    split_lines(b);
	    for (int i = 0; i < nlines; ++i) {
		const char *s = b->p + lines_[i].off;
		size_t n = lines_[i].len;
		int digit = 0;

		if (!is_keyword_line(kind, s, n))
		    continue;
		for (size_t j = 0; j < n; ++j)
		    digit |= isdigit((unsigned char)s[j]) != 0;
		if (digit)
		    cand[nc++] = i;
	    }
	    if (nc > 0) {
		src = cand[vt_below(rng, nc)];
		at = src + 1 + vt_below(rng, nlines - src < 6 ? nlines - src : 6);
	    }
	    for (int i = 0; i <= nlines; ++i) {
		if (i == at && src >= 0) {
		    const char *s = b->p + lines_[src].off;
		    size_t n = lines_[src].len, j = n;
		    size_t e;
		    char num[32];
		    long v;

		    /* last run of digits on the line */
		    while (j > 0 && !isdigit((unsigned char)s[j - 1]))
			--j;
		    e = j;
		    while (j > 0 && isdigit((unsigned char)s[j - 1]))
			--j;
		    v = strtol(s + j, NULL, 10);
		    switch (vt_below(rng, 6)) {
		    case 0:  v = v + 1; break;
		    case 1:  v = v > 0 ? v - 1 : 1; break;
		    case 2:  v = 2 * v + 1; break;
		    case 3:  v = 0; break;
		    case 4:  v = v + 7; break;
		    default: break;		/* identical repeat */
		    }
		    snprintf(num, sizeof(num), "%ld", v);
		    out_add(&o, s, j);
		    out_str(&o, num);
		    out_add(&o, s + e, n - e);
		    if (n == 0 || s[n - 1] != '\n')
			out_str(&o, "\n");
		}
		if (i < nlines)
		    out_add(&o, b->p + lines_[i].off, lines_[i].len);
	    }
	}
	break;
    case M_SPLICE:
	{
	    const buf_t *b2 = &seeds[kind][vt_below(rng, nseeds[kind])];
	    int la, lb;

	    split_lines(b);
	    la = nlines > 0 ? vt_below(rng, nlines + 1) : 0;
	    for (int i = 0; i < la; ++i)
		out_add(&o, b->p + lines_[i].off, lines_[i].len);
	    split_lines(b2);
	    lb = nlines > 0 ? vt_below(rng, nlines + 1) : 0;
	    for (int i = lb; i < nlines; ++i)
		out_add(&o, b2->p + lines_[i].off, lines_[i].len);
	}
	break;
    }
    res->p = o.p;
    res->n = o.n;
}

/* ------------------------------------- line classes and step automata */

/* the harness's own formulation of the line grammar of LoadContract.tla;
 * the trace spec evaluates its formulation on the logged class sequence and
 * requires the same verdict */

static int ci_prefix(const char *s, size_t n, const char *kw)
{
    size_t l = strlen(kw);

    if (n < l)
	return 0;
    for (size_t i = 0; i < l; ++i) {
	if (tolower((unsigned char)s[i]) != tolower((unsigned char)kw[i]))
	    return 0;
    }
    return 1;
}

static int all_numbers(const char *s, size_t n)
{
    size_t i = 0;
    int count = 0;

    while (i < n) {
	size_t j;

	while (i < n && isspace((unsigned char)s[i]))
	    ++i;
	if (i >= n)
	    break;
	if (s[i] == '!' || s[i] == '#')
	    break;			/* trailing comment */
	j = i;
	while (j < n && !isspace((unsigned char)s[j]))
	    ++j;
	if (!is_number_token(s + i, j - i))
	    return 0;
	++count;
	i = j;
    }
    return count > 0;
}

static const char *classify(int kind, int lineno, const char *s, size_t n)
{
    size_t i = 0;

    while (i < n && isspace((unsigned char)s[i]))
	++i;
    if (i >= n)
	return NULL;			/* blank */
    s += i;
    n -= i;
    if (IS_TOUCHSTONE(kind)) {
	if (s[0] == '!')
	    return "comment";
	if (s[0] == '#')
	    return "option";
	if (s[0] == '[') {
	    static const struct { const char *kw, *cls; } t[] = {
		{ "[version]", "kw:Version" },
		{ "[number of ports]", "kw:Ports" },
		{ "[two-port data order]", "kw:Order" },
		{ "[two-port order]", "kw:Order" },
		{ "[number of frequencies]", "kw:Frequencies" },
		{ "[number of noise frequencies]", "kw:NoiseFrequencies" },
		{ "[reference]", "kw:Reference" },
		{ "[matrix format]", "kw:MatrixFormat" },
		{ "[mixed-mode order]", "kw:MixedMode" },
		{ "[network data]", "kw:NetworkData" },
		{ "[noise data]", "kw:NoiseData" },
		{ "[end]", "kw:End" },
	    };

	    for (size_t k = 0; k < sizeof(t) / sizeof(t[0]); ++k) {
		if (ci_prefix(s, n, t[k].kw))
		    return t[k].cls;
	    }
	    return "kw:other";
	}
	return all_numbers(s, n) ? "data" : "other";
    }
    if (kind == K_NPD) {
	if (s[0] == '#') {
	    static const struct { const char *kw, *cls; } t[] = {
		{ "#:version", "h:version" }, { "#:ports", "h:ports" },
		{ "#:frequencies", "h:frequencies" },
		{ "#:parameters", "h:parameters" }, { "#:z0", "h:z0" },
		{ "#:fprecision", "h:fprecision" },
		{ "#:dprecision", "h:dprecision" },
	    };

	    if (n >= 4 && strncmp(s, "#NPD", 4) == 0 &&
		    (n == 4 || isspace((unsigned char)s[4])))
		return "magic";
	    for (size_t k = 0; k < sizeof(t) / sizeof(t[0]); ++k) {
		size_t l = strlen(t[k].kw);

		if (n >= l && strncmp(s, t[k].kw, l) == 0 &&
			(n == l || isspace((unsigned char)s[l])))
		    return t[k].cls;
	    }
	    if (n >= 2 && s[1] == ':')
		return "h:other";
	    return "comment";
	}
	return all_numbers(s, n) ? "data" : "other";
    }
    /* .vnacal and YAML text */
    if (kind == K_VNACAL && lineno == 0) {
	int a, b2;
	char c;

	if (i == 0 && (sscanf(s, "#VNACal %d.%d%c", &a, &b2, &c) == 3 ||
		    sscanf(s, "#VNACAL %d.%d%c", &a, &b2, &c) == 3) &&
		c == '\n')
	    return "version";
	return "other";
    }
    if (i == 0 && s[0] == '%')
	return "directive";
    if (i == 0 && n >= 3 && strncmp(s, "---", 3) == 0 &&
	    (n == 3 || isspace((unsigned char)s[3])))
	return "docstart";
    if (i == 0 && n >= 3 && strncmp(s, "...", 3) == 0 &&
	    (n == 3 || isspace((unsigned char)s[3])))
	return "docend";
    return "yaml";
}

#define MAXCLS 48
static const char *cls_seq[MAXCLS];
static int ncls, cls_overflow;

static int collapsible(const char *c)
{
    return strcmp(c, "data") == 0 || strcmp(c, "yaml") == 0 ||
	strcmp(c, "comment") == 0;
}

static void classify_input(int kind, const buf_t *in)
{
    int blankonly = 1;

    split_lines(in);
    ncls = 0;
    cls_overflow = 0;
    for (int i = 0; i < nlines; ++i) {
	const char *c = classify(kind, i, in->p + lines_[i].off, lines_[i].len);

	if (c == NULL) {
	    /* a blank first line still occupies the version-line position */
	    if (kind == K_VNACAL && i == 0)
		c = "other";
	    else
		continue;
	}
	blankonly = 0;
	/* runs of data / yaml / comment lines are kept to at most two */
	if (ncls >= 2 && collapsible(c) && strcmp(cls_seq[ncls - 1], c) == 0 &&
		strcmp(cls_seq[ncls - 2], c) == 0)
	    continue;
	if (ncls >= MAXCLS) {
	    cls_overflow = 1;
	    break;
	}
	cls_seq[ncls++] = c;
    }
    (void)blankonly;
}

static int in_set(const char *c, const char *const *set)
{
    for (; *set != NULL; ++set) {
	if (strcmp(c, *set) == 0)
	    return 1;
    }
    return 0;
}

static int accepts_touchstone(void)
{
    static const char *const hdr[] = { "kw:Order", "kw:Frequencies",
	"kw:NoiseFrequencies", "kw:Reference", "kw:MatrixFormat",
	"kw:MixedMode", "data", NULL };
    enum { START, V1, V2VER, V2OPT, V2H0, V2H1, V2NET, V2DATA, V2NOISE, END,
	   REJ } q = START;

    for (int i = 0; i < ncls && q != REJ; ++i) {
	const char *c = cls_seq[i];

	if (strcmp(c, "comment") == 0)
	    continue;
	switch (q) {
	case START:
	    q = strcmp(c, "option") == 0 ? V1 :
		strcmp(c, "kw:Version") == 0 ? V2VER : REJ;
	    break;
	case V1:
	    q = strcmp(c, "data") == 0 ? V1 : REJ;
	    break;
	case V2VER:
	    q = strcmp(c, "option") == 0 ? V2OPT : REJ;
	    break;
	case V2OPT:
	    q = strcmp(c, "kw:Ports") == 0 ? V2H0 : REJ;
	    break;
	case V2H0:
	    q = strcmp(c, "kw:Frequencies") == 0 ? V2H1 :
		in_set(c, hdr) ? V2H0 : REJ;
	    break;
	case V2H1:
	    q = strcmp(c, "kw:Frequencies") == 0 ? REJ :
		in_set(c, hdr) ? V2H1 :
		strcmp(c, "kw:NetworkData") == 0 ? V2NET : REJ;
	    break;
	case V2NET:
	    q = strcmp(c, "data") == 0 ? V2DATA : REJ;
	    break;
	case V2DATA:
	    q = strcmp(c, "data") == 0 ? V2DATA :
		strcmp(c, "kw:NoiseData") == 0 ? V2NOISE :
		strcmp(c, "kw:End") == 0 ? END : REJ;
	    break;
	case V2NOISE:
	    q = strcmp(c, "data") == 0 ? V2NOISE :
		strcmp(c, "kw:End") == 0 ? END : REJ;
	    break;
	default:
	    q = REJ;
	    break;
	}
    }
    return q == V1 || q == END;
}

static int accepts_npd(void)
{
    static const char *const hdr[] = { "h:ports", "h:frequencies",
	"h:parameters", "h:z0", "h:fprecision", "h:dprecision", "h:other",
	NULL };
    enum { START, MAGIC, H0, H1, DATA, REJ } q = START;

    for (int i = 0; i < ncls && q != REJ; ++i) {
	const char *c = cls_seq[i];

	if (strcmp(c, "comment") == 0)
	    continue;
	switch (q) {
	case START: q = strcmp(c, "magic") == 0 ? MAGIC : REJ; break;
	case MAGIC: q = strcmp(c, "h:version") == 0 ? H0 : REJ; break;
	case H0:
	    q = strcmp(c, "h:parameters") == 0 ? H1 : in_set(c, hdr) ? H0 : REJ;
	    break;
	case H1:
	    q = in_set(c, hdr) ? H1 : strcmp(c, "data") == 0 ? DATA : REJ;
	    break;
	case DATA: q = strcmp(c, "data") == 0 ? DATA : REJ; break;
	default: q = REJ; break;
	}
    }
    return q == H1 || q == DATA;
}

static int accepts_yamlish(int with_version)
{
    static const char *const body[] = { "yaml", "directive", "docstart",
	"docend", NULL };
    int i = 0;

    if (with_version) {
	if (ncls < 2 || strcmp(cls_seq[0], "version") != 0)
	    return 0;
	i = 1;
    } else if (ncls < 1) {
	return 0;
    }
    for (; i < ncls; ++i) {
	if (!in_set(cls_seq[i], body))
	    return 0;
    }
    return 1;
}

static int structure_accepted(int kind)
{
    if (cls_overflow)
	return -1;
    if (IS_TOUCHSTONE(kind))
	return accepts_touchstone();
    if (kind == K_NPD)
	return accepts_npd();
    return accepts_yamlish(kind == K_VNACAL);
}

static void put_classes(void)
{
    vt_put("\"lines\":[");
    if (!cls_overflow) {
	for (int i = 0; i < ncls; ++i)
	    vt_put("%s\"%s\"", i ? "," : "", cls_seq[i]);
    }
    vt_put("]");
}

#endif /* LF_MUTATE_H */
