/*
 * drv_netdata.c -- conformance driver for the vnadata_t API (NetData.tla).
 *
 * Every public call is one ndjson event: abstract arguments (small ints,
 * interned value ids), outcome (ok / errno / error-callback invocations),
 * returned value and the projection of the object through the public
 * getters only.  Numbers never enter the trace: each distinct bit pattern
 * of a double complex is interned to a small id (0 = 0.0, 1 = 50 ohm).
 *
 * usage:
 *   drv_netdata TABLE count exh DEPTH | count exhc DEPTH | count conv
 *   drv_netdata TABLE exh  DEPTH FROM TO        full alphabet, all prefixes
 *   drv_netdata TABLE exhc DEPTH FROM TO        core alphabet, all prefixes
 *   drv_netdata TABLE rand SEED FROM TO LEN     random histories
 *   drv_netdata TABLE conv SEED FROM TO         C05: table-driven conversions
 * TABLE = TSV flattening of the JSON exported by NetParamsTable.tla.
 * env: VT_TRACE=<path> (default stdout)
 */
#include <complex.h>
#include <ctype.h>
#include <errno.h>
#include <math.h>
#include <stdio.h>
#include <stdlib.h>
#include <string.h>
#include <vnadata.h>
#include "convreg.h"
#include "relcheck.h"
#include "vt.h"

/* ------------------------------------------------------------ interning */

#define MAXV (1 << 16)
#define HS   (1 << 17)
static double complex vals[MAXV];
static int nvals;
static int hslot[HS];		/* index + 1, 0 = empty */
static int hused[MAXV];
static int nhused;

static unsigned hash_c(double complex z)
{
    uint64_t w[2];

    memcpy(w, &z, sizeof(w));
    w[0] ^= w[0] >> 29;
    w[0] *= 0xBF58476D1CE4E5B9ull;
    w[1] ^= w[1] >> 31;
    w[1] *= 0x94D049BB133111EBull;
    return (unsigned)((w[0] ^ (w[1] >> 7) ^ (w[0] >> 32)) & (HS - 1));
}

static int intern(double complex z)
{
    unsigned h = hash_c(z);

    for (;; h = (h + 1) & (HS - 1)) {
	int s = hslot[h];

	if (s == 0)
	    break;
	if (memcmp(&vals[s - 1], &z, sizeof(z)) == 0)
	    return s - 1;
    }
    if (nvals >= MAXV) {
	fprintf(stderr, "value table full\n");
	_exit(3);
    }
    vals[nvals] = z;
    hslot[h] = nvals + 1;
    hused[nhused++] = (int)h;
    return nvals++;
}

#define N_FIXED 12
static void intern_reset(void)
{
    static const double complex fixed[N_FIXED] = {
	0.0, 50.0, 1.0e6, 2.5e6, 75.0, 1.0e9, 1.0 + 2.0 * I,
	-3.5 + 0.25 * I, 25.0 - 10.0 * I, 0.5 * I, 110.0 + 5.0 * I, 3.0e6
    };

    for (int i = 0; i < nhused; ++i)
	hslot[hused[i]] = 0;
    nhused = 0;
    nvals = 0;
    for (int i = 0; i < N_FIXED; ++i)
	(void)intern(fixed[i]);
}
/* ids usable as frequencies (real, non-negative) */
static const int real_ids[] = { 2, 3, 5, 11, 4, 0, 1 };
#define N_REAL ((int)(sizeof(real_ids) / sizeof(real_ids[0])))

static long fresh_counter;
/* a value never seen before in this episode (distinct by construction) */
static int fresh_value(void)
{
    long k = ++fresh_counter;

    return intern((double)k + 0.5 + I * (0.25 * (double)k - 7.0));
}
static int fresh_real(void)
{
    long k = ++fresh_counter;

    return intern(1.0e6 * (double)k + 0.125);
}

/* ------------------------------------------------------------- tables */

typedef struct convrow {
    char from[8], to[8], fn2[12], fnn[12];
    int rows, cols, legal, copy, z0, orows, ocols;
} convrow_t;
#define MAXCONV 1024
static convrow_t convtab[MAXCONV];
static int nconv;

static int load_conv(const char *path)
{
    FILE *fp = fopen(path, "r");
    char line[512];

    if (fp == NULL) {
	perror(path);
	return -1;
    }
    while (fgets(line, sizeof(line), fp) != NULL) {
	convrow_t *c;

	if (strncmp(line, "conv\t", 5) != 0)
	    continue;
	if (nconv >= MAXCONV)
	    return -1;
	c = &convtab[nconv];
	if (sscanf(line, "conv\t%7s\t%7s\t%d\t%d\t%d\t%d\t%11s\t%11s\t%d\t%d\t%d",
		    c->from, c->to, &c->rows, &c->cols, &c->legal, &c->copy,
		    c->fn2, c->fnn, &c->z0, &c->orows, &c->ocols) != 11) {
	    fprintf(stderr, "bad conv line: %s", line);
	    return -1;
	}
	++nconv;
    }
    fclose(fp);
    return nconv > 0 ? 0 : -1;
}

static const convrow_t *find_conv(const char *from, const char *to, int r,
	int c)
{
    for (int i = 0; i < nconv; ++i) {
	if (convtab[i].rows == r && convtab[i].cols == c &&
		strcmp(convtab[i].from, from) == 0 &&
		strcmp(convtab[i].to, to) == 0)
	    return &convtab[i];
    }
    return NULL;
}

/* --------------------------------------------------------------- types */

static const char *type_names[] = {
    "UNDEF", "S", "T", "U", "Z", "Y", "H", "G", "A", "B", "ZIN"
};
#define T_BAD  100	/* an invalid enum value is passed */
#define T_SAME 101	/* template: keep the current type */

static const char *type_name(int t)
{
    if (t >= 0 && t < 11)
	return type_names[t];
    return "BAD";
}

static int type_by_name(const char *s)
{
    if (strcmp(s, "-") == 0)
	return 0;
    for (int i = 0; i < 11; ++i) {
	if (strcmp(s, type_names[i]) == 0)
	    return i;
    }
    if (strcmp(s, "same") == 0)
	return T_SAME;
    return T_BAD;
}

static int bad_type_value(int k)
{
    static const int bad[] = { 11, -1, 99 };

    return bad[k % 3];
}

static const char *ft_name(int ft)
{
    switch (ft) {
    case VNADATA_FILETYPE_AUTO:		return "AUTO";
    case VNADATA_FILETYPE_TOUCHSTONE1:	return "TS1";
    case VNADATA_FILETYPE_TOUCHSTONE2:	return "TS2";
    case VNADATA_FILETYPE_NPD:		return "NPD";
    default:				return "BAD";
    }
}

/* canonical spellings of the documented format specifiers (lower case,
 * default coordinates made explicit) */
static const char *fmt_pool[] = {
    "sri", "sma", "sdb", "tri", "tma", "tdb", "uri", "uma", "udb",
    "zri", "zma", "yri", "yma", "hri", "hma", "gri", "gma", "ari", "ama",
    "bri", "bma", "zinri", "zinma", "prc", "prl", "src", "srl", "il", "rl",
    "vswr"
};
#define N_FMT ((int)(sizeof(fmt_pool) / sizeof(fmt_pool[0])))

static int fmt_id(const char *tok, size_t len)
{
    char buf[16];
    size_t n = 0;

    if (len == 0 || len > 8)
	return -1;
    for (size_t i = 0; i < len; ++i)
	buf[n++] = (char)tolower((unsigned char)tok[i]);
    buf[n] = '\0';
    for (int i = 0; i < N_FMT; ++i) {
	if (strcmp(buf, fmt_pool[i]) == 0)
	    return i;
    }
    /* bare parameter name: default coordinates ri */
    if (n <= 3) {
	strcpy(buf + n, "ri");
	for (int i = 0; i < N_FMT; ++i) {
	    if (strcmp(buf, fmt_pool[i]) == 0)
		return i;
	}
    }
    return -1;
}

/* -------------------------------------------------------------- objects */

#define NOBJ 2
static vnadata_t *obj[NOBJ];
static vnadata_t *scratch;

/* result of one library call, in the event's vocabulary */
typedef struct outcome {
    int ok;		/* 1 success value, 0 failure value, 2 neither */
    int err;
    vt_cb_t cb;
} outcome_t;

static void begin_call(void)
{
    vt_cb_reset();
}

static void end_int(outcome_t *o, int rv)
{
    o->err = errno;
    o->cb = vt_cb;
    o->ok = rv == 0 ? 1 : (rv == -1 ? 0 : 2);
}

static void end_ptr(outcome_t *o, const void *p, int expect_len)
{
    o->err = errno;
    o->cb = vt_cb;
    o->ok = p != NULL || (expect_len == 0 && o->err == 0 && o->cb.n == 0);
}

/* double / complex getters: HUGE_VAL is the failure value, but a stored
 * infinity is a legal content; told apart by errno / callback */
static void end_num(outcome_t *o, double complex z)
{
    o->err = errno;
    o->cb = vt_cb;
    o->ok = !(creal(z) == HUGE_VAL && (o->err != 0 || o->cb.n != 0));
}

static void put_outcome(const outcome_t *o)
{
    vt_put("\"ok\":%d,\"err\":\"%s\",\"cb\":[", o->ok, vt_errname(o->err));
    for (int i = 0; i < o->cb.n && i < VT_CB_MAX; ++i) {
	vt_put("%s{\"cat\":\"%s\",\"one\":%d}", i ? "," : "",
		vt_catname(o->cb.cat[i]), o->cb.one_line[i] ? 1 : 0);
    }
    vt_put("],\"ncb\":%d", o->cb.n);
}

/* one projected number: id, or -1 if the getter did not answer cleanly */
static int proj_num(double complex z, int cb_before)
{
    if (errno != 0 || vt_cb.n != cb_before)
	return -1;
    return intern(z);
}

static void put_obs(const char *key, vnadata_t *v)
{
    int type, rows, cols, nf, ports, fz;

    vt_cb_reset();
    type = (int)LIB(vnadata_get_type(v));
    rows = LIB(vnadata_get_rows(v));
    cols = LIB(vnadata_get_columns(v));
    nf = LIB(vnadata_get_frequencies(v));
    ports = rows > cols ? rows : cols;
    vt_put("\"%s\":{\"type\":\"%s\",\"rows\":%d,\"cols\":%d,\"nf\":%d,\"fv\":[",
	    key, type_name(type), rows, cols, nf);
    if (rows < 0 || cols < 0 || nf < 0 || rows > 64 || cols > 64 || nf > 4096) {
	vt_put("],\"broken\":1}");
	return;
    }
    for (int f = 0; f < nf; ++f) {
	int cb0 = vt_cb.n;
	double d = LIB(vnadata_get_frequency(v, f));

	vt_put("%s%d", f ? "," : "", proj_num(d, cb0));
    }
    vt_put("],\"cell\":[");
    for (int f = 0; f < nf; ++f) {
	vt_put("%s[", f ? "," : "");
	for (int r = 0; r < rows; ++r) {
	    for (int c = 0; c < cols; ++c) {
		int cb0 = vt_cb.n;
		double complex z = LIB(vnadata_get_cell(v, f, r, c));

		vt_put("%s%d", (r || c) ? "," : "", proj_num(z, cb0));
	    }
	}
	vt_put("]");
    }
    fz = LIB(vnadata_has_fz0(v)) ? 1 : 0;
    vt_put("],\"fz\":%d,\"z0\":[", fz);
    if (!fz) {
	for (int p = 0; p < ports; ++p) {
	    int cb0 = vt_cb.n;
	    double complex z = LIB(vnadata_get_z0(v, p));

	    vt_put("%s%d", p ? "," : "", proj_num(z, cb0));
	}
    }
    vt_put("],\"fz0\":[");
    for (int f = 0; f < nf; ++f) {
	vt_put("%s[", f ? "," : "");
	for (int p = 0; p < ports; ++p) {
	    int cb0 = vt_cb.n;
	    double complex z = LIB(vnadata_get_fz0(v, f, p));

	    vt_put("%s%d", p ? "," : "", proj_num(z, cb0));
	}
	vt_put("]");
    }
    vt_put("],\"aux\":{\"ftype\":\"%s\",\"fmt\":[",
	    ft_name((int)LIB(vnadata_get_filetype(v))));
    {
	const char *fs = LIB(vnadata_get_format(v));

	if (fs != NULL && *fs != '\0') {
	    const char *p = fs;
	    int first = 1;

	    for (;;) {
		const char *e = strchr(p, ',');
		size_t len = e != NULL ? (size_t)(e - p) : strlen(p);

		vt_put("%s%d", first ? "" : ",", fmt_id(p, len));
		first = 0;
		if (e == NULL)
		    break;
		p = e + 1;
	    }
	}
    }
    vt_put("],\"fprec\":%d,\"dprec\":%d}}", LIB(vnadata_get_fprecision(v)),
	    LIB(vnadata_get_dprecision(v)));
}

static void put_ids(const char *key, const int *ids, int n)
{
    vt_put("\"%s\":[", key);
    for (int i = 0; i < n; ++i)
	vt_put("%s%d", i ? "," : "", ids[i]);
    vt_put("]");
}

/* ------------------------------------------------------- abstract ops */

enum {
    K_INIT, K_RESIZE, K_SETTYPE, K_ADDFREQ, K_SETFREQ, K_GETFREQ,
    K_SETFREQVEC, K_GETFREQVEC, K_GETFMIN, K_GETFMAX,
    K_SETCELL, K_GETCELL, K_SETMATRIX, K_GETMATRIX, K_SETFROMVEC,
    K_GETTOVEC, K_GETZ0, K_SETZ0, K_GETZ0VEC, K_SETZ0VEC, K_SETALLZ0,
    K_HASFZ0, K_GETFZ0, K_SETFZ0, K_GETFZ0VEC, K_SETFZ0VEC,
    K_SETFILETYPE, K_SETFPREC, K_SETDPREC, K_SETFORMAT, K_CONVERT,
    K_ALLOCINIT, K_NKINDS
};
static const char *kind_names[K_NKINDS] = {
    "Init", "Resize", "SetType", "AddFreq", "SetFreq", "GetFreq",
    "SetFreqVec", "GetFreqVec", "GetFmin", "GetFmax",
    "SetCell", "GetCell", "SetMatrix", "GetMatrix", "SetFromVec",
    "GetToVec", "GetZ0", "SetZ0", "GetZ0Vec", "SetZ0Vec", "SetAllZ0",
    "HasFz0", "GetFZ0", "SetFZ0", "GetFZ0Vec", "SetFZ0Vec",
    "SetFiletype", "SetFprec", "SetDprec", "SetFormat", "Convert",
    "AllocInit"
};

#define MAXVEC 64
typedef struct op {
    int kind;
    int o;			/* object */
    int d;			/* Convert: destination object */
    int t;			/* type (0..10, or a raw invalid value) */
    int a[4];			/* integer arguments */
    int v;			/* value id */
    int nvec;
    int vec[MAXVEC];		/* value ids */
    int valid;			/* SetFormat: text is a documented list */
    char text[96];		/* SetFormat: the string sent */
} op_t;

/* ---- "origin" snapshot for the chain observation (C05) ---- */
#define OMAXF 8
#define OMAXN 6
static struct origin {
    int valid;
    int type, n, nf;
    double complex m[OMAXF][OMAXN * OMAXN];
    double complex z0[OMAXF][OMAXN];
} origin[NOBJ];

static void origin_invalidate(int o)
{
    origin[o].valid = 0;
}

/* snapshot the current content of object o as the origin of a chain */
static void origin_take(int o)
{
    vnadata_t *v = obj[o];
    struct origin *g = &origin[o];
    int type = (int)vnadata_get_type(v);
    int rows = vnadata_get_rows(v), cols = vnadata_get_columns(v);
    int nf = vnadata_get_frequencies(v);

    g->valid = 0;
    if (type < 1 || type > 9 || rows != cols || rows < 1 || rows > OMAXN ||
	    nf < 1 || nf > OMAXF)
	return;
    g->type = type;
    g->n = rows;
    g->nf = nf;
    for (int f = 0; f < nf; ++f) {
	const double complex *m = LIB(vnadata_get_matrix(v, f));
	const double complex *z = LIB(vnadata_get_fz0_vector(v, f));

	if (m == NULL || z == NULL)
	    return;
	memcpy(g->m[f], m, (size_t)(rows * rows) * sizeof(double complex));
	memcpy(g->z0[f], z, (size_t)rows * sizeof(double complex));
    }
    g->valid = 1;
}

#define COND_MAX 1.0e3
#define TOL_REL  1.0e-8

/* dense, perfectly conditioned drive matrix (DFT with fixed row phases) */
static void fixed_drive(int n, double complex *drive)
{
    for (int k = 0; k < n; ++k) {
	for (int j = 0; j < n; ++j) {
	    drive[k * n + j] = cexp(I * (0.7 * (double)(k + 1) +
			6.283185307179586 * (double)(k * j) / (double)n));
	}
    }
}

/* relation observation: 1 holds, 0 violated, 2 undecidable */
static int rel_observe(int from_type, int n, int nf,
	double complex (*min)[OMAXN * OMAXN], double complex (*z0)[OMAXN],
	vnadata_t *out)
{
    int to_type = (int)vnadata_get_type(out);
    const rc_rel_t *rin = rc_relation(type_name(from_type), n);
    double complex drive[OMAXN * OMAXN];
    int decided = 0;

    if (rin == NULL || n < 1 || n > OMAXN || nf > OMAXF)
	return 2;
    fixed_drive(n, drive);
    for (int f = 0; f < nf; ++f) {
	const double complex *m = LIB(vnadata_get_matrix(out, f));
	rc_result_t res;

	if (m == NULL)
	    return 2;
	if (to_type == VPT_ZIN) {
	    if (vnadata_get_columns(out) != n)
		return 0;
	    rc_check_zin(rin, min[f], m, z0[f], COND_MAX, &res);
	} else {
	    const rc_rel_t *rout = rc_relation(type_name(to_type), n);

	    if (rout == NULL || vnadata_get_rows(out) != n ||
		    vnadata_get_columns(out) != n)
		return 2;
	    rc_check(rin, min[f], rout, m, z0[f], drive, COND_MAX, &res);
	}
	if (!res.decided)
	    continue;
	++decided;
	if (!(res.resid <= TOL_REL * fmax(1.0, res.cond))) {
	    if (getenv("VT_RELDEBUG") != NULL) {
		fprintf(stderr, "rel: %s->%s n=%d f=%d resid=%g cond=%g\n",
			type_name(from_type), type_name(to_type), n, f,
			res.resid, res.cond);
		for (int i = 0; i < n; ++i)
		    fprintf(stderr, "  z0[%d]=%g%+gi\n", i, creal(z0[f][i]),
			    cimag(z0[f][i]));
		for (int i = 0; i < n * n; ++i)
		    fprintf(stderr, "  in[%d]=%.17g%+.17gi\n", i,
			    creal(min[f][i]), cimag(min[f][i]));
		for (int i = 0; i < (to_type == VPT_ZIN ? n : n * n); ++i)
		    fprintf(stderr, "  out[%d]=%.17g%+.17gi\n", i,
			    creal(m[i]), cimag(m[i]));
	    }
	    return 0;
	}
    }
    return decided > 0 ? 1 : 2;
}

static int same_bits_or_close(const double complex *x, const double complex *y,
	int len)
{
    double scale = 0.0, d = 0.0;

    if (memcmp(x, y, (size_t)len * sizeof(double complex)) == 0)
	return 1;
    for (int i = 0; i < len; ++i) {
	if (!isfinite(creal(x[i])) || !isfinite(cimag(x[i])) ||
		!isfinite(creal(y[i])) || !isfinite(cimag(y[i])))
	    return 0;
	scale = fmax(scale, fmax(cabs(x[i]), cabs(y[i])));
	d = fmax(d, cabs(x[i] - y[i]));
    }
    return d <= 1.0e-10 * scale;
}

/* compare two objects through the getters, bit for bit */
static int same_projection(vnadata_t *a, vnadata_t *b)
{
    int rows = vnadata_get_rows(a), cols = vnadata_get_columns(a);
    int nf = vnadata_get_frequencies(a);
    int ports = rows > cols ? rows : cols;

    if (vnadata_get_type(a) != vnadata_get_type(b) ||
	    rows != vnadata_get_rows(b) || cols != vnadata_get_columns(b) ||
	    nf != vnadata_get_frequencies(b))
	return 0;
    for (int f = 0; f < nf; ++f) {
	double fa = LIB(vnadata_get_frequency(a, f));
	double fb = LIB(vnadata_get_frequency(b, f));

	if (memcmp(&fa, &fb, sizeof(fa)) != 0)
	    return 0;
	for (int r = 0; r < rows; ++r) {
	    for (int c = 0; c < cols; ++c) {
		double complex x = LIB(vnadata_get_cell(a, f, r, c));
		double complex y = LIB(vnadata_get_cell(b, f, r, c));

		if (memcmp(&x, &y, sizeof(x)) != 0)
		    return 0;
	    }
	}
	for (int p = 0; p < ports; ++p) {
	    double complex x = LIB(vnadata_get_fz0(a, f, p));
	    double complex y = LIB(vnadata_get_fz0(b, f, p));

	    if (memcmp(&x, &y, sizeof(x)) != 0)
		return 0;
	}
    }
    return 1;
}

/* ------------------------------------------------------------ execution */

static void vec_values(const op_t *op, double complex *out)
{
    for (int i = 0; i < op->nvec; ++i)
	out[i] = vals[op->vec[i]];
}

static void exec_convert(const op_t *op)
{
    vnadata_t *src = obj[op->o], *dst = obj[op->d];
    int inplace = op->o == op->d;
    int ftype = (int)vnadata_get_type(src);
    int rows = vnadata_get_rows(src), cols = vnadata_get_columns(src);
    int nf = vnadata_get_frequencies(src);
    const convrow_t *row = find_conv(type_name(ftype), type_name(op->t),
	    rows, cols);
    static double complex min[OMAXF][OMAXN * OMAXN], z0[OMAXF][OMAXN];
    int have_in = 0;
    int x_direct = 2, x_eq = 2, x_rel = 2, x_chain = 2;
    int zu_ids[OMAXF * OMAXN], zu_n = -1;	/* z0 handed to the direct call */
    outcome_t oc;
    int rv;

    /* copy of the input (matrices and per-frequency z0) before the call */
    if (rows == cols && rows <= OMAXN && nf <= OMAXF) {
	have_in = 1;
	for (int f = 0; f < nf && rows > 0; ++f) {
	    const double complex *m = LIB(vnadata_get_matrix(src, f));
	    const double complex *z = LIB(vnadata_get_fz0_vector(src, f));

	    if (m == NULL || z == NULL) {
		have_in = 0;
		break;
	    }
	    memcpy(min[f], m, (size_t)(rows * cols) * sizeof(double complex));
	    memcpy(z0[f], z, (size_t)rows * sizeof(double complex));
	}
	if (have_in && rows > 0) {
	    zu_n = 0;
	    for (int f = 0; f < nf; ++f) {
		for (int p2 = 0; p2 < rows; ++p2)
		    zu_ids[zu_n++] = intern(z0[f][p2]);
	    }
	}
    }
    /* in place: what an out-of-place conversion of the same input gives */
    if (inplace) {
	vt_cb_reset();
	if (LIB(vnadata_convert(src, scratch, (vnadata_parameter_type_t)op->t))
		== 0)
	    x_eq = 1;		/* provisional: compared after the call */
	else
	    x_eq = 3;		/* scratch conversion refused */
    }
    begin_call();
    rv = LIB(vnadata_convert(src, dst, (vnadata_parameter_type_t)op->t));
    end_int(&oc, rv);

    if (rv == 0) {
	if (inplace)
	    x_eq = (x_eq == 1 && same_projection(dst, scratch)) ? 1 : 0;
	if (op->t != ftype && have_in && row != NULL && row->legal) {
	    /* matchesDirectCall: the function named by the type letters */
	    const cr_entry_t *e2 = strcmp(row->fn2, "-") ? cr_find(row->fn2) : NULL;
	    const cr_entry_t *en = strcmp(row->fnn, "-") ? cr_find(row->fnn) : NULL;
	    int outlen = row->orows * row->ocols;

	    if ((e2 != NULL || en != NULL) &&
		    vnadata_get_rows(dst) == row->orows &&
		    vnadata_get_columns(dst) == row->ocols &&
		    vnadata_get_frequencies(dst) == nf) {
		x_direct = 1;
		for (int f = 0; f < nf && x_direct == 1; ++f) {
		    const double complex *got = LIB(vnadata_get_matrix(dst, f));
		    double complex want[OMAXN * OMAXN];
		    int m = 0;

		    if (outlen == 0)
			break;		/* no cell to compare */
		    if (got == NULL) {
			x_direct = 0;
			break;
		    }
		    if (en != NULL) {
			if (cr_takes_z0(en) != row->z0)
			    _exit(3);
			LIBV(cr_call(en, min[f], want, z0[f], rows));
			m = same_bits_or_close(got, want, outlen);
		    }
		    if (!m && e2 != NULL) {
			if (cr_takes_z0(e2) != row->z0)
			    _exit(3);
			LIBV(cr_call(e2, min[f], want, z0[f], rows));
			m = same_bits_or_close(got, want, outlen);
		    }
		    if (!m)
			x_direct = 0;
		}
	    } else if (e2 != NULL || en != NULL) {
		x_direct = 0;
	    }
	    if (ftype >= 1 && ftype <= 9)
		x_rel = rel_observe(ftype, rows, nf, min, z0, dst);
	}
	/* chain: against the origin the episode recorded for the source */
	if (origin[op->o].valid && op->t >= 1 && op->t <= 10 &&
		origin[op->o].nf == nf && op->t != origin[op->o].type) {
	    x_chain = rel_observe(origin[op->o].type, origin[op->o].n,
		    origin[op->o].nf, origin[op->o].m, origin[op->o].z0, dst);
	}
	if (!inplace) {
	    origin[op->d] = origin[op->o];
	}
	if (op->t == VPT_ZIN || op->t == VPT_UNDEF)
	    origin_invalidate(op->d);
    }
    vt_put("{\"e\":\"Convert\",\"o\":%d,\"d\":%d,\"to\":\"%s\",", op->o, op->d,
	    type_name(op->t));
    put_outcome(&oc);
    vt_put(",\"x\":{\"direct\":%d,\"eqOut\":%d,\"rel\":%d,\"chain\":%d,"
	    "\"zun\":%d,\"zu\":[", x_direct, x_eq, x_rel, x_chain,
	    zu_n >= 0 ? rows : -1);
    for (int i = 0; i < zu_n; ++i)
	vt_put("%s%d", i ? "," : "", zu_ids[i]);
    vt_put("]},");
    put_obs("obs", src);
    if (!inplace) {
	vt_put(",");
	put_obs("obs2", dst);
    }
    vt_put("}");
    vt_end_line();
}

static void exec_op(const op_t *op)
{
    vnadata_t *v = obj[op->o];
    outcome_t oc;
    double complex buf[MAXVEC];
    int ids[MAXVEC];
    int nids = -1;		/* -1: scalar val; >= 0: list val */
    int val = 0;
    int have_val = 0;
    int rows = vnadata_get_rows(v), cols = vnadata_get_columns(v);
    int nf = vnadata_get_frequencies(v);
    int ports = rows > cols ? rows : cols;

    if (op->kind == K_CONVERT) {
	exec_convert(op);
	return;
    }
    if (op->kind == K_ALLOCINIT) {
	/* vnadata_alloc_and_init on a temporary object */
	vnadata_t *t;

	begin_call();
	t = LIB(vnadata_alloc_and_init(vt_errfn, NULL,
		    (vnadata_parameter_type_t)op->t, op->a[0], op->a[1],
		    op->a[2]));
	end_ptr(&oc, t, 1);
	vt_put("{\"e\":\"AllocInit\",\"o\":%d,\"t\":\"%s\",\"r\":%d,\"c\":%d,"
		"\"n\":%d,", op->o, type_name(op->t), op->a[0], op->a[1],
		op->a[2]);
	put_outcome(&oc);
	vt_put(",\"got\":%d", t != NULL);
	if (t != NULL) {
	    vt_put(",");
	    put_obs("obs", t);
	    LIBV(vnadata_free(t));
	}
	vt_put("}");
	vt_end_line();
	return;
    }
    memset(&oc, 0, sizeof(oc));
    begin_call();
    switch (op->kind) {
    case K_INIT:
	end_int(&oc, LIB(vnadata_init(v, (vnadata_parameter_type_t)op->t,
			op->a[0], op->a[1], op->a[2])));
	origin_invalidate(op->o);
	break;
    case K_RESIZE:
	end_int(&oc, LIB(vnadata_resize(v, (vnadata_parameter_type_t)op->t,
			op->a[0], op->a[1], op->a[2])));
	origin_invalidate(op->o);
	break;
    case K_SETTYPE:
	end_int(&oc, LIB(vnadata_set_type(v, (vnadata_parameter_type_t)op->t)));
	origin_invalidate(op->o);
	break;
    case K_ADDFREQ:
	end_int(&oc, LIB(vnadata_add_frequency(v, creal(vals[op->v]))));
	origin_invalidate(op->o);
	break;
    case K_SETFREQ:
	end_int(&oc, LIB(vnadata_set_frequency(v, op->a[0],
			creal(vals[op->v]))));
	break;
    case K_GETFREQ:
	{
	    double d = LIB(vnadata_get_frequency(v, op->a[0]));

	    end_num(&oc, d);
	    val = intern(d);
	    have_val = 1;
	}
	break;
    case K_SETFREQVEC:
	{
	    double dv[MAXVEC];

	    for (int i = 0; i < op->nvec; ++i)
		dv[i] = creal(vals[op->vec[i]]);
	    end_int(&oc, LIB(vnadata_set_frequency_vector(v, dv)));
	}
	break;
    case K_GETFREQVEC:
	{
	    const double *p = LIB(vnadata_get_frequency_vector(v));

	    end_ptr(&oc, p, nf);
	    nids = 0;
	    if (p != NULL) {
		for (int i = 0; i < nf && i < MAXVEC; ++i)
		    ids[nids++] = intern(p[i]);
	    }
	}
	break;
    case K_GETFMIN:
    case K_GETFMAX:
	{
	    double d = op->kind == K_GETFMIN ? LIB(vnadata_get_fmin(v)) :
		LIB(vnadata_get_fmax(v));

	    end_num(&oc, d);
	    val = intern(d);
	    have_val = 1;
	}
	break;
    case K_SETCELL:
	end_int(&oc, LIB(vnadata_set_cell(v, op->a[0], op->a[1], op->a[2],
			vals[op->v])));
	origin_invalidate(op->o);
	break;
    case K_GETCELL:
	{
	    double complex z = LIB(vnadata_get_cell(v, op->a[0], op->a[1],
			op->a[2]));

	    end_num(&oc, z);
	    val = intern(z);
	    have_val = 1;
	}
	break;
    case K_SETMATRIX:
	vec_values(op, buf);
	end_int(&oc, LIB(vnadata_set_matrix(v, op->a[0], buf)));
	origin_invalidate(op->o);
	break;
    case K_GETMATRIX:
	{
	    const double complex *p = LIB(vnadata_get_matrix(v, op->a[0]));

	    end_ptr(&oc, p, (op->a[0] >= 0 && op->a[0] < nf) ?
		    rows * cols : 1);
	    nids = 0;
	    if (p != NULL && oc.ok == 1) {
		for (int i = 0; i < rows * cols && i < MAXVEC; ++i)
		    ids[nids++] = intern(p[i]);
	    }
	}
	break;
    case K_SETFROMVEC:
	vec_values(op, buf);
	end_int(&oc, LIB(vnadata_set_from_vector(v, op->a[0], op->a[1], buf)));
	origin_invalidate(op->o);
	break;
    case K_GETTOVEC:
	{
	    int rv;

	    for (int i = 0; i < MAXVEC; ++i)
		buf[i] = -777.0;
	    rv = LIB(vnadata_get_to_vector(v, op->a[0], op->a[1], buf));
	    end_int(&oc, rv);
	    nids = 0;
	    if (rv == 0) {
		for (int i = 0; i < nf && i < MAXVEC; ++i)
		    ids[nids++] = intern(buf[i]);
	    }
	}
	break;
    case K_GETZ0:
	{
	    double complex z = LIB(vnadata_get_z0(v, op->a[0]));

	    end_num(&oc, z);
	    val = intern(z);
	    have_val = 1;
	}
	break;
    case K_SETZ0:
	end_int(&oc, LIB(vnadata_set_z0(v, op->a[0], vals[op->v])));
	origin_invalidate(op->o);
	break;
    case K_GETZ0VEC:
	{
	    const double complex *p = LIB(vnadata_get_z0_vector(v));

	    end_ptr(&oc, p, ports);
	    nids = 0;
	    if (p != NULL) {
		for (int i = 0; i < ports && i < MAXVEC; ++i)
		    ids[nids++] = intern(p[i]);
	    }
	}
	break;
    case K_SETZ0VEC:
	vec_values(op, buf);
	end_int(&oc, LIB(vnadata_set_z0_vector(v, buf)));
	origin_invalidate(op->o);
	break;
    case K_SETALLZ0:
	end_int(&oc, LIB(vnadata_set_all_z0(v, vals[op->v])));
	origin_invalidate(op->o);
	break;
    case K_HASFZ0:
	{
	    bool b = LIB(vnadata_has_fz0(v));

	    oc.err = errno;
	    oc.cb = vt_cb;
	    oc.ok = 1;
	    val = b ? 1 : 0;
	    have_val = 1;
	}
	break;
    case K_GETFZ0:
	{
	    double complex z = LIB(vnadata_get_fz0(v, op->a[0], op->a[1]));

	    end_num(&oc, z);
	    val = intern(z);
	    have_val = 1;
	}
	break;
    case K_SETFZ0:
	end_int(&oc, LIB(vnadata_set_fz0(v, op->a[0], op->a[1], vals[op->v])));
	origin_invalidate(op->o);
	break;
    case K_GETFZ0VEC:
	{
	    const double complex *p = LIB(vnadata_get_fz0_vector(v, op->a[0]));
	    int fz = vnadata_has_fz0(v);
	    int inr = op->a[0] >= 0 && op->a[0] < nf;

	    end_ptr(&oc, p, (inr || !fz) ? ports : 1);
	    nids = 0;
	    if (p != NULL) {
		for (int i = 0; i < ports && i < MAXVEC; ++i)
		    ids[nids++] = intern(p[i]);
	    }
	}
	break;
    case K_SETFZ0VEC:
	vec_values(op, buf);
	end_int(&oc, LIB(vnadata_set_fz0_vector(v, op->a[0], buf)));
	origin_invalidate(op->o);
	break;
    case K_SETFILETYPE:
	end_int(&oc, LIB(vnadata_set_filetype(v,
			(vnadata_filetype_t)op->a[0])));
	break;
    case K_SETFPREC:
	end_int(&oc, LIB(vnadata_set_fprecision(v, op->a[0])));
	break;
    case K_SETDPREC:
	end_int(&oc, LIB(vnadata_set_dprecision(v, op->a[0])));
	break;
    case K_SETFORMAT:
	end_int(&oc, LIB(vnadata_set_format(v, op->text)));
	break;
    default:
	_exit(3);
    }

    vt_put("{\"e\":\"%s\",\"o\":%d,", kind_names[op->kind], op->o);
    switch (op->kind) {
    case K_INIT:
    case K_RESIZE:
	vt_put("\"t\":\"%s\",\"r\":%d,\"c\":%d,\"n\":%d,", type_name(op->t),
		op->a[0], op->a[1], op->a[2]);
	break;
    case K_SETTYPE:
	vt_put("\"t\":\"%s\",", type_name(op->t));
	break;
    case K_ADDFREQ:
    case K_SETALLZ0:
	vt_put("\"v\":%d,", op->v);
	break;
    case K_SETFREQ:
	vt_put("\"f\":%d,\"v\":%d,", op->a[0], op->v);
	break;
    case K_GETFREQ:
    case K_GETMATRIX:
    case K_GETFZ0VEC:
	vt_put("\"f\":%d,", op->a[0]);
	break;
    case K_GETFMIN:
    case K_GETFMAX:
	{
	    /* is the frequency vector in ascending order? (the manual
	     * speaks of the lowest / highest frequency) */
	    int asc = 1;

	    for (int f = 1; f < nf; ++f) {
		if (!(LIB(vnadata_get_frequency(v, f - 1)) <=
			    LIB(vnadata_get_frequency(v, f))))
		    asc = 0;
	    }
	    vt_put("\"asc\":%d,", asc);
	}
	break;
    case K_SETFREQVEC:
    case K_SETZ0VEC:
	put_ids("vec", op->vec, op->nvec);
	vt_put(",");
	break;
    case K_SETCELL:
	vt_put("\"f\":%d,\"r\":%d,\"c\":%d,\"v\":%d,", op->a[0], op->a[1],
		op->a[2], op->v);
	break;
    case K_GETCELL:
	vt_put("\"f\":%d,\"r\":%d,\"c\":%d,", op->a[0], op->a[1], op->a[2]);
	break;
    case K_SETMATRIX:
    case K_SETFZ0VEC:
	vt_put("\"f\":%d,", op->a[0]);
	put_ids("vec", op->vec, op->nvec);
	vt_put(",");
	break;
    case K_SETFROMVEC:
	vt_put("\"r\":%d,\"c\":%d,", op->a[0], op->a[1]);
	put_ids("vec", op->vec, op->nvec);
	vt_put(",");
	break;
    case K_GETTOVEC:
	vt_put("\"r\":%d,\"c\":%d,", op->a[0], op->a[1]);
	break;
    case K_GETZ0:
	vt_put("\"p\":%d,", op->a[0]);
	break;
    case K_SETZ0:
	vt_put("\"p\":%d,\"v\":%d,", op->a[0], op->v);
	break;
    case K_GETFZ0:
	vt_put("\"f\":%d,\"p\":%d,", op->a[0], op->a[1]);
	break;
    case K_SETFZ0:
	vt_put("\"f\":%d,\"p\":%d,\"v\":%d,", op->a[0], op->a[1], op->v);
	break;
    case K_SETFILETYPE:
	vt_put("\"ft\":\"%s\",", ft_name(op->a[0]));
	break;
    case K_SETFPREC:
    case K_SETDPREC:
	vt_put("\"n\":%d,", op->a[0]);
	break;
    case K_SETFORMAT:
	vt_put("\"valid\":%d,", op->valid);
	put_ids("fmt", op->vec, op->nvec);
	vt_put(",");
	break;
    default:
	break;
    }
    put_outcome(&oc);
    if (nids >= 0) {
	vt_put(",");
	put_ids("val", ids, nids);
    } else {
	vt_put(",\"val\":%d", have_val ? val : 0);
    }
    vt_put(",");
    put_obs("obs", v);
    vt_put("}");
    vt_end_line();
}

/* --------------------------------------------------------- case frame */

static void begin_case(const char *fmt, ...)
{
    va_list ap;
    char id[160];

    va_start(ap, fmt);
    vsnprintf(id, sizeof(id), fmt, ap);
    va_end(ap);
    intern_reset();
    fresh_counter = 0;
    for (int i = 0; i < NOBJ; ++i) {
	obj[i] = LIB(vnadata_alloc(vt_errfn, NULL));
	origin[i].valid = 0;
    }
    scratch = LIB(vnadata_alloc(vt_errfn, NULL));
    if (obj[0] == NULL || obj[1] == NULL || scratch == NULL)
	_exit(3);
    vt_put("{\"e\":\"Reset\",\"case\":\"%s\"}", id);
    vt_end_line();
}

static void end_case(void)
{
    vt_put("{\"e\":\"End\",");
    put_obs("obs0", obj[0]);
    vt_put(",");
    put_obs("obs1", obj[1]);
    for (int i = 0; i < NOBJ; ++i)
	LIBV(vnadata_free(obj[i]));
    LIBV(vnadata_free(scratch));
    vt_put(",\"live\":%ld}", vt_alloc_live);
    vt_end_line();
}

/* ------------------------------------------------- op construction */

static void op_clear(op_t *op, int kind, int o)
{
    memset(op, 0, sizeof(*op));
    op->kind = kind;
    op->o = o;
    op->d = o;
}

/* vector arguments are sized from the object as it is now */
static void op_fill_vec(op_t *op, int real_only)
{
    vnadata_t *v = obj[op->o];
    int rows = vnadata_get_rows(v), cols = vnadata_get_columns(v);
    int nf = vnadata_get_frequencies(v);
    int ports = rows > cols ? rows : cols;
    int n = 0;

    switch (op->kind) {
    case K_SETFREQVEC:	n = nf; break;
    case K_SETMATRIX:	n = rows * cols; break;
    case K_SETFROMVEC:	n = nf; break;
    case K_SETZ0VEC:
    case K_SETFZ0VEC:	n = ports; break;
    default:		return;
    }
    if (n > MAXVEC)
	n = MAXVEC;
    op->nvec = n;
    for (int i = 0; i < n; ++i)
	op->vec[i] = real_only ? fresh_real() : fresh_value();
}

/* ---- templates: "Name args"; integer args may be symbolic ---- */

static int resolve(const char *tok, int o)
{
    vnadata_t *v = obj[o];
    int rows = vnadata_get_rows(v), cols = vnadata_get_columns(v);
    int nf = vnadata_get_frequencies(v);
    int ports = rows > cols ? rows : cols;
    int base;
    const char *rest;

    if (strncmp(tok, "nf", 2) == 0) {
	base = nf;
	rest = tok + 2;
    } else if (tok[0] == 'r') {
	base = rows;
	rest = tok + 1;
    } else if (tok[0] == 'c') {
	base = cols;
	rest = tok + 1;
    } else if (tok[0] == 'p') {
	base = ports;
	rest = tok + 1;
    } else {
	return atoi(tok);
    }
    if (*rest == '+' || *rest == '-')
	base += atoi(rest);
    return base;
}

static int kind_by_name(const char *s)
{
    for (int i = 0; i < K_NKINDS; ++i) {
	if (strcmp(s, kind_names[i]) == 0)
	    return i;
    }
    return -1;
}

static int tmpl_type(const char *tok, int o, int salt)
{
    int t = type_by_name(tok);

    if (t == T_SAME)
	return (int)vnadata_get_type(obj[o]);
    if (t == T_BAD)
	return bad_type_value(salt);
    return t;
}

/* build an executable op from a template string (o = default object) */
static void op_from_template(const char *tmpl, op_t *op, int salt)
{
    char buf[128];
    char *tok[8];
    int nt = 0;

    snprintf(buf, sizeof(buf), "%s", tmpl);
    for (char *p = strtok(buf, " "); p != NULL && nt < 8; p = strtok(NULL, " "))
	tok[nt++] = p;
    op_clear(op, kind_by_name(tok[0]), 0);
    if (op->kind < 0) {
	fprintf(stderr, "bad template %s\n", tmpl);
	_exit(3);
    }
    switch (op->kind) {
    case K_INIT:
    case K_RESIZE:
    case K_ALLOCINIT:
	op->t = tmpl_type(tok[1], 0, salt);
	for (int i = 0; i < 3; ++i)
	    op->a[i] = resolve(tok[2 + i], 0);
	break;
    case K_SETTYPE:
	op->t = tmpl_type(tok[1], 0, salt);
	break;
    case K_ADDFREQ:
    case K_SETALLZ0:
	op->v = atoi(tok[1] + 1);
	break;
    case K_SETFREQ:
	op->a[0] = resolve(tok[1], 0);
	op->v = atoi(tok[2] + 1);
	break;
    case K_GETFREQ:
    case K_GETMATRIX:
    case K_GETFZ0VEC:
    case K_GETZ0:
	op->a[0] = resolve(tok[1], 0);
	break;
    case K_SETCELL:
	for (int i = 0; i < 3; ++i)
	    op->a[i] = resolve(tok[1 + i], 0);
	op->v = atoi(tok[4] + 1);
	break;
    case K_GETCELL:
	for (int i = 0; i < 3; ++i)
	    op->a[i] = resolve(tok[1 + i], 0);
	break;
    case K_SETMATRIX:
    case K_SETFZ0VEC:
	op->a[0] = resolve(tok[1], 0);
	op_fill_vec(op, 0);
	break;
    case K_SETFROMVEC:
	op->a[0] = resolve(tok[1], 0);
	op->a[1] = resolve(tok[2], 0);
	op_fill_vec(op, 0);
	break;
    case K_GETTOVEC:
    case K_GETFZ0:
	op->a[0] = resolve(tok[1], 0);
	op->a[1] = resolve(tok[2], 0);
	break;
    case K_SETZ0:
	op->a[0] = resolve(tok[1], 0);
	op->v = atoi(tok[2] + 1);
	break;
    case K_SETFZ0:
	op->a[0] = resolve(tok[1], 0);
	op->a[1] = resolve(tok[2], 0);
	op->v = atoi(tok[3] + 1);
	break;
    case K_SETFREQVEC:
	op_fill_vec(op, 1);
	break;
    case K_SETZ0VEC:
	op_fill_vec(op, 0);
	break;
    case K_SETFILETYPE:
    case K_SETFPREC:
    case K_SETDPREC:
	op->a[0] = atoi(tok[1]);
	break;
    case K_CONVERT:
	op->o = atoi(tok[1]);
	op->d = atoi(tok[2]);
	op->t = tmpl_type(tok[3], op->o, salt);
	break;
    default:
	break;
    }
}

static void run_template(const char *tmpl, int salt)
{
    op_t op;

    op_from_template(tmpl, &op, salt);
    exec_op(&op);
}

/* fill every frequency, cell (and optionally impedance) with distinct values */
static void fill_object(int o, int zmode)	/* zmode 0 none 1 z0 2 fz0 */
{
    vnadata_t *v = obj[o];
    int nf = vnadata_get_frequencies(v);
    op_t op;

    op_clear(&op, K_SETFREQVEC, o);
    op_fill_vec(&op, 1);
    exec_op(&op);
    for (int f = 0; f < nf; ++f) {
	op_clear(&op, K_SETMATRIX, o);
	op.a[0] = f;
	op_fill_vec(&op, 0);
	exec_op(&op);
    }
    if (zmode == 1) {
	op_clear(&op, K_SETZ0VEC, o);
	op_fill_vec(&op, 0);
	exec_op(&op);
    } else if (zmode == 2) {
	for (int f = 0; f < nf; ++f) {
	    op_clear(&op, K_SETFZ0VEC, o);
	    op.a[0] = f;
	    op_fill_vec(&op, 0);
	    exec_op(&op);
	}
    }
}

/* ----------------------------------------------- exhaustive alphabets */

static const char *prefixes[][3] = {
    { NULL, NULL, NULL },
    { "Init S 2 2 2", "fill 1", NULL },
    { "Init - 3 2 2", "fill 2", NULL },
    { "Init ZIN 1 3 1", "fill 0", NULL },
    { "Init T 2 2 1", "fill 1", NULL },
    { "Init - 0 0 1", "SetFZ0Vec 0", NULL },
    { "Init Z 3 3 2", "fill 2", NULL },
};
#define N_PREFIX ((int)(sizeof(prefixes) / sizeof(prefixes[0])))

static const char *alpha_full[] = {
    "Init S 2 2 2", "Init - 3 2 1", "Init ZIN 1 3 2", "Init T 3 3 1",
    "Init S 0 0 0", "Init BAD 1 1 1", "Init - 1 1 -1",
    "Resize same r c nf+1", "Resize same r c nf-1", "Resize - r+1 c nf",
    "Resize - r-1 c nf", "Resize - r c+1 nf", "Resize - r c-1 nf",
    "Resize - 0 0 0", "Resize S 2 3 1", "Resize BAD r c nf",
    "Resize - 3 3 3", "Resize - c r nf", "Resize S 1 1 1",
    "SetType Z", "SetType T", "SetType ZIN", "SetType -", "SetType BAD",
    "AddFreq v2", "SetFreq nf-1 v3", "SetFreq nf v3", "SetFreq -1 v3",
    "GetFreq nf", "GetFreq -1", "SetFreqVec", "GetFreqVec",
    "SetCell 0 0 0 v6", "SetCell nf-1 r-1 c-1 v7", "SetCell nf 0 0 v6",
    "SetCell 0 r 0 v6", "SetCell 0 0 c v6", "SetCell 0 -1 0 v6",
    "SetCell 0 0 c+1 v6", "GetCell nf 0 0", "GetCell 0 r 0", "GetCell 0 0 c",
    "GetCell -1 0 0", "SetMatrix 0", "SetMatrix nf", "GetMatrix nf",
    "GetMatrix nf-1", "SetFromVec r-1 c-1", "SetFromVec r 0", "GetToVec 0 c",
    "GetToVec 0 0",
    "GetZ0 0", "GetZ0 p", "GetZ0 p-1", "GetZ0 -1",
    "SetZ0 0 v4", "SetZ0 p-1 v8", "SetZ0 p v4", "SetZ0 p+1 v4", "SetZ0 -1 v4",
    "SetAllZ0 v4", "SetZ0Vec", "GetZ0Vec", "HasFz0",
    "SetFZ0 0 0 v8", "SetFZ0 nf-1 p-1 v10", "SetFZ0 nf 0 v4", "SetFZ0 0 p v4",
    "SetFZ0 -1 0 v4", "SetFZ0 0 p+1 v4",
    "GetFZ0 nf 0", "GetFZ0 0 p", "GetFZ0 0 -1", "GetFZ0 nf-1 p-1",
    "SetFZ0Vec 0", "SetFZ0Vec nf-1", "SetFZ0Vec nf", "GetFZ0Vec nf",
    "GetFZ0Vec 0",
    "Convert 0 0 ZIN", "Convert 0 0 Z", "Convert 0 0 S", "Convert 0 0 T",
    "Convert 0 1 ZIN", "Convert 0 1 Y", "Convert 0 0 BAD", "Convert 1 0 S",
    "Convert 0 0 same", "Convert 0 1 same",
    "AllocInit S 2 2 1", "AllocInit T 1 1 1",
};
#define N_FULL ((int)(sizeof(alpha_full) / sizeof(alpha_full[0])))

static const char *alpha_core[] = {
    "Init S 2 2 2", "Init - 3 2 1",
    "Resize same r c nf+1", "Resize same r c nf-1", "Resize - r+1 c nf",
    "Resize - r-1 c nf", "Resize - r c+1 nf", "Resize - r c-1 nf",
    "Resize - 0 0 0", "Resize - 3 3 3", "Resize S 1 1 1",
    "SetType Z", "SetType ZIN", "AddFreq v2",
    "SetCell nf-1 r-1 c-1 v7", "SetCell nf 0 0 v6", "SetCell 0 r 0 v6",
    "SetMatrix 0", "SetFromVec r-1 c-1",
    "GetZ0 p", "SetZ0 p-1 v8", "SetZ0 p v4", "SetAllZ0 v4", "SetZ0Vec",
    "SetFZ0 nf-1 p-1 v10", "SetFZ0 0 p v4", "SetFZ0 nf 0 v4", "GetFZ0 0 p",
    "SetFZ0Vec nf-1", "SetFZ0Vec nf",
    "Convert 0 0 ZIN", "Convert 0 0 Z", "Convert 0 0 S", "Convert 0 1 ZIN",
    "Convert 1 0 S",
};
#define N_CORE ((int)(sizeof(alpha_core) / sizeof(alpha_core[0])))

static void run_prefix(int k)
{
    for (int i = 0; i < 3 && prefixes[k][i] != NULL; ++i) {
	if (strncmp(prefixes[k][i], "fill ", 5) == 0)
	    fill_object(0, atoi(prefixes[k][i] + 5));
	else
	    run_template(prefixes[k][i], 0);
    }
}

static long ipow(long b, int e)
{
    long r = 1;

    while (e-- > 0)
	r *= b;
    return r;
}

static void run_exh(const char *mode, int depth, long from, long to)
{
    const char **alpha = strcmp(mode, "exh") == 0 ? alpha_full : alpha_core;
    int na = strcmp(mode, "exh") == 0 ? N_FULL : N_CORE;

    for (long c = from; c < to; ++c) {
	long x = c / N_PREFIX;

	begin_case("%s:%d:%ld", mode, depth, c);
	run_prefix((int)(c % N_PREFIX));
	for (int d = 0; d < depth; ++d) {
	    run_template(alpha[x % na], (int)c + d);
	    x /= na;
	}
	end_case();
    }
}

/* ------------------------------------------------------ random histories */

static int pick_index(vt_rng_t *r, int n)
{
    int k = vt_below(r, 100);

    if (k < 55 && n > 0)
	return vt_below(r, n);
    switch (vt_below(r, 5)) {
    case 0:  return -1;
    case 1:  return 0;
    case 2:  return n - 1;
    case 3:  return n;
    default: return n + 1;
    }
}

static int pick_value(vt_rng_t *r)
{
    int k = vt_below(r, 10);

    if (k < 6)
	return vt_below(r, N_FIXED);
    if (k < 8 && nvals > 0)
	return vt_below(r, nvals);
    return fresh_value();
}

static int pick_real(vt_rng_t *r)
{
    if (vt_below(r, 4) == 0)
	return fresh_real();
    return real_ids[vt_below(r, N_REAL)];
}

static int pick_type(vt_rng_t *r, int rows, int cols)
{
    int k = vt_below(r, 100);

    if (k < 6)
	return bad_type_value(vt_below(r, 3));
    if (k < 45) {
	/* a type that fits the dimensions */
	int cand[11], n = 0;

	cand[n++] = VPT_UNDEF;
	if (rows == cols) {
	    cand[n++] = VPT_S;
	    cand[n++] = VPT_Z;
	    cand[n++] = VPT_Y;
	}
	if (rows == 2 && cols == 2) {
	    for (int t = VPT_T; t <= VPT_B; ++t) {
		if (t != VPT_Z && t != VPT_Y)
		    cand[n++] = t;
	    }
	}
	if (rows == 1)
	    cand[n++] = VPT_ZIN;
	return cand[vt_below(r, n)];
    }
    return vt_below(r, 11);
}

static int pick_dim(vt_rng_t *r, int maxd)
{
    int k = vt_below(r, 20);

    if (k == 0)
	return -1;
    return vt_below(r, maxd + 1);
}

static const char *valid_specs[] = {
    "S", "Sri", "sma", "SdB", "T", "Tma", "tdb", "U", "Uri", "UDB", "Z",
    "Zri", "zMA", "Y", "Yma", "H", "hri", "G", "Gma", "A", "Ari", "B", "bma",
    "Zin", "ZINri", "zinma", "PRC", "prl", "Src", "SRL", "IL", "rl", "VSWR",
    "vswr", "il", "sdb",
};
#define N_VSPEC ((int)(sizeof(valid_specs) / sizeof(valid_specs[0])))
static const char *invalid_specs[] = {
    "Q", "Sxx", "Zindb", "SriX", "S;T", "ril", "prx", "vsw", "zi", "Smag",
    "12", "S-ri", "S\x7f", "S\xc3\xa9", "\xe2\x82\xac",
};
#define N_ISPEC ((int)(sizeof(invalid_specs) / sizeof(invalid_specs[0])))

static void random_format(vt_rng_t *r, op_t *op)
{
    int n = 1 + vt_below(r, 4);
    int bad_at = vt_below(r, 3) == 0 ? vt_below(r, n) : -1;
    size_t len = 0;

    op->valid = bad_at < 0;
    op->nvec = 0;
    op->text[0] = '\0';
    for (int i = 0; i < n; ++i) {
	const char *s;

	if (i == bad_at) {
	    s = invalid_specs[vt_below(r, N_ISPEC)];
	} else {
	    s = valid_specs[vt_below(r, N_VSPEC)];
	    op->vec[op->nvec++] = fmt_id(s, strlen(s));
	}
	len += (size_t)snprintf(op->text + len, sizeof(op->text) - len, "%s%s",
		i ? "," : "", s);
    }
    /* an empty field is not a specifier */
    if (bad_at < 0 && vt_below(r, 12) == 0 && len + 2 < sizeof(op->text)) {
	strcat(op->text, vt_below(r, 2) ? ",," : ",");
	strcat(op->text, "S");
	if (strstr(op->text, ",,") != NULL)
	    op->valid = 0;
	else
	    op->vec[op->nvec++] = fmt_id("S", 1);
    }
    if (!op->valid)
	op->nvec = 0;
}

static void random_op(vt_rng_t *r, op_t *op, int maxd, int maxf)
{
    int o = vt_below(r, 4) == 0 ? 1 : 0;
    vnadata_t *v = obj[o];
    int rows = vnadata_get_rows(v), cols = vnadata_get_columns(v);
    int nf = vnadata_get_frequencies(v);
    int ports = rows > cols ? rows : cols;
    int k = vt_below(r, 1000);

    if (k < 8) {
	op_clear(op, K_ALLOCINIT, o);
	op->a[0] = pick_dim(r, maxd);
	op->a[1] = vt_below(r, 3) ? op->a[0] : pick_dim(r, maxd);
	op->a[2] = pick_dim(r, maxf);
	op->t = pick_type(r, op->a[0], op->a[1]);
    } else if (k < 40) {
	op_clear(op, K_INIT, o);
	op->a[0] = pick_dim(r, maxd);
	op->a[1] = vt_below(r, 3) ? op->a[0] : pick_dim(r, maxd);
	op->a[2] = pick_dim(r, maxf);
	op->t = pick_type(r, op->a[0], op->a[1]);
    } else if (k < 200) {
	op_clear(op, K_RESIZE, o);
	switch (vt_below(r, 6)) {
	case 0:
	    op->a[0] = rows; op->a[1] = cols; op->a[2] = pick_dim(r, maxf);
	    break;
	case 1:
	    op->a[0] = pick_dim(r, maxd); op->a[1] = cols; op->a[2] = nf;
	    break;
	case 2:
	    op->a[0] = rows; op->a[1] = pick_dim(r, maxd); op->a[2] = nf;
	    break;
	case 3:
	    op->a[0] = op->a[1] = pick_dim(r, maxd); op->a[2] = nf;
	    break;
	default:
	    op->a[0] = pick_dim(r, maxd); op->a[1] = pick_dim(r, maxd);
	    op->a[2] = pick_dim(r, maxf);
	    break;
	}
	op->t = vt_below(r, 3) == 0 ? (int)vnadata_get_type(v) :
	    pick_type(r, op->a[0], op->a[1]);
    } else if (k < 230) {
	op_clear(op, K_SETTYPE, o);
	op->t = pick_type(r, rows, cols);
    } else if (k < 260) {
	op_clear(op, K_ADDFREQ, o);
	op->v = pick_real(r);
	if (nf >= maxf + 2)
	    op_clear(op, K_HASFZ0, o);
    } else if (k < 290) {
	op_clear(op, K_SETFREQ, o);
	op->a[0] = pick_index(r, nf);
	op->v = pick_real(r);
    } else if (k < 310) {
	op_clear(op, K_GETFREQ, o);
	op->a[0] = pick_index(r, nf);
    } else if (k < 330) {
	op_clear(op, K_SETFREQVEC, o);
	op->nvec = nf;
	for (int i = 0; i < nf; ++i)
	    op->vec[i] = pick_real(r);
    } else if (k < 345) {
	op_clear(op, K_GETFREQVEC, o);
    } else if (k < 355) {
	op_clear(op, vt_below(r, 2) ? K_GETFMIN : K_GETFMAX, o);
    } else if (k < 430) {
	op_clear(op, K_SETCELL, o);
	op->a[0] = pick_index(r, nf);
	op->a[1] = pick_index(r, rows);
	op->a[2] = pick_index(r, cols);
	op->v = pick_value(r);
    } else if (k < 470) {
	op_clear(op, K_GETCELL, o);
	op->a[0] = pick_index(r, nf);
	op->a[1] = pick_index(r, rows);
	op->a[2] = pick_index(r, cols);
    } else if (k < 500) {
	op_clear(op, K_SETMATRIX, o);
	op->a[0] = pick_index(r, nf);
	op->nvec = rows * cols;
	for (int i = 0; i < op->nvec; ++i)
	    op->vec[i] = pick_value(r);
    } else if (k < 520) {
	op_clear(op, K_GETMATRIX, o);
	op->a[0] = pick_index(r, nf);
    } else if (k < 545) {
	op_clear(op, K_SETFROMVEC, o);
	op->a[0] = pick_index(r, rows);
	op->a[1] = pick_index(r, cols);
	op->nvec = nf;
	for (int i = 0; i < nf; ++i)
	    op->vec[i] = pick_value(r);
    } else if (k < 565) {
	op_clear(op, K_GETTOVEC, o);
	op->a[0] = pick_index(r, rows);
	op->a[1] = pick_index(r, cols);
    } else if (k < 595) {
	op_clear(op, K_GETZ0, o);
	op->a[0] = pick_index(r, ports);
    } else if (k < 640) {
	op_clear(op, K_SETZ0, o);
	op->a[0] = pick_index(r, ports);
	op->v = pick_value(r);
    } else if (k < 655) {
	op_clear(op, K_GETZ0VEC, o);
    } else if (k < 680) {
	op_clear(op, K_SETZ0VEC, o);
	op->nvec = ports;
	for (int i = 0; i < ports; ++i)
	    op->vec[i] = pick_value(r);
    } else if (k < 700) {
	op_clear(op, K_SETALLZ0, o);
	op->v = pick_value(r);
    } else if (k < 710) {
	op_clear(op, K_HASFZ0, o);
    } else if (k < 740) {
	op_clear(op, K_GETFZ0, o);
	op->a[0] = pick_index(r, nf);
	op->a[1] = pick_index(r, ports);
    } else if (k < 800) {
	op_clear(op, K_SETFZ0, o);
	op->a[0] = pick_index(r, nf);
	op->a[1] = pick_index(r, ports);
	op->v = pick_value(r);
    } else if (k < 815) {
	op_clear(op, K_GETFZ0VEC, o);
	op->a[0] = pick_index(r, nf);
    } else if (k < 850) {
	op_clear(op, K_SETFZ0VEC, o);
	op->a[0] = pick_index(r, nf);
	op->nvec = ports;
	for (int i = 0; i < ports; ++i)
	    op->vec[i] = pick_value(r);
    } else if (k < 860) {
	static const int fts[] = { 0, 1, 2, 3, -1, 4, 99 };

	op_clear(op, K_SETFILETYPE, o);
	op->a[0] = fts[vt_below(r, 7)];
    } else if (k < 875) {
	static const int precs[] = { -1, 0, 1, 6, 7, 17, 1000, 3 };

	op_clear(op, vt_below(r, 2) ? K_SETFPREC : K_SETDPREC, o);
	op->a[0] = precs[vt_below(r, 8)];
    } else if (k < 900) {
	op_clear(op, K_SETFORMAT, o);
	random_format(r, op);
    } else {
	op_clear(op, K_CONVERT, o);
	op->d = vt_below(r, 2) ? o : 1 - o;
	if (vt_below(r, 2))
	    op->t = VPT_ZIN - vt_below(r, 11);
	else
	    op->t = pick_type(r, rows, cols);
    }
}

static void run_rand(uint64_t seed, long from, long to, int len)
{
    for (long c = from; c < to; ++c) {
	vt_rng_t r;
	int maxd = (c % 4 == 3) ? 4 : 3;
	int maxf = (c % 4 == 3) ? 4 : 3;

	vt_seed(&r, seed * 1000003ull + (uint64_t)c);
	begin_case("rand:%llu:%ld:%d", (unsigned long long)seed, c, len);
	if (c % 16 == 5) {
	    /* allocation growth: many frequencies added one by one, the
	     * impedance mode switched on the way, then shrink and regrow */
	    op_t op;
	    int many = 60 + vt_below(&r, 80);

	    run_template(vt_below(&r, 2) ? "Init S 1 1 0" : "Init - 1 2 0", 0);
	    for (int i = 0; i < many; ++i) {
		op_clear(&op, K_ADDFREQ, 0);
		op.v = fresh_real();
		exec_op(&op);
		if (i == 3 || i == 57)
		    run_template("SetFZ0 nf-1 0 v8", 0);
		if (i == 30)
		    run_template("SetZ0 0 v4", 0);
		if (i % 9 == 0)
		    run_template("SetCell nf-1 0 c-1 v7", 0);
	    }
	    run_template("Resize same r c 2", 0);
	    run_template("Resize same r c 70", 0);
	    run_template("Resize - 2 2 nf", 0);
	    end_case();
	    continue;
	}
	for (int i = 0; i < len; ++i) {
	    op_t op;

	    random_op(&r, &op, maxd, maxf);
	    exec_op(&op);
	}
	end_case();
    }
}

/* ------------------------------------------- C05: table-driven conversions */

static double complex cgauss(vt_rng_t *r, double scale)
{
    return scale * (vt_normal(r) + I * vt_normal(r));
}

static double complex rand_z0(vt_rng_t *r, int cls)
{
    if (cls == 0)
	return 20.0 + 130.0 * vt_unit(r);
    return 10.0 + 140.0 * vt_unit(r) + I * (160.0 * vt_unit(r) - 80.0);
}

/* fill object o with a random well-scaled network of its own type */
static void conv_fill_ex(vt_rng_t *r, int o, int fzmode, int set_z0);
static void conv_fill(vt_rng_t *r, int o, int fzmode)
{
    conv_fill_ex(r, o, fzmode, 1);
}

/* set_z0 = 0: keep the impedances the object answers with (the network is
 * built for them) and only give it new frequencies and matrices */
static void conv_fill_ex(vt_rng_t *r, int o, int fzmode, int set_z0)
{
    vnadata_t *v = obj[o];
    int type = (int)vnadata_get_type(v);
    int rows = vnadata_get_rows(v), cols = vnadata_get_columns(v);
    int nf = vnadata_get_frequencies(v);
    int ports = rows > cols ? rows : cols;
    double complex z0[OMAXF + 1][OMAXN + 2];
    op_t op;

    op_clear(&op, K_SETFREQVEC, o);
    op_fill_vec(&op, 1);
    exec_op(&op);
    /* impedances first (the network is built for them) */
    for (int f = 0; f < (fzmode ? nf : 1); ++f) {
	for (int p = 0; p < ports && p < OMAXN + 2; ++p)
	    z0[f][p] = rand_z0(r, 1);
    }
    if (!set_z0) {
	for (int f = 0; f < nf && f <= OMAXF; ++f) {
	    for (int p = 0; p < ports && p < OMAXN + 2; ++p)
		z0[fzmode ? f : 0][p] = LIB(vnadata_get_fz0(v, f, p));
	}
    } else if (!fzmode) {
	op_clear(&op, K_SETZ0VEC, o);
	op.nvec = ports;
	for (int p = 0; p < ports; ++p)
	    op.vec[p] = intern(z0[0][p]);
	exec_op(&op);
    } else {
	for (int f = 0; f < nf; ++f) {
	    op_clear(&op, K_SETFZ0VEC, o);
	    op.a[0] = f;
	    op.nvec = ports;
	    for (int p = 0; p < ports; ++p)
		op.vec[p] = intern(z0[f][p]);
	    exec_op(&op);
	}
    }
    for (int f = 0; f < nf; ++f) {
	double complex m[OMAXN * OMAXN + 16];
	int cells = rows * cols;
	const double complex *zf = z0[fzmode ? f : 0];

	for (int i = 0; i < cells; ++i)
	    m[i] = cgauss(r, 0.45);
	if (type >= 2 && type <= 9 && rows == cols && rows >= 1 &&
		rows <= OMAXN) {
	    /* the same network expressed in the object's type, built from
	     * the definitions (natural scaling, away from singular sets) */
	    const rc_rel_t *rs = rc_relation("S", rows);
	    const rc_rel_t *rt = rc_relation(type_name(type), rows);
	    double complex drive[OMAXN * OMAXN], s[OMAXN * OMAXN],
			   t[OMAXN * OMAXN];

	    fixed_drive(rows, drive);
	    for (int tries = 0; tries < 30 && rs != NULL && rt != NULL;
		    ++tries) {
		for (int i = 0; i < cells; ++i)
		    s[i] = cgauss(r, 0.45);
		if (rc_reference(rs, s, rt, t, zf, drive) <= 1.0e3) {
		    memcpy(m, t, (size_t)cells * sizeof(double complex));
		    break;
		}
	    }
	}
	op_clear(&op, K_SETMATRIX, o);
	op.a[0] = f;
	op.nvec = cells;
	for (int i = 0; i < cells; ++i)
	    op.vec[i] = intern(m[i]);
	exec_op(&op);
    }
}

/*
 * shrink and regrow object o in one call each: kind 0 ports and frequencies
 * together, 1 ports only, 2 frequencies only.  The regrown impedances,
 * frequencies and cells must read 50 ohm / 0 / 0 whatever was there before.
 */
static void shrink_regrow(vt_rng_t *r, int o, int kind)
{
    vnadata_t *v = obj[o];
    int rows = vnadata_get_rows(v), cols = vnadata_get_columns(v);
    int nf = vnadata_get_frequencies(v);
    int type = (int)vnadata_get_type(v);
    int dp = 1 + vt_below(r, 2), df = 1 + vt_below(r, 2);
    op_t op;

    op_clear(&op, K_RESIZE, o);
    op.t = VPT_UNDEF;
    op.a[0] = kind == 2 ? rows : (rows - dp > 0 ? rows - dp : 0);
    op.a[1] = kind == 2 ? cols : (cols - dp > 0 ? cols - dp : 0);
    op.a[2] = kind == 1 ? nf : (nf - df > 0 ? nf - df : 0);
    exec_op(&op);
    op_clear(&op, K_RESIZE, o);
    op.t = type;
    op.a[0] = rows;
    op.a[1] = cols;
    op.a[2] = nf;
    exec_op(&op);
}

static const int conv_nfs[3] = { 0, 1, 3 };
#define CONV_VARIANTS 12	/* z0 mode x in-place x nf */

static void run_conv(uint64_t seed, long from, long to)
{
    for (long c = from; c < to; ++c) {
	const convrow_t *row = &convtab[c / CONV_VARIANTS];
	int var = (int)(c % CONV_VARIANTS);
	int fzmode = var & 1, inplace = (var >> 1) & 1, nf = conv_nfs[var >> 2];
	int ftype = type_by_name(row->from);
	int ttype = type_by_name(row->to);
	vt_rng_t r;
	op_t op;
	int res;

	vt_seed(&r, seed * 7919ull + (uint64_t)c);
	begin_case("conv:%llu:%ld", (unsigned long long)seed, c);
	op_clear(&op, K_INIT, 0);
	op.t = ftype;
	op.a[0] = row->rows;
	op.a[1] = row->cols;
	op.a[2] = nf;
	exec_op(&op);
	conv_fill(&r, 0, fzmode);
	if (c % 2 == 0 && nf > 0 && row->rows > 0) {
	    /* the source went through a shrink / regrow before: whatever
	     * the vacated entries held must not come back */
	    shrink_regrow(&r, 0, (int)((c / 2) % 3));
	    conv_fill_ex(&r, 0, fzmode, 0);
	}
	origin_take(0);
	if (!inplace) {
	    /* destination with unrelated content in the other mode */
	    run_template("Convert 0 1 same", 0);	/* exercised: plain copy */
	    op_clear(&op, K_INIT, 1);
	    op.t = VPT_UNDEF;
	    op.a[0] = 2;
	    op.a[1] = 3;
	    op.a[2] = 2;
	    exec_op(&op);
	    fill_object(1, fzmode ? 1 : 2);
	}
	op_clear(&op, K_CONVERT, 0);
	op.d = inplace ? 0 : 1;
	op.t = ttype == T_BAD ? bad_type_value((int)c) : ttype;
	exec_op(&op);
	res = op.d;
	/* tail: expose what a resize shows, then convert on */
	for (int i = 0; i < 4; ++i) {
	    vnadata_t *v = obj[res];
	    int rows = vnadata_get_rows(v), cols = vnadata_get_columns(v);
	    int cnf = vnadata_get_frequencies(v);
	    int ct = (int)vnadata_get_type(v);

	    switch (i == 0 ? 0 : vt_below(&r, 7)) {
	    case 6:	/* touch one impedance (may switch the mode), convert */
		op_clear(&op, vt_below(&r, 2) ? K_SETFZ0 : K_SETZ0, res);
		if (op.kind == K_SETFZ0) {
		    op.a[0] = pick_index(&r, cnf);
		    op.a[1] = pick_index(&r, rows > cols ? rows : cols);
		} else {
		    op.a[0] = pick_index(&r, rows > cols ? rows : cols);
		}
		op.v = intern(rand_z0(&r, 1));
		exec_op(&op);
		op_clear(&op, K_CONVERT, res);
		op.t = pick_type(&r, rows, cols);
		exec_op(&op);
		break;
	    case 5:	/* shrink and regrow, then convert what is left */
		shrink_regrow(&r, res, vt_below(&r, 3));
		op_clear(&op, K_CONVERT, res);
		op.t = pick_type(&r, rows, cols);
		exec_op(&op);
		break;
	    case 0:		/* grow as UNDEF, then back */
		op_clear(&op, K_RESIZE, res);
		op.t = VPT_UNDEF;
		op.a[0] = rows + 1 + vt_below(&r, 2);
		op.a[1] = cols + vt_below(&r, 2);
		op.a[2] = cnf + 1;
		exec_op(&op);
		op_clear(&op, K_RESIZE, res);
		op.t = ct;
		op.a[0] = rows;
		op.a[1] = cols;
		op.a[2] = cnf;
		exec_op(&op);
		break;
	    case 1:		/* convert in place to a random type */
		op_clear(&op, K_CONVERT, res);
		op.t = vt_below(&r, 11);
		exec_op(&op);
		break;
	    case 2:		/* convert into the other object */
		op_clear(&op, K_CONVERT, res);
		op.d = 1 - res;
		op.t = 1 + vt_below(&r, 10);
		exec_op(&op);
		if (vt_below(&r, 2))
		    res = 1 - res;
		break;
	    case 3:		/* a legal matrix type for the shape */
		op_clear(&op, K_CONVERT, res);
		op.t = pick_type(&r, rows, cols);
		exec_op(&op);
		break;
	    default:	/* touch the impedance mode */
		op_clear(&op, K_GETFZ0, res);
		op.a[0] = pick_index(&r, cnf);
		op.a[1] = pick_index(&r, rows > cols ? rows : cols);
		exec_op(&op);
		break;
	    }
	}
	end_case();
    }
}

/* ------------------------------------------------------------------ main */

int main(int argc, char **argv)
{
    const char *tp = getenv("VT_TRACE");

    if (argc < 4) {
	fprintf(stderr, "usage: %s TABLE count MODE [DEPTH] | TABLE exh|exhc "
		"DEPTH FROM TO | TABLE rand SEED FROM TO LEN | "
		"TABLE conv SEED FROM TO\n", argv[0]);
	return 3;
    }
    if (load_conv(argv[1]) != 0 || rc_load(argv[1]) != 0)
	return 3;
    if (strcmp(argv[2], "count") == 0) {
	if (strcmp(argv[3], "exh") == 0 && argc >= 5)
	    printf("%ld\n", N_PREFIX * ipow(N_FULL, atoi(argv[4])));
	else if (strcmp(argv[3], "exhc") == 0 && argc >= 5)
	    printf("%ld\n", N_PREFIX * ipow(N_CORE, atoi(argv[4])));
	else if (strcmp(argv[3], "conv") == 0)
	    printf("%d\n", nconv * CONV_VARIANTS);
	else if (strcmp(argv[3], "alpha") == 0)
	    printf("%d %d %d\n", N_FULL, N_CORE, N_PREFIX);
	else
	    return 3;
	return 0;
    }
    vt_open(tp != NULL ? tp : "-");
    vt_install_crash_handlers();
    if ((strcmp(argv[2], "exh") == 0 || strcmp(argv[2], "exhc") == 0) &&
	    argc >= 6) {
	run_exh(argv[2], atoi(argv[3]), atol(argv[4]), atol(argv[5]));
	return 0;
    }
    if (strcmp(argv[2], "rand") == 0 && argc >= 7) {
	run_rand(strtoull(argv[3], NULL, 10), atol(argv[4]), atol(argv[5]),
		atoi(argv[6]));
	return 0;
    }
    if (strcmp(argv[2], "conv") == 0 && argc >= 6) {
	run_conv(strtoull(argv[3], NULL, 10), atol(argv[4]), atol(argv[5]));
	return 0;
    }
    return 3;
}
