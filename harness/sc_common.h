/*
 * sc_common.h -- helpers shared by the self-calibration / measurement-error
 * drivers (drv_selfcal.c for C02, drv_merror.c for C18).
 *
 * A scenario is a set of calibration standards described *physically*: which
 * VNA ports the standard connects, which S cells are given to the library and
 * through which kind of parameter (predefined constant, known scalar, unknown
 * with a guess, correlated), and the true value of every cell.  The readings
 * the "VNA" takes of each standard come from etermsim (the independent error
 * network simulator); nothing here uses libvna's T/U algebra.
 *
 * Everything is static: each driver is a single translation unit.
 */
#ifndef SC_COMMON_H
#define SC_COMMON_H

#include <complex.h>
#include <errno.h>
#include <math.h>
#include <signal.h>
#include <stdio.h>
#include <stdlib.h>
#include <string.h>
#include <unistd.h>
#include <vnacal.h>
#include <vnadata.h>
#include "vt.h"
#include "etermsim.h"

#define SC_MAXP		3	/* ports */
#define SC_MAXF		5	/* calibration frequencies */
#define SC_MAXSTD	24
#define SC_MAXPAR	48

/* ------------------------------------------------------------ parameters */

typedef enum { SCP_PREDEF, SCP_SCALAR, SCP_UNKNOWN, SCP_CORR, SCP_VECTOR }
    sc_pkind_t;

#define SC_MAXKNOT	16	/* points of a known vector parameter */

typedef struct sc_par {
    sc_pkind_t kind;
    int handle;			/* library handle (or predefined constant) */
    int guess_handle;		/* SCP_UNKNOWN: handle of the guess */
    int other;			/* SCP_CORR: index of the correlate */
    double sigma;		/* SCP_CORR */
    int vector_guess;		/* guess given as a vector parameter */
    double complex truth[SC_MAXF];
    double complex guess[SC_MAXF];
    /* truth as a function of frequency (sc_truth_at), so that the same
     * parameters can be measured again on another frequency grid */
    double complex t0, drift;	/* unknown: t0 + drift (f / 1 GHz - 1) */
    double v_mag, v_turn, v_slope;	/* known vector: see sc_truth_at */
    int vn;			/* known vector: points, own grid */
    double vf[SC_MAXKNOT];
    double complex vv[SC_MAXKNOT];
} sc_par_t;

/* ------------------------------------------------------------- standards */

typedef enum { SCS_SINGLE, SCS_DOUBLE, SCS_THROUGH, SCS_LINE, SCS_MAPPED }
    sc_shape_t;

typedef struct sc_std {
    sc_shape_t shape;
    int sp;			/* ports of the standard */
    int port[SC_MAXP];		/* VNA port (1-based) of each standard port */
    int cell[SC_MAXP * SC_MAXP];/* sp x sp parameter indices */
    double complex term[SC_MAXP];/* what sits on the VNA ports not used */
    double scale;		/* noise / outlier control, see sc_measure */
    int outlier;		/* this standard is off by `off` sigma */
} sc_std_t;

typedef struct sc_scn {
    ets_type_t type;
    int rows, cols, P;
    int nf;
    double f[SC_MAXF];
    etsim_t e[SC_MAXF];
    int npar;
    sc_par_t par[SC_MAXPAR];
    int nstd;
    sc_std_t std[SC_MAXSTD];
    int ab;			/* give a and b instead of m */
    char kit[8];		/* order in which the parameters are created */
    /* measurement noise actually added to the readings (C18) */
    double noise_nf[SC_MAXF], noise_tr[SC_MAXF];
    double outlier_sigmas;
    vt_rng_t noise_rng;
} sc_scn_t;

static vnacal_type_t sc_libtype(ets_type_t t)
{
    switch (t) {
    case ETS_T8:	return VNACAL_T8;
    case ETS_U8:	return VNACAL_U8;
    case ETS_TE10:	return VNACAL_TE10;
    case ETS_UE10:	return VNACAL_UE10;
    case ETS_T16:	return VNACAL_T16;
    case ETS_U16:	return VNACAL_U16;
    case ETS_UE14:	return VNACAL_UE14;
    default:		return VNACAL_E12;
    }
}

static int sc_type_by_name(const char *s)
{
    for (int t = 0; t <= ETS_E12; ++t) {
	if (strcmp(s, ets_type_name((ets_type_t)t)) == 0)
	    return t;
    }
    return -1;
}

static void sc_init(sc_scn_t *sc, ets_type_t type, int rows, int cols, int nf,
	vt_rng_t *rng, double strength)
{
    etsim_t e0, e1;

    memset(sc, 0, sizeof(*sc));
    sc->type = type;
    sc->rows = rows;
    sc->cols = cols;
    sc->P = rows > cols ? rows : cols;
    sc->nf = nf;
    for (int k = 0; k < nf; ++k)
	sc->f[k] = 1.0e9 * (1.0 + k);
    ets_random(&e0, type, rows, cols, rng, strength);
    ets_random(&e1, type, rows, cols, rng, strength);
    for (int k = 0; k < nf; ++k)
	ets_at_frequency(&e0, &e1, nf > 1 ? 0.3 * k / (nf - 1) : 0.0,
		&sc->e[k]);
    /* predefined constants */
    sc->par[0].kind = SCP_PREDEF;
    sc->par[0].handle = VNACAL_MATCH;
    sc->par[1].kind = SCP_PREDEF;
    sc->par[1].handle = VNACAL_OPEN;
    sc->par[2].kind = SCP_PREDEF;
    sc->par[2].handle = VNACAL_SHORT;
    for (int k = 0; k < SC_MAXF; ++k) {
	sc->par[0].truth[k] = 0.0;
	sc->par[1].truth[k] = 1.0;
	sc->par[2].truth[k] = -1.0;
    }
    sc->npar = 3;
}
#define SC_MATCH 0
#define SC_OPEN  1
#define SC_SHORT 2
#define SC_ZERO  0
#define SC_ONE   1

static int sc_add_par(sc_scn_t *sc)
{
    if (sc->npar >= SC_MAXPAR) {
	fprintf(stderr, "sc_common: too many parameters\n");
	_exit(3);
    }
    memset(&sc->par[sc->npar], 0, sizeof(sc_par_t));
    sc->par[sc->npar].handle = -1;
    sc->par[sc->npar].guess_handle = -1;
    return sc->npar++;
}

static int sc_scalar(sc_scn_t *sc, double complex v)
{
    int i = sc_add_par(sc);

    sc->par[i].kind = SCP_SCALAR;
    sc->par[i].t0 = v;
    for (int k = 0; k < SC_MAXF; ++k)
	sc->par[i].truth[k] = v;
    return i;
}

/* unknown with the given truth at the first frequency (drifting a little
 * over frequency) and a guess at distance <= radius from truth */
static int sc_unknown(sc_scn_t *sc, vt_rng_t *rng, double complex truth,
	double radius, int vector_guess)
{
    int i = sc_add_par(sc);
    double complex drift = ets_cunit_disc(rng, 0.05);
    double complex off = ets_cunit_disc(rng, radius);

    sc->par[i].kind = SCP_UNKNOWN;
    sc->par[i].t0 = truth;
    sc->par[i].drift = drift;
    sc->par[i].vector_guess = vector_guess && sc->nf > 1;
    for (int k = 0; k < SC_MAXF; ++k) {
	sc->par[i].truth[k] = truth + drift * k;
	if (sc->par[i].vector_guess)
	    sc->par[i].guess[k] = sc->par[i].truth[k] + off;
	else			/* one scalar guess for all frequencies */
	    sc->par[i].guess[k] = truth + off * 0.5;
    }
    return i;
}

/* parameter correlated with `other`; its truth is the truth of `other`
 * (perfectly repeatable connection), so that the exact data have a
 * zero-residual solution */
static int sc_corr(sc_scn_t *sc, int other, double sigma)
{
    int i = sc_add_par(sc);

    sc->par[i].kind = SCP_CORR;
    sc->par[i].other = other;
    sc->par[i].sigma = sigma;
    for (int k = 0; k < SC_MAXF; ++k) {
	sc->par[i].truth[k] = sc->par[other].truth[k];
	sc->par[i].guess[k] = sc->par[other].guess[k];
    }
    return i;
}

/*
 * sc_truth_at: true value of parameter i at frequency f.  Unknowns drift
 * linearly with frequency; a known vector parameter is a spiral
 * v_mag (1 - v_slope x) exp(j v_turn x), x = f / 1 GHz, i.e. strongly
 * frequency dependent; correlated parameters follow their correlate.
 */
static double complex sc_truth_at(const sc_scn_t *sc, int i, double f)
{
    const sc_par_t *p = &sc->par[i];
    const double x = f / 1.0e9;

    switch (p->kind) {
    case SCP_UNKNOWN:
	return p->t0 + p->drift * (x - 1.0);
    case SCP_CORR:
	return sc_truth_at(sc, p->other, f);
    case SCP_VECTOR:
	return p->v_mag * (1.0 - p->v_slope * x) *
	    (cos(p->v_turn * x) + I * sin(p->v_turn * x));
    case SCP_PREDEF:
	return p->truth[0];
    default:
	return p->t0;
    }
}

/*
 * sc_known_vector: known parameter given to the library as a vector on its
 * own grid.  The grid holds the listed frequencies (every frequency the
 * parameter will ever be evaluated at: the library interpolates between
 * points by a rational function the manual does not pin down, at the points
 * it returns the given values) plus points below, between and above.
 */
static int sc_known_vector(sc_scn_t *sc, vt_rng_t *rng, const double *fs,
	int nfs)
{
    int i = sc_add_par(sc);
    sc_par_t *p = &sc->par[i];
    double all[SC_MAXKNOT];
    int n = 0;

    p->kind = SCP_VECTOR;
    p->v_mag = 0.5 + 0.4 * vt_unit(rng);
    p->v_turn = (1.0 + 1.5 * vt_unit(rng)) * (vt_below(rng, 2) ? 1 : -1);
    p->v_slope = 0.05 + 0.1 * vt_unit(rng);
    all[n++] = 0.25e9;
    all[n++] = 0.6e9;
    for (int k = 0; k < nfs && n < SC_MAXKNOT - 2; ++k)
	all[n++] = fs[k];
    all[n++] = 3.7e9;
    all[n++] = 4.5e9;
    /* sort, drop duplicates */
    for (int a = 1; a < n; ++a) {
	double v = all[a];
	int b = a - 1;

	while (b >= 0 && all[b] > v) {
	    all[b + 1] = all[b];
	    --b;
	}
	all[b + 1] = v;
    }
    p->vn = 0;
    for (int a = 0; a < n; ++a) {
	if (p->vn == 0 || all[a] > p->vf[p->vn - 1] * (1.0 + 1e-9))
	    p->vf[p->vn++] = all[a];
    }
    for (int a = 0; a < p->vn; ++a)
	p->vv[a] = sc_truth_at(sc, i, p->vf[a]);
    for (int k = 0; k < SC_MAXF; ++k)
	p->truth[k] = sc_truth_at(sc, i, sc->f[k]);
    return i;
}

/*
 * sc_retune: the same standards and parameters on another frequency grid
 * (another instrument state: new error networks); truths re-evaluated.
 */
static void sc_retune(sc_scn_t *sc, vt_rng_t *rng, int nf, const double *f,
	double strength)
{
    etsim_t e0, e1;

    sc->nf = nf;
    for (int k = 0; k < nf; ++k)
	sc->f[k] = f[k];
    ets_random(&e0, sc->type, sc->rows, sc->cols, rng, strength);
    ets_random(&e1, sc->type, sc->rows, sc->cols, rng, strength);
    for (int k = 0; k < nf; ++k)
	ets_at_frequency(&e0, &e1, nf > 1 ? 0.3 * k / (nf - 1) : 0.0,
		&sc->e[k]);
    for (int i = 0; i < sc->npar; ++i) {
	if (sc->par[i].kind == SCP_PREDEF)
	    continue;
	for (int k = 0; k < nf; ++k)
	    sc->par[i].truth[k] = sc_truth_at(sc, i, f[k]);
    }
}

static sc_std_t *sc_new_std(sc_scn_t *sc, sc_shape_t shape, int sp,
	vt_rng_t *rng)
{
    sc_std_t *s;

    if (sc->nstd >= SC_MAXSTD) {
	fprintf(stderr, "sc_common: too many standards\n");
	_exit(3);
    }
    s = &sc->std[sc->nstd++];
    memset(s, 0, sizeof(*s));
    s->shape = shape;
    s->sp = sp;
    for (int i = 0; i < SC_MAXP * SC_MAXP; ++i)
	s->cell[i] = -1;
    /* the VNA ports the standard does not use see arbitrary (constant)
     * terminations; no signal path to the ports under test */
    for (int p = 0; p < SC_MAXP; ++p)
	s->term[p] = rng != NULL ? ets_cunit_disc(rng, 0.2) : 0.0;
    return s;
}

static void sc_single(sc_scn_t *sc, vt_rng_t *rng, int port, int s11)
{
    sc_std_t *s = sc_new_std(sc, SCS_SINGLE, 1, rng);

    s->port[0] = port;
    s->cell[0] = s11;
}

static void sc_double(sc_scn_t *sc, vt_rng_t *rng, int port1, int port2,
	int s11, int s22)
{
    sc_std_t *s = sc_new_std(sc, SCS_DOUBLE, 2, rng);

    s->port[0] = port1;
    s->port[1] = port2;
    s->cell[0] = s11;
    s->cell[1] = SC_ZERO;
    s->cell[2] = SC_ZERO;
    s->cell[3] = s22;
}

static void sc_through(sc_scn_t *sc, vt_rng_t *rng, int port1, int port2)
{
    sc_std_t *s = sc_new_std(sc, SCS_THROUGH, 2, rng);

    s->port[0] = port1;
    s->port[1] = port2;
    s->cell[0] = SC_ZERO;
    s->cell[1] = SC_ONE;
    s->cell[2] = SC_ONE;
    s->cell[3] = SC_ZERO;
}

static void sc_line(sc_scn_t *sc, vt_rng_t *rng, int port1, int port2,
	int s11, int s12, int s21, int s22)
{
    sc_std_t *s = sc_new_std(sc, SCS_LINE, 2, rng);

    s->port[0] = port1;
    s->port[1] = port2;
    s->cell[0] = s11;
    s->cell[1] = s12;
    s->cell[2] = s21;
    s->cell[3] = s22;
}

/* full P x P standard through the mapped-matrix entry (identity map) */
static sc_std_t *sc_mapped(sc_scn_t *sc, vt_rng_t *rng)
{
    sc_std_t *s = sc_new_std(sc, SCS_MAPPED, sc->P, rng);

    for (int p = 0; p < sc->P; ++p)
	s->port[p] = p + 1;
    return s;
}

/* random fully known P x P standard (scalar parameters) */
static void sc_mapped_random(sc_scn_t *sc, vt_rng_t *rng, double radius)
{
    sc_std_t *s = sc_mapped(sc, rng);

    for (int i = 0; i < sc->P * sc->P; ++i)
	s->cell[i] = sc_scalar(sc, ets_cunit_disc(rng, radius));
}

/* --------------------------------------------------------- true S / M */

/* full P x P true S matrix of standard s at frequency index k */
static void sc_true_s(const sc_scn_t *sc, const sc_std_t *s, int k,
	double complex *sfull)
{
    const int P = sc->P;
    int used[SC_MAXP] = { 0 };

    for (int i = 0; i < P * P; ++i)
	sfull[i] = 0.0;
    for (int i = 0; i < s->sp; ++i)
	used[s->port[i] - 1] = 1;
    for (int p = 0; p < P; ++p) {
	if (!used[p])
	    sfull[p * P + p] = s->term[p];
    }
    for (int i = 0; i < s->sp; ++i) {
	for (int j = 0; j < s->sp; ++j) {
	    int ci = s->cell[i * s->sp + j];

	    if (ci >= 0)
		sfull[(s->port[i] - 1) * P + (s->port[j] - 1)] =
		    sc->par[ci].truth[k];
	}
    }
}

/*
 * sc_measure: readings of standard s at frequency k: rows x cols M.  When
 * the scenario declares noise, Gaussian noise with E|n|^2 = nf^2 + tr^2 |m|^2
 * is added to every cell (times s->scale); an outlier standard is moved by
 * outlier_sigmas standard deviations in every cell.
 */
static int sc_measure(sc_scn_t *sc, const sc_std_t *s, int k,
	double complex *m)
{
    double complex sfull[SC_MAXP * SC_MAXP];

    sc_true_s(sc, s, k, sfull);
    if (ets_measure(&sc->e[k], sfull, m) != 0)
	return -1;
    for (int i = 0; i < sc->rows * sc->cols; ++i) {
	double var = sc->noise_nf[k] * sc->noise_nf[k] +
	    sc->noise_tr[k] * sc->noise_tr[k] * creal(m[i] * conj(m[i]));
	double sd = sqrt(var);

	if (sd > 0.0 && s->scale != 0.0)
	    m[i] += s->scale * ets_cnormal(&sc->noise_rng, sd);
	if (s->outlier && sd > 0.0) {
	    double ph = 6.283185307179586 * vt_unit(&sc->noise_rng);

	    m[i] += sc->outlier_sigmas * sd * (cos(ph) + I * sin(ph));
	}
    }
    return 0;
}

/* ------------------------------------------------------ library binding */

/* create the library parameters; returns 0 or -1 (errno from the library) */
/* create parameter i (and first what it depends on); `pair`: make every
 * parameter occupy two consecutive handles (an unused scalar first where the
 * parameter needs only one) */
static int sc_make_one(sc_scn_t *sc, vnacal_t *vcp, int i, char *made,
	int pair)
{
    sc_par_t *p = &sc->par[i];

    if (made[i] || p->kind == SCP_PREDEF)
	return 0;
    made[i] = 1;
    if (p->kind == SCP_CORR && sc_make_one(sc, vcp, p->other, made, pair) != 0)
	return -1;
    if (pair && p->kind != SCP_UNKNOWN &&
	    LIB(vnacal_make_scalar_parameter(vcp, 0.123)) < 0)
	return -1;
    switch (p->kind) {
    case SCP_SCALAR:
	p->handle = LIB(vnacal_make_scalar_parameter(vcp, p->truth[0]));
	break;
    case SCP_VECTOR:
	p->handle = LIB(vnacal_make_vector_parameter(vcp, p->vf, p->vn,
		    p->vv));
	break;
    case SCP_UNKNOWN:
	if (p->vector_guess)
	    p->guess_handle = LIB(vnacal_make_vector_parameter(vcp, sc->f,
			sc->nf, p->guess));
	else
	    p->guess_handle = LIB(vnacal_make_scalar_parameter(vcp,
			p->guess[0]));
	if (p->guess_handle < 0)
	    return -1;
	p->handle = LIB(vnacal_make_unknown_parameter(vcp, p->guess_handle));
	break;
    case SCP_CORR:
	p->handle = LIB(vnacal_make_correlated_parameter(vcp,
		    sc->par[p->other].handle, NULL, 1, &p->sigma));
	break;
    default:
	break;
    }
    return p->handle < 0 ? -1 : 0;
}

/*
 * sc_make_params: create the library parameters -- the "cal kit" of the
 * scenario -- in the order sc->kit names, which decouples handle numbers
 * from the order of use (parameter table index = order of first use):
 *   "use" (or empty)  in order of use
 *   "rev"  in the opposite order
 *   "hi8"  (nine or more parameters) the one used first is created ninth,
 *          the one used second first, the third tenth, ..., and every
 *          parameter occupies two handles: handles sixteen apart are used
 *          high before low
 *   "pad"  in order of use after thirteen parameters that stay unused, so
 *          that the handles in use start at sixteen
 * What a parameter depends on (the correlate of a correlated parameter) is
 * created before it in every order.  Returns 0 or -1 (errno from the
 * library).
 */
static int sc_make_params(sc_scn_t *sc, vnacal_t *vcp)
{
    int unit[SC_MAXPAR], order[SC_MAXPAR], n = 0;
    char made[SC_MAXPAR] = { 0 }, used[SC_MAXPAR] = { 0 };
    int pair = 0;

    for (int i = 0; i < sc->npar; ++i) {
	if (sc->par[i].kind != SCP_PREDEF) {
	    sc->par[i].guess_handle = -1;
	    sc->par[i].handle = -1;
	    unit[n++] = i;
	}
    }
    for (int q = 0; q < n; ++q)
	order[q] = q;
    if (strcmp(sc->kit, "rev") == 0) {
	for (int q = 0; q < n; ++q)
	    order[q] = n - 1 - q;
    } else if (strcmp(sc->kit, "hi8") == 0 && n >= 9) {
	int lo = 0, hi = 8;

	pair = 1;
	for (int d = 0; d < n; ++d) {
	    int q = -1;

	    if (d % 2 == 0) {
		while (hi < n && used[hi])
		    ++hi;
		if (hi < n)
		    q = hi;
	    }
	    if (q < 0) {
		while (used[lo])
		    ++lo;
		q = lo;
	    }
	    used[q] = 1;
	    order[q] = d;
	}
    } else if (strcmp(sc->kit, "pad") == 0) {
	for (int i = 0; i < 13; ++i) {
	    if (LIB(vnacal_make_scalar_parameter(vcp, 0.01 * (i + 1))) < 0)
		return -1;
	}
    }
    for (int q = 0; q < n; ++q) {
	if (sc_make_one(sc, vcp, unit[order[q]], made, pair) != 0)
	    return -1;
    }
    return 0;
}

/* delete the handles made above (the vnacal_new_t keeps its own holds) */
static void sc_delete_params(sc_scn_t *sc, vnacal_t *vcp)
{
    for (int i = sc->npar - 1; i >= 0; --i) {
	sc_par_t *p = &sc->par[i];

	if (p->kind == SCP_PREDEF)
	    continue;
	if (p->handle >= 0)
	    (void)LIB(vnacal_delete_parameter(vcp, p->handle));
	if (p->guess_handle >= 0)
	    (void)LIB(vnacal_delete_parameter(vcp, p->guess_handle));
	p->handle = p->guess_handle = -1;
    }
}

/* measurement buffers of one standard: vectors over frequency per cell */
typedef struct sc_mbuf {
    double complex mv[SC_MAXP * SC_MAXP][SC_MAXF];
    double complex av[SC_MAXP * SC_MAXP][SC_MAXF];
    double complex *m[SC_MAXP * SC_MAXP];
    double complex *a[SC_MAXP * SC_MAXP];
    int a_rows, a_cols;
} sc_mbuf_t;

/* fill mb from per-frequency M matrices (rows x cols); in a/b form mb->m
 * holds b and mb->a holds a */
static void sc_fill_mbuf(sc_scn_t *sc, sc_mbuf_t *mb, int rows, int cols,
	const double complex (*mk)[SC_MAXP * SC_MAXP], vt_rng_t *rng)
{
    for (int i = 0; i < SC_MAXP * SC_MAXP; ++i) {
	mb->m[i] = mb->mv[i];
	mb->a[i] = mb->av[i];
    }
    mb->a_rows = ets_column_systems(sc->type) ? 1 : cols;
    mb->a_cols = cols;
    for (int k = 0; k < sc->nf; ++k) {
	if (!sc->ab) {
	    for (int i = 0; i < rows * cols; ++i)
		mb->mv[i][k] = mk[k][i];
	} else {
	    double complex a[SC_MAXP * SC_MAXP], b[SC_MAXP * SC_MAXP];
	    etsim_t e = sc->e[k];

	    e.rows = rows;
	    e.cols = cols;
	    ets_make_ab(&e, mk[k], rng, a, b);
	    for (int i = 0; i < rows * cols; ++i)
		mb->mv[i][k] = b[i];
	    for (int i = 0; i < mb->a_rows * mb->a_cols; ++i)
		mb->av[i][k] = a[i];
	}
    }
}

/* add standard si to vnp through the entry point of its shape, with the
 * full rows x cols measurement matrix.  Returns the library's return. */
static int sc_add_std(sc_scn_t *sc, vnacal_new_t *vnp, int si, vt_rng_t *rng)
{
    sc_std_t *s = &sc->std[si];
    double complex mk[SC_MAXF][SC_MAXP * SC_MAXP];
    sc_mbuf_t mb;
    int h[SC_MAXP * SC_MAXP];
    const int R = sc->rows, C = sc->cols;

    for (int k = 0; k < sc->nf; ++k) {
	if (sc_measure(sc, s, k, mk[k]) != 0) {
	    errno = ERANGE;
	    return -2;
	}
    }
    sc_fill_mbuf(sc, &mb, R, C, mk, rng);
    for (int i = 0; i < s->sp * s->sp; ++i)
	h[i] = s->cell[i] >= 0 ? sc->par[s->cell[i]].handle : -1;
    switch (s->shape) {
    case SCS_SINGLE:
	if (sc->ab)
	    return LIB(vnacal_new_add_single_reflect(vnp, mb.a, mb.a_rows,
			mb.a_cols, mb.m, R, C, h[0], s->port[0]));
	return LIB(vnacal_new_add_single_reflect_m(vnp, mb.m, R, C, h[0],
		    s->port[0]));
    case SCS_DOUBLE:
	if (sc->ab)
	    return LIB(vnacal_new_add_double_reflect(vnp, mb.a, mb.a_rows,
			mb.a_cols, mb.m, R, C, h[0], h[3], s->port[0],
			s->port[1]));
	return LIB(vnacal_new_add_double_reflect_m(vnp, mb.m, R, C, h[0],
		    h[3], s->port[0], s->port[1]));
    case SCS_THROUGH:
	if (sc->ab)
	    return LIB(vnacal_new_add_through(vnp, mb.a, mb.a_rows,
			mb.a_cols, mb.m, R, C, s->port[0], s->port[1]));
	return LIB(vnacal_new_add_through_m(vnp, mb.m, R, C, s->port[0],
		    s->port[1]));
    case SCS_LINE:
	if (sc->ab)
	    return LIB(vnacal_new_add_line(vnp, mb.a, mb.a_rows, mb.a_cols,
			mb.m, R, C, h, s->port[0], s->port[1]));
	return LIB(vnacal_new_add_line_m(vnp, mb.m, R, C, h, s->port[0],
		    s->port[1]));
    default:
	if (sc->ab)
	    return LIB(vnacal_new_add_mapped_matrix(vnp, mb.a, mb.a_rows,
			mb.a_cols, mb.m, R, C, h, s->sp, s->sp,
			s->sp == sc->P ? NULL : s->port));
	return LIB(vnacal_new_add_mapped_matrix_m(vnp, mb.m, R, C, h, s->sp,
		    s->sp, s->sp == sc->P ? NULL : s->port));
    }
}

/* largest |value - truth| over unknown/correlated parameters and calibration
 * frequencies, through the public getter; -1 if a getter call failed */
static double sc_param_error(sc_scn_t *sc, vnacal_t *vcp, double *scale_out)
{
    double worst = 0.0, scale = 1.0;

    for (int i = 0; i < sc->npar; ++i) {
	sc_par_t *p = &sc->par[i];

	if (p->kind != SCP_UNKNOWN && p->kind != SCP_CORR)
	    continue;
	for (int k = 0; k < sc->nf; ++k) {
	    double complex v = LIB(vnacal_get_parameter_value(vcp, p->handle,
			sc->f[k]));
	    double d;

	    if (creal(v) == HUGE_VAL)
		return -1.0;
	    d = cabs(v - p->truth[k]);
	    if (!(d <= worst))		/* also catches NaN */
		worst = d;
	    if (cabs(p->truth[k]) > scale)
		scale = cabs(p->truth[k]);
	}
    }
    if (scale_out != NULL)
	*scale_out = scale;
    return worst;
}

/* result of applying calibration ci to an independent random device */
typedef struct sc_apply {
    int rv, err;
    double worst;			/* max |S_applied - S_true| */
    double complex s[SC_MAXF][SC_MAXP * SC_MAXP];
} sc_apply_t;

/*
 * sc_apply_dut: simulate a random P x P device (seeded by dut_seed, so two
 * calibrations can be compared on the same device), correct its readings
 * with calibration ci and compare with the device's true S.  Square
 * calibrations only.
 */
static void sc_apply_dut(sc_scn_t *sc, vnacal_t *vcp, int ci,
	uint64_t dut_seed, sc_apply_t *out)
{
    const int P = sc->P;
    vt_rng_t rng;
    double complex mk[SC_MAXF][SC_MAXP * SC_MAXP];
    double complex st[SC_MAXF][SC_MAXP * SC_MAXP];
    sc_mbuf_t mb;
    vnadata_t *vdp;

    memset(out, 0, sizeof(*out));
    vt_seed(&rng, dut_seed);
    for (int k = 0; k < sc->nf; ++k) {
	for (;;) {
	    for (int i = 0; i < P * P; ++i)
		st[k][i] = ets_cunit_disc(&rng, 0.8);
	    if (ets_measure(&sc->e[k], st[k], mk[k]) == 0)
		break;
	}
    }
    sc_fill_mbuf(sc, &mb, P, P, mk, &rng);
    vdp = LIB(vnadata_alloc(vt_errfn, NULL));
    if (vdp == NULL) {
	out->rv = -1;
	out->err = errno;
	return;
    }
    if (sc->ab)
	out->rv = LIB(vnacal_apply(vcp, ci, sc->f, sc->nf, mb.a, mb.a_rows,
		    mb.a_cols, mb.m, P, P, vdp));
    else
	out->rv = LIB(vnacal_apply_m(vcp, ci, sc->f, sc->nf, mb.m, P, P,
		    vdp));
    out->err = errno;
    if (out->rv == 0) {
	for (int k = 0; k < sc->nf; ++k) {
	    for (int r = 0; r < P; ++r) {
		for (int c = 0; c < P; ++c) {
		    double complex v = LIB(vnadata_get_cell(vdp, k, r, c));
		    double d = cabs(v - st[k][r * P + c]);

		    out->s[k][r * P + c] = v;
		    if (!(d <= out->worst))
			out->worst = d;
		}
	    }
	}
    }
    LIBV(vnadata_free(vdp));
}

/* ----------------------------------------------------------- watchdog */

static volatile sig_atomic_t sc_in_solve;

static void sc_alarm(int sig)
{
    static const char msg[] = "\n{\"e\":\"Crash\",\"sig\":\"TIMEOUT\"}\n";
    const char *path = getenv("VT_TRACE");

    (void)sig;
    (void)path;
    /* vt's descriptor is private; write the marker to stderr, the runner
     * recognises the exit status */
    (void)!write(2, msg, sizeof(msg) - 1);
    _exit(94);
}
#define SC_EXIT_TIMEOUT 94

/* seconds of process CPU time (not wall clock): load-independent */
static void sc_watchdog(int seconds)
{
    vt_watchdog_start(seconds, sc_alarm);
}

static const char *sc_cmp(double a, double b)
{
    if (a < b)
	return "lt";
    if (a > b)
	return "gt";
    if (a == b)
	return "eq";
    return "nan";
}

#endif /* SC_COMMON_H */
