/*
 * caleq_oracle.h -- independent numeric oracles for the CalEq / CalFlow
 * family (C01, C17, C20).  Nothing here uses libvna code.
 *
 *  - structure of a standard on the full port grid (what is known about
 *    each S cell, signal-path connectivity, which equations of the
 *    documented matrix equation can be written down, which given M cells
 *    are leakage observations) -- derived in C from the manual, compared
 *    with CalEq.tla's derivation through the trace;
 *  - coefficient matrix of those equations built directly from
 *       -Ts S - Ti + M Tx S + M Tm = 0     (T types)
 *        Um M + Ui - S Ux M - S Us = 0     (U types, UE14/E12 per column)
 *    and its singular values (own one-sided Jacobi SVD);
 *  - a reader for the YAML subset vnacal_save writes, and the residual of
 *    the saved error terms in the documented M/S equation.
 */
#ifndef CALEQ_ORACLE_H
#define CALEQ_ORACLE_H

#include <complex.h>
#include <stdbool.h>
#include "etermsim.h"

#define CQ_MAXP 4			/* ports */
#define CQ_MAXF 10			/* frequencies */
#define CQ_MAXSTD 64			/* standards per calibration */
#define CQ_MAXUNK 64			/* unknowns per system */

enum { CQ_G = 'g', CQ_Z = 'z', CQ_U = 'u' };

/* one accepted standard as the oracle sees it (VNA port grid, 0-based) */
typedef struct cq_std {
    char know[CQ_MAXP][CQ_MAXP];	/* CQ_G / CQ_Z / CQ_U */
    bool conn[CQ_MAXP][CQ_MAXP];	/* signal path through the standard */
    bool row_given[CQ_MAXP];		/* M rows given */
    bool col_given[CQ_MAXP];		/* M columns given */
    /* physical truth per frequency */
    double complex s[CQ_MAXF][CQ_MAXP * CQ_MAXP];	/* P x P */
    double complex m[CQ_MAXF][CQ_MAXP * CQ_MAXP];	/* R x C (all cells) */
} cq_std_t;

typedef struct cq_cal {
    ets_type_t type;
    int R, C, P, nf;
    int nstd;
    cq_std_t std[CQ_MAXSTD];
} cq_cal_t;

/* fill know/conn from the description of an add call:
 * map[k] (1-based VNA port) for k < nports, nomap: ports in order,
 * sr x sc given S cells, sdiag: only the diagonal given; zero[i*sc+j]
 * true if the given cell holds the predefined zero handle */
extern void cq_structure(cq_std_t *sp, int P, const int *map, int nports,
	int sr, int sc, bool sdiag, const bool *zero);

/* equations of standard sp: fills eq_row/eq_col/eq_sys (0-based; sys = column
 * for UE14/E12, else 0), returns the count */
extern int cq_equations(const cq_cal_t *cal, const cq_std_t *sp,
	int *eq_row, int *eq_col, int *eq_sys);

/* leakage-observation cells of sp (given, off-diagonal, no signal path);
 * leak[r*C+c] set true; returns count */
extern int cq_leak_cells(const cq_cal_t *cal, const cq_std_t *sp, bool *leak);

extern int cq_systems(const cq_cal_t *cal);
extern int cq_unknowns(const cq_cal_t *cal);	/* per system */

/* singular values of the coefficient matrix of system `sys` at frequency
 * findex, with measurements taken from `m_of_std` (nstd matrices R x C,
 * NULL = use the stored ones), columns scaled to unit norm.  Returns 0 and sets *smin, *smax; returns -1
 * if there are no equations. */
extern int cq_singular_values(const cq_cal_t *cal, int sys, int findex,
	const double complex *const *m_of_std, double *smin, double *smax);

/* own SVD (singular values only): a is m x n row-major, destroyed */
extern void cq_svd(int m, int n, double complex *a, double *sv);

/* ---- saved error terms ---- */
typedef struct cq_terms {
    ets_type_t type;
    int R, C, P, nf;
    double f[CQ_MAXF];
    /* dense blocks per frequency (T: ts,ti,tx,tm; U: um,ui,ux,us; column
     * types: per column k the diagonal blocks), el off-diagonal, E12: el,er,em */
    double complex b1[CQ_MAXF][CQ_MAXP][CQ_MAXP][CQ_MAXP];	/* [f][k] Ts/Um/Er */
    double complex b2[CQ_MAXF][CQ_MAXP][CQ_MAXP][CQ_MAXP];	/* Ti/Ui */
    double complex b3[CQ_MAXF][CQ_MAXP][CQ_MAXP][CQ_MAXP];	/* Tx/Ux/Em */
    double complex b4[CQ_MAXF][CQ_MAXP][CQ_MAXP][CQ_MAXP];	/* Tm/Us */
    double complex el[CQ_MAXF][CQ_MAXP][CQ_MAXP];		/* R x C */
} cq_terms_t;

/* read calibration `name` from a file written by vnacal_save; 0 / -1 */
extern int cq_read_saved(const char *path, const char *name, cq_terms_t *tp,
	char *why, size_t whylen);

/* max over cells of |residual| / scale of the documented equation for one
 * standard at one frequency, using the true S and the true M */
extern double cq_saved_residual(const cq_terms_t *tp, int findex,
	const double complex *s, const double complex *m);

#endif
