/*
 * drv_vfiles.c -- conformance driver for the vnadata file functions
 * (FileFmt.tla; properties C06 and C08).
 *
 * The driver is the actuator and the recorder only: it builds objects,
 * calls vnadata_cksave / vnadata_save / vnadata_fsave / vnadata_load /
 * vnadata_fload / vnadata_set_format ... and writes, per case,
 *   - ndjson events with the discrete outcome of every call (return value,
 *     errno, callbacks, file type, type and dimensions through the public
 *     getters), and
 *   - one {"e":"Dump",...} line carrying the raw numbers (C99 hex floats):
 *     the values the object was built from, the bytes of the written files
 *     and the projection of the loaded objects through the public getters.
 * The expectation is computed elsewhere: verdicts by FileFmt.tla (trace
 * validation), numeric observations by harness/vfiles_oracle.py using the
 * independent readers tsread.py / npdread.py.  No libvna algebra is used to
 * produce ground truth here: cell values are drawn from the RNG.
 *
 * usage:
 *   drv_vfiles c06   CASEFILE SEED FROM TO   cases = lines FROM..TO-1
 *   drv_vfiles c06id CASEID                  one case, regenerated from its id
 *   drv_vfiles c08   MANIFEST SEED FROM TO   load generated spellings
 *   drv_vfiles fmt   CASEFILE SEED FROM TO   set_format / get_format table
 *   drv_vfiles stick CASEFILE DIR FROM TO    file type memory histories
 * env: VT_TRACE=<path> (default stdout), VFILES_TMP=<scratch directory>
 *
 * c06 case line:   type rows cols nf ext set fmt z0c prec mag fprec twin z0p
 *   type  undef S T U Z Y H G A B Zin      ext  none other npd ts snp
 *   set   auto npd ts1 ts2                 fmt  comma list or "-" (not set)
 *   z0c   equal unequal complex perfreq    prec 1..17 or MAX (dprecision)
 *   fprec 1..17 or MAX (fprecision)        twin 0: cksave, save, fsave on one
 *   object; 1: on three identically built objects (save and fsave then run
 *   on objects vnadata_cksave has not touched)
 *   z0p   equality pattern of the impedances, one block digit per port
 *         ("121": ports 1 and 3 share one value, port 2 has another)
 *   mag   -12 0 12 (decimal exponent of the value scale)
 * case id: c06:SEED:INDEX:type:rows:cols:nf:ext:set:fmt:z0c:prec:mag:fprec:twin:z0p
 */
#include <complex.h>
#include <ctype.h>
#include <errno.h>
#include <math.h>
#include <stdio.h>
#include <stdlib.h>
#include <string.h>
#include <sys/stat.h>
#include <unistd.h>
#include <vnadata.h>
#include "vt.h"

#define MAXP	8
#define MAXF	8

static const char *tmpdir = "/tmp";

/* ------------------------------------------------------------ utilities */

static const char *type_names[] = {
    "undef", "S", "T", "U", "Z", "Y", "H", "G", "A", "B", "Zin"
};

static int type_from_name(const char *s)
{
    for (int i = 0; i < 11; ++i) {
	if (strcmp(s, type_names[i]) == 0)
	    return i;
    }
    return -1;
}

static const char *ft_name(vnadata_filetype_t ft)
{
    switch (ft) {
    case VNADATA_FILETYPE_AUTO:		return "auto";
    case VNADATA_FILETYPE_NPD:		return "npd";
    case VNADATA_FILETYPE_TOUCHSTONE1:	return "ts1";
    case VNADATA_FILETYPE_TOUCHSTONE2:	return "ts2";
    default:				return "invalid";
    }
}

static int ft_from_name(const char *s, vnadata_filetype_t *ft)
{
    if (strcmp(s, "auto") == 0)	*ft = VNADATA_FILETYPE_AUTO;
    else if (strcmp(s, "npd") == 0)	*ft = VNADATA_FILETYPE_NPD;
    else if (strcmp(s, "ts1") == 0)	*ft = VNADATA_FILETYPE_TOUCHSTONE1;
    else if (strcmp(s, "ts2") == 0)	*ft = VNADATA_FILETYPE_TOUCHSTONE2;
    else return -1;
    return 0;
}

static uint64_t hash_str(const char *s)
{
    uint64_t h = 1469598103934665603ull;

    for (; *s; ++s)
	h = (h ^ (unsigned char)*s) * 1099511628211ull;
    return h;
}

/* emit a byte string as a JSON string */
static void put_json_bytes(const unsigned char *p, size_t n)
{
    vt_put("\"");
    for (size_t i = 0; i < n; ++i) {
	unsigned char c = p[i];

	if (c == '"' || c == '\\')
	    vt_put("\\%c", c);
	else if (c == '\n')
	    vt_put("\\n");
	else if (c == '\t')
	    vt_put("\\t");
	else if (c < 0x20 || c >= 0x7f)
	    vt_put("\\u%04x", c);
	else
	    vt_put("%c", c);
    }
    vt_put("\"");
}

/* read a whole file; returns malloc'd buffer (not library memory) */
static unsigned char *slurp(const char *path, size_t *np)
{
    FILE *fp = fopen(path, "rb");
    unsigned char *buf = NULL;
    size_t n = 0, cap = 0;

    *np = 0;
    if (fp == NULL)
	return NULL;
    for (;;) {
	size_t k;

	if (n + 4096 > cap) {
	    cap = cap ? 2 * cap : 16384;
	    buf = realloc(buf, cap);
	    if (buf == NULL)
		_exit(3);
	}
	k = fread(buf + n, 1, 4096, fp);
	n += k;
	if (k < 4096)
	    break;
    }
    fclose(fp);
    *np = n;
    return buf;
}

static int file_exists(const char *path)
{
    struct stat st;

    return stat(path, &st) == 0;
}

static void put_cx(double complex z)
{
    vt_put("[\"%a\",\"%a\"]", creal(z), cimag(z));
}

/* outcome of one call: "ok":..,"err":..,"cb":[..] */
static void put_outcome(int ok, int e)
{
    vt_put("\"ok\":%d,\"err\":\"%s\",", ok, vt_errname(e));
    vt_put_cb();
}

/*
 * For diagnosis only (not read by the specification): the class of the last
 * error message -- text after "error: ", digits folded to N, everything but
 * letters and digits to '_'.
 */
static void put_msg_class(void)
{
    const char *m = vt_cb.last;
    const char *p = strstr(m, "error: ");
    char buf[64];
    size_t k = 0;

    if (vt_cb.n == 0) {
	vt_put(",\"msg\":\"\"");
	return;
    }
    if (p != NULL)
	m = p + 7;
    else if ((p = strstr(m, ": ")) != NULL)
	m = p + 2;
    for (; *m != '\0' && k < sizeof(buf) - 1; ++m) {
	unsigned char c = (unsigned char)*m;

	if (isdigit(c)) {
	    if (k == 0 || buf[k - 1] != 'N')
		buf[k++] = 'N';
	} else if (isalpha(c)) {
	    buf[k++] = (char)c;
	} else if (k > 0 && buf[k - 1] != '_') {
	    buf[k++] = '_';
	}
    }
    buf[k] = '\0';
    vt_put(",\"msg\":\"%s\"", buf);
}

/* --------------------------------------------------- projection (getters) */

/*
 * Project an object through the public getters only:
 * "type":..,"rows":..,"cols":..,"nf":..,"fz0":0/1,
 * "freqs":[hex..],"z0":[[re,im]..] | "fz0v":[[[re,im]..]..],"data":[[[re,im]..]..]
 */
static void put_projection(vnadata_t *vdp, int with_values)
{
    int type = (int)LIB(vnadata_get_type(vdp));
    int rows = LIB(vnadata_get_rows(vdp));
    int cols = LIB(vnadata_get_columns(vdp));
    int nf = LIB(vnadata_get_frequencies(vdp));
    int fz0 = LIB(vnadata_has_fz0(vdp)) ? 1 : 0;
    int ports = rows > cols ? rows : cols;

    vt_put("\"type\":\"%s\",\"rows\":%d,\"cols\":%d,\"nf\":%d,\"fz0\":%d",
	    (type >= 0 && type < 11) ? type_names[type] : "invalid",
	    rows, cols, nf, fz0);
    if (!with_values)
	return;
    vt_put(",\"freqs\":[");
    for (int f = 0; f < nf; ++f)
	vt_put("%s\"%a\"", f ? "," : "", LIB(vnadata_get_frequency(vdp, f)));
    vt_put("]");
    if (!fz0) {
	vt_put(",\"z0\":[");
	for (int p = 0; p < ports; ++p) {
	    if (p)
		vt_put(",");
	    put_cx(LIB(vnadata_get_z0(vdp, p)));
	}
	vt_put("]");
    } else {
	vt_put(",\"fz0v\":[");
	for (int f = 0; f < nf; ++f) {
	    vt_put("%s[", f ? "," : "");
	    for (int p = 0; p < ports; ++p) {
		if (p)
		    vt_put(",");
		put_cx(LIB(vnadata_get_fz0(vdp, f, p)));
	    }
	    vt_put("]");
	}
	vt_put("]");
    }
    vt_put(",\"data\":[");
    for (int f = 0; f < nf; ++f) {
	vt_put("%s[", f ? "," : "");
	for (int r = 0; r < rows; ++r) {
	    for (int c = 0; c < cols; ++c) {
		if (r || c)
		    vt_put(",");
		put_cx(LIB(vnadata_get_cell(vdp, f, r, c)));
	    }
	}
	vt_put("]");
    }
    vt_put("]");
}

/* --------------------------------------------------------------- C06 case */

typedef struct c06_case {
    char type[8];
    int rows, cols, nf;
    char ext[8], set[8];
    char fmt[128];
    char z0c[12];
    char prec[8];
    char fprec[8];
    int twin;
    char z0p[MAXP + 1];
    int mag;
} c06_case_t;

static int parse_case_fields(char **fld, int n, c06_case_t *cp)
{
    if (n != 13)
	return -1;
    snprintf(cp->type, sizeof(cp->type), "%s", fld[0]);
    cp->rows = atoi(fld[1]);
    cp->cols = atoi(fld[2]);
    cp->nf = atoi(fld[3]);
    snprintf(cp->ext, sizeof(cp->ext), "%s", fld[4]);
    snprintf(cp->set, sizeof(cp->set), "%s", fld[5]);
    snprintf(cp->fmt, sizeof(cp->fmt), "%s", fld[6]);
    snprintf(cp->z0c, sizeof(cp->z0c), "%s", fld[7]);
    snprintf(cp->prec, sizeof(cp->prec), "%s", fld[8]);
    cp->mag = atoi(fld[9]);
    snprintf(cp->fprec, sizeof(cp->fprec), "%s", fld[10]);
    cp->twin = atoi(fld[11]);
    snprintf(cp->z0p, sizeof(cp->z0p), "%s", fld[12]);
    if ((int)strlen(cp->z0p) != (cp->rows > cp->cols ? cp->rows : cp->cols))
	return -1;
    if (type_from_name(cp->type) < 0 || cp->cols > MAXP || cp->rows > MAXP ||
	    cp->nf > MAXF || cp->rows < 0 || cp->cols < 0 || cp->nf < 0)
	return -1;
    return 0;
}

static int split(char *line, const char *seps, char **fld, int max)
{
    int n = 0;
    char *save = NULL;

    for (char *t = strtok_r(line, seps, &save); t != NULL && n < max;
	    t = strtok_r(NULL, seps, &save))
	fld[n++] = t;
    return n;
}

/* format list "Sri,IL" -> [{"p":"S","f":"ri"},{"p":"S","f":"il"}] */
static void put_fmts(const char *fmt)
{
    char buf[128];
    char *fld[16];
    int n;

    vt_put("[");
    if (strcmp(fmt, "-") != 0) {
	snprintf(buf, sizeof(buf), "%s", fmt);
	n = split(buf, ",", fld, 16);
	for (int i = 0; i < n; ++i) {
	    const char *s = fld[i];
	    char p[8] = "", f[8] = "";

	    if (strcasecmp(s, "PRC") == 0 || strcasecmp(s, "PRL") == 0 ||
		    strcasecmp(s, "SRC") == 0 || strcasecmp(s, "SRL") == 0) {
		strcpy(p, "Zin");
		for (int k = 0; s[k]; ++k)
		    f[k] = (char)tolower((unsigned char)s[k]);
	    } else if (strcasecmp(s, "IL") == 0 || strcasecmp(s, "RL") == 0 ||
		    strcasecmp(s, "VSWR") == 0) {
		strcpy(p, "S");
		for (int k = 0; s[k]; ++k)
		    f[k] = (char)tolower((unsigned char)s[k]);
	    } else {
		size_t len = strlen(s);

		if (len < 3)
		    _exit(4);
		memcpy(p, s, len - 2);
		p[len - 2] = '\0';
		f[0] = (char)tolower((unsigned char)s[len - 2]);
		f[1] = (char)tolower((unsigned char)s[len - 1]);
	    }
	    vt_put("%s{\"p\":\"%s\",\"f\":\"%s\"}", i ? "," : "", p, f);
	}
    }
    vt_put("]");
}

static void put_cfg(const c06_case_t *cp)
{
    vt_put("\"cfg\":{\"type\":\"%s\",\"rows\":%d,\"cols\":%d,\"nf\":%d,"
	    "\"ext\":\"%s\",\"set\":\"%s\",\"z0c\":\"%s\",\"z0p\":[",
	    cp->type, cp->rows, cp->cols, cp->nf, cp->ext, cp->set, cp->z0c);
    for (int i = 0; cp->z0p[i] != '\0'; ++i)
	vt_put("%s%d", i ? "," : "", cp->z0p[i] - '0');
    vt_put("],\"fmts\":");
    put_fmts(cp->fmt);
    vt_put("}");
}

static void make_filename(char *out, size_t n, const char *tag,
	const c06_case_t *cp)
{
    const char *ext = cp->ext;
    char e[16] = "";

    if (strcmp(ext, "npd") == 0)
	strcpy(e, ".npd");
    else if (strcmp(ext, "ts") == 0)
	strcpy(e, ".ts");
    else if (strcmp(ext, "snp") == 0)
	snprintf(e, sizeof(e), ".s%dp", cp->cols);
    else if (strcmp(ext, "other") == 0)
	strcpy(e, ".dat");
    snprintf(out, n, "%s/vf%ld_%s%s", tmpdir, (long)getpid(), tag, e);
}

/* load one file into a fresh object and record the outcome */
static void do_load(const char *evname, const char *path, const char *name,
	const c06_case_t *cp, int use_fload, int with_values)
{
    vnadata_t *v2;
    vnadata_filetype_t ft;
    int rv, e;

    v2 = LIB(vnadata_alloc(vt_errfn, NULL));
    if (v2 == NULL)
	_exit(5);
    /* the reader of the file is told what the writer was told */
    if (ft_from_name(cp->set, &ft) == 0 && ft != VNADATA_FILETYPE_AUTO)
	(void)LIB(vnadata_set_filetype(v2, ft));
    vt_cb_reset();
    if (use_fload) {
	FILE *fp = fopen(path, "r");

	if (fp == NULL)
	    _exit(6);
	rv = LIB(vnadata_fload(v2, fp, name));
	e = errno;
	fclose(fp);
    } else {
	rv = LIB(vnadata_load(v2, path));
	e = errno;
    }
    vt_put("{\"e\":\"%s\",", evname);
    put_outcome(rv == 0, e);
    put_msg_class();
    vt_put(",\"ftAfter\":\"%s\",\"p\":{", ft_name(LIB(vnadata_get_filetype(v2))));
    put_projection(v2, rv == 0 && with_values);
    vt_put("}}");
    vt_end_line();
    LIBV(vnadata_free(v2));
}

typedef struct c06_values {
    int type, ports, perfreq, fprec, dprec;
    double freqs[MAXF];
    double complex data[MAXF][MAXP * MAXP];
    double complex z0[MAXF][MAXP];
} c06_values_t;

/*
 * Build one object from the case and its values.  Returns NULL if
 * vnadata_alloc_and_init refuses; *fmt_rv / *fmt_errno receive the outcome
 * of vnadata_set_format (0 if no format is set).
 */
static vnadata_t *c06_build(const c06_case_t *cp, const c06_values_t *v,
	int *fmt_rv, int *fmt_errno)
{
    vnadata_t *vdp;
    vnadata_filetype_t ft;

    *fmt_rv = 0;
    *fmt_errno = 0;
    vdp = LIB(vnadata_alloc_and_init(vt_errfn, NULL,
		(vnadata_parameter_type_t)v->type, cp->rows, cp->cols, cp->nf));
    if (vdp == NULL)
	return NULL;
    for (int f = 0; f < cp->nf; ++f) {
	if (LIB(vnadata_set_frequency(vdp, f, v->freqs[f])) != 0)
	    _exit(7);
	if (LIB(vnadata_set_matrix(vdp, f, v->data[f])) != 0)
	    _exit(7);
    }
    if (!v->perfreq) {
	if (LIB(vnadata_set_z0_vector(vdp, v->z0[0])) != 0)
	    _exit(7);
    } else {
	for (int f = 0; f < cp->nf; ++f) {
	    if (LIB(vnadata_set_fz0_vector(vdp, f, v->z0[f])) != 0)
		_exit(7);
	}
    }
    if (ft_from_name(cp->set, &ft) != 0)
	_exit(4);
    if (ft != VNADATA_FILETYPE_AUTO) {
	if (LIB(vnadata_set_filetype(vdp, ft)) != 0)
	    _exit(7);
    }
    if (LIB(vnadata_set_fprecision(vdp, v->fprec)) != 0 ||
	    LIB(vnadata_set_dprecision(vdp, v->dprec)) != 0)
	_exit(7);
    if (strcmp(cp->fmt, "-") != 0) {
	vt_cb_reset();
	*fmt_rv = LIB(vnadata_set_format(vdp, cp->fmt));
	*fmt_errno = errno;
    }
    return vdp;
}

/* has saving left the object's data alone? */
static int c06_unchanged(vnadata_t *vdp, const c06_case_t *cp,
	const c06_values_t *v)
{
    if ((int)LIB(vnadata_get_type(vdp)) != v->type ||
	    LIB(vnadata_get_rows(vdp)) != cp->rows ||
	    LIB(vnadata_get_columns(vdp)) != cp->cols ||
	    LIB(vnadata_get_frequencies(vdp)) != cp->nf ||
	    (LIB(vnadata_has_fz0(vdp)) ? 1 : 0) != v->perfreq)
	return 0;
    for (int f = 0; f < cp->nf; ++f) {
	if (LIB(vnadata_get_frequency(vdp, f)) != v->freqs[f])
	    return 0;
	for (int r = 0; r < cp->rows; ++r) {
	    for (int c = 0; c < cp->cols; ++c) {
		double complex x = LIB(vnadata_get_cell(vdp, f, r, c));
		double complex y = v->data[f][r * cp->cols + c];

		if (creal(x) != creal(y) || cimag(x) != cimag(y))
		    return 0;
	    }
	}
	for (int p = 0; p < v->ports; ++p) {
	    double complex z = LIB(vnadata_get_fz0(vdp, f, p));
	    double complex w = v->perfreq ? v->z0[f][p] : v->z0[0][p];

	    if (creal(z) != creal(w) || cimag(z) != cimag(w))
		return 0;
	}
    }
    return 1;
}

static void run_c06(const c06_case_t *cp, uint64_t seed, const char *caseid)
{
    vt_rng_t rng;
    vnadata_t *obj[3] = { NULL, NULL, NULL };	/* for cksave, save, fsave */
    int nobj;
    static c06_values_t v;
    int ncell = cp->rows * cp->cols;
    double scale = pow(10.0, (double)cp->mag);
    char path1[256], path2[256], name2[256];
    char cfgkey[320];
    int rv, e;
    int save_ok, fsave_ok;
    int fmt_rv = 0, fmt_errno = 0;
    static const double fbase[MAXF] = {
	1.0e6, 3.0e7, 7.0e8, 2.0e10, 5.0e11, 1.0e13, 3.0e14, 7.0e15
    };
    static const double zpool[] = { 50.0, 75.0, 1.0, 0.5, 600.0, 50.0, 12.5 };

    memset(&v, 0, sizeof(v));
    v.type = type_from_name(cp->type);
    v.ports = cp->rows > cp->cols ? cp->rows : cp->cols;
    /* without a frequency there is no per-frequency impedance to set */
    v.perfreq = strcmp(cp->z0c, "perfreq") == 0 && cp->nf > 0;
    v.dprec = strcmp(cp->prec, "MAX") == 0 ? VNADATA_MAX_PRECISION :
	atoi(cp->prec);
    v.fprec = strcmp(cp->fprec, "MAX") == 0 ? VNADATA_MAX_PRECISION :
	atoi(cp->fprec);
    snprintf(cfgkey, sizeof(cfgkey), "%s:%d:%d:%d:%s:%s:%s:%s:%s:%d:%s:%s",
	    cp->type, cp->rows, cp->cols, cp->nf, cp->ext, cp->set, cp->fmt,
	    cp->z0c, cp->prec, cp->mag, cp->fprec, cp->z0p);
    vt_seed(&rng, seed ^ hash_str(cfgkey));

    vt_put("{\"e\":\"Reset\",\"case\":\"%s\"}", caseid);
    vt_end_line();

    /* ---- values (ground truth lives in these arrays, not in the library) */
    for (int f = 0; f < cp->nf; ++f) {
	v.freqs[f] = fbase[f] * (1.0 + 0.3 * vt_unit(&rng));
	if (vt_below(&rng, 4) == 0)
	    v.freqs[f] = fbase[f];		/* a round number now and then */
	for (int c = 0; c < ncell; ++c) {
	    double mag, ph;

	    do {
		mag = 0.2 + 1.8 * vt_unit(&rng);
	    } while (fabs(mag - 1.0) < 0.05);	/* keep VSWR well-conditioned */
	    ph = 6.283185307179586 * vt_unit(&rng);
	    v.data[f][c] = scale * mag * (cos(ph) + I * sin(ph));
	}
    }
    {
	/*
	 * Impedances: mostly numbers that need every digit of the
	 * precision asked for (real and imaginary part alike), sometimes
	 * round ones (50, 75, 1 -- 1 skips the Touchstone 1 normalisation).
	 */
	double zeq = zpool[vt_below(&rng, 7)];
	int ugly = vt_below(&rng, 3) != 0;
	int complex_kind = strcmp(cp->z0c, "complex") == 0;
	int perf_kind = strcmp(cp->z0c, "perfreq") == 0;
	double wr[MAXP + 1], wi[MAXP + 1];

	/*
	 * One value per block of the equality pattern: ports of the same
	 * block get bit-identical impedances, different blocks different
	 * ones (block b: zeq * (1 + 0.37 (b-1)) times a random factor).
	 */
	if (ugly && vt_below(&rng, 2) == 0)
	    zeq *= 1.0 + 0.013 * vt_unit(&rng);
	for (int b = 0; b <= MAXP; ++b) {
	    wr[b] = (ugly && b > 1) ? 1.0 + 0.011 * vt_unit(&rng) : 1.0;
	    wi[b] = ugly ? 1.0 + 0.017 * vt_unit(&rng) : 1.0;
	}
	for (int f = 0; f < (cp->nf > 0 ? cp->nf : 1); ++f) {
	    for (int p = 0; p < v.ports; ++p) {
		int b = cp->z0p[p] - '0';
		double re = wr[b] * zeq * (1.0 + 0.37 * (b - 1));
		double im = 0.0;

		if (complex_kind)
		    im = wi[b] * (b % 2 ? 7.5 + b : -3.25 * b);
		if (perf_kind) {
		    re *= 1.0 + 0.1 * f;
		    im = wi[b] * (2.0 * f - 1.5 * b + 0.5);
		}
		v.z0[f][p] = re + I * im;
	    }
	}
    }

    /* ---- build the object(s) */
    nobj = cp->twin ? 3 : 1;
    for (int k = 0; k < nobj; ++k) {
	int r2, e2;

	vt_cb_reset();
	obj[k] = c06_build(cp, &v, &r2, &e2);
	if (obj[k] == NULL) {
	    vt_put("{\"e\":\"Skip\",\"why\":\"init refused\"}");
	    vt_end_line();
	    goto free_end;
	}
	if (k == 0) {
	    fmt_rv = r2;
	    fmt_errno = e2;
	    if (strcmp(cp->fmt, "-") != 0) {
		vt_put("{\"e\":\"SetFormat\",\"fmts\":");
		put_fmts(cp->fmt);
		vt_put(",");
		put_outcome(fmt_rv == 0, fmt_errno);
		vt_put("}");
		vt_end_line();
	    }
	} else if ((r2 == 0) != (fmt_rv == 0)) {
	    _exit(8);		/* identical calls, different outcome */
	}
    }
    if (fmt_rv != 0)
	goto free_end;
    if (!cp->twin)
	obj[1] = obj[2] = obj[0];

    /* ---- the three entry points */
    make_filename(path1, sizeof(path1), "a", cp);
    make_filename(name2, sizeof(name2), "b", cp);	/* name only */
    snprintf(path2, sizeof(path2), "%s/vf%ld_fsave.out", tmpdir, (long)getpid());
    (void)unlink(path1);
    (void)unlink(path2);

    vt_put("{\"e\":\"Save3\",");
    put_cfg(cp);
    vt_put(",\"prec\":\"%s\",\"fprec\":\"%s\",\"twin\":%d,\"mag\":%d", cp->prec,
	    cp->fprec, cp->twin, cp->mag);

    vt_cb_reset();
    rv = LIB(vnadata_cksave(obj[0], path1));
    e = errno;
    vt_put(",\"ck\":{");
    put_outcome(rv == 0, e);
    vt_put(",\"file\":%d,\"ft\":\"%s\"}", file_exists(path1),
	    ft_name(LIB(vnadata_get_filetype(obj[0]))));

    vt_cb_reset();
    rv = LIB(vnadata_save(obj[1], path1));
    e = errno;
    save_ok = rv == 0;
    vt_put(",\"sv\":{");
    put_outcome(rv == 0, e);
    vt_put(",\"file\":%d,\"ft\":\"%s\"}", file_exists(path1),
	    ft_name(LIB(vnadata_get_filetype(obj[1]))));

    {
	FILE *fp = fopen(path2, "w");
	long pos;

	if (fp == NULL)
	    _exit(6);
	vt_cb_reset();
	rv = LIB(vnadata_fsave(obj[2], fp, name2));
	e = errno;
	fflush(fp);
	pos = ftell(fp);
	fclose(fp);
	fsave_ok = rv == 0;
	vt_put(",\"fs\":{");
	put_outcome(rv == 0, e);
	vt_put(",\"file\":%d,\"ft\":\"%s\"}", pos > 0,
		ft_name(LIB(vnadata_get_filetype(obj[2]))));
    }
    /* the objects themselves must not have been changed by saving them */
    {
	int same = 1;

	for (int k = 0; k < nobj; ++k)
	    same = same && c06_unchanged(obj[k], cp, &v);
	vt_put(",\"objSame\":%d}", same);
    }
    vt_end_line();

    /* ---- raw numbers and bytes for the oracle */
    {
	size_t n1 = 0, n2 = 0;
	unsigned char *b1 = save_ok ? slurp(path1, &n1) : NULL;
	unsigned char *b2 = fsave_ok ? slurp(path2, &n2) : NULL;

	vt_put("{\"e\":\"Dump\",\"what\":\"obj\",\"type\":\"%s\",\"rows\":%d,"
		"\"cols\":%d,\"nf\":%d,\"perfreq\":%d,\"fprec\":%d,\"dprec\":%d,"
		"\"freqs\":[", cp->type, cp->rows, cp->cols, cp->nf, v.perfreq,
		v.fprec, v.dprec);
	for (int f = 0; f < cp->nf; ++f)
	    vt_put("%s\"%a\"", f ? "," : "", v.freqs[f]);
	vt_put("],\"z0\":[");
	for (int f = 0; f < (v.perfreq ? cp->nf : 1); ++f) {
	    vt_put("%s[", f ? "," : "");
	    for (int p = 0; p < v.ports; ++p) {
		if (p)
		    vt_put(",");
		put_cx(v.z0[f][p]);
	    }
	    vt_put("]");
	}
	vt_put("],\"data\":[");
	for (int f = 0; f < cp->nf; ++f) {
	    vt_put("%s[", f ? "," : "");
	    for (int c = 0; c < ncell; ++c) {
		if (c)
		    vt_put(",");
		put_cx(v.data[f][c]);
	    }
	    vt_put("]");
	}
	vt_put("],\"save\":");
	if (b1 != NULL)
	    put_json_bytes(b1, n1);
	else
	    vt_put("null");
	vt_put(",\"fsave\":");
	if (b2 != NULL)
	    put_json_bytes(b2, n2);
	else
	    vt_put("null");
	vt_put("}");
	vt_end_line();
	free(b1);
	free(b2);
    }

    /* ---- load what was written */
    if (save_ok)
	do_load("Load", path1, path1, cp, 0, 1);
    if (fsave_ok)
	do_load("FLoad", path2, name2, cp, 1, 1);
    (void)unlink(path1);
    (void)unlink(path2);

free_end:
    for (int k = 0; k < nobj; ++k) {
	if (obj[k] != NULL)
	    LIBV(vnadata_free(obj[k]));
    }
    vt_put("{\"e\":\"End\",\"live\":%ld}", vt_alloc_live);
    vt_end_line();
}

static int c06_from_id(const char *caseid, c06_case_t *cp, uint64_t *seed)
{
    char buf[512];
    char *fld[16];
    int n;

    snprintf(buf, sizeof(buf), "%s", caseid);
    n = split(buf, ":", fld, 16);
    if (n != 16 || strcmp(fld[0], "c06") != 0)
	return -1;
    *seed = strtoull(fld[1], NULL, 10);
    return parse_case_fields(&fld[3], 13, cp);
}

static int mode_c06(const char *casefile, uint64_t seed, long from, long to)
{
    FILE *fp = fopen(casefile, "r");
    char line[512];
    long idx = 0;

    if (fp == NULL) {
	perror(casefile);
	return 4;
    }
    while (fgets(line, sizeof(line), fp) != NULL) {
	char *fld[16];
	char copy[512];
	c06_case_t c;
	char caseid[640];
	int n;

	if (idx >= to)
	    break;
	if (idx < from) {
	    ++idx;
	    continue;
	}
	snprintf(copy, sizeof(copy), "%s", line);
	n = split(copy, " \t\r\n", fld, 16);
	if (parse_case_fields(fld, n, &c) != 0) {
	    fprintf(stderr, "bad case line %ld: %s", idx, line);
	    return 4;
	}
	snprintf(caseid, sizeof(caseid),
		"c06:%llu:%ld:%s:%d:%d:%d:%s:%s:%s:%s:%s:%d:%s:%d:%s",
		(unsigned long long)seed, idx, c.type, c.rows, c.cols, c.nf,
		c.ext, c.set, c.fmt, c.z0c, c.prec, c.mag, c.fprec, c.twin, c.z0p);
	run_c06(&c, seed, caseid);
	++idx;
    }
    fclose(fp);
    return 0;
}

/* ------------------------------------------------------------- C08 mode */

/*
 * Load one spelling and record the outcome and the projection of the object
 * through the public getters.  reused == NULL: into a fresh object.
 */
static void c08_load(vnadata_t *reused, const char *grp, int pos,
	const char *which, const char *path, const char *name,
	const char *set, const char *meth)
{
    vnadata_t *vdp = reused;
    vnadata_filetype_t ft;
    int rv, e;

    if (vdp == NULL) {
	vdp = LIB(vnadata_alloc(vt_errfn, NULL));
	if (vdp == NULL)
	    _exit(5);
    }
    if (ft_from_name(set, &ft) != 0)
	_exit(4);
    if (ft != VNADATA_FILETYPE_AUTO)
	(void)LIB(vnadata_set_filetype(vdp, ft));
    if (strcmp(meth, "reuse") == 0 && reused == NULL) {
	/*
	 * The object already holds unrelated data: another type, other
	 * dimensions, more frequencies, per-frequency impedances and a
	 * format of its own.  A load must replace all of it.
	 */
	static const double complex zz[3] = { 10.0 + 2.0 * I, 20.0, 30.0 - I };

	if (LIB(vnadata_init(vdp, VPT_Z, 3, 3, 5)) != 0)
	    _exit(7);
	for (int f = 0; f < 5; ++f) {
	    (void)LIB(vnadata_set_frequency(vdp, f, 1.0e3 * (f + 1)));
	    (void)LIB(vnadata_set_fz0_vector(vdp, f, zz));
	    for (int c = 0; c < 9; ++c)
		(void)LIB(vnadata_set_cell(vdp, f, c / 3, c % 3, 7.0 + c + I * f));
	}
	(void)LIB(vnadata_set_format(vdp, "Zma,Yri"));
    }
    vt_cb_reset();
    if (strcmp(meth, "fload") == 0) {
	FILE *fp = fopen(path, "r");

	if (fp == NULL)
	    _exit(6);
	rv = LIB(vnadata_fload(vdp, fp, name));
	e = errno;
	fclose(fp);
    } else {
	rv = LIB(vnadata_load(vdp, path));
	e = errno;
    }
    vt_put("{\"e\":\"SLoad\",\"grp\":\"%s\",\"pos\":%d,\"which\":\"%s\","
	    "\"meth\":\"%s\",\"set\":\"%s\",", grp, pos, which, meth, set);
    put_outcome(rv == 0, e);
    put_msg_class();
    vt_put(",\"ftAfter\":\"%s\",\"p\":{",
	    ft_name(LIB(vnadata_get_filetype(vdp))));
    put_projection(vdp, rv == 0);
    vt_put("}}");
    vt_end_line();
    if (reused == NULL)
	LIBV(vnadata_free(vdp));
}

/*
 * Manifest line (written by families/vfiles.py from the spelling table):
 *   idx cls var  pathA nameA setA methA  pathB nameB setB methB  order prelude
 * One episode per line: the two spellings of the same content are loaded
 * into fresh objects; then ONE object loads the prelude file (a file of
 * another kind: NPD before Touchstone spellings, Touchstone before NPD
 * ones, or the other Touchstone version) and after it both spellings in the
 * given order (ab | ba) -- what an object held before must not matter.
 */
static int mode_c08(const char *manifest, const char *seed, long from, long to)
{
    FILE *fp = fopen(manifest, "r");
    char line[4096];
    long idx = 0;

    if (fp == NULL) {
	perror(manifest);
	return 4;
    }
    while (fgets(line, sizeof(line), fp) != NULL) {
	char *fld[16];
	vnadata_t *chain;
	int n, rv, e, ab;

	if (idx >= to)
	    break;
	if (idx < from) {
	    ++idx;
	    continue;
	}
	n = split(line, " \t\r\n", fld, 16);
	if (n != 13) {
	    fprintf(stderr, "bad manifest line %ld\n", idx);
	    return 4;
	}
	vt_put("{\"e\":\"Reset\",\"case\":\"c08:%s:%s:%s:%s\"}", seed, fld[0],
		fld[1], fld[2]);
	vt_end_line();
	c08_load(NULL, "fresh", 1, "a", fld[3], fld[4], fld[5], fld[6]);
	c08_load(NULL, "fresh", 2, "b", fld[7], fld[8], fld[9], fld[10]);
	/* one object, loaded three times */
	chain = LIB(vnadata_alloc(vt_errfn, NULL));
	if (chain == NULL)
	    _exit(5);
	vt_cb_reset();
	rv = LIB(vnadata_load(chain, fld[12]));
	e = errno;
	vt_put("{\"e\":\"PLoad\",");
	put_outcome(rv == 0, e);
	put_msg_class();
	vt_put(",\"ftAfter\":\"%s\"}", ft_name(LIB(vnadata_get_filetype(chain))));
	vt_end_line();
	ab = strcmp(fld[11], "ab") == 0;
	if (ab) {
	    c08_load(chain, "chain", 1, "a", fld[3], fld[4], fld[5], fld[6]);
	    c08_load(chain, "chain", 2, "b", fld[7], fld[8], fld[9], fld[10]);
	} else {
	    c08_load(chain, "chain", 1, "b", fld[7], fld[8], fld[9], fld[10]);
	    c08_load(chain, "chain", 2, "a", fld[3], fld[4], fld[5], fld[6]);
	}
	LIBV(vnadata_free(chain));
	vt_put("{\"e\":\"End\",\"live\":%ld}", vt_alloc_live);
	vt_end_line();
	++idx;
    }
    fclose(fp);
    return 0;
}

/* --------------------------------------------- format-string grammar mode */

/*
 * Case line:  idx tok tok ...   (tokens of FileFmt!FmtTokens; "," and "x")
 * The token sequence is rendered to a concrete string (random letter case,
 * junk for "x") and given to vnadata_set_format on an object whose format
 * was "Sma"; the string vnadata_get_format reports afterwards is split
 * back into tokens by the harness (tokenise_format) and logged.
 */
static const char *fmt_words[] = {
    "vswr", "zin", "prc", "prl", "src", "srl", "il", "rl", "ri", "ma", "db",
    "s", "t", "u", "z", "y", "h", "g", "a", "b", ",", NULL
};

static void put_format_tokens(const char *str)
{
    char low[256];
    size_t n = 0;

    vt_put("[");
    if (str != NULL) {
	for (; str[n] != '\0' && n < sizeof(low) - 1; ++n)
	    low[n] = (char)tolower((unsigned char)str[n]);
	low[n] = '\0';
	for (size_t i = 0, k = 0; low[i] != '\0'; ++k) {
	    const char *hit = NULL;

	    for (const char **w = fmt_words; *w != NULL; ++w) {
		if (strncmp(&low[i], *w, strlen(*w)) == 0) {
		    hit = *w;
		    break;
		}
	    }
	    vt_put("%s\"%s\"", k ? "," : "", hit != NULL ? hit : "x");
	    i += hit != NULL ? strlen(hit) : 1;
	}
    }
    vt_put("]");
}

static int mode_fmt(const char *casefile, uint64_t seed, long from, long to)
{
    FILE *fp = fopen(casefile, "r");
    char line[1024];
    long idx = 0;
    static const char *junk[] = { "q", "?", "7", "w", "_", "dbm", "@" };

    if (fp == NULL) {
	perror(casefile);
	return 4;
    }
    while (fgets(line, sizeof(line), fp) != NULL) {
	char *fld[40];
	char str[512];
	char before[64];
	vt_rng_t rng;
	vnadata_t *vdp;
	const char *after;
	int n, rv, e;
	size_t len = 0;

	if (idx >= to)
	    break;
	if (idx < from) {
	    ++idx;
	    continue;
	}
	n = split(line, " \t\r\n", fld, 40);
	vt_seed(&rng, seed * 1000003ull + (uint64_t)idx);
	str[0] = '\0';
	for (int i = 1; i < n; ++i) {
	    const char *t = fld[i];

	    if (strcmp(t, "x") == 0)
		t = junk[vt_below(&rng, 7)];
	    for (; *t != '\0' && len < sizeof(str) - 1; ++t) {
		int c = (unsigned char)*t;

		str[len++] = (char)(vt_below(&rng, 2) ? toupper(c) : c);
	    }
	}
	str[len] = '\0';
	vt_put("{\"e\":\"Reset\",\"case\":\"fmt:%llu:%ld:%s\"}",
		(unsigned long long)seed, idx,
		getenv("VFILES_TAG") != NULL ? getenv("VFILES_TAG") : "quick");
	vt_end_line();
	vdp = LIB(vnadata_alloc_and_init(vt_errfn, NULL, VPT_S, 2, 2, 1));
	if (vdp == NULL || LIB(vnadata_set_format(vdp, "Sma")) != 0)
	    _exit(7);
	snprintf(before, sizeof(before), "%s", LIB(vnadata_get_format(vdp)));
	vt_cb_reset();
	rv = LIB(vnadata_set_format(vdp, str));
	e = errno;
	after = LIB(vnadata_get_format(vdp));
	vt_put("{\"e\":\"SetFmt\",\"toks\":[");
	for (int i = 1; i < n; ++i)
	    vt_put("%s\"%s\"", i > 1 ? "," : "", fld[i]);
	vt_put("],");
	put_outcome(rv == 0, e);
	vt_put(",\"kept\":%d,\"get\":", after != NULL &&
		strcmp(after, before) == 0);
	put_format_tokens(after);
	vt_put("}");
	vt_end_line();
	LIBV(vnadata_free(vdp));
	vt_put("{\"e\":\"End\",\"live\":%ld}", vt_alloc_live);
	vt_end_line();
	++idx;
    }
    fclose(fp);
    return 0;
}

/* ------------------------------------------------- file type memory mode */

/*
 * Case line:  idx op op ...   with op = set:<ft> | load:<ext>:<kind> |
 * save:<ext>.  Files dir/k_<kind><suffix> are prepared by the runner (the
 * same 2-port S content as NPD, Touchstone 1 and Touchstone 2 under every
 * extension class).  One object lives through the history.
 */
static const char *ext_suffix(const char *ext)
{
    if (strcmp(ext, "npd") == 0)	return ".npd";
    if (strcmp(ext, "ts") == 0)		return ".ts";
    if (strcmp(ext, "snp") == 0)	return ".s2p";
    if (strcmp(ext, "other") == 0)	return ".dat";
    return "";
}

static const char *sniff(const char *path)
{
    size_t n = 0;
    unsigned char *b = slurp(path, &n);
    const char *r = "none";

    if (b != NULL && n >= 4) {
	if (memcmp(b, "#NPD", 4) == 0)
	    r = "npd";
	else if (memcmp(b, "[Ver", 4) == 0)
	    r = "ts2";
	else if (b[0] == '#' || b[0] == '!')
	    r = "ts1";
    }
    free(b);
    return r;
}

static int mode_stick(const char *casefile, const char *dir, long from, long to)
{
    FILE *fp = fopen(casefile, "r");
    char line[1024];
    long idx = 0;

    if (fp == NULL) {
	perror(casefile);
	return 4;
    }
    while (fgets(line, sizeof(line), fp) != NULL) {
	char *fld[40];
	vnadata_t *vdp;
	int n;

	if (idx >= to)
	    break;
	if (idx < from) {
	    ++idx;
	    continue;
	}
	n = split(line, " \t\r\n", fld, 40);
	vt_put("{\"e\":\"Reset\",\"case\":\"stick:%s:%ld:%s\"}",
		getenv("VFILES_SEED") != NULL ? getenv("VFILES_SEED") : "0", idx,
		getenv("VFILES_TAG") != NULL ? getenv("VFILES_TAG") : "quick");
	vt_end_line();
	vdp = LIB(vnadata_alloc(vt_errfn, NULL));
	if (vdp == NULL)
	    _exit(5);
	for (int i = 1; i < n; ++i) {
	    char *part[4];
	    char path[512];
	    int np = split(fld[i], ":", part, 4);
	    int rv = -1, e = 0;
	    const char *wrote = "none";

	    vt_cb_reset();
	    if (np == 2 && strcmp(part[0], "set") == 0) {
		vnadata_filetype_t ft;

		if (ft_from_name(part[1], &ft) != 0)
		    _exit(4);
		rv = LIB(vnadata_set_filetype(vdp, ft));
		e = errno;
		vt_put("{\"e\":\"Stick\",\"op\":{\"op\":\"set\",\"ft\":\"%s\"},",
			part[1]);
	    } else if (np == 3 && strcmp(part[0], "load") == 0) {
		snprintf(path, sizeof(path), "%s/k_%s%s", dir, part[2],
			ext_suffix(part[1]));
		rv = LIB(vnadata_load(vdp, path));
		e = errno;
		vt_put("{\"e\":\"Stick\",\"op\":{\"op\":\"load\",\"ext\":\"%s\","
			"\"kind\":\"%s\"},", part[1], part[2]);
	    } else if (np == 2 && strcmp(part[0], "save") == 0) {
		static const double complex m[4] = { 0.1, 0.2 + 0.3 * I,
		    0.4 - 0.1 * I, -0.5 };

		snprintf(path, sizeof(path), "%s/out_%ld%s", dir,
			(long)getpid(), ext_suffix(part[1]));
		(void)unlink(path);
		if (LIB(vnadata_init(vdp, VPT_S, 2, 2, 2)) != 0 ||
			LIB(vnadata_set_frequency(vdp, 0, 1.0e9)) != 0 ||
			LIB(vnadata_set_frequency(vdp, 1, 2.0e9)) != 0 ||
			LIB(vnadata_set_matrix(vdp, 0, m)) != 0 ||
			LIB(vnadata_set_matrix(vdp, 1, m)) != 0 ||
			LIB(vnadata_set_format(vdp, "Sri")) != 0)
		    _exit(7);
		vt_cb_reset();
		rv = LIB(vnadata_save(vdp, path));
		e = errno;
		if (rv == 0)
		    wrote = sniff(path);
		(void)unlink(path);
		vt_put("{\"e\":\"Stick\",\"op\":{\"op\":\"save\",\"ext\":\"%s\"},",
			part[1]);
	    } else {
		_exit(4);
	    }
	    put_outcome(rv == 0, e);
	    vt_put(",\"ft\":\"%s\",\"wrote\":\"%s\",\"p\":{",
		    ft_name(LIB(vnadata_get_filetype(vdp))), wrote);
	    put_projection(vdp, 0);
	    vt_put("}}");
	    vt_end_line();
	}
	LIBV(vnadata_free(vdp));
	vt_put("{\"e\":\"End\",\"live\":%ld}", vt_alloc_live);
	vt_end_line();
	++idx;
    }
    fclose(fp);
    return 0;
}

/* ------------------------------------------------------------------ main */

int main(int argc, char **argv)
{
    const char *trace = getenv("VT_TRACE");
    const char *t = getenv("VFILES_TMP");

    if (t != NULL && *t != '\0')
	tmpdir = t;
    vt_open(trace != NULL ? trace : "-");
    vt_install_crash_handlers();
    if (argc == 6 && strcmp(argv[1], "c06") == 0) {
	return mode_c06(argv[2], strtoull(argv[3], NULL, 10),
		atol(argv[4]), atol(argv[5]));
    }
    if (argc == 3 && strcmp(argv[1], "c06id") == 0) {
	c06_case_t c;
	uint64_t seed;

	if (c06_from_id(argv[2], &c, &seed) != 0) {
	    fprintf(stderr, "bad case id\n");
	    return 4;
	}
	run_c06(&c, seed, argv[2]);
	return 0;
    }
    if (argc == 6 && strcmp(argv[1], "fmt") == 0) {
	return mode_fmt(argv[2], strtoull(argv[3], NULL, 10),
		atol(argv[4]), atol(argv[5]));
    }
    if (argc == 6 && strcmp(argv[1], "stick") == 0) {
	return mode_stick(argv[2], argv[3], atol(argv[4]), atol(argv[5]));
    }
    if (argc == 6 && strcmp(argv[1], "c08") == 0) {
	return mode_c08(argv[2], argv[3], atol(argv[4]), atol(argv[5]));
    }
    fprintf(stderr, "usage: drv_vfiles c06 CASEFILE SEED FROM TO | "
	    "c06id CASEID\n");
    return 4;
}
