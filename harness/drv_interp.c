/*
 * drv_interp.c -- conformance driver for frequency interpolation and range
 * checking (Interp.tla, property C10).  Everything goes through the public
 * API only.
 *
 * usage:  drv_interp MODE SEED FROM TO
 *   vec    vector parameters: vnacal_make_vector_parameter +
 *          vnacal_get_parameter_value at knots, between knots, outside,
 *          in ascending / descending / random order, every x at least twice
 *   rng    range verdicts of vnacal_new_add_* with vector standards,
 *          vnacal_new_set_frequency_vector, vnacal_new_set_m_error
 *   cal    calibrations with 1,2,3,5,9 (...) frequencies solved from exact
 *          data of an error model simulated here, used by vnacal_apply_m at
 *          knots, between knots and outside of the calibration range
 *   noise  measurement-noise vectors (vnacal_new_set_m_error) on their own
 *          grids, observed through the accept/reject verdict of weighted
 *          solves, differentially against frequency-independent sigmas
 *   sigma  correlated-parameter sigma vectors on their own grids, observed
 *          through the solved parameter value, differentially against
 *          frequency-independent sigmas
 * env: VT_TRACE=<path> (default stdout)
 *
 * Frequencies in the trace are integers on a grid; the real frequency is
 * x * UNIT Hz.  Values are interned: equal ids <=> bit-equal values.
 */
#include <complex.h>
#include <errno.h>
#include <math.h>
#include <stdio.h>
#include <stdlib.h>
#include <string.h>
#include <vnacal.h>
#include <vnadata.h>
#include "vt.h"
#include "own_clin.h"

#define UNIT	1.25e7
#define XMAX	4096
#define KMAX	24

static vt_rng_t rng;
static vnacal_t *vcp;
static int dbg;

static double F(int x)
{
    return (double)x * UNIT;
}

/* ------------------------------------------------------------ interning */

static uint64_t itab[1 << 16];
static int itabn;

static void intern_reset(void)
{
    itabn = 0;
}

static int intern_bytes(const void *p, size_t n)
{
    const unsigned char *b = p;
    uint64_t h = 1469598103934665603ull;

    for (size_t i = 0; i < n; ++i)
	h = (h ^ b[i]) * 1099511628211ull;
    for (int i = 0; i < itabn; ++i) {
	if (itab[i] == h)
	    return i + 1;
    }
    if (itabn >= (int)(sizeof(itab) / sizeof(itab[0]))) {
	fprintf(stderr, "drv_interp: intern table full\n");
	_exit(3);
    }
    itab[itabn++] = h;
    return itabn;
}

static int intern_c(double complex v)
{
    return intern_bytes(&v, sizeof(v));
}

/* --------------------------------------------------------------- helpers */

static double urand(double a, double b)
{
    return a + (b - a) * vt_unit(&rng);
}

static double complex crand(double radius)
{
    double r = radius * sqrt(vt_unit(&rng));
    double t = 6.283185307179586 * vt_unit(&rng);

    return r * (cos(t) + I * sin(t));
}

static double complex cphase(void)
{
    double t = 6.283185307179586 * vt_unit(&rng);

    return cos(t) + I * sin(t);
}

static void shuffle(int *v, int n)
{
    for (int i = n - 1; i > 0; --i) {
	int j = vt_below(&rng, i + 1);
	int t = v[i];

	v[i] = v[j];
	v[j] = t;
    }
}

static int cmp_int(const void *a, const void *b)
{
    int x = *(const int *)a, y = *(const int *)b;

    return (x > y) - (x < y);
}

/* n distinct ascending ints with first = lo, last = hi (n >= 2 needs hi-lo >= n-1) */
static int grid_between(int *k, int n, int lo, int hi)
{
    if (n < 1)
	return 0;
    if (n == 1 || hi <= lo) {
	k[0] = lo;
	return 1;
    }
    if (hi - lo < n - 1)
	n = hi - lo + 1;
    k[0] = lo;
    k[n - 1] = hi;
    for (int i = 1; i < n - 1; ++i) {
	for (;;) {
	    int c = lo + 1 + vt_below(&rng, hi - lo - 1);
	    int dup = 0;

	    for (int j = 0; j < i; ++j)
		if (k[j] == c)
		    dup = 1;
	    if (c == hi)
		dup = 1;
	    if (!dup) {
		k[i] = c;
		break;
	    }
	}
    }
    qsort(k, n, sizeof(int), cmp_int);
    return n;
}

static void put_ints(const char *name, const int *v, int n)
{
    vt_put("\"%s\":[", name);
    for (int i = 0; i < n; ++i)
	vt_put("%s%d", i ? "," : "", v[i]);
    vt_put("]");
}

/* outcome of the library call just made: ok, errno, callbacks */
static void put_result(int ok, int err)
{
    int cat = -1, one = 1;

    for (int i = 0; i < vt_cb.n && i < VT_CB_MAX; ++i) {
	if (vt_cb.cat[i] != VNAERR_WARNING && cat == -1)
	    cat = vt_cb.cat[i];
	if (!vt_cb.one_line[i])
	    one = 0;
    }
    vt_put(",\"ok\":%d,\"err\":\"%s\",\"cb\":%d,\"cat\":\"%s\",\"one\":%d",
	    ok, vt_errname(err), vt_cb.n_nonwarn,
	    cat < 0 ? "-" : vt_catname(cat), one);
}

static void ep_begin(const char *mode, uint64_t seed, int idx)
{
    vt_seed(&rng, seed * 1000003ull + (uint64_t)idx * 7919ull +
	    (uint64_t)mode[0] * 131ull + (uint64_t)mode[1]);
    intern_reset();
    vt_put("{\"e\":\"Reset\",\"mod\":\"Interp\",\"case\":\"%s:%llu:%d\"}",
	    mode, (unsigned long long)seed, idx);
    vt_end_line();
    vt_cb_reset();
    vcp = LIB(vnacal_create(vt_errfn, NULL));
    if (vcp == NULL) {
	fprintf(stderr, "drv_interp: vnacal_create failed\n");
	_exit(3);
    }
}

static void ep_end(void)
{
    LIBV(vnacal_free(vcp));
    vcp = NULL;
    vt_put("{\"e\":\"End\"}");
    vt_end_line();
}

/* ---------------------------------------------- low-order rational data */

typedef struct ratfn {
    int d;			/* degree of numerator and denominator */
    double complex a[3], b[3];
    double xc, span;
} ratfn_t;

/* degree (d,d) that every rational interpolant over min(n,5) points of
 * either even-order convention reproduces */
static int deg_for(int n)
{
    if (n <= 2)
	return 0;
    if (n <= 4)
	return 1;
    return 2;
}

static void rat_draw_den(ratfn_t *r, int d, double xc, double span)
{
    memset(r, 0, sizeof(*r));
    r->d = d;
    r->xc = xc;
    r->span = span > 0.0 ? span : 1.0;
    r->b[0] = 1.0;
    for (int i = 1; i <= d; ++i)
	r->b[i] = crand(0.35);
}

static void rat_draw_num(ratfn_t *r, double complex center, double amp)
{
    r->a[0] = center + crand(amp);
    for (int i = 1; i <= r->d; ++i)
	r->a[i] = crand(amp);
}

static double complex rat_eval(const ratfn_t *r, double x)
{
    double t = (x - r->xc) / r->span;
    double complex num = r->a[0], den = r->b[0];
    double tp = 1.0;

    for (int i = 1; i <= r->d; ++i) {
	tp *= t;
	num += r->a[i] * tp;
	den += r->b[i] * tp;
    }
    return num / den;
}

/* ------------------------------------------------------ vector parameters */

typedef struct vpar {
    int h;
    int n;
    int k[KMAX];
    double complex y[KMAX];
    int cls;			/* 1 = sampled from a low-order rational */
    ratfn_t R;
} vpar_t;

static const char *cls_name(int cls)
{
    return cls ? "rat" : "arb";
}

/*
 * emit_makevec: call vnacal_make_vector_parameter with the given knots and
 * log it.  n may be 0 and k may be invalid (the spec decides).
 */
static int emit_makevec(vpar_t *p)
{
    double fv[KMAX];
    int yid[KMAX];
    int h, err;

    for (int i = 0; i < p->n; ++i) {
	fv[i] = F(p->k[i]);
	yid[i] = intern_c(p->y[i]);
    }
    vt_cb_reset();
    h = LIB(vnacal_make_vector_parameter(vcp, fv, p->n, p->y));
    err = errno;
    p->h = h;
    vt_put("{\"e\":\"MakeVec\",");
    put_ints("k", p->k, p->n);
    vt_put(",");
    put_ints("y", yid, p->n);
    vt_put(",\"cls\":\"%s\",\"h\":%d", cls_name(p->cls), h);
    put_result(h >= 0, err);
    vt_put("}");
    vt_end_line();
    return h;
}

/* draw knots: n points, first at `first`, steps from the given menu */
static void draw_knots(int *k, int n, int first, int coarse)
{
    k[0] = first;
    for (int i = 1; i < n; ++i) {
	int step = coarse ? 10 * (1 + vt_below(&rng, 3))
			  : 1 + vt_below(&rng, 35);

	k[i] = k[i - 1] + step;
    }
}

static void fill_values(vpar_t *p)
{
    if (p->cls) {
	int d = deg_for(p->n);

	if (d > 0 && vt_below(&rng, 4) == 0)
	    --d;
	rat_draw_den(&p->R, d, 0.5 * (p->k[0] + p->k[p->n - 1]),
		(double)(p->k[p->n - 1] - p->k[0]));
	rat_draw_num(&p->R, crand(0.5), 0.6);
	for (int i = 0; i < p->n; ++i)
	    p->y[i] = rat_eval(&p->R, (double)p->k[i]);
    } else {
	for (int i = 0; i < p->n; ++i)
	    p->y[i] = crand(1.0);
    }
}

static int pick_n(void)
{
    static const int menu[] = { 1, 2, 2, 2, 3, 3, 4, 5, 5, 6, 9, 12 };

    return menu[vt_below(&rng, (int)(sizeof(menu) / sizeof(menu[0])))];
}

/*
 * Isolated-singularity qualification of the `rat' observation.
 *
 * The supplied samples (and, for calibrations, the solved error terms) are
 * the low-order function only up to rounding.  Where the data are of lower
 * order than the interpolant over the window admits, the exact rational
 * interpolant of such rounded data has spurious pole-zero pairs (Froissart
 * doublets) of width ~1e-16; if one falls exactly on a query frequency the
 * mathematically exact interpolant itself is off there (seen: a constant
 * term with alternating last-bit noise on knots symmetric about the query).
 * That is a property of the problem instance, not of the implementation.
 * A failure is therefore counted only if it is not isolated: the same
 * object, asked at x (1 - ISO_REL) and x (1 + ISO_REL), reproduces the
 * function there.  A wrong window, order or formula fails on whole
 * neighbourhoods and stays a failure.
 */
#define ISO_REL	1.0e-6
static long iso_skipped;

static int getval_close(const vpar_t *p, double xr)
{
    double complex v = LIB(vnacal_get_parameter_value(vcp, p->h, xr * UNIT));
    double complex t = rat_eval(&p->R, xr);

    return creal(v) != HUGE_VAL &&
	cabs(v - t) <= 1.0e-9 * fmax(1.0, cabs(t));
}

static void emit_getval(const vpar_t *p, int x)
{
    double complex v;
    int err, ok, rat = -1, iso = 0;

    vt_cb_reset();
    v = LIB(vnacal_get_parameter_value(vcp, p->h, F(x)));
    err = errno;
    ok = !(creal(v) == HUGE_VAL);
    if (ok && p->cls && x >= p->k[0] && x <= p->k[p->n - 1]) {
	double complex t = rat_eval(&p->R, (double)x);
	double scale = fmax(1.0, cabs(t));

	rat = cabs(v - t) <= 1.0e-9 * scale;
	if (!rat && x > p->k[0] && x < p->k[p->n - 1]) {
	    vt_cb_t saved = vt_cb;

	    if (getval_close(p, x * (1.0 - ISO_REL)) &&
		    getval_close(p, x * (1.0 + ISO_REL))) {
		rat = 1;
		iso = 1;
		++iso_skipped;
	    }
	    vt_cb = saved;
	    errno = err;
	}
    }
    vt_put("{\"e\":\"GetVal\",\"h\":%d,\"x\":%d,\"v\":%d,\"rat\":%d,\"iso\":%d",
	    p->h, x, ok ? intern_c(v) : 0, rat, iso);
    put_result(ok, err);
    vt_put("}");
    vt_end_line();
}

/*
 * emit_stir: let a solve use the vector parameter as a standard (it is
 * evaluated at the calibration frequencies, which moves the remembered
 * segment) between two query passes.  Only the hint matters; whether the
 * solve of the random data succeeds is irrelevant and not asserted.
 */
static void emit_stir(const vpar_t *p)
{
    vnacal_new_t *vnp;
    double fv[3];
    int nf = p->n >= 2 ? 3 : 1, ok = 0;
    double complex mv[3];
    double complex *mp[1] = { mv };

    fv[0] = F(p->k[0]);
    if (nf == 3) {
	fv[1] = 0.5 * (F(p->k[0]) + F(p->k[p->n - 1]));
	fv[2] = F(p->k[p->n - 1]);
    }
    vt_cb_reset();
    vnp = LIB(vnacal_new_alloc(vcp, VNACAL_T8, 1, 1, nf));
    if (vnp != NULL) {
	if (LIB(vnacal_new_set_frequency_vector(vnp, fv)) == 0) {
	    static const int other[2] = { VNACAL_SHORT, VNACAL_OPEN };

	    for (int i = 0; i < nf; ++i)
		mv[i] = crand(1.0);
	    if (LIB(vnacal_new_add_single_reflect_m(vnp, mp, 1, 1, p->h,
			    1)) == 0) {
		for (int s = 0; s < 2; ++s) {
		    for (int i = 0; i < nf; ++i)
			mv[i] = crand(1.0);
		    (void)LIB(vnacal_new_add_single_reflect_m(vnp, mp, 1, 1,
				other[s], 1));
		}
		ok = LIB(vnacal_new_solve(vnp)) == 0;
	    }
	}
	LIBV(vnacal_new_free(vnp));
    }
    vt_put("{\"e\":\"Stir\",\"h\":%d,\"solved\":%d}", p->h, ok);
    vt_end_line();
}

static int build_queries(const vpar_t *p, int *q, int max)
{
    int n = 0;
    int kmin = p->k[0], kmax = p->k[p->n - 1];

    for (int i = 0; i < p->n && n < max; ++i)
	q[n++] = p->k[i];
    for (int i = 0; i + 1 < p->n && n < max; ++i) {
	int mid = (p->k[i] + p->k[i + 1]) / 2;

	q[n++] = mid;
	if (p->k[i] + 1 < p->k[i + 1] && n < max)
	    q[n++] = p->k[i] + 1 + vt_below(&rng, p->k[i + 1] - p->k[i] - 1);
    }
    /* clearly outside (>= 5 % beyond), slightly outside, just outside */
    if (n < max) {
	int far = (int)floor(kmin / 1.06) - vt_below(&rng, 4);

	if (far >= 0 && far < kmin)
	    q[n++] = far;
    }
    if (n < max)
	q[n++] = (int)ceil(kmax * 1.06) + 1 + vt_below(&rng, 4);
    if (kmin > 0 && n < max)
	q[n++] = kmin - 1;
    if (n < max)
	q[n++] = kmax + 1;
    return n;
}

static void ep_vec(uint64_t seed, int idx)
{
    vpar_t P[2];
    int np, nq_total = 0;
    struct { int p; int x; } Q[512];

    ep_begin("vec", seed, idx);
    np = 1 + vt_below(&rng, 2);
    for (int j = 0; j < np; ++j) {
	vpar_t *p = &P[j];

	p->n = pick_n();
	p->cls = vt_below(&rng, 2);
	draw_knots(p->k, p->n, 10 * (1 + vt_below(&rng, 12)),
		vt_below(&rng, 2));
	fill_values(p);
	emit_makevec(p);
    }
    if (idx % 4 == 1) {
	/* an invalid frequency vector: must be refused */
	vpar_t bad;
	int kind = vt_below(&rng, 4);

	memset(&bad, 0, sizeof(bad));
	bad.n = 2 + vt_below(&rng, 4);
	draw_knots(bad.k, bad.n, 20, 1);
	for (int i = 0; i < bad.n; ++i)
	    bad.y[i] = crand(1.0);
	switch (kind) {
	case 0:		/* duplicate */
	    bad.k[bad.n - 1] = bad.k[bad.n - 2];
	    break;
	case 1:		/* descending pair */
	    {
		int t = bad.k[0];

		bad.k[0] = bad.k[1];
		bad.k[1] = t;
	    }
	    break;
	case 2:		/* negative first */
	    bad.k[0] = -10;
	    break;
	default:	/* no points */
	    bad.n = 0;
	    break;
	}
	emit_makevec(&bad);
    }
    /* queries: two passes in different orders per parameter, interleaved */
    for (int j = 0; j < np; ++j) {
	int q[128], n, order = (idx + j) % 3;

	if (P[j].h < 0)
	    continue;
	n = build_queries(&P[j], q, 100);
	if (order == 0) {
	    qsort(q, n, sizeof(int), cmp_int);
	} else if (order == 1) {
	    qsort(q, n, sizeof(int), cmp_int);
	    for (int i = 0; i < n / 2; ++i) {
		int t = q[i];

		q[i] = q[n - 1 - i];
		q[n - 1 - i] = t;
	    }
	} else {
	    shuffle(q, n);
	}
	for (int i = 0; i < n && nq_total < 500; ++i) {
	    Q[nq_total].p = j;
	    Q[nq_total].x = q[i];
	    ++nq_total;
	}
    }
    if (np == 2) {
	/* interleave the two parameters' first passes at random, keeping
	 * each parameter's own order */
	int a = 0, b = 0, na = 0, nb = 0;
	struct { int p; int x; } T[512];

	for (int i = 0; i < nq_total; ++i) {
	    if (Q[i].p == 0)
		++na;
	    else
		++nb;
	}
	for (int i = 0; i < nq_total; ++i) {
	    int take_a = (a < na) && (b >= nb || vt_below(&rng, 2));

	    if (take_a) {
		int c = 0;

		for (int t = 0; t < nq_total; ++t) {
		    if (Q[t].p == 0 && c++ == a) {
			T[i].p = 0;
			T[i].x = Q[t].x;
			break;
		    }
		}
		++a;
	    } else {
		int c = 0;

		for (int t = 0; t < nq_total; ++t) {
		    if (Q[t].p == 1 && c++ == b) {
			T[i].p = 1;
			T[i].x = Q[t].x;
			break;
		    }
		}
		++b;
	    }
	}
	memcpy(Q, T, sizeof(Q[0]) * nq_total);
    }
    for (int i = 0; i < nq_total; ++i)
	emit_getval(&P[Q[i].p], Q[i].x);
    /* a solve in between moves the remembered segments */
    if (idx % 2 == 0) {
	for (int j = 0; j < np; ++j) {
	    if (P[j].h >= 0)
		emit_stir(&P[j]);
	}
    }
    /* second pass: every x again at a different history position */
    {
	int order[512];

	for (int i = 0; i < nq_total; ++i)
	    order[i] = i;
	if (idx % 3 == 2) {
	    for (int i = 0; i < nq_total / 2; ++i) {
		int t = order[i];

		order[i] = order[nq_total - 1 - i];
		order[nq_total - 1 - i] = t;
	    }
	} else {
	    shuffle(order, nq_total);
	}
	for (int i = 0; i < nq_total; ++i)
	    emit_getval(&P[Q[order[i]].p], Q[order[i]].x);
    }
    ep_end();
}

/* -------------------------------------------------------- range verdicts */

static const vnacal_type_t rng_types[] = {
    VNACAL_T8, VNACAL_U8, VNACAL_TE10, VNACAL_UE10, VNACAL_UE14, VNACAL_E12
};

static int is_ue14(vnacal_type_t t)
{
    return t == VNACAL_UE14 || t == VNACAL_E12;
}

/* supplied range of the given kind relative to the needed band [lo, hi] */
static void range_of_kind(int kind, int lo, int hi, int *amin, int *amax)
{
    int wl = lo > hi - lo ? lo : hi - lo;
    int ml = (5 * wl + 99) / 100;	/* ceil(5 % of max(lo, width)) */
    int mh = (5 * hi + 99) / 100;	/* ceil(5 % of hi) */

    switch (kind) {
    case 0:			/* exact cover */
	*amin = lo;
	*amax = hi;
	break;
    case 1:			/* wide cover */
	*amin = lo - vt_below(&rng, lo / 2 + 1);
	*amax = hi + vt_below(&rng, 60);
	break;
    case 2:			/* misses the low end by >= 5 % */
	*amin = lo + ml + vt_below(&rng, 30);
	*amax = hi + vt_below(&rng, 50);
	break;
    case 3:			/* misses the high end by >= 5 % */
	*amin = lo - vt_below(&rng, lo / 2 + 1);
	*amax = hi - mh - vt_below(&rng, 30);
	break;
    case 4:			/* both */
	*amin = lo + ml + vt_below(&rng, 20);
	*amax = hi - mh - vt_below(&rng, 20);
	break;
    case 5:			/* slightly short at the low end */
	*amin = lo + 1;
	*amax = hi + vt_below(&rng, 50);
	break;
    case 6:			/* slightly short at the high end */
	*amin = lo - vt_below(&rng, lo / 2 + 1);
	*amax = hi - 1;
	break;
    default:			/* a single point at the low edge */
	*amin = lo;
	*amax = lo;
	break;
    }
    if (*amin < 0)
	*amin = 0;
    if (*amax < 0)
	*amax = 0;
    if (*amax < *amin) {
	/* degenerate after the shifts: collapse to one point at amax side */
	int t = *amax;

	*amax = *amin;
	*amin = t;
    }
}

static void emit_setf(vnacal_new_t *vnp, const int *k, int n)
{
    double fv[KMAX];
    int rc, err;

    for (int i = 0; i < n; ++i)
	fv[i] = F(k[i]);
    vt_cb_reset();
    rc = LIB(vnacal_new_set_frequency_vector(vnp, fv));
    err = errno;
    vt_put("{\"e\":\"SetF\",");
    put_ints("k", k, n);
    put_result(rc == 0, err);
    vt_put("}");
    vt_end_line();
}

/* random measurement vectors for nf frequencies */
static double complex **alloc_cells(int cells, int nf)
{
    double complex **m = calloc(cells, sizeof(*m));

    for (int c = 0; c < cells; ++c) {
	m[c] = calloc(nf > 0 ? nf : 1, sizeof(double complex));
	for (int i = 0; i < nf; ++i)
	    m[c][i] = crand(1.0);
    }
    return m;
}

static void free_cells(double complex **m, int cells)
{
    for (int c = 0; c < cells; ++c)
	free(m[c]);
    free(m);
}

static const char *form_names[] = { "sr_m", "dr_m", "line_m", "map_m",
    "sr_ab", "dr_ab" };

static void emit_addvec(vnacal_new_t *vnp, vnacal_type_t type, int nf, int h,
	int form, int scalar_h)
{
    int rc = -1, err;
    double complex **m = NULL, **a = NULL;
    int port = 1 + vt_below(&rng, 2);
    int s4[4];

    vt_cb_reset();
    switch (form) {
    case 0:
	m = alloc_cells(1, nf);
	rc = LIB(vnacal_new_add_single_reflect_m(vnp, m, 1, 1, h, port));
	err = errno;
	free_cells(m, 1);
	break;
    case 1:
	m = alloc_cells(4, nf);
	if (vt_below(&rng, 2))
	    rc = LIB(vnacal_new_add_double_reflect_m(vnp, m, 2, 2,
			h, scalar_h, 1, 2));
	else
	    rc = LIB(vnacal_new_add_double_reflect_m(vnp, m, 2, 2,
			scalar_h, h, 2, 1));
	err = errno;
	free_cells(m, 4);
	break;
    case 2:
	m = alloc_cells(4, nf);
	s4[0] = VNACAL_MATCH;
	s4[1] = VNACAL_ONE;
	s4[2] = scalar_h;
	s4[3] = VNACAL_MATCH;
	s4[vt_below(&rng, 4)] = h;
	rc = LIB(vnacal_new_add_line_m(vnp, m, 2, 2, s4, 1, 2));
	err = errno;
	free_cells(m, 4);
	break;
    case 3:
	m = alloc_cells(4, nf);
	s4[0] = scalar_h;
	s4[1] = VNACAL_ZERO;
	s4[2] = VNACAL_ZERO;
	s4[3] = VNACAL_SHORT;
	s4[vt_below(&rng, 4)] = h;
	rc = LIB(vnacal_new_add_mapped_matrix_m(vnp, m, 2, 2, s4, 2, 2, NULL));
	err = errno;
	free_cells(m, 4);
	break;
    case 4:
	m = alloc_cells(1, nf);
	a = alloc_cells(1, nf);
	for (int i = 0; i < nf; ++i)
	    a[0][i] = 1.0 + crand(0.2);
	rc = LIB(vnacal_new_add_single_reflect(vnp, a, 1, 1, m, 1, 1, h, port));
	err = errno;
	free_cells(m, 1);
	free_cells(a, 1);
	break;
    default:
	{
	    int a_rows = is_ue14(type) ? 1 : 2;

	    m = alloc_cells(4, nf);
	    a = alloc_cells(a_rows * 2, nf);
	    for (int i = 0; i < nf; ++i) {
		if (a_rows == 1) {
		    a[0][i] = 1.0 + crand(0.2);
		    a[1][i] = 1.0 + crand(0.2);
		} else {
		    a[0][i] = 1.0 + crand(0.2);
		    a[1][i] = crand(0.2);
		    a[2][i] = crand(0.2);
		    a[3][i] = 1.0 + crand(0.2);
		}
	    }
	    rc = LIB(vnacal_new_add_double_reflect(vnp, a, a_rows, 2, m, 2, 2,
			h, scalar_h, 1, 2));
	    err = errno;
	    free_cells(m, 4);
	    free_cells(a, a_rows * 2);
	}
	break;
    }
    vt_put("{\"e\":\"AddVec\",\"h\":%d,\"form\":\"%s\"", h, form_names[form]);
    put_result(rc == 0, err);
    vt_put("}");
    vt_end_line();
}

static void emit_setmerr(vnacal_new_t *vnp, int kind, int lo, int hi, int nf)
{
    int k[KMAX], n = 1, use_null = 0, rc, err;
    double fv[KMAX], nfv[KMAX], trv[KMAX];
    int with_tr = vt_below(&rng, 2);

    switch (kind) {
    case 0:			/* one value, no frequency vector */
	n = 1;
	use_null = 1;
	break;
    case 1:			/* one value, frequency vector given (ignored) */
	n = 1;
	k[0] = hi * 3 + 7;
	break;
    case 2:			/* one value per calibration frequency */
	n = nf;
	use_null = 1;
	break;
    default:
	{
	    int amin, amax;

	    range_of_kind(kind - 3, lo, hi, &amin, &amax);
	    n = 2 + vt_below(&rng, 5);
	    if (amax <= amin)
		amax = amin + 10;
	    n = grid_between(k, n, amin, amax);
	}
	break;
    }
    for (int i = 0; i < n; ++i) {
	fv[i] = use_null ? 0.0 : F(k[i]);
	nfv[i] = urand(1.0e-6, 1.0e-3);
	trv[i] = urand(0.0, 1.0e-3);
    }
    vt_cb_reset();
    rc = LIB(vnacal_new_set_m_error(vnp, use_null ? NULL : fv, n, nfv,
		with_tr ? trv : NULL));
    err = errno;
    vt_put("{\"e\":\"SetMErr\",\"n\":%d,\"null\":%d,", n, use_null);
    put_ints("k", k, use_null ? 0 : n);
    vt_put(",\"tr\":%d", with_tr);
    put_result(rc == 0, err);
    vt_put("}");
    vt_end_line();
}

static void draw_band(int nf, int *k)
{
    int lo = 100 + 10 * vt_below(&rng, 30);
    int hi = nf == 1 ? lo : lo + 10 * (nf - 1 + vt_below(&rng, 40));

    grid_between(k, nf, lo, hi);
}

/*
 * emit_makepar: the other kinds of frequency-limited (or unlimited)
 * parameters a standard can be made of:
 *   scalar                        no frequency limits
 *   unk   over base               limits of the base (initial guess)
 *   corr  over base, sigma grid   limits of the base intersected with the
 *                                 span of the sigma frequency vector
 *                                 (nsk >= 2; nsk = 1: one sigma, no grid)
 */
static int emit_makepar(const char *kind, int base, const int *sk, int nsk)
{
    int h = -1, err;
    double fv[KMAX], sv[KMAX];

    vt_cb_reset();
    if (strcmp(kind, "scalar") == 0) {
	h = LIB(vnacal_make_scalar_parameter(vcp, crand(0.9)));
    } else if (strcmp(kind, "unk") == 0) {
	h = LIB(vnacal_make_unknown_parameter(vcp, base));
    } else {
	for (int i = 0; i < nsk; ++i) {
	    fv[i] = F(sk[i]);
	    sv[i] = urand(0.01, 1.0);
	}
	h = LIB(vnacal_make_correlated_parameter(vcp, base,
		    nsk >= 2 ? fv : NULL, nsk, sv));
    }
    err = errno;
    vt_put("{\"e\":\"MakePar\",\"kind\":\"%s\",\"base\":%d,", kind, base);
    put_ints("sk", sk, nsk >= 2 ? nsk : 0);
    vt_put(",\"h\":%d", h);
    put_result(h >= 0, err);
    vt_put("}");
    vt_end_line();
    return h;
}

/* a sigma grid of the given range kind relative to [lo, hi]; returns the
 * number of knots (>= 2) or 0 if the kind collapses to a point */
static int draw_sigma_grid(int *sk, int kind, int lo, int hi)
{
    int amin, amax, n;

    range_of_kind(kind, lo, hi, &amin, &amax);
    if (amax <= amin)
	return 0;
    n = 2 + vt_below(&rng, 4);
    return grid_between(sk, n, amin, amax);
}

static int draw_miss_kind(void)
{
    /* cover (exact / wide), >= 5 % miss low / high / both, slight misses */
    static const int kinds[] = { 0, 1, 2, 3, 4, 2, 3, 4, 3, 5, 6 };

    return kinds[vt_below(&rng, (int)(sizeof(kinds) / sizeof(kinds[0])))];
}

static void ep_rng(uint64_t seed, int idx)
{
    vnacal_type_t type;
    vnacal_new_t *vnp;
    int nf, band1[KMAX], band2[KMAX], np, scalar_h, err;
    vpar_t P[6];
    int variant = idx % 2;
    int H[24], nh = 0;

    ep_begin("rng", seed, idx);
    type = rng_types[vt_below(&rng, 6)];
    nf = 1 + vt_below(&rng, 4);
    vt_cb_reset();
    vnp = LIB(vnacal_new_alloc(vcp, type, 2, 2, nf));
    err = errno;
    vt_put("{\"e\":\"NewAlloc\",\"type\":\"%s\",\"nf\":%d",
	    vnacal_type_to_name(type), nf);
    put_result(vnp != NULL, err);
    vt_put("}");
    vt_end_line();
    if (vnp == NULL) {
	ep_end();
	return;
    }
    vt_cb_reset();
    scalar_h = LIB(vnacal_make_scalar_parameter(vcp, crand(0.9)));
    draw_band(nf, band1);
    draw_band(nf, band2);
    np = 3 + vt_below(&rng, 3);
    for (int j = 0; j < np; ++j) {
	vpar_t *p = &P[j];
	const int *band = (variant == 0 || vt_below(&rng, 3)) ? band1 : band2;
	int amin, amax, kind;

	/* half of the parameters cover, the others miss in the various ways */
	kind = vt_below(&rng, 2) ? vt_below(&rng, 2) : 2 + vt_below(&rng, 6);
	range_of_kind(kind, band[0], band[nf - 1], &amin, &amax);
	p->n = amax > amin ? 2 + vt_below(&rng, 5) : 1;
	p->n = grid_between(p->k, p->n, amin, amax);
	p->cls = 0;
	fill_values(p);
	emit_makevec(p);
	if (p->h >= 0)
	    H[nh++] = p->h;
    }
    /*
     * the other frequency-limited standards: unknown over a vector guess,
     * correlated over a scalar / vector / unknown base with an explicit
     * sigma grid (the usable range is the intersection), correlated with
     * a single sigma (no grid, no extra limit)
     */
    {
	const int *band = vt_below(&rng, 4) ? band1 : band2;
	int lo = band[0], hi = band[nf - 1];
	int sk[KMAX], nsk, hu = -1, jv = -1;

	for (int j = 0; j < np; ++j)
	    if (P[j].h >= 0 && (jv < 0 || vt_below(&rng, 2)))
		jv = j;
	if (jv >= 0) {
	    hu = emit_makepar("unk", P[jv].h, NULL, 0);
	    if (hu >= 0 && vt_below(&rng, 2))
		H[nh++] = hu;
	}
	for (int t = 0; t < 2; ++t) {
	    /* correlated over a scalar base: only the sigma grid limits */
	    int hs = emit_makepar("scalar", -1, NULL, 0);

	    nsk = draw_sigma_grid(sk, draw_miss_kind(), lo, hi);
	    if (hs >= 0 && nsk >= 2) {
		int hc = emit_makepar("corr", hs, sk, nsk);

		if (hc >= 0)
		    H[nh++] = hc;
	    }
	}
	if (jv >= 0) {
	    /* correlated over a vector base, and over the unknown above:
	     * the sigma grid must overlap the base's own range */
	    for (int t = 0; t < 2; ++t) {
		int base = t == 0 ? P[jv].h : hu;

		if (base < 0)
		    continue;
		nsk = draw_sigma_grid(sk, draw_miss_kind(), lo, hi);
		if (nsk >= 2 && sk[0] <= P[jv].k[P[jv].n - 1] &&
			sk[nsk - 1] >= P[jv].k[0]) {
		    int hc = emit_makepar("corr", base, sk, nsk);

		    if (hc >= 0)
			H[nh++] = hc;
		}
	    }
	}
	if (vt_below(&rng, 2)) {
	    /* one sigma for all frequencies: no limit of its own */
	    int hs = emit_makepar("scalar", -1, NULL, 0);

	    sk[0] = lo;
	    if (hs >= 0) {
		int hc = emit_makepar("corr", hs, sk, 1);

		if (hc >= 0)
		    H[nh++] = hc;
	    }
	}
	shuffle(H, nh);
    }
    if (variant == 0) {
	emit_setf(vnp, band1, nf);
	for (int j = 0; j < nh; ++j)
	    emit_addvec(vnp, type, nf, H[j], vt_below(&rng, 6), scalar_h);
	emit_setf(vnp, band2, nf);
	/* whichever band is in force now is not known here: the trace
	 * spec tracks it; draw the noise grids around both */
	for (int t = 0; t < 4; ++t) {
	    const int *band = vt_below(&rng, 2) ? band1 : band2;

	    emit_setmerr(vnp, vt_below(&rng, 10), band[0], band[nf - 1], nf);
	}
    } else {
	for (int j = 0; j < nh; ++j)
	    emit_addvec(vnp, type, nf, H[j], vt_below(&rng, 6), scalar_h);
	/* set_m_error before the frequency vector: documented as an error */
	emit_setmerr(vnp, vt_below(&rng, 4), band1[0], band1[nf - 1], nf);
	emit_setf(vnp, band1, nf);
	emit_setf(vnp, band2, nf);
	{
	    /* a band every parameter that can be covered is covered by is
	     * not always possible; just try a third one around the knots
	     * of the first parameter */
	    int band3[KMAX];

	    if (P[0].h >= 0 && P[0].n >= 2 &&
		    P[0].k[P[0].n - 1] - P[0].k[0] >= nf) {
		grid_between(band3, nf, P[0].k[0] + 1,
			P[0].k[P[0].n - 1] - 1 > P[0].k[0] + 1 ?
			P[0].k[P[0].n - 1] - 1 : P[0].k[0] + 1);
		if (nf == 1 || band3[nf - 1] > band3[0])
		    emit_setf(vnp, band3, nf);
	    }
	}
	for (int t = 0; t < 3; ++t) {
	    const int *band = vt_below(&rng, 2) ? band1 : band2;

	    emit_setmerr(vnp, vt_below(&rng, 10), band[0], band[nf - 1], nf);
	}
    }
    LIBV(vnacal_new_free(vnp));
    ep_end();
}

/* ------------------------------------------------ error-network simulator */

enum { MT_T8, MT_U8, MT_E12, MT_TE10, MT_UE10, MT_UE14, MT_COUNT };
static const char *mt_names[] = { "T8", "U8", "E12", "TE10", "UE10", "UE14" };
static const vnacal_type_t mt_types[] = { VNACAL_T8, VNACAL_U8, VNACAL_E12,
    VNACAL_TE10, VNACAL_UE10, VNACAL_UE14 };

static int mt_is12(int mt)
{
    return mt == MT_E12 || mt == MT_UE14;
}

static int mt_has_leak(int mt)
{
    return mt == MT_TE10 || mt == MT_UE10;
}

#define NTERMS_MAX 12

typedef struct errmodel {
    int mt;			/* MT_* */
    int p;			/* ports */
    int nterms;			/* 4p (8-term) or 3p^2 (12-term) */
    double complex t[NTERMS_MAX];
} errmodel_t;

/*
 * 8-term model: per port directivity ed, tracking a (receive side) and b
 * (source side), match em:   M = Ed + A S (I - Em S)^-1 B
 * terms: ed[p], a[p], b[p], em[p]; TE10 / UE10 add the leakage inside the
 * VNA from the driven port j to the receiver of port i != j:
 *   M[i][j] += l[i][j]        terms: ..., l[p*(p-1)] (row-major, i != j)
 *
 * 12-term model (generalised SOLT): for each driven column c, leakage /
 * directivity el[r][c], tracking er[r][c], match em[r][c] (source match on
 * the driven port, load match on the others):
 *   a' = e_c + Em_c b,  b = S a',  M[r][c] = el[r][c] + er[r][c] b[r]
 * terms: el[p*p], er[p*p], em[p*p]
 */
static void model_measure(const errmodel_t *e, const double complex *S,
	double complex *M)
{
    int p = e->p;

    if (mt_is12(e->mt)) {
	const double complex *el = &e->t[0];
	const double complex *er = &e->t[p * p];
	const double complex *em = &e->t[2 * p * p];

	for (int c = 0; c < p; ++c) {
	    oc_t W[p * p], b[p];

	    for (int i = 0; i < p; ++i) {
		for (int j = 0; j < p; ++j)
		    W[i * p + j] = (i == j ? 1.0L : 0.0L) -
			(oc_t)S[i * p + j] * (oc_t)em[j * p + c];
		b[i] = S[i * p + c];
	    }
	    if (oc_solve(p, W, b, 1, NULL) == -1) {
		for (int r = 0; r < p; ++r)
		    M[r * p + c] = NAN;
		continue;
	    }
	    for (int r = 0; r < p; ++r)
		M[r * p + c] = (double complex)((oc_t)el[r * p + c] +
			(oc_t)er[r * p + c] * b[r]);
	}
    } else {
	const double complex *ed = &e->t[0];
	const double complex *a = &e->t[p];
	const double complex *b = &e->t[2 * p];
	const double complex *em = &e->t[3 * p];
	oc_t Wt[p * p], St[p * p];

	/* N = S (I - Em S)^-1  <=>  (I - Em S)^T N^T = S^T */
	for (int i = 0; i < p; ++i) {
	    for (int j = 0; j < p; ++j) {
		oc_t w = (i == j ? 1.0L : 0.0L) -
		    (oc_t)em[i] * (oc_t)S[i * p + j];

		Wt[j * p + i] = w;
		St[j * p + i] = S[i * p + j];
	    }
	}
	if (oc_solve(p, Wt, St, p, NULL) == -1) {
	    for (int i = 0; i < p * p; ++i)
		M[i] = NAN;
	    return;
	}
	{
	    const double complex *leak = &e->t[4 * p];
	    int li = 0;

	    for (int i = 0; i < p; ++i) {
		for (int j = 0; j < p; ++j) {
		    oc_t n = St[j * p + i];
		    oc_t v = (i == j ? (oc_t)ed[i] : 0.0L) +
			(oc_t)a[i] * n * (oc_t)b[j];

		    if (i != j && mt_has_leak(e->mt))
			v += (oc_t)leak[li];
		    if (i != j)
			++li;
		    M[i * p + j] = (double complex)v;
		}
	    }
	}
    }
}

/* term roles: 0 = small (directivity, match), 1 = tracking, 2 = leakage */
static int term_role(int mt, int p, int term)
{
    if (mt_is12(mt)) {
	int block = term / (p * p);
	int cell = term % (p * p);
	int r = cell / p, c = cell % p;

	if (block == 0)
	    return r == c ? 0 : 2;
	if (block == 1)
	    return 1;
	return 0;
    }
    {
	int block = term / p;

	if (term >= 4 * p)
	    return 2;
	return (block == 1 || block == 2) ? 1 : 0;
    }
}

static double complex draw_term(int role)
{
    switch (role) {
    case 1:
	return cphase() * urand(0.8, 1.2);
    case 2:
	return crand(0.03);
    default:
	return crand(0.2);
    }
}

typedef struct calctx {
    int mt, p, n, cls, ci;
    int vstd;			/* one standard is a vector parameter on its
				   own grid of n points (other knots) */
    int k[KMAX];
    int nterms;
    ratfn_t rt[NTERMS_MAX];	/* cls = rat */
    /* caches by grid point */
    unsigned char have_model[XMAX], have_dut[XMAX];
    errmodel_t model[XMAX];
    double complex dut[XMAX][4];
    double complex meas[XMAX][4];
} calctx_t;

static int is_knot(const int *k, int n, int x)
{
    for (int i = 0; i < n; ++i)
	if (k[i] == x)
	    return 1;
    return 0;
}

static const errmodel_t *model_at(calctx_t *c, int x)
{
    errmodel_t *e = &c->model[x];

    if (c->have_model[x])
	return e;
    e->mt = c->mt;
    e->p = c->p;
    e->nterms = c->nterms;
    for (int t = 0; t < c->nterms; ++t) {
	if (c->cls)
	    e->t[t] = rat_eval(&c->rt[t], (double)x);
	else
	    e->t[t] = draw_term(term_role(c->mt, c->p, t));
    }
    c->have_model[x] = 1;
    return e;
}

/* the model at a frequency off the grid (cls = rat only) */
static void model_at_real(const calctx_t *c, double xr, errmodel_t *e)
{
    e->mt = c->mt;
    e->p = c->p;
    e->nterms = c->nterms;
    for (int t = 0; t < c->nterms; ++t)
	e->t[t] = rat_eval(&c->rt[t], xr);
}

static const double complex *dut_at(calctx_t *c, int x)
{
    if (!c->have_dut[x]) {
	for (int i = 0; i < c->p * c->p; ++i)
	    c->dut[x][i] = crand(0.6);
	model_measure(model_at(c, x), c->dut[x], c->meas[x]);
	c->have_dut[x] = 1;
    }
    return c->dut[x];
}

static void cal_draw_model(calctx_t *c)
{
    int d = deg_for(c->n);
    double xc = 0.5 * (c->k[0] + c->k[c->n - 1]);
    double span = (double)(c->k[c->n - 1] - c->k[0]);
    ratfn_t den;

    c->nterms = mt_is12(c->mt) ? 3 * c->p * c->p :
	4 * c->p + (mt_has_leak(c->mt) ? c->p * (c->p - 1) : 0);
    if (!c->cls)
	return;
    if (d > 0 && vt_below(&rng, 5) == 0)
	--d;
    rat_draw_den(&den, d, xc, span);
    for (int t = 0; t < c->nterms; ++t) {
	int role = term_role(c->mt, c->p, t);
	ratfn_t *r = &c->rt[t];
	int varies;

	/*
	 * 12-term: the stored error terms are the model terms themselves,
	 * each may be its own low-order rational function.  8-term: the
	 * stored T / U terms are products of the model terms up to a common
	 * factor; with only the directivities depending on frequency, over
	 * a common denominator, every stored term (and every ratio of two
	 * of them) stays of degree (d, d).
	 */
	if (c->mt == MT_E12 || t >= 4 * c->p) {
	    /* (leakage terms of TE10 / UE10 are stored as they are) */
	    varies = 1;
	    rat_draw_den(r, d, xc, span);
	} else {
	    varies = t < c->p;
	    *r = den;
	    if (!varies)
		r->d = 0;
	}
	if (role == 1)
	    rat_draw_num(r, cphase() * urand(0.85, 1.15), varies ? 0.12 : 0.0);
	else if (role == 2)
	    rat_draw_num(r, 0.0, 0.03);
	else
	    rat_draw_num(r, crand(0.1), varies ? 0.12 : 0.0);
	if (!varies)
	    r->d = 0;
    }
}

/*
 * cal_build: calibrate from exact data of the model, add as "cal<slot>".
 */
static int cal_build(calctx_t *c, int slot)
{
    vnacal_new_t *vnp;
    double fv[KMAX];
    int p = c->p, n = c->n, ok = 0;
    char name[16];

    for (int i = 0; i < n; ++i)
	fv[i] = F(c->k[i]);
    vt_cb_reset();
    vnp = LIB(vnacal_new_alloc(vcp, mt_types[c->mt], p, p, n));
    if (vnp == NULL)
	return 0;
    if (LIB(vnacal_new_set_frequency_vector(vnp, fv)) == -1)
	goto out;
    if (p == 1) {
	static const int std[4] = { VNACAL_SHORT, VNACAL_OPEN, VNACAL_MATCH,
	    -1 };
	static const double gamma[3] = { -1.0, 1.0, 0.0 };
	int nstd = 3 + vt_below(&rng, 2);
	int extra = -1;
	double complex gx = crand(0.8);
	ratfn_t R;

	if (c->vstd) {
	    /*
	     * fourth standard: a vector parameter given at as many points
	     * as the calibration has frequencies, but on other knots that
	     * cover the band; values from a low-order rational function,
	     * the measurement from its true value at each calibration
	     * frequency
	     */
	    int vk[KMAX], m;
	    double vf[KMAX];
	    double complex vy[KMAX];
	    int d = deg_for(n);

	    nstd = 4;
	    m = grid_between(vk, n, c->k[0] > 6 ? c->k[0] - 1 -
		    vt_below(&rng, 5) : 0, c->k[n - 1] + 1 + vt_below(&rng, 5));
	    for (int i = 1; i + 1 < m; ++i) {
		if (is_knot(c->k, n, vk[i]) && vk[i] + 1 < vk[i + 1])
		    ++vk[i];
	    }
	    rat_draw_den(&R, d, 0.5 * (vk[0] + vk[m - 1]),
		    (double)(vk[m - 1] - vk[0]));
	    rat_draw_num(&R, crand(0.4), 0.4);
	    for (int i = 0; i < m; ++i) {
		vf[i] = F(vk[i]);
		vy[i] = rat_eval(&R, (double)vk[i]);
	    }
	    extra = LIB(vnacal_make_vector_parameter(vcp, vf, m, vy));
	    if (extra < 0)
		goto out;
	} else if (nstd == 4) {
	    extra = LIB(vnacal_make_scalar_parameter(vcp, gx));
	}
	for (int s = 0; s < nstd; ++s) {
	    double complex mv[KMAX];
	    double complex *mp[1] = { mv };
	    double complex S = s < 3 ? gamma[s] : gx;

	    for (int i = 0; i < n; ++i) {
		if (s == 3 && c->vstd)
		    S = rat_eval(&R, (double)c->k[i]);
		model_measure(model_at(c, c->k[i]), &S, &mv[i]);
	    }
	    if (LIB(vnacal_new_add_single_reflect_m(vnp, mp, 1, 1,
			    s < 3 ? std[s] : extra, 1)) == -1)
		goto out;
	}
	if (extra >= 0)
	    LIB(vnacal_delete_parameter(vcp, extra));
    } else {
	static const int pairs[3][2] = {
	    { VNACAL_SHORT, VNACAL_OPEN },
	    { VNACAL_OPEN, VNACAL_MATCH },
	    { VNACAL_MATCH, VNACAL_SHORT }
	};
	static const double gv[3] = { 0.0, 1.0, -1.0 };	/* by handle */

	for (int s = 0; s < 4; ++s) {
	    double complex mv[4][KMAX];
	    double complex *mp[4] = { mv[0], mv[1], mv[2], mv[3] };
	    double complex S[4];

	    if (s < 3) {
		S[0] = gv[pairs[s][0]];
		S[1] = 0.0;
		S[2] = 0.0;
		S[3] = gv[pairs[s][1]];
	    } else {
		S[0] = 0.0;
		S[1] = 1.0;
		S[2] = 1.0;
		S[3] = 0.0;
	    }
	    for (int i = 0; i < n; ++i) {
		double complex M[4];

		model_measure(model_at(c, c->k[i]), S, M);
		for (int cell = 0; cell < 4; ++cell)
		    mv[cell][i] = M[cell];
	    }
	    if (s < 3) {
		if (LIB(vnacal_new_add_double_reflect_m(vnp, mp, 2, 2,
				pairs[s][0], pairs[s][1], 1, 2)) == -1)
		    goto out;
	    } else {
		if (LIB(vnacal_new_add_through_m(vnp, mp, 2, 2, 1, 2)) == -1)
		    goto out;
	    }
	}
    }
    if (LIB(vnacal_new_solve(vnp)) == -1)
	goto out;
    snprintf(name, sizeof(name), "cal%d", slot);
    if (LIB(vnacal_add_calibration(vcp, name, vnp)) == -1)
	goto out;
    c->ci = LIB(vnacal_find_calibration(vcp, name));
    ok = c->ci >= 0;
out:
    LIBV(vnacal_new_free(vnp));
    return ok;
}

static void emit_calmake(calctx_t *c, int slot)
{
    int ok = cal_build(c, slot);

    vt_put("{\"e\":\"CalMake\",\"c\":%d,\"type\":\"%s\",\"p\":%d,", slot,
	    mt_names[c->mt], c->p);
    put_ints("k", c->k, c->n);
    vt_put(",\"cls\":\"%s\",\"vstd\":%d,\"ok\":%d,\"msg\":\"%s\"}",
	    cls_name(c->cls), c->vstd, ok, ok ? "" : "setup failed");
    vt_end_line();
    if (!ok)
	c->ci = -1;
}

#define APPLY_TOL 1.0e-9

/*
 * apply_close: does applying the calibration at the off-grid frequency xr
 * recover the DUT (isolated-singularity qualification, see emit_getval)
 */
static int apply_close(calctx_t *c, double xr, const double complex *S)
{
    int p = c->p, cells = p * p, ok = 0;
    errmodel_t e;
    double complex M[4];
    double complex *mp[4] = { &M[0], &M[1], &M[2], &M[3] };
    double f = xr * UNIT;
    vnadata_t *vdp;

    model_at_real(c, xr, &e);
    model_measure(&e, S, M);
    vdp = LIB(vnadata_alloc(vt_errfn, NULL));
    if (vdp != NULL && LIB(vnacal_apply_m(vcp, c->ci, &f, 1, mp, p, p,
		    vdp)) == 0) {
	double worst = 0.0;

	for (int i = 0; i < cells; ++i) {
	    double e1 = cabs(vnadata_get_cell(vdp, 0, i / p, i % p) - S[i]);

	    if (!(e1 <= worst))
		worst = e1;
	}
	ok = worst <= APPLY_TOL;
    }
    if (vdp != NULL)
	LIBV(vnadata_free(vdp));
    return ok;
}

static void emit_apply(calctx_t *c, int slot, const int *q, int nq)
{
    int p = c->p, cells = p * p, rc, err;
    double fv[256];
    double complex *mp[4];
    vnadata_t *vdp;
    int ids[256], knot = -1, rat = -1, iso = 0;

    if (nq > 256)
	nq = 256;
    for (int cell = 0; cell < cells; ++cell)
	mp[cell] = calloc(nq > 0 ? nq : 1, sizeof(double complex));
    for (int i = 0; i < nq; ++i) {
	int x = q[i];

	fv[i] = F(x);
	(void)dut_at(c, x);
	for (int cell = 0; cell < cells; ++cell)
	    mp[cell][i] = c->meas[x][cell];
    }
    vdp = LIB(vnadata_alloc(vt_errfn, NULL));
    vt_cb_reset();
    rc = LIB(vnacal_apply_m(vcp, c->ci, fv, nq, mp, p, p, vdp));
    err = errno;
    if (rc == 0) {
	for (int i = 0; i < nq; ++i) {
	    int x = q[i];
	    double complex s[4];
	    double worst = 0.0;
	    int at_knot = is_knot(c->k, c->n, x);
	    int inside = x >= c->k[0] && x <= c->k[c->n - 1];

	    for (int r = 0; r < p; ++r) {
		for (int cc = 0; cc < p; ++cc) {
		    double e;

		    s[r * p + cc] = vnadata_get_cell(vdp, i, r, cc);
		    e = cabs(s[r * p + cc] - c->dut[x][r * p + cc]);
		    if (!(e <= worst))	/* also catches NaN */
			worst = e;
		}
	    }
	    ids[i] = intern_bytes(s, sizeof(double complex) * cells);
	    if (dbg)
		fprintf(stderr, "apply x=%d knot=%d inside=%d worst=%.3g\n", x,
			at_knot, inside, worst);
	    if (at_knot) {
		if (knot == -1)
		    knot = 1;
		if (!(worst <= APPLY_TOL))
		    knot = 0;
	    } else if (c->cls && inside) {
		if (rat == -1)
		    rat = 1;
		if (!(worst <= APPLY_TOL)) {
		    vt_cb_t saved = vt_cb;

		    if (apply_close(c, x * (1.0 - ISO_REL), c->dut[x]) &&
			    apply_close(c, x * (1.0 + ISO_REL), c->dut[x])) {
			++iso;
			++iso_skipped;
		    } else {
			rat = 0;
		    }
		    vt_cb = saved;
		}
	    }
	}
    }
    vt_put("{\"e\":\"Apply\",\"c\":%d,", slot);
    put_ints("q", q, nq);
    vt_put(",");
    put_ints("ids", ids, rc == 0 ? nq : 0);
    vt_put(",\"knot\":%d,\"rat\":%d,\"iso\":%d", knot, rat, iso);
    put_result(rc == 0, err);
    vt_put("}");
    vt_end_line();
    LIBV(vnadata_free(vdp));
    for (int cell = 0; cell < cells; ++cell)
	free(mp[cell]);
}

static const int cal_sizes[] = { 1, 2, 3, 5, 9, 2, 3, 5, 4, 7, 12 };

static void ep_cal(uint64_t seed, int idx)
{
    static calctx_t ctx;
    calctx_t *c = &ctx;
    int q[256], nq = 0;

    ep_begin("cal", seed, idx);
    memset(c, 0, sizeof(*c));
    c->mt = idx % 3;
    c->p = 1 + (idx / 3) % 2;
    c->n = cal_sizes[(idx / 6) % (int)(sizeof(cal_sizes) / sizeof(int))];
    c->cls = (idx / 66) % 2 == 0 ? vt_below(&rng, 2) : 1 - vt_below(&rng, 2);
    if (idx % 7 == 6) {
	/* the other 2-port types: leakage types, and UE14 (per-column
	 * normalisation of the stored terms: no low-order claim) */
	c->mt = MT_TE10 + (idx / 7) % 3;
	c->p = 2;
	if (c->mt == MT_UE14)
	    c->cls = 0;
    }
    draw_knots(c->k, c->n, 10 * (2 + vt_below(&rng, 10)), vt_below(&rng, 2));
    c->vstd = c->p == 1 && c->n >= 3 && vt_below(&rng, 2);
    cal_draw_model(c);
    emit_calmake(c, 0);
    if (c->ci < 0) {
	ep_end();
	return;
    }
    /* the query set */
    for (int i = 0; i < c->n; ++i)
	q[nq++] = c->k[i];
    for (int i = 0; i + 1 < c->n; ++i) {
	int mid = (c->k[i] + c->k[i + 1]) / 2;

	if (!is_knot(q, nq, mid))
	    q[nq++] = mid;
	if (c->k[i] + 1 < c->k[i + 1]) {
	    int x = c->k[i] + 1 + vt_below(&rng, c->k[i + 1] - c->k[i] - 1);

	    if (!is_knot(q, nq, x))
		q[nq++] = x;
	}
    }
    qsort(q, nq, sizeof(int), cmp_int);
    /* 1: everything in one ascending request */
    emit_apply(c, 0, q, nq);
    /* 2: every frequency alone, in random order */
    {
	int order[256];

	for (int i = 0; i < nq; ++i)
	    order[i] = i;
	shuffle(order, nq);
	for (int i = 0; i < nq; ++i)
	    emit_apply(c, 0, &q[order[i]], 1);
    }
    /* 3: random sub-requests (different predecessors in the same call) */
    for (int t = 0; t < 3; ++t) {
	int sub[256], ns = 0;

	for (int i = 0; i < nq; ++i) {
	    if (vt_below(&rng, 2))
		sub[ns++] = q[i];
	}
	if (ns > 0)
	    emit_apply(c, 0, sub, ns);
    }
    /* 4: requests reaching outside of the calibration range */
    {
	int kmin = c->k[0], kmax = c->k[c->n - 1];
	int far_lo = (int)floor(kmin / 1.06) - vt_below(&rng, 4);
	int far_hi = (int)ceil(kmax * 1.06) + 1 + vt_below(&rng, 4);
	int r[8], nr;

	if (far_lo < 0)
	    far_lo = 0;
	nr = 0;
	r[nr++] = far_lo;
	r[nr++] = kmin;
	if (kmax > kmin)
	    r[nr++] = kmax;
	emit_apply(c, 0, r, nr);
	nr = 0;
	r[nr++] = kmin;
	if (kmax > kmin)
	    r[nr++] = kmax;
	r[nr++] = far_hi;
	emit_apply(c, 0, r, nr);
	nr = 0;
	r[nr++] = far_lo;
	r[nr++] = far_hi;
	emit_apply(c, 0, r, nr);
	emit_apply(c, 0, &far_hi, 1);
	emit_apply(c, 0, &far_lo, 1);
	/* just outside: not asserted */
	nr = 0;
	r[nr++] = kmin - 1;
	r[nr++] = kmax + 1;
	if (r[0] >= 0)
	    emit_apply(c, 0, r, nr);
    }
    /* once more, all in one request: same ids as at the beginning */
    emit_apply(c, 0, q, nq);
    ep_end();
}

/* ------------------------------------------------------- noise vectors */

#define NSTD 8

typedef struct probe {
    double complex ed, er, em;		/* one-port model */
    double complex gamma[NSTD];
    int hstd[NSTD];
    double complex u[NSTD];		/* unit perturbation directions */
} probe_t;

static double complex probe_m(const probe_t *pr, double complex g)
{
    return pr->ed + pr->er * g / (1.0 - pr->em * g);
}

static void probe_init(probe_t *pr)
{
    pr->ed = crand(0.15);
    pr->er = cphase() * urand(0.85, 1.15);
    pr->em = crand(0.15);
    for (int j = 0; j < NSTD; ++j) {
	pr->gamma[j] = cphase() * urand(0.5, 1.0);
	if (j == 0)
	    pr->gamma[j] = crand(0.05);
	pr->u[j] = cphase();
	vt_cb_reset();
	pr->hstd[j] = LIB(vnacal_make_scalar_parameter(vcp, pr->gamma[j]));
    }
}

/* sigma demanded at x by the grid: linear through the data (lin), the knot
 * value (knots; x must be a knot), the single value (n = 1) */
static double sigma_true(int gn, const int *gk, const double *gs, int x)
{
    if (gn == 1)
	return gs[0];
    for (int i = 0; i < gn; ++i)
	if (gk[i] == x)
	    return gs[i];
    for (int i = 0; i + 1 < gn; ++i) {
	if (x > gk[i] && x < gk[i + 1])
	    return gs[i] + (gs[i + 1] - gs[i]) * (double)(x - gk[i]) /
		(double)(gk[i + 1] - gk[i]);
    }
    return NAN;
}

/*
 * noise_run: one weighted solve of an over-determined one-port T8
 * calibration whose measurements are off by pert[i] (times a fixed unit
 * direction per standard; times |m| for the tracking kind).
 * Returns 1 accepted, 0 rejected with EDOM, -1 anything else.
 */
static int noise_run(const probe_t *pr, int ncf, const int *cf, int which,
	int gn, const int *gk, const double *gs, const double *pert)
{
    vnacal_new_t *vnp;
    double fv[KMAX], gf[KMAX], small[KMAX];
    int rc, verdict = -1;

    for (int i = 0; i < ncf; ++i)
	fv[i] = F(cf[i]);
    for (int i = 0; i < gn; ++i) {
	gf[i] = gn == 1 ? 0.0 : F(gk[i]);
	small[i] = 1.0e-10;
    }
    vt_cb_reset();
    vnp = LIB(vnacal_new_alloc(vcp, VNACAL_T8, 1, 1, ncf));
    if (vnp == NULL)
	return -1;
    if (LIB(vnacal_new_set_frequency_vector(vnp, fv)) == -1)
	goto out;
    if (which == 0)
	rc = LIB(vnacal_new_set_m_error(vnp, gn == 1 ? NULL : gf, gn, gs,
		    NULL));
    else
	rc = LIB(vnacal_new_set_m_error(vnp, gn == 1 ? NULL : gf, gn, small,
		    gs));
    if (rc == -1)
	goto out;
    for (int j = 0; j < NSTD; ++j) {
	double complex mv[KMAX];
	double complex *mp[1] = { mv };

	for (int i = 0; i < ncf; ++i) {
	    double complex m = probe_m(pr, pr->gamma[j]);

	    mv[i] = m + pert[i] * pr->u[j] * (which == 0 ? 1.0 : cabs(m));
	}
	if (LIB(vnacal_new_add_single_reflect_m(vnp, mp, 1, 1, pr->hstd[j],
			1)) == -1)
	    goto out;
    }
    errno = 0;
    rc = LIB(vnacal_new_solve(vnp));
    if (rc == 0)
	verdict = 1;
    else if (errno == EDOM)
	verdict = 0;
out:
    LIBV(vnacal_new_free(vnp));
    return verdict;
}

#define LO_FACTOR (1.0 / 6.0)
#define HI_FACTOR 30.0

/*
 * samelen_points: n calibration points strictly inside the grid gk[0..n-1]
 * (as many as the grid has knots), none of them a knot, clustered in the
 * 30 % of the span next to the last knot (upper != 0) or the first knot.
 * With steep linear data this is where "the i-th value for the i-th
 * calibration frequency" differs most from the value on the line.
 */
static int samelen_points(int *cf, int n, const int *gk, int upper)
{
    int span = gk[n - 1] - gk[0];
    int w = (3 * span) / 10;
    int lo, hi;

    if (w < n)
	w = n;
    if (upper) {
	hi = gk[n - 1] - 1;
	lo = hi - w;
    } else {
	lo = gk[0] + 1;
	hi = lo + w;
    }
    for (int attempt = 0; attempt < 50; ++attempt) {
	int m = grid_between(cf, n, lo + vt_below(&rng, 2), hi -
		vt_below(&rng, 2)), clash = 0;

	if (m != n)
	    continue;
	for (int i = 0; i < n; ++i)
	    if (is_knot(gk, n, cf[i]) || cf[i] <= gk[0] || cf[i] >= gk[n - 1])
		clash = 1;
	if (!clash)
	    return n;
    }
    return 0;
}

static void ep_noise(uint64_t seed, int idx)
{
    probe_t pr;
    int which = idx % 2;		/* 0 noise floor, 1 tracking */
    int cls = (idx / 2) % 4;	/* 0 lin, 1 knots, 2 const, 3 samelen */
    static const int gsizes[] = { 2, 2, 3, 5, 2, 4, 8 };
    int gn, gk[KMAX], ncf, cf[KMAX];
    double gs[KMAX], st[KMAX], lo[KMAX], pert[KMAX];
    int qual = 1, same = 1, tl, th[KMAX], rl[KMAX], rh[KMAX];
    static const char *cls_names[] = { "lin", "knots", "const", "samelen" };

    ep_begin("noise", seed, idx);
    probe_init(&pr);
    gn = cls == 2 ? 1 : gsizes[(idx / 8) % 7];
    if (cls == 3)
	gn = 2 + (idx / 8) % 4;
    draw_knots(gk, gn, 10 * (2 + vt_below(&rng, 10)), 1);
    ncf = 1 + vt_below(&rng, 3);
    if (cls == 3) {
	/*
	 * the noise grid has exactly as many knots as the calibration has
	 * frequencies, but at other frequencies: steep linear data, the
	 * calibration points clustered where sigma is large
	 */
	double s0 = urand(1.0e-6, 3.0e-6), s1 = urand(3.0e-4, 1.0e-3);
	int upper = vt_below(&rng, 2);

	if (!upper) {
	    double t = s0;

	    s0 = s1;
	    s1 = t;
	}
	for (int i = 0; i < gn; ++i)
	    gs[i] = s0 + (s1 - s0) * (double)(gk[i] - gk[0]) /
		(double)(gk[gn - 1] - gk[0]);
	ncf = samelen_points(cf, gn, gk, upper);
	if (ncf == 0) {		/* cannot happen with coarse knots */
	    ncf = 1;
	    cf[0] = gk[0] + 1;
	}
    } else if (cls == 0) {
	/* linear data with a steep slope; calibration points anywhere
	 * inside the grid, preferably away from the first knot */
	double s0 = urand(1.0e-6, 3.0e-6), s1 = urand(3.0e-4, 1.0e-3);

	if (vt_below(&rng, 2)) {
	    double t = s0;

	    s0 = s1;
	    s1 = t;
	}
	for (int i = 0; i < gn; ++i)
	    gs[i] = s0 + (s1 - s0) * (double)(gk[i] - gk[0]) /
		(double)(gk[gn - 1] - gk[0]);
	ncf = grid_between(cf, ncf + 1, gk[0] + 2, gk[gn - 1] - 1);
	if (ncf > 1 && vt_below(&rng, 2)) {
	    /* drop the first point so that not every case starts next to
	     * the first knot */
	    memmove(cf, cf + 1, sizeof(int) * (ncf - 1));
	    --ncf;
	}
    } else if (cls == 1) {
	/* arbitrary (zig-zag) data, calibration points on knots */
	int pick[KMAX];

	for (int i = 0; i < gn; ++i) {
	    gs[i] = (i & 1) ? urand(3.0e-4, 1.0e-3) : urand(1.0e-6, 3.0e-6);
	    pick[i] = i;
	}
	shuffle(pick, gn);
	if (ncf > gn)
	    ncf = gn;
	qsort(pick, ncf, sizeof(int), cmp_int);
	for (int i = 0; i < ncf; ++i)
	    cf[i] = gk[pick[i]];
    } else {
	gs[0] = urand(1.0e-6, 1.0e-3);
	draw_knots(cf, ncf, 10 * (2 + vt_below(&rng, 10)), 0);
    }
    for (int i = 0; i < ncf; ++i) {
	st[i] = sigma_true(gn, gk, gs, cf[i]);
	lo[i] = st[i] * LO_FACTOR;
    }
    /* reference: frequency-independent sigma of the demanded value */
    for (int i = 0; i < ncf; ++i) {
	double p1;

	p1 = st[i] * LO_FACTOR;
	rl[i] = noise_run(&pr, 1, &cf[i], which, 1, NULL, &st[i], &p1);
	p1 = st[i] * HI_FACTOR;
	rh[i] = noise_run(&pr, 1, &cf[i], which, 1, NULL, &st[i], &p1);
	if (rl[i] != 1 || rh[i] != 0)
	    qual = 0;
    }
    /* the grid under test */
    tl = noise_run(&pr, ncf, cf, which, gn, gk, gs, lo);
    if (tl != 1)
	same = 0;
    for (int i = 0; i < ncf; ++i) {
	memcpy(pert, lo, sizeof(double) * ncf);
	pert[i] = st[i] * HI_FACTOR;
	th[i] = noise_run(&pr, ncf, cf, which, gn, gk, gs, pert);
	if (th[i] != 0)
	    same = 0;
    }
    vt_put("{\"e\":\"NoiseProbe\",\"which\":\"%s\",\"cls\":\"%s\",\"n\":%d,",
	    which ? "tr" : "nf", cls_names[cls], gn);
    put_ints("k", gk, gn);
    vt_put(",");
    put_ints("cf", cf, ncf);
    vt_put(",\"qual\":%d,\"same\":%d,\"tl\":%d,", qual, same, tl);
    put_ints("th", th, ncf);
    vt_put(",");
    put_ints("rl", rl, ncf);
    vt_put(",");
    put_ints("rh", rh, ncf);
    vt_put("}");
    vt_end_line();
    ep_end();
}

/* ------------------------------------------- correlated-parameter sigmas */

/*
 * sigma_run: one-port T8 calibration with five known reflects and one
 * standard declared as a parameter correlated (sigma grid) with a known
 * scalar that is off from the truth by delta.  Returns 0 and the solved
 * values at the calibration frequencies, or -1.
 */
static int sigma_run(const probe_t *pr, int ncf, const int *cf, int gn,
	const int *gk, const double *gs, int h_other, double complex g_true,
	double complex *out)
{
    vnacal_new_t *vnp = NULL;
    double fv[KMAX], gf[KMAX];
    int h_corr, rv = -1;

    for (int i = 0; i < ncf; ++i)
	fv[i] = F(cf[i]);
    for (int i = 0; i < gn; ++i)
	gf[i] = gn == 1 ? 0.0 : F(gk[i]);
    vt_cb_reset();
    h_corr = LIB(vnacal_make_correlated_parameter(vcp, h_other,
		gn == 1 ? NULL : gf, gn, gs));
    if (h_corr < 0)
	return -1;
    vnp = LIB(vnacal_new_alloc(vcp, VNACAL_T8, 1, 1, ncf));
    if (vnp == NULL)
	goto out;
    if (LIB(vnacal_new_set_frequency_vector(vnp, fv)) == -1)
	goto out;
    if (LIB(vnacal_new_set_p_tolerance(vnp, 1.0e-8)) == -1 ||
	    LIB(vnacal_new_set_et_tolerance(vnp, 1.0e-8)) == -1 ||
	    LIB(vnacal_new_set_iteration_limit(vnp, 200)) == -1)
	goto out;
    for (int j = 0; j < 6; ++j) {
	double complex mv[KMAX];
	double complex *mp[1] = { mv };
	double complex g = j < 5 ? pr->gamma[j] : g_true;

	for (int i = 0; i < ncf; ++i)
	    mv[i] = probe_m(pr, g);
	if (LIB(vnacal_new_add_single_reflect_m(vnp, mp, 1, 1,
			j < 5 ? pr->hstd[j] : h_corr, 1)) == -1)
	    goto out;
    }
    if (LIB(vnacal_new_solve(vnp)) == -1) {
	if (dbg)
	    fprintf(stderr, "sigma_run: solve failed errno=%d: %s\n", errno,
		    vt_cb.last);
	goto out;
    }
    rv = 0;
    for (int i = 0; i < ncf; ++i) {
	out[i] = LIB(vnacal_get_parameter_value(vcp, h_corr, fv[i]));
	if (dbg)
	    fprintf(stderr, "sigma_run: gn=%d cf=%d p=%.9f%+.9fi (true %.4f%+.4fi)\n",
		    gn, cf[i], creal(out[i]), cimag(out[i]), creal(g_true),
		    cimag(g_true));
	if (creal(out[i]) == HUGE_VAL || !isfinite(creal(out[i])) ||
		!isfinite(cimag(out[i])))
	    rv = -1;
    }
out:
    if (vnp != NULL)
	LIBV(vnacal_new_free(vnp));
    LIB(vnacal_delete_parameter(vcp, h_corr));
    return rv;
}

static void ep_sigma(uint64_t seed, int idx)
{
    probe_t pr;
    int cls = idx % 4;		/* 0 lin, 1 knots, 2 const, 3 samelen */
    static const int gsizes[] = { 2, 2, 3, 5, 2, 4, 8 };
    int gn, gk[KMAX], ncf, cf[KMAX];
    double gs[KMAX], st[KMAX];
    double complex g_true, k_other, delta, pa[KMAX], pb[KMAX], pc[KMAX];
    int h_other, qual = 1, same = 1, vother = 0;
    static const char *cls_names[] = { "lin", "knots", "const", "samelen" };

    ep_begin("sigma", seed, idx);
    probe_init(&pr);
    gn = cls == 2 ? 1 : gsizes[(idx / 4) % 7];
    if (cls == 3)
	gn = 2 + (idx / 4) % 4;
    draw_knots(gk, gn, 10 * (2 + vt_below(&rng, 10)), 1);
    ncf = 1 + vt_below(&rng, 3);
    g_true = cphase() * urand(0.5, 0.9);
    delta = cphase() * urand(0.1, 0.3);
    k_other = g_true + delta;
    vt_cb_reset();
    if (cls == 3 && (idx / 16) % 2 == 1) {
	/*
	 * the parameter it is correlated with is a vector parameter with
	 * the same number of points again, on a third grid (constant value)
	 */
	double ofv[KMAX];
	double complex ov[KMAX];

	for (int i = 0; i < gn; ++i) {
	    int x = gk[i] + 3;

	    if (i == 0)
		x = gk[0] - 5;
	    if (i == gn - 1)
		x = gk[gn - 1] + 5;
	    ofv[i] = F(x);
	    ov[i] = k_other;
	}
	h_other = LIB(vnacal_make_vector_parameter(vcp, ofv, gn, ov));
	vother = 1;
    } else {
	h_other = LIB(vnacal_make_scalar_parameter(vcp, k_other));
    }
    if (cls == 3) {
	double s0 = urand(0.03, 0.08), s1 = urand(1.0, 2.5);
	int upper = vt_below(&rng, 2);

	if (!upper) {
	    double t = s0;

	    s0 = s1;
	    s1 = t;
	}
	for (int i = 0; i < gn; ++i)
	    gs[i] = s0 + (s1 - s0) * (double)(gk[i] - gk[0]) /
		(double)(gk[gn - 1] - gk[0]);
	ncf = samelen_points(cf, gn, gk, upper);
	if (ncf == 0) {
	    ncf = 1;
	    cf[0] = gk[0] + 1;
	}
    } else if (cls == 0) {
	double s0 = urand(0.03, 0.08), s1 = urand(1.0, 2.5);

	if (vt_below(&rng, 2)) {
	    double t = s0;

	    s0 = s1;
	    s1 = t;
	}
	for (int i = 0; i < gn; ++i)
	    gs[i] = s0 + (s1 - s0) * (double)(gk[i] - gk[0]) /
		(double)(gk[gn - 1] - gk[0]);
	ncf = grid_between(cf, ncf + 1, gk[0] + 2, gk[gn - 1] - 1);
	if (ncf > 1 && vt_below(&rng, 2)) {
	    memmove(cf, cf + 1, sizeof(int) * (ncf - 1));
	    --ncf;
	}
    } else if (cls == 1) {
	int pick[KMAX];

	for (int i = 0; i < gn; ++i) {
	    gs[i] = (i & 1) ? urand(1.0, 2.5) : urand(0.03, 0.08);
	    pick[i] = i;
	}
	shuffle(pick, gn);
	if (ncf > gn)
	    ncf = gn;
	qsort(pick, ncf, sizeof(int), cmp_int);
	for (int i = 0; i < ncf; ++i)
	    cf[i] = gk[pick[i]];
    } else {
	gs[0] = urand(0.1, 1.5);
	draw_knots(cf, ncf, 10 * (2 + vt_below(&rng, 10)), 0);
    }
    for (int i = 0; i < ncf; ++i)
	st[i] = sigma_true(gn, gk, gs, cf[i]);
    /* references: frequency-independent sigma of the demanded value, and
     * of twice that value (sensitivity of the observation) */
    for (int i = 0; i < ncf; ++i) {
	double s2 = 2.0 * st[i];

	if (sigma_run(&pr, 1, &cf[i], 1, NULL, &st[i], h_other, g_true,
		    &pb[i]) == -1 ||
		sigma_run(&pr, 1, &cf[i], 1, NULL, &s2, h_other, g_true,
		    &pc[i]) == -1) {
	    qual = 0;
	    continue;
	}
	if (!(cabs(pb[i] - pc[i]) >= 1.0e-3 * cabs(delta)))
	    qual = 0;
    }
    if (sigma_run(&pr, ncf, cf, gn, gk, gs, h_other, g_true, pa) == -1) {
	same = 0;
    } else if (qual) {
	for (int i = 0; i < ncf; ++i) {
	    if (!(cabs(pa[i] - pb[i]) <= 1.0e-6))
		same = 0;
	}
    }
    vt_put("{\"e\":\"SigmaProbe\",\"cls\":\"%s\",\"n\":%d,", cls_names[cls],
	    gn);
    put_ints("k", gk, gn);
    vt_put(",");
    put_ints("cf", cf, ncf);
    vt_put(",\"vother\":%d,\"qual\":%d,\"same\":%d}", vother, qual, same);
    vt_end_line();
    ep_end();
}

/* ------------------------------------------------------------------ main */

int main(int argc, char **argv)
{
    const char *mode;
    uint64_t seed;
    int from, to;
    const char *trace = getenv("VT_TRACE");

    if (argc != 5) {
	fprintf(stderr, "usage: %s vec|rng|cal|noise|sigma SEED FROM TO\n",
		argv[0]);
	return 2;
    }
    mode = argv[1];
    seed = strtoull(argv[2], NULL, 10);
    from = atoi(argv[3]);
    to = atoi(argv[4]);
    dbg = getenv("VT_DEBUG") != NULL;
    vt_open(trace != NULL ? trace : "-");
    vt_install_crash_handlers();
    for (int idx = from; idx < to; ++idx) {
	if (strcmp(mode, "vec") == 0)
	    ep_vec(seed, idx);
	else if (strcmp(mode, "rng") == 0)
	    ep_rng(seed, idx);
	else if (strcmp(mode, "cal") == 0)
	    ep_cal(seed, idx);
	else if (strcmp(mode, "noise") == 0)
	    ep_noise(seed, idx);
	else if (strcmp(mode, "sigma") == 0)
	    ep_sigma(seed, idx);
	else {
	    fprintf(stderr, "unknown mode %s\n", mode);
	    return 2;
	}
    }
    vt_close();
    return 0;
}
