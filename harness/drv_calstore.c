/*
 * drv_calstore.c -- conformance driver for the calibration container
 * (CalStore.tla): vnacal_t parameter table, calibration slots, global and
 * per-calibration properties, vnacal_new_t life cycle, vnacal_free.
 *
 * Every public call is one ndjson event: abstract arguments (interned ids),
 * outcome, errno, error-function invocations, and afterwards the projection
 * of EVERY live vnacal_t through public getters only.  Verdicts are the
 * trace specification's; the driver only keeps what it needs to generate
 * calls and ideal-instrument measurements (M = S of the standard).
 *
 * usage:
 *   drv_calstore rand  SEED FROM TO LEN     random histories
 *   drv_calstore exh   DEPTH FROM TO        prefix x alphabet^DEPTH
 *   drv_calstore shapes FROM TO             all types x shapes x 1..3 frequencies
 *   drv_calstore state SEED FROM TO         refusals that depend on the state
 *                                           of the vnacal_new_t (error model),
 *                                           aliased string arguments
 *   drv_calstore bulk  SEED FROM TO         many handles in one vnacal_new_t,
 *                                           unknowns solved by two of them
 *   drv_calstore count DEPTH
 * env: VT_TRACE=<path> (default stdout)
 */
#include <complex.h>
#include <errno.h>
#include <math.h>
#include <stdio.h>
#include <stdlib.h>
#include <string.h>
#include <unistd.h>
#include <vnacal.h>
#include <vnaproperty.h>
#include "vt.h"

/* ------------------------------------------------------------------ pools */

/* reflection coefficients: g0..g2 are the predefined match/open/short */
static const double complex g_pool[] = {
    0.0, 1.0, -1.0,
    0.5, -0.5 + 0.3 * I, 0.2 * I, 0.6 - 0.2 * I, -0.3 - 0.4 * I,	/* scalars */
    0.10 + 0.05 * I, 0.12 + 0.02 * I, 0.08 + 0.06 * I, 0.11 - 0.03 * I, /* vector */
};
#define N_G ((int)(sizeof(g_pool) / sizeof(g_pool[0])))
#define G_SCALAR0 3
#define N_SCALARS 5
#define G_VECTOR0 8

static const double complex z_pool[] = { 50.0, 75.0, 50.0 + 5.0 * I, 1.0 };
#define N_Z ((int)(sizeof(z_pool) / sizeof(z_pool[0])))

/* frequency ids are ordered like the frequencies; -1 stands for -1e9 */
static const double f_pool[] = { 0.5e9, 1e9, 2e9, 3e9, 4e9, 8e9, 16e9 };
#define N_F ((int)(sizeof(f_pool) / sizeof(f_pool[0])))
#define N_PROBE 6		/* ids 0..5 are probed after every call (ProbeF) */

/*
 * Calibration names (interned as "c<index>"): proper prefixes / suffixes of
 * each other, case, leading / trailing / inner spaces, a lone space, two
 * names longer than 256 bytes that differ in their last byte, UTF-8, YAML
 * significant characters.  The first N_ADD_NAMES are given to
 * add_calibration; the rest (extensions / truncations of stored names) are
 * only ever looked up.  CalStoreTrace's NamePool lists the same ids.
 */
#define LONG300 \
    "LLLLLLLLLLLLLLLLLLLLLLLLLLLLLLLLLLLLLLLLLLLLLLLLLLLLLLLLLLLLLLLLLLLLLLLLLLL" \
    "LLLLLLLLLLLLLLLLLLLLLLLLLLLLLLLLLLLLLLLLLLLLLLLLLLLLLLLLLLLLLLLLLLLLLLLLLLL" \
    "LLLLLLLLLLLLLLLLLLLLLLLLLLLLLLLLLLLLLLLLLLLLLLLLLLLLLLLLLLLLLLLLLLLLLLLLLLL" \
    "LLLLLLLLLLLLLLLLLLLLLLLLLLLLLLLLLLLLLLLLLLLLLLLLLLLLLLLLLLLLLLLLLLLLLLLLLLL"
static const char *name_pool[] = {
    "ch1", "ch10", "ch100", "1ch", "CH1", "ch1 ", " ch1", "ch 1", " ",
    LONG300 "a", LONG300 "b", "ch\xc3\xa9", "k: v", "#x", "- i", "\"q'",
    "ch", "ch1000", "c", LONG300,
};
#define N_ADD_NAMES 16
#define N_NAMES ((int)(sizeof(name_pool) / sizeof(name_pool[0])))

/* names for add_calibration: half of the draws from the closely related
 * first six, so that replace-by-name stays frequent */
#define ADD_NAME(rng) (vt_below(rng, 2) ? vt_below(rng, 6) : \
	vt_below(rng, N_ADD_NAMES))
static const char *pkey_pool[] = { "ka", "kb", "kc" };
#define N_PKEYS 3
static const char *pval_pool[] = { "x", "y", "z=1", "w 2" };
#define N_PVALS 4

static int same_c(double complex a, double complex b)
{
    double ar = creal(a), ai = cimag(a), br = creal(b), bi = cimag(b);

    return memcmp(&ar, &br, sizeof(double)) == 0 &&
	memcmp(&ai, &bi, sizeof(double)) == 0;
}

static void put_gid(double complex v)
{
    for (int i = 0; i < N_G; ++i) {
	if (same_c(v, g_pool[i])) {
	    vt_put("\"g%d\"", i);
	    return;
	}
    }
    vt_put("\"g?\"");
}

static void put_zid(double complex v)
{
    for (int i = 0; i < N_Z; ++i) {
	if (same_c(v, z_pool[i])) {
	    vt_put("\"z%d\"", i);
	    return;
	}
    }
    vt_put("\"z?\"");
}

static int fid_of(double f)
{
    for (int i = 0; i < N_F; ++i) {
	if (memcmp(&f, &f_pool[i], sizeof(double)) == 0)
	    return i;
    }
    return -9;
}

static double f_of(int id)
{
    return id < 0 ? -1e9 : f_pool[id];
}

static void put_sid(const char *s, const char **pool, int n, char prefix)
{
    if (s != NULL) {
	for (int i = 0; i < n; ++i) {
	    if (strcmp(s, pool[i]) == 0) {
		vt_put("\"%c%d\"", prefix, i);
		return;
	    }
	}
    }
    vt_put("\"%c?\"", prefix);
}

static const char *type_name(int t)
{
    switch (t) {
    case VNACAL_T8:	return "T8";
    case VNACAL_U8:	return "U8";
    case VNACAL_TE10:	return "TE10";
    case VNACAL_UE10:	return "UE10";
    case VNACAL_T16:	return "T16";
    case VNACAL_U16:	return "U16";
    case VNACAL_UE14:	return "UE14";
    case VNACAL_E12:	return "E12";
    default:		return "BAD";
    }
}

/* ----------------------------------------------------------- bookkeeping */

#define MAX_H     64		/* handles tracked */
#define MAX_NEWS  3		/* vnacal_new_t per vnacal_t */
#define MAX_VC    2
#define MAX_STDS  12		/* standards per new */

enum { K_NONE, K_SCALAR, K_VECTOR, K_UNKNOWN, K_CORRELATED };

typedef struct hinfo {
    int kind;
    int deleted;		/* delete_parameter succeeded on it */
    int nf;			/* vector: knots */
    int fid[4];
    double complex g[4];	/* scalar: g[0]; vector: per knot */
    double complex truth;	/* unknown / correlated */
    int other;
} hinfo_t;

typedef struct ninfo {
    vnacal_new_t *vnp;
    int id;			/* global id in the trace */
    int type, rows, cols, nf;
    int grid[3];		/* planned frequency ids */
    int rich;			/* generic standard script (any type / shape) */
    int nstds;			/* accepted standards */
    int step;			/* script position for "useful" standards */
    int fset;			/* set_frequency_vector succeeded */
    int solved;			/* last solve succeeded, not yet stored */
    int usedh[16];		/* user handles named in accepted standards */
    int nused;
} ninfo_t;

typedef struct vinfo {
    vnacal_t *vcp;
    int id;
    hinfo_t h[MAX_H];
    int maxh;			/* highest handle ever returned */
    int lasth, firsth;		/* most recent / lowest user handle returned */
    int hici;			/* highest slot index ever returned */
    ninfo_t n[MAX_NEWS];
    int lastn;			/* index into n[] of the most recent new */
} vinfo_t;

static vinfo_t VC[MAX_VC];
static int next_new_id;
static int next_file_id;

static long live_base;

static void vc_reset(void)
{
    live_base = vt_alloc_live;
    memset(VC, 0, sizeof(VC));
    for (int i = 0; i < MAX_VC; ++i) {
	VC[i].id = i;
	VC[i].lastn = -1;
    }
    next_new_id = 0;
    next_file_id = 0;
}

static void h_init(vinfo_t *v)
{
    memset(v->h, 0, sizeof(v->h));
    for (int i = 0; i < 3; ++i) {
	v->h[i].kind = K_SCALAR;
	v->h[i].g[0] = g_pool[i];
	v->h[i].other = -1;
    }
    v->maxh = 2;
    v->lasth = -1;
    v->firsth = -1;
    v->hici = -1;
    v->lastn = -1;
    for (int i = 0; i < MAX_NEWS; ++i)
	v->n[i].vnp = NULL;
}

/* the value the physical standard behind handle h has at frequency id f;
 * returns 0 if the driver cannot know it (vector between knots) */
static int h_value(const vinfo_t *v, int h, int f, double complex *out)
{
    const hinfo_t *p;

    if (h < 0 || h >= MAX_H)
	return 0;
    p = &v->h[h];
    switch (p->kind) {
    case K_SCALAR:
	*out = p->g[0];
	return 1;
    case K_VECTOR:
	for (int i = 0; i < p->nf; ++i) {
	    if (p->fid[i] == f) {
		*out = p->g[i];
		return 1;
	    }
	}
	return 0;
    case K_UNKNOWN:
    case K_CORRELATED:
	*out = p->truth;
	return 1;
    default:
	return 0;
    }
}

/* centre of the initial guess: the true value of an unknown lies near it */
static double complex h_centre(const vinfo_t *v, int h)
{
    const hinfo_t *p = &v->h[h];

    switch (p->kind) {
    case K_SCALAR:	return p->g[0];
    case K_VECTOR:	return p->g[0];
    case K_UNKNOWN:
    case K_CORRELATED:	return p->truth;
    default:		return 0.0;
    }
}

static void h_record(vinfo_t *v, int h)
{
    if (h > v->maxh)
	v->maxh = h;
    if (h >= 3) {
	v->lasth = h;
	if (v->firsth < 0 || h < v->firsth)
	    v->firsth = h;
    }
}

/* ------------------------------------------------------------- projection */

static void project_node(const vnaproperty_t *node, int depth)
{
    int t;

    if (node == NULL) {
	vt_put("{\"t\":\"n\"}");
	return;
    }
    if (depth > 8) {
	vt_put("{\"t\":\"DEEP\"}");
	return;
    }
    t = LIB(vnaproperty_type(node, "."));
    if (t == 's') {
	const char *s = LIB(vnaproperty_get(node, "."));

	vt_put("{\"t\":\"s\",\"v\":");
	put_sid(s, pval_pool, N_PVALS, 'v');
	vt_put("}");
    } else if (t == 'm') {
	const char **keys = LIB(vnaproperty_keys(node, "."));
	int n = 0;

	vt_put("{\"t\":\"m\",\"kv\":[");
	for (const char **cpp = keys; cpp != NULL && *cpp != NULL; ++cpp) {
	    vnaproperty_t *sub = LIB(vnaproperty_get_subtree(node, "%s", *cpp));

	    vt_put("%s{\"k\":", n++ ? "," : "");
	    put_sid(*cpp, pkey_pool, N_PKEYS, 'k');
	    vt_put(",\"d\":");
	    project_node(sub, depth + 1);
	    vt_put("}");
	}
	vt_put("]}");
	free((void *)keys);
    } else if (t == 'l') {
	int count = LIB(vnaproperty_count(node, "."));

	vt_put("{\"t\":\"l\",\"it\":[");
	for (int i = 0; i < count; ++i) {
	    vnaproperty_t *sub = LIB(vnaproperty_get_subtree(node, "[%d]", i));

	    if (i)
		vt_put(",");
	    project_node(sub, depth + 1);
	}
	vt_put("]}");
    } else {
	vt_put("{\"t\":\"ERRtype\"}");
    }
}

/* the document of root ci read through vnacal_property_* only */
static void project_prop(vnacal_t *vcp, int ci, const char *prefix, int depth)
{
    const char *here = prefix[0] == '\0' ? "." : prefix;
    int t;

    if (depth > 8) {
	vt_put("{\"t\":\"DEEP\"}");
	return;
    }
    t = LIB(vnacal_property_type(vcp, ci, "%s", here));
    if (t == 's') {
	const char *s = LIB(vnacal_property_get(vcp, ci, "%s", here));

	vt_put("{\"t\":\"s\",\"v\":");
	put_sid(s, pval_pool, N_PVALS, 'v');
	vt_put("}");
    } else if (t == 'm') {
	const char **keys = LIB(vnacal_property_keys(vcp, ci, "%s", here));
	int count = LIB(vnacal_property_count(vcp, ci, "%s", here));
	int n = 0;

	vt_put("{\"t\":\"m\",\"kv\":[");
	for (const char **cpp = keys; cpp != NULL && *cpp != NULL; ++cpp) {
	    char sub[256];

	    snprintf(sub, sizeof(sub), "%s%s%s", prefix,
		    prefix[0] != '\0' ? "." : "", *cpp);
	    vt_put("%s{\"k\":", n++ ? "," : "");
	    put_sid(*cpp, pkey_pool, N_PKEYS, 'k');
	    vt_put(",\"d\":");
	    project_prop(vcp, ci, sub, depth + 1);
	    vt_put("}");
	}
	vt_put("]");
	if (count != n)
	    vt_put(",\"countMismatch\":%d", count);
	vt_put("}");
	free((void *)keys);
    } else if (t == 'l') {
	int count = LIB(vnacal_property_count(vcp, ci, "%s", here));

	vt_put("{\"t\":\"l\",\"it\":[");
	for (int i = 0; i < count; ++i) {
	    char sub[256];

	    snprintf(sub, sizeof(sub), "%s[%d]", prefix, i);
	    if (i)
		vt_put(",");
	    project_prop(vcp, ci, sub, depth + 1);
	}
	vt_put("]}");
    } else {
	vt_put("{\"t\":\"n\"}");
    }
}

/* 100 x the default p_tolerance (1e-6) of the iterative solver; deviations
 * observed on correct code <= 8.2e-8, a wrong value (initial guess, another
 * parameter) is off by >= 3.6e-2 */
#define PV_TOL 1e-4
static double pv_max_dev;	/* largest accepted deviation (CALSTORE_STATS) */
static double pv_min_rej = 1e300;	/* smallest rejected deviation */

/* result of get_parameter_value as the trace encodes it */
static void put_pv(const vinfo_t *v, int h, double complex r)
{
    if (creal(r) == HUGE_VAL) {
	vt_put("\"F\"");
	return;
    }
    if (h >= 0 && h < MAX_H && (v->h[h].kind == K_UNKNOWN ||
		v->h[h].kind == K_CORRELATED)) {
	{
	    double dev = cabs(r - v->h[h].truth);

	    if (dev <= PV_TOL && dev > pv_max_dev)
		pv_max_dev = dev;
	    if (dev > PV_TOL && dev < pv_min_rej)
		pv_min_rej = dev;
	    vt_put(dev <= PV_TOL ? "\"T\"" : "\"W\"");
	}
	return;
    }
    put_gid(r);
}

static void project_store(vinfo_t *v)
{
    vnacal_t *vcp = v->vcp;
    int end = LIB(vnacal_get_calibration_end(vcp));
    int top = end > v->hici + 1 ? end : v->hici + 1;

    vt_put("{\"vc\":%d,\"end\":%d,\"slots\":[", v->id, end);
    for (int ci = 0; ci <= top; ++ci) {
	const char *name = LIB(vnacal_get_name(vcp, ci));

	if (ci)
	    vt_put(",");
	if (name == NULL) {
	    vt_put("{\"x\":0}");
	    continue;
	}
	vt_put("{\"x\":1,\"name\":");
	put_sid(name, name_pool, N_NAMES, 'c');
	{
	    int nf = LIB(vnacal_get_frequencies(vcp, ci));
	    const double *fv = LIB(vnacal_get_frequency_vector(vcp, ci));

	    vt_put(",\"type\":\"%s\",\"rows\":%d,\"cols\":%d,\"nf\":%d",
		    type_name((int)LIB(vnacal_get_type(vcp, ci))),
		    LIB(vnacal_get_rows(vcp, ci)),
		    LIB(vnacal_get_columns(vcp, ci)), nf);
	    vt_put(",\"fmin\":%d,\"fmax\":%d,\"fv\":[",
		    fid_of(LIB(vnacal_get_fmin(vcp, ci))),
		    fid_of(LIB(vnacal_get_fmax(vcp, ci))));
	    for (int i = 0; fv != NULL && i < nf && i < 8; ++i)
		vt_put("%s%d", i ? "," : "", fid_of(fv[i]));
	    vt_put("],\"z0\":");
	    put_zid(LIB(vnacal_get_z0(vcp, ci)));
	}
	vt_put(",\"props\":");
	project_prop(vcp, ci, "", 0);
	vt_put("}");
    }
    {
	const char *fn = LIB(vnacal_get_filename(vcp));
	const char *dash = fn != NULL ? strrchr(fn, '-') : NULL;

	vt_put("],\"fn\":%d,\"find\":[", fn == NULL ? -1 :
		dash != NULL ? atoi(dash + 1) : -2);
    }
    for (int i = 0; i < N_NAMES; ++i)
	vt_put("%s%d", i ? "," : "", LIB(vnacal_find_calibration(vcp,
			name_pool[i])));
    vt_put("],\"gprops\":");
    project_prop(vcp, -1, "", 0);
    vt_put(",\"pv\":[");
    for (int h = 0; h <= v->maxh + 1 && h < MAX_H; ++h) {
	vt_put("%s[", h ? "," : "");
	for (int f = 0; f < N_PROBE; ++f) {
	    double complex r = LIB(vnacal_get_parameter_value(vcp, h,
			f_pool[f]));

	    if (f)
		vt_put(",");
	    put_pv(v, h, r);
	}
	vt_put("]");
    }
    vt_put("]}");
}

/* ------------------------------------------------------------- events */

static int ev_errno;
static vt_cb_t ev_cb;

/* call right after the library call of the event */
#define CAPTURE() do { ev_errno = errno; ev_cb = vt_cb; } while (0)
#define BEFORE()  do { vt_cb_reset(); } while (0)

static void ev_finish(int ok)
{
    int first = 1;

    vt_put(",\"ok\":%d,\"err\":\"%s\",\"al\":%ld,", ok, vt_errname(ev_errno),
	    vt_alloc_live - live_base);
    vt_cb = ev_cb;
    vt_put_cb();
    vt_put(",\"obs\":[");
    for (int i = 0; i < MAX_VC; ++i) {
	if (VC[i].vcp != NULL) {
	    if (!first)
		vt_put(",");
	    first = 0;
	    project_store(&VC[i]);
	}
    }
    vt_put("]}");
    vt_end_line();
}

static int ok_int(int rv)
{
    return rv == 0 ? 1 : rv == -1 ? 0 : 2;
}

static int ok_handle(int rv)
{
    return rv >= 0 ? 1 : rv == -1 ? 0 : 2;
}

/* ------------------------------------------------------------ operations */

static void op_create(int k)
{
    vinfo_t *v = &VC[k];
    vnacal_t *vcp;

    BEFORE();
    vcp = LIB(vnacal_create(vt_errfn, NULL));
    CAPTURE();
    h_init(v);
    v->vcp = vcp;
    vt_put("{\"e\":\"Create\",\"vc\":%d", k);
    ev_finish(vcp != NULL);
    if (vcp == NULL)
	exit(4);
}

static void op_make_scalar(vinfo_t *v, int gi)
{
    int h;

    BEFORE();
    h = LIB(vnacal_make_scalar_parameter(v->vcp, g_pool[gi]));
    CAPTURE();
    if (h >= 3 && h < MAX_H) {
	hinfo_t *p = &v->h[h];

	memset(p, 0, sizeof(*p));
	p->kind = K_SCALAR;
	p->g[0] = g_pool[gi];
	p->other = -1;
    }
    if (h >= 0)
	h_record(v, h);
    vt_put("{\"e\":\"MakeScalar\",\"vc\":%d,\"v\":\"g%d\",\"h\":%d", v->id, gi, h);
    ev_finish(ok_handle(h));
}

/* grid: frequency ids; nf == 0 passes frequencies = 0 */
static void op_make_vector(vinfo_t *v, const int *grid, int nf, int g0)
{
    double fv[4];
    double complex gv[4];
    int h;

    for (int i = 0; i < nf; ++i) {
	fv[i] = f_of(grid[i]);
	gv[i] = g_pool[g0 + i];
    }
    BEFORE();
    h = LIB(vnacal_make_vector_parameter(v->vcp, fv, nf, gv));
    CAPTURE();
    if (h >= 3 && h < MAX_H) {
	hinfo_t *p = &v->h[h];

	memset(p, 0, sizeof(*p));
	p->kind = K_VECTOR;
	p->nf = nf;
	for (int i = 0; i < nf; ++i) {
	    p->fid[i] = grid[i];
	    p->g[i] = gv[i];
	}
	p->other = -1;
    }
    if (h >= 0)
	h_record(v, h);
    vt_put("{\"e\":\"MakeVector\",\"vc\":%d,\"fv\":[", v->id);
    for (int i = 0; i < nf; ++i)
	vt_put("%s%d", i ? "," : "", grid[i]);
    vt_put("],\"gv\":[");
    for (int i = 0; i < nf; ++i)
	vt_put("%s\"g%d\"", i ? "," : "", g0 + i);
    vt_put("],\"h\":%d", h);
    ev_finish(ok_handle(h));
}

static void dependent_made(vinfo_t *v, int h, int kind, int other)
{
    if (h >= 3 && h < MAX_H) {
	hinfo_t *p = &v->h[h];
	double complex c = (other >= 0 && other < MAX_H) ?
	    h_centre(v, other) : 0.0;

	memset(p, 0, sizeof(*p));
	p->kind = kind;
	p->other = other;
	/* a correlated parameter's standard has exactly the value of its
	 * correlate (zero residual of the soft constraint); an unknown's
	 * lies close to the initial guess */
	p->truth = kind == K_CORRELATED ? c : c + (0.03 - 0.02 * I);
    }
    if (h >= 0)
	h_record(v, h);
}

static void op_make_unknown(vinfo_t *v, int other)
{
    int h;

    BEFORE();
    h = LIB(vnacal_make_unknown_parameter(v->vcp, other));
    CAPTURE();
    dependent_made(v, h, K_UNKNOWN, other);
    vt_put("{\"e\":\"MakeUnknown\",\"vc\":%d,\"other\":%d,\"h\":%d", v->id,
	    other, h);
    ev_finish(ok_handle(h));
}

/* ns: sigma_frequencies; nullf: pass NULL frequency vector; spos: sigmas
 * positive; grid: ns frequency ids (ignored when ns <= 1 or nullf) */
static void op_make_correlated(vinfo_t *v, int other, int ns, int nullf,
	int spos, const int *grid)
{
    double sfv[4], sv[4];
    int h;

    for (int i = 0; i < ns && i < 4; ++i) {
	sfv[i] = nullf ? 0.0 : f_of(grid[i]);	/* grid has ns entries unless nullf */
	sv[i] = spos ? 0.01 * (i + 1) : (i == ns - 1 ? 0.0 : 0.01);
    }
    if (ns < 1)
	sv[0] = 0.01;
    BEFORE();
    h = LIB(vnacal_make_correlated_parameter(v->vcp, other,
		nullf ? NULL : sfv, ns, sv));
    CAPTURE();
    dependent_made(v, h, K_CORRELATED, other);
    vt_put("{\"e\":\"MakeCorrelated\",\"vc\":%d,\"other\":%d,\"ns\":%d,"
	    "\"nullf\":%d,\"spos\":%d,\"sfv\":[", v->id, other, ns, nullf,
	    spos);
    for (int i = 0; i < ns && !nullf; ++i)
	vt_put("%s%d", i ? "," : "", grid[i]);
    vt_put("],\"h\":%d", h);
    ev_finish(ok_handle(h));
}

static void op_delete_parameter(vinfo_t *v, int h)
{
    int rv;

    BEFORE();
    rv = LIB(vnacal_delete_parameter(v->vcp, h));
    CAPTURE();
    if (rv == 0 && h >= 3 && h < MAX_H)
	v->h[h].deleted = 1;
    vt_put("{\"e\":\"DeleteParameter\",\"vc\":%d,\"h\":%d", v->id, h);
    ev_finish(ok_int(rv));
}

static void op_get_parameter_value(vinfo_t *v, int h, int f)
{
    double complex r;

    BEFORE();
    r = LIB(vnacal_get_parameter_value(v->vcp, h, f_of(f)));
    CAPTURE();
    vt_put("{\"e\":\"GetParameterValue\",\"vc\":%d,\"h\":%d,\"f\":%d,\"val\":",
	    v->id, h, f);
    put_pv(v, h, r);
    ev_finish(creal(r) == HUGE_VAL ? 0 : 1);
}

static ninfo_t *free_new_slot(vinfo_t *v)
{
    for (int i = 0; i < MAX_NEWS; ++i) {
	if (v->n[i].vnp == NULL)
	    return &v->n[i];
    }
    return NULL;
}

static void op_new_alloc(vinfo_t *v, int type, int rows, int cols, int nf,
	const int *grid)
{
    ninfo_t *n = free_new_slot(v);
    vnacal_new_t *vnp;
    int id = next_new_id++;

    if (n == NULL)
	return;
    BEFORE();
    vnp = LIB(vnacal_new_alloc(v->vcp, (vnacal_type_t)type, rows, cols, nf));
    CAPTURE();
    if (vnp != NULL) {
	memset(n, 0, sizeof(*n));
	n->vnp = vnp;
	n->id = id;
	n->type = type;
	n->rows = rows;
	n->cols = cols;
	n->nf = nf;
	n->grid[0] = grid[0];
	n->grid[1] = nf >= 2 ? grid[1] : grid[0];
	n->grid[2] = nf >= 3 ? grid[2] : n->grid[1];
	n->rich = !((type == VNACAL_T8 || type == VNACAL_E12) &&
		rows == cols && rows <= 2);
	v->lastn = (int)(n - v->n);
    }
    vt_put("{\"e\":\"NewAlloc\",\"vc\":%d,\"n\":%d,\"type\":\"%s\",\"rows\":%d,"
	    "\"cols\":%d,\"nf\":%d", v->id, id, type_name(type), rows, cols, nf);
    ev_finish(vnp != NULL);
}

/* cls: 0 the planned grid, 1 descending, 2 negative first, 3 equal pair */
static void op_set_frequency_vector(vinfo_t *v, ninfo_t *n, int cls)
{
    int ids[3] = { n->grid[0], n->grid[1], n->grid[2] };
    double fv[3];
    int rv;

    if (cls == 1 && n->nf >= 2) {
	ids[0] = n->grid[n->nf - 1];
	ids[n->nf - 1] = n->grid[0];
    } else if (cls == 2) {
	ids[0] = -1;
    } else if (cls == 3 && n->nf >= 2) {
	ids[1] = ids[0];
    }
    for (int i = 0; i < n->nf; ++i)
	fv[i] = f_of(ids[i]);
    BEFORE();
    rv = LIB(vnacal_new_set_frequency_vector(n->vnp, fv));
    CAPTURE();
    if (rv == 0)
	n->fset = 1;
    vt_put("{\"e\":\"SetFrequencyVector\",\"vc\":%d,\"n\":%d,\"fv\":[", v->id,
	    n->id);
    for (int i = 0; i < n->nf; ++i)
	vt_put("%s%d", i ? "," : "", ids[i]);
    vt_put("]");
    ev_finish(ok_int(rv));
}

static void op_set_z0(vinfo_t *v, ninfo_t *n, int zi)
{
    int rv;

    BEFORE();
    rv = LIB(vnacal_new_set_z0(n->vnp, z_pool[zi]));
    CAPTURE();
    vt_put("{\"e\":\"SetZ0\",\"vc\":%d,\"n\":%d,\"z\":\"z%d\"", v->id, n->id, zi);
    ev_finish(ok_int(rv));
}

/* cls: 0 one value for all frequencies, 1 one value per calibration
 * frequency (NULL frequency vector), 2 clear (both vectors NULL),
 * 3 frequencies = 0, 4 a noise value of zero, 5 noise vector NULL but
 * tracking vector given */
static void op_set_m_error(vinfo_t *v, ninfo_t *n, int cls)
{
    static const double nf[3] = { 1e-5, 2e-5, 1e-5 };
    static const double tr[3] = { 1e-4, 1e-4, 2e-4 };
    static const double zero[3] = { 1e-5, 0.0, 0.0 };
    int rv;

    BEFORE();
    switch (cls) {
    case 0:  rv = LIB(vnacal_new_set_m_error(n->vnp, NULL, 1, nf, NULL)); break;
    case 1:  rv = LIB(vnacal_new_set_m_error(n->vnp, NULL, n->nf, nf, tr)); break;
    case 2:  rv = LIB(vnacal_new_set_m_error(n->vnp, NULL, 1, NULL, NULL)); break;
    case 3:  rv = LIB(vnacal_new_set_m_error(n->vnp, NULL, 0, nf, NULL)); break;
    case 4:  rv = LIB(vnacal_new_set_m_error(n->vnp, NULL, 1, &zero[1], NULL));
	     break;
    default: rv = LIB(vnacal_new_set_m_error(n->vnp, NULL, 1, NULL, tr)); break;
    }
    CAPTURE();
    vt_put("{\"e\":\"SetMError\",\"vc\":%d,\"n\":%d,\"cls\":\"%s\",\"k\":%d",
	    v->id, n->id, cls <= 1 ? "set" : cls == 2 ? "clear" : "bad", cls);
    ev_finish(ok_int(rv));
}

/*
 * Add a measured standard.  The measurement is that of an ideal
 * instrument (M equals the S-parameters of the standard; ports the
 * standard does not use are terminated in a match), always given as the
 * full rows x cols matrix, in m form or (ab) with a = identity resp. a row
 * of ones for the column-system types.
 */
enum { SH_REFL1, SH_REFL2, SH_THRU, SH_LINE, SH_MAPPED };
static const char *shape_name[] = { "refl1", "refl2", "thru", "line", "mapm" };

static int op_add_std(vinfo_t *v, ninfo_t *n, int shape, const int *ports,
	const int *hs, int ab)
{
    static double complex cell[9][3], acell[9][3];
    double complex *m[9], *a[9];
    int rows = n->rows, cols = n->cols;
    int nports = shape == SH_REFL1 ? 1 : 2;
    int nhs = shape == SH_REFL1 ? 1 : shape == SH_REFL2 ? 2 :
	shape == SH_THRU ? 0 : 4;
    int a_rows, a_cols;
    int rv;
    int ex = 1;		/* every value of the standard was computable */

    if (rows > 3 || cols > 3 || n->nf > 3)
	return -2;
    for (int f = 0; f < n->nf; ++f) {
	double complex s[2][2] = { { 0, 0 }, { 0, 0 } };
	double complex x;

	switch (shape) {
	case SH_REFL1:
	    if (!h_value(v, hs[0], n->grid[f], &s[0][0])) {
		s[0][0] = 0.0;
		ex = 0;
	    }
	    break;
	case SH_REFL2:
	    if (!h_value(v, hs[0], n->grid[f], &s[0][0])) {
		s[0][0] = 0.0;
		ex = 0;
	    }
	    if (!h_value(v, hs[1], n->grid[f], &s[1][1])) {
		s[1][1] = 0.0;
		ex = 0;
	    }
	    break;
	case SH_THRU:
	    s[0][1] = s[1][0] = 1.0;
	    break;
	case SH_LINE:
	case SH_MAPPED:
	    for (int i = 0; i < 4; ++i) {
		if (!h_value(v, hs[i], n->grid[f], &x)) {
		    x = 0.0;
		    ex = 0;
		}
		s[i / 2][i % 2] = x;
	    }
	    break;
	}
	for (int r = 0; r < rows; ++r) {
	    for (int c = 0; c < cols; ++c) {
		double complex val = 0.0;

		for (int i = 0; i < nports; ++i) {
		    for (int j = 0; j < nports; ++j) {
			if (ports[i] == r + 1 && ports[j] == c + 1)
			    val = s[i][j];
		    }
		}
		cell[r * cols + c][f] = val;
	    }
	}
    }
    for (int i = 0; i < rows * cols; ++i)
	m[i] = cell[i];
    if (n->type == VNACAL_E12 || n->type == VNACAL_UE14) {
	a_rows = 1;
	a_cols = cols;
	for (int c = 0; c < cols; ++c) {
	    for (int f = 0; f < 3; ++f)
		acell[c][f] = 1.0;
	    a[c] = acell[c];
	}
    } else {
	a_rows = cols;
	a_cols = cols;
	for (int r = 0; r < cols; ++r) {
	    for (int c = 0; c < cols; ++c) {
		for (int f = 0; f < 3; ++f)
		    acell[r * cols + c][f] = r == c ? 1.0 : 0.0;
		a[r * cols + c] = acell[r * cols + c];
	    }
	}
    }
    BEFORE();
    switch (shape) {
    case SH_REFL1:
	rv = ab ? LIB(vnacal_new_add_single_reflect(n->vnp, a, a_rows, a_cols,
		    m, rows, cols, hs[0], ports[0]))
	    : LIB(vnacal_new_add_single_reflect_m(n->vnp, m, rows, cols,
			hs[0], ports[0]));
	break;
    case SH_REFL2:
	rv = ab ? LIB(vnacal_new_add_double_reflect(n->vnp, a, a_rows, a_cols,
		    m, rows, cols, hs[0], hs[1], ports[0], ports[1]))
	    : LIB(vnacal_new_add_double_reflect_m(n->vnp, m, rows, cols,
			hs[0], hs[1], ports[0], ports[1]));
	break;
    case SH_THRU:
	rv = ab ? LIB(vnacal_new_add_through(n->vnp, a, a_rows, a_cols,
		    m, rows, cols, ports[0], ports[1]))
	    : LIB(vnacal_new_add_through_m(n->vnp, m, rows, cols,
			ports[0], ports[1]));
	break;
    case SH_MAPPED:
	rv = ab ? LIB(vnacal_new_add_mapped_matrix(n->vnp, a, a_rows, a_cols,
		    m, rows, cols, hs, 2, 2, ports))
	    : LIB(vnacal_new_add_mapped_matrix_m(n->vnp, m, rows, cols,
			hs, 2, 2, ports));
	break;
    default:
	rv = ab ? LIB(vnacal_new_add_line(n->vnp, a, a_rows, a_cols,
		    m, rows, cols, hs, ports[0], ports[1]))
	    : LIB(vnacal_new_add_line_m(n->vnp, m, rows, cols,
			hs, ports[0], ports[1]));
	break;
    }
    CAPTURE();
    if (rv == 0) {
	++n->nstds;
	for (int i = 0; i < nhs; ++i) {
	    if (hs[i] >= 3 && n->nused < 16)
		n->usedh[n->nused++] = hs[i];
	}
    }
    vt_put("{\"e\":\"AddStd\",\"vc\":%d,\"n\":%d,\"shape\":\"%s\",\"ab\":%d,"
	    "\"ex\":%d,\"ports\":[", v->id, n->id, shape_name[shape], ab, ex);
    for (int i = 0; i < nports; ++i)
	vt_put("%s%d", i ? "," : "", ports[i]);
    vt_put("],\"hs\":[");
    for (int i = 0; i < nhs; ++i)
	vt_put("%s%d", i ? "," : "", hs[i]);
    vt_put("]");
    ev_finish(ok_int(rv));
    return rv;
}

static void op_solve(vinfo_t *v, ninfo_t *n)
{
    int rv;

    BEFORE();
    rv = LIB(vnacal_new_solve(n->vnp));
    CAPTURE();
    n->solved = rv == 0;
    vt_put("{\"e\":\"Solve\",\"vc\":%d,\"n\":%d", v->id, n->id);
    ev_finish(ok_int(rv));
}

static void op_new_free(vinfo_t *v, ninfo_t *n)
{
    BEFORE();
    LIBV(vnacal_new_free(n->vnp));
    CAPTURE();
    n->vnp = NULL;
    if (v->lastn == (int)(n - v->n)) {
	v->lastn = -1;
	for (int i = 0; i < MAX_NEWS; ++i) {
	    if (v->n[i].vnp != NULL)
		v->lastn = i;
	}
    }
    vt_put("{\"e\":\"NewFree\",\"vc\":%d,\"n\":%d", v->id, n->id);
    ev_errno = 0;
    ev_finish(1);
}

/* tv: the store the call is made on; n may belong to another store */
/* alias_ci >= 0: the name argument is the library's own string, the
 * pointer vnacal_get_name returned for that slot (replace-by-name with an
 * aliased argument); namei is then ignored */
static void op_add_calibration_a(vinfo_t *tv, ninfo_t *n, int namei,
	int alias_ci)
{
    const char *name = name_pool[namei];
    int ci;

    if (alias_ci >= 0) {
	const char *own = LIB(vnacal_get_name(tv->vcp, alias_ci));

	if (own != NULL) {
	    name = own;
	    namei = -1;
	    for (int i = 0; i < N_NAMES; ++i) {
		if (strcmp(own, name_pool[i]) == 0)
		    namei = i;
	    }
	    if (namei < 0)
		return;
	} else {
	    alias_ci = -1;
	}
    }
    BEFORE();
    ci = LIB(vnacal_add_calibration(tv->vcp, name, n->vnp));
    CAPTURE();
    if (ci >= 0)
	n->solved = 0;
    if (ci > tv->hici && ci < 64)
	tv->hici = ci;
    vt_put("{\"e\":\"AddCalibration\",\"vc\":%d,\"n\":%d,\"name\":\"c%d\","
	    "\"alias\":%d,\"ci\":%d", tv->id, n->id, namei, alias_ci >= 0, ci);
    ev_finish(ok_handle(ci));
}

static void op_add_calibration(vinfo_t *tv, ninfo_t *n, int namei)
{
    op_add_calibration_a(tv, n, namei, -1);
}

static void op_delete_calibration(vinfo_t *v, int ci)
{
    int rv;

    BEFORE();
    rv = LIB(vnacal_delete_calibration(v->vcp, ci));
    CAPTURE();
    vt_put("{\"e\":\"DeleteCalibration\",\"vc\":%d,\"ci\":%d", v->id, ci);
    ev_finish(ok_int(rv));
}

static void op_find_calibration(vinfo_t *v, int namei)
{
    int ci;

    BEFORE();
    ci = LIB(vnacal_find_calibration(v->vcp, name_pool[namei]));
    CAPTURE();
    vt_put("{\"e\":\"FindCalibration\",\"vc\":%d,\"name\":\"c%d\",\"ci\":%d",
	    v->id, namei, ci);
    ev_finish(ok_handle(ci));
}

enum { W_END, W_NAME, W_TYPE, W_ROWS, W_COLS, W_NF, W_FMIN, W_FMAX, W_FV,
    W_Z0, W_COUNT };
static const char *what_name[] = { "end", "name", "type", "rows", "cols", "nf",
    "fmin", "fmax", "fv", "z0" };

static void op_get(vinfo_t *v, int what, int ci)
{
    vnacal_t *vcp = v->vcp;
    int ok = 0;

    BEFORE();
    vt_put("{\"e\":\"Get\",\"vc\":%d,\"what\":\"%s\",\"ci\":%d,\"val\":", v->id,
	    what_name[what], ci);
    switch (what) {
    case W_END:
	{
	    int rv = LIB(vnacal_get_calibration_end(vcp));

	    CAPTURE();
	    ok = rv >= 0;
	    vt_put("%d", rv);
	}
	break;
    case W_NAME:
	{
	    const char *s = LIB(vnacal_get_name(vcp, ci));

	    CAPTURE();
	    ok = s != NULL;
	    put_sid(s, name_pool, N_NAMES, 'c');
	}
	break;
    case W_TYPE:
	{
	    int t = (int)LIB(vnacal_get_type(vcp, ci));

	    CAPTURE();
	    ok = t != -1;
	    vt_put("\"%s\"", type_name(t));
	}
	break;
    case W_ROWS:
    case W_COLS:
    case W_NF:
	{
	    int rv = what == W_ROWS ? LIB(vnacal_get_rows(vcp, ci)) :
		what == W_COLS ? LIB(vnacal_get_columns(vcp, ci)) :
		LIB(vnacal_get_frequencies(vcp, ci));

	    CAPTURE();
	    ok = rv == -1 ? 0 : rv >= 0 ? 1 : 2;
	    vt_put("%d", rv);
	}
	break;
    case W_FMIN:
    case W_FMAX:
	{
	    double f = what == W_FMIN ? LIB(vnacal_get_fmin(vcp, ci)) :
		LIB(vnacal_get_fmax(vcp, ci));

	    CAPTURE();
	    ok = f != HUGE_VAL;
	    vt_put("%d", fid_of(f));
	}
	break;
    case W_FV:
	{
	    const double *fv = LIB(vnacal_get_frequency_vector(vcp, ci));
	    int e = errno;
	    vt_cb_t cb = vt_cb;
	    int nf = fv != NULL ? LIB(vnacal_get_frequencies(vcp, ci)) : 0;

	    errno = e;
	    vt_cb = cb;
	    CAPTURE();
	    ok = fv != NULL;
	    vt_put("[");
	    for (int i = 0; i < nf && i < 8; ++i)
		vt_put("%s%d", i ? "," : "", fid_of(fv[i]));
	    vt_put("]");
	}
	break;
    default:
	{
	    double complex z = LIB(vnacal_get_z0(vcp, ci));

	    CAPTURE();
	    ok = creal(z) != HUGE_VAL;
	    put_zid(z);
	}
	break;
    }
    ev_finish(ok);
}

static void op_set_precision(vinfo_t *v, int which, int p)
{
    int rv;

    BEFORE();
    rv = which ? LIB(vnacal_set_dprecision(v->vcp, p)) :
	LIB(vnacal_set_fprecision(v->vcp, p));
    CAPTURE();
    vt_put("{\"e\":\"SetPrecision\",\"vc\":%d,\"which\":\"%c\",\"p\":%d", v->id,
	    which ? 'd' : 'f', p);
    ev_finish(ok_int(rv));
}

/* vnacal_save, and vnacal_load of the same file into store slot k2 */

static void op_save_load(vinfo_t *v, int k2)
{
    char path[320];
    int file = next_file_id++;
    int rv;

    /* next to the trace (the check's work directory, removed afterwards,
     * also when a crash keeps the driver from unlinking the file) */
    {
	const char *tp = getenv("VT_TRACE");
	const char *slash = tp != NULL ? strrchr(tp, '/') : NULL;
	int dlen = slash != NULL ? (int)(slash - tp) : 4;

	if (dlen > 200)
	    dlen = 200;
	snprintf(path, sizeof(path), "%.*s/calstore-drv-%ld-%d.vnacal", dlen,
		slash != NULL ? tp : "/tmp", (long)getpid(), file);
    }
    BEFORE();
    rv = LIB(vnacal_save(v->vcp, path));
    CAPTURE();
    vt_put("{\"e\":\"Save\",\"vc\":%d,\"file\":%d", v->id, file);
    ev_finish(ok_int(rv));
    if (rv == 0 && k2 >= 0) {
	vinfo_t *w = &VC[k2];
	vnacal_t *vcp;
	/* half of the loads name the file by the saving container's own
	 * filename string */
	const char *own = (file & 1) ? LIB(vnacal_get_filename(v->vcp)) : NULL;

	BEFORE();
	vcp = LIB(vnacal_load(own != NULL ? own : path, vt_errfn, NULL));
	CAPTURE();
	if (vcp != NULL) {
	    h_init(w);
	    w->vcp = vcp;
	    w->hici = LIB(vnacal_get_calibration_end(vcp)) - 1;
	}
	vt_put("{\"e\":\"Load\",\"vc\":%d,\"file\":%d,\"alias\":%d", k2, file,
		own != NULL);
	ev_finish(vcp != NULL);
    }
    if (rv == 0) {
	/* save again under the name the library itself stores: the
	 * pathname argument aliases vcp's filename string */
	const char *own = LIB(vnacal_get_filename(v->vcp));

	if (own != NULL) {
	    BEFORE();
	    rv = LIB(vnacal_save(v->vcp, own));
	    CAPTURE();
	    vt_put("{\"e\":\"Save\",\"vc\":%d,\"file\":%d,\"alias\":1", v->id,
		    file);
	    ev_finish(ok_int(rv));
	}
    }
    (void)unlink(path);
}

static void op_free(vinfo_t *v)
{
    BEFORE();
    LIBV(vnacal_free(v->vcp));
    CAPTURE();
    v->vcp = NULL;
    for (int i = 0; i < MAX_NEWS; ++i)
	v->n[i].vnp = NULL;
    vt_put("{\"e\":\"Free\",\"vc\":%d", v->id);
    ev_errno = 0;
    ev_finish(1);
}

/* live_base: in-library blocks live when the episode began; a leak is
 * charged to the episode that caused it, not to those that follow in the
 * same process */

static void op_end(void)
{
    if (getenv("CALSTORE_STATS") != NULL)
	fprintf(stderr, "pv_max_dev %g pv_min_rej %g\n", pv_max_dev, pv_min_rej);
    vt_put("{\"e\":\"End\",\"live\":%ld}", vt_alloc_live - live_base);
    vt_end_line();
}

/* vnacal_name_to_type / vnacal_type_to_name (stateless) */
static const struct { const char *text; const char *canon; } tname_pool[] = {
    { "T8", "T8" }, { "t8", "T8" }, { "U8", "U8" }, { "TE10", "TE10" },
    { "te10", "TE10" }, { "Ue10", "UE10" }, { "T16", "T16" }, { "u16", "U16" },
    { "UE14", "UE14" }, { "ue14", "UE14" }, { "E12", "E12" }, { "e12", "E12" },
    { "T", "none" }, { "T80", "none" }, { "", "none" }, { "E1", "none" },
    { "UE12", "none" }, { "X8", "none" }, { " T8", "none" }, { "T8 ", "none" },
    { "E12_UE14", "none" },
};
#define N_TNAMES ((int)(sizeof(tname_pool) / sizeof(tname_pool[0])))

static void op_name_to_type(int i)
{
    int t;

    BEFORE();
    t = (int)LIB(vnacal_name_to_type(tname_pool[i].text));
    CAPTURE();
    vt_put("{\"e\":\"NameToType\",\"i\":%d,\"canon\":\"%s\",\"val\":\"%s\",", i,
	    tname_pool[i].canon, t == -1 ? "NOTYPE" : type_name(t));
    vt_cb = ev_cb;
    vt_put_cb();
    vt_put("}");
    vt_end_line();
}

static const int all_types[] = { VNACAL_T8, VNACAL_U8, VNACAL_TE10,
    VNACAL_UE10, VNACAL_T16, VNACAL_U16, VNACAL_UE14, VNACAL_E12 };

static void op_type_to_name(int i)
{
    const char *s;
    const char *val = "other";

    BEFORE();
    s = LIB(vnacal_type_to_name((vnacal_type_t)all_types[i]));
    CAPTURE();
    for (int k = 0; k < 8 && s != NULL; ++k) {
	if (strcmp(s, type_name(all_types[k])) == 0)
	    val = type_name(all_types[k]);
    }
    vt_put("{\"e\":\"TypeToName\",\"i\":%d,\"canon\":\"%s\",\"val\":\"%s\",", i,
	    type_name(all_types[i]), val);
    vt_cb = ev_cb;
    vt_put_cb();
    vt_put("}");
    vt_end_line();
}

/* ------------------------------------------------- property operations */

enum { S_KEY, S_IDX, S_INS, S_APP, S_MAP, S_LIST, S_DOT };
typedef struct pstep { int k; int n; } pstep_t;
enum { PK_SET, PK_SETSUB, PK_DEL, PK_TYPE, PK_COUNT, PK_KEYS, PK_GET,
    PK_GETSUB };
static const char *pkind_name[] = { "Set", "SetSub", "Del", "Type", "Count",
    "Keys", "Get", "GetSub" };

typedef struct pop {
    int kind;
    int nsteps;
    pstep_t steps[4];
    int val;			/* value index, -1 = null (# form) */
} pop_t;

static void prop_render(const pop_t *op, char *buf)
{
    char *p = buf;

    for (int i = 0; i < op->nsteps; ++i) {
	const pstep_t *st = &op->steps[i];

	switch (st->k) {
	case S_KEY:
	    if (i > 0)
		*p++ = '.';
	    p += sprintf(p, "%s", pkey_pool[st->n]);
	    break;
	case S_IDX:  p += sprintf(p, "[%d]", st->n); break;
	case S_INS:  p += sprintf(p, "[%d+]", st->n); break;
	case S_APP:  p += sprintf(p, "[+]"); break;
	case S_MAP:  p += sprintf(p, "{}"); break;
	case S_LIST: p += sprintf(p, "[]"); break;
	case S_DOT:  *p++ = '.'; break;
	}
    }
    if (op->kind == PK_SET) {
	if (op->val < 0)
	    *p++ = '#';
	else
	    p += sprintf(p, "=%s", pval_pool[op->val]);
    }
    *p = '\0';
}

static void prop_put_path(const pop_t *op)
{
    vt_put("\"path\":[");
    for (int i = 0; i < op->nsteps; ++i) {
	const pstep_t *st = &op->steps[i];

	if (i)
	    vt_put(",");
	switch (st->k) {
	case S_KEY:  vt_put("{\"k\":\"key\",\"id\":\"k%d\"}", st->n); break;
	case S_IDX:  vt_put("{\"k\":\"idx\",\"n\":%d}", st->n); break;
	case S_INS:  vt_put("{\"k\":\"ins\",\"n\":%d}", st->n); break;
	case S_APP:  vt_put("{\"k\":\"app\"}"); break;
	case S_MAP:  vt_put("{\"k\":\"map\"}"); break;
	case S_LIST: vt_put("{\"k\":\"list\"}"); break;
	case S_DOT:  vt_put("{\"k\":\"dot\"}"); break;
	}
    }
    vt_put("]");
}

static void op_prop(vinfo_t *v, int ci, const pop_t *op)
{
    vnacal_t *vcp = v->vcp;
    char desc[256];
    int ok = 0;

    prop_render(op, desc);
    vt_put("{\"e\":\"Prop\",\"vc\":%d,\"ci\":%d,\"kind\":\"%s\",", v->id, ci,
	    pkind_name[op->kind]);
    prop_put_path(op);
    BEFORE();
    switch (op->kind) {
    case PK_SET:
	{
	    int rv = LIB(vnacal_property_set(vcp, ci, "%s", desc));

	    CAPTURE();
	    ok = ok_int(rv);
	    if (op->val < 0)
		vt_put(",\"sval\":{\"t\":\"n\"}");
	    else
		vt_put(",\"sval\":{\"t\":\"s\",\"v\":\"v%d\"}", op->val);
	    vt_put(",\"val\":0");
	}
	break;
    case PK_SETSUB:
	{
	    vnaproperty_t **sub = LIB(vnacal_property_set_subtree(vcp, ci,
			"%s", desc));

	    CAPTURE();
	    ok = sub != NULL;
	    vt_put(",\"val\":0");
	}
	break;
    case PK_DEL:
	{
	    int rv = LIB(vnacal_property_delete(vcp, ci, "%s", desc));

	    CAPTURE();
	    ok = ok_int(rv);
	    vt_put(",\"val\":0");
	}
	break;
    case PK_TYPE:
	{
	    int rv = LIB(vnacal_property_type(vcp, ci, "%s", desc));

	    CAPTURE();
	    ok = rv == -1 ? 0 : (rv == 'm' || rv == 'l' || rv == 's') ? 1 : 2;
	    if (ok == 1)
		vt_put(",\"val\":\"%c\"", rv);
	    else
		vt_put(",\"val\":\"none\"");
	}
	break;
    case PK_COUNT:
	{
	    int rv = LIB(vnacal_property_count(vcp, ci, "%s", desc));

	    CAPTURE();
	    ok = rv == -1 ? 0 : rv >= 0 ? 1 : 2;
	    vt_put(",\"val\":%d", rv);
	}
	break;
    case PK_KEYS:
	{
	    const char **keys = LIB(vnacal_property_keys(vcp, ci, "%s", desc));

	    CAPTURE();
	    ok = keys != NULL;
	    vt_put(",\"val\":[");
	    for (const char **cpp = keys; cpp != NULL && *cpp != NULL; ++cpp) {
		if (cpp != keys)
		    vt_put(",");
		put_sid(*cpp, pkey_pool, N_PKEYS, 'k');
	    }
	    vt_put("]");
	    free((void *)keys);
	}
	break;
    case PK_GET:
	{
	    const char *s = LIB(vnacal_property_get(vcp, ci, "%s", desc));

	    CAPTURE();
	    ok = s != NULL;
	    vt_put(",\"val\":");
	    if (s != NULL)
		put_sid(s, pval_pool, N_PVALS, 'v');
	    else
		vt_put("\"none\"");
	}
	break;
    default:
	{
	    vnaproperty_t *sub = LIB(vnacal_property_get_subtree(vcp, ci,
			"%s", desc));

	    CAPTURE();
	    /* NULL with errno == 0 is the documented empty subtree */
	    ok = sub != NULL || ev_errno == 0;
	    vt_put(",\"val\":");
	    if (ok)
		project_node(sub, 0);
	    else
		vt_put("{\"t\":\"n\"}");
	}
	break;
    }
    ev_finish(ok);
}

static void prop_simple(pop_t *op, int kind, int key, int val)
{
    memset(op, 0, sizeof(*op));
    op->kind = kind;
    op->nsteps = 1;
    op->steps[0].k = S_KEY;
    op->steps[0].n = key;
    op->val = val;
}

static void prop_random(vt_rng_t *rng, pop_t *op)
{
    int r = vt_below(rng, 100);
    int set_ctx;
    int n;

    memset(op, 0, sizeof(*op));
    if (r < 40)
	op->kind = PK_SET;
    else if (r < 47)
	op->kind = PK_SETSUB;
    else if (r < 62)
	op->kind = PK_DEL;
    else
	op->kind = PK_TYPE + vt_below(rng, 5);
    set_ctx = op->kind == PK_SET || op->kind == PK_SETSUB;
    n = 1 + vt_below(rng, 2);
    for (int i = 0; i < n; ++i) {
	pstep_t *st = &op->steps[op->nsteps++];
	int q = vt_below(rng, 100);

	if (q < 60) {
	    st->k = S_KEY;
	    st->n = vt_below(rng, N_PKEYS);
	} else if (q < 85 || !set_ctx) {
	    st->k = q < 97 ? S_IDX : S_APP;	/* [+] outside set: EINVAL */
	    st->n = vt_below(rng, 3);
	} else if (q < 93) {
	    st->k = S_INS;
	    st->n = vt_below(rng, 3);
	} else {
	    st->k = S_APP;
	}
    }
    r = vt_below(rng, 100);
    if (r < 6 && op->kind != PK_DEL) {
	op->steps[op->nsteps++].k = S_MAP;
    } else if (r < 12 && op->kind != PK_DEL) {
	op->steps[op->nsteps++].k = S_LIST;
    } else if (r < 20) {
	op->steps[op->nsteps++].k = S_DOT;
    } else if (r < 26) {
	op->nsteps = 1;
	op->steps[0].k = S_DOT;
    }
    op->val = vt_below(rng, 7) == 0 ? -1 : vt_below(rng, N_PVALS);
}

/* ------------------------------------------------------------ generators */

static ninfo_t *last_new(vinfo_t *v)
{
    return v->lastn >= 0 && v->n[v->lastn].vnp != NULL ? &v->n[v->lastn] : NULL;
}

/* can the driver compute the standard's value on this new's grid? */
static int h_fits(const vinfo_t *v, const ninfo_t *n, int h)
{
    double complex x;

    if (h < 0 || h >= MAX_H || v->h[h].kind == K_NONE)
	return 1;		/* invalid handle: value irrelevant */
    for (int f = 0; f < n->nf; ++f) {
	if (!h_value(v, h, n->grid[f], &x))
	    return 0;
    }
    return 1;
}

/* preferred user handle for a reflect standard: most recent live one */
static int user_handle(const vinfo_t *v, const ninfo_t *n)
{
    for (int h = v->maxh; h >= 3; --h) {
	if (h < MAX_H && v->h[h].kind != K_NONE && !v->h[h].deleted &&
		h_fits(v, n, h))
	    return h;
    }
    return VNACAL_MATCH;
}

/* the next standard of the textbook set for this new; variant selects
 * single vs double reflects on two-port calibrations */
static int add_useful(vinfo_t *v, ninfo_t *n, int variant, int ab)
{
    static const int refl[3] = { VNACAL_SHORT, VNACAL_OPEN, VNACAL_MATCH };
    int ports[2] = { 1, 2 };
    int hs[4];
    int k = n->step++;

    if (n->rich && (n->rows > 1 || n->cols > 1)) {
	/* any type / shape: per port pair six double reflects whose
	 * combinations give three reflects per port and mixed pairs, and a
	 * through */
	static const int combo[6][2] = { {2, 2}, {1, 1}, {0, 0}, {2, 1}, {1, 0},
	    {0, 2} };
	static const int pairs[3][2] = { {1, 2}, {1, 3}, {2, 3} };
	int np = n->rows > n->cols ? n->rows : n->cols;
	int npairs = np == 2 ? 1 : 3;

	if (k < 7 * npairs) {
	    ports[0] = pairs[k / 7][0];
	    ports[1] = pairs[k / 7][1];
	    if (k % 7 == 6)
		return op_add_std(v, n, SH_THRU, ports, hs, ab);
	    hs[0] = combo[k % 7][0];
	    hs[1] = combo[k % 7][1];
	    return op_add_std(v, n, SH_REFL2, ports, hs, ab);
	}
	hs[0] = user_handle(v, n);
	ports[0] = 1 + k % np;
	return op_add_std(v, n, SH_REFL1, ports, hs, ab);
    }
    if (n->rows == 1 && n->cols == 1) {
	hs[0] = k < 3 ? refl[k] : user_handle(v, n);
	return op_add_std(v, n, SH_REFL1, ports, hs, ab);
    }
    if (variant == 0) {
	if (k < 3) {
	    hs[0] = refl[k];
	    hs[1] = refl[(k + 1) % 3];
	    return op_add_std(v, n, SH_REFL2, ports, hs, ab);
	}
	if (k == 3)
	    return op_add_std(v, n, SH_THRU, ports, hs, ab);
    } else {
	if (k < 6) {
	    ports[0] = 1 + k / 3;
	    hs[0] = refl[k % 3];
	    return op_add_std(v, n, SH_REFL1, ports, hs, ab);
	}
	if (k == 6) {
	    ports[0] = 2;
	    ports[1] = 1;
	    return op_add_std(v, n, SH_THRU, ports, hs, ab);
	}
    }
    hs[0] = user_handle(v, n);
    ports[0] = 1 + (k & 1);
    return op_add_std(v, n, SH_REFL1, ports, hs, ab);
}

static int useful_done(const ninfo_t *n, int variant)
{
    if (n->rich && (n->rows > 1 || n->cols > 1)) {
	int np = n->rows > n->cols ? n->rows : n->cols;

	return n->step >= 7 * (np == 2 ? 1 : 3);
    }
    if (n->rows == 1 && n->cols == 1)
	return n->step >= 3;
    return n->step >= (variant == 0 ? 4 : 7);
}

static int pick_handle(vinfo_t *v, vt_rng_t *rng)
{
    int r = vt_below(rng, 100);
    int cand[MAX_H], nc = 0;

    if (r < 55 || (r >= 75 && r < 87)) {
	int want_deleted = r >= 75;

	for (int h = 3; h <= v->maxh && h < MAX_H; ++h) {
	    if (v->h[h].kind != K_NONE && v->h[h].deleted == want_deleted)
		cand[nc++] = h;
	}
	if (nc > 0)
	    return cand[vt_below(rng, nc)];
    }
    if (r < 75)
	return vt_below(rng, 3);
    if (r < 95)
	return v->maxh + 1 + vt_below(rng, 3);
    return r < 98 ? -1 : 1000;
}

static ninfo_t *pick_new(vinfo_t *v, vt_rng_t *rng)
{
    ninfo_t *cand[MAX_NEWS];
    int nc = 0;

    for (int i = 0; i < MAX_NEWS; ++i) {
	if (v->n[i].vnp != NULL)
	    cand[nc++] = &v->n[i];
    }
    return nc > 0 ? cand[vt_below(rng, nc)] : NULL;
}

static int pick_ci(vinfo_t *v, vt_rng_t *rng)
{
    int r = vt_below(rng, 100);
    int top = v->hici + 1;

    if (r < 80)
	return vt_below(rng, top + 1);
    if (r < 88)
	return top + 1 + vt_below(rng, 2);
    if (r < 94)
	return -1;
    return r < 97 ? -2 : 100;
}

static const int cal_grids[][3] = { {1, 2, 0}, {1, 4, 0}, {2, 3, 0}, {3, 4, 0},
    {2, 4, 0} };
static const int cal_grids3[][3] = { {1, 2, 3}, {2, 3, 4}, {1, 2, 4}, {1, 3, 4} };
#define N_CAL_GRIDS3 4
#define N_CAL_GRIDS 5
static const int vec_grids[][4] = { {1, 4, 0, 0}, {1, 2, 4, 0}, {1, 3, 4, 0},
    {1, 2, 3, 4} };
static const int vec_grid_n[] = { 2, 3, 3, 4 };
#define N_VEC_GRIDS 4

static void random_std(vinfo_t *v, ninfo_t *n, vt_rng_t *rng)
{
    int shape = vt_below(rng, 100);
    int ports[2], hs[4];
    int np = n->rows > n->cols ? n->rows : n->cols;
    int ab = vt_below(rng, 4) == 0;

    shape = shape < 45 ? SH_REFL1 : shape < 70 ? SH_REFL2 : shape < 85 ?
	SH_THRU : SH_LINE;
    ports[0] = 1 + vt_below(rng, np);
    ports[1] = np >= 2 ? 3 - ports[0] : 2;	/* 1x1: port 2 is invalid */
    if (vt_below(rng, 20) == 0)
	ports[vt_below(rng, 2)] = vt_below(rng, 2) ? 0 : np + 1;
    if (vt_below(rng, 40) == 0)
	ports[1] = ports[0];
    for (int i = 0; i < 4; ++i) {
	int h = pick_handle(v, rng);

	if (!h_fits(v, n, h))
	    h = VNACAL_MATCH;
	hs[i] = h;
    }
    if (shape == SH_LINE && vt_below(rng, 2) == 0) {
	/* a line that is a reciprocal, matched device */
	hs[0] = hs[3] = VNACAL_MATCH;
	hs[2] = hs[1];
    }
    (void)op_add_std(v, n, shape, ports, hs, ab);
}

/* the next step of the documented flow for this new: frequencies,
 * standards, solve, add_calibration, and then further standards */
static void progress(vinfo_t *v, ninfo_t *n, vt_rng_t *rng)
{
    if (!n->fset && vt_below(rng, 3) != 0)
	op_set_frequency_vector(v, n, 0);
    else if (!useful_done(n, n->id & 1))
	(void)add_useful(v, n, n->id & 1, vt_below(rng, 6) == 0);
    else if (!n->fset)
	op_set_frequency_vector(v, n, 0);
    else if (!n->solved && vt_below(rng, 4) == 0)
	op_set_z0(v, n, vt_below(rng, N_Z));
    else if (!n->solved)
	op_solve(v, n);
    else if (vt_below(rng, 4) != 0) {
	int end = LIB(vnacal_get_calibration_end(v->vcp));

	if (end > 0 && vt_below(rng, 3) == 0)
	    op_add_calibration_a(v, n, 0, vt_below(rng, end));
	else
	    op_add_calibration(v, n, ADD_NAME(rng));
    }
    else
	(void)add_useful(v, n, n->id & 1, 0);
}

static void random_step(vt_rng_t *rng, int *variant)
{
    vinfo_t *live[MAX_VC];
    vinfo_t *v;
    ninfo_t *n;
    int nl = 0;
    int r;

    for (int i = 0; i < MAX_VC; ++i) {
	if (VC[i].vcp != NULL)
	    live[nl++] = &VC[i];
    }
    if (nl == 0)
	return;
    v = live[vt_below(rng, nl)];
    n = pick_new(v, rng);
    if (n != NULL && vt_below(rng, 100) < 30) {
	progress(v, n, rng);
	return;
    }
    if (n != NULL && n->nused > 0 && vt_below(rng, 100) < 8) {
	/* a handle this new uses: delete it, keep using it there, read it */
	int h = n->usedh[vt_below(rng, n->nused)];
	int q = vt_below(rng, 4);

	if (v->h[h].deleted)
	    q = q < 3 ? 1 : 2;
	if (q <= 1 && !v->h[h].deleted) {
	    op_delete_parameter(v, h);
	} else if (q <= 1) {
	    int ports[2] = { 1 + vt_below(rng, n->rows), 2 };
	    int hs[1] = { h };

	    (void)op_add_std(v, n, SH_REFL1, ports, hs, 0);
	} else {
	    op_get_parameter_value(v, h, n->grid[vt_below(rng, n->nf)]);
	}
	return;
    }
    r = vt_below(rng, 1000);
    if (r < 50) {
	int gi = vt_below(rng, 12) == 0 ? vt_below(rng, 3) :
	    G_SCALAR0 + vt_below(rng, N_SCALARS);

	op_make_scalar(v, gi);
    } else if (r < 85) {
	int q = vt_below(rng, 10);

	if (q < 8) {
	    int g = vt_below(rng, N_VEC_GRIDS);

	    op_make_vector(v, vec_grids[g], vec_grid_n[g], G_VECTOR0);
	} else if (q == 8) {
	    static const int bad[2] = { 4, 1 };

	    op_make_vector(v, bad, 2, G_VECTOR0);
	} else {
	    static const int neg[2] = { -1, 4 };

	    op_make_vector(v, neg, vt_below(rng, 2) ? 2 : 0, G_VECTOR0);
	}
    } else if (r < 135) {
	op_make_unknown(v, pick_handle(v, rng));
    } else if (r < 170) {
	int q = vt_below(rng, 10);
	int other = pick_handle(v, rng);
	static const int sg[2] = { 1, 4 };
	static const int sgbad[2] = { 4, 1 };

	if (q < 5)
	    op_make_correlated(v, other, 1, vt_below(rng, 2), 1, sg);
	else if (q < 7)
	    op_make_correlated(v, other, 2, 0, 1, sg);
	else if (q == 7) {
	    /* NULL frequency vector: sigma count = knots of the chain end */
	    int end = other, ns = 2;

	    while (end >= 0 && end < MAX_H && (v->h[end].kind == K_UNKNOWN ||
			v->h[end].kind == K_CORRELATED))
		end = v->h[end].other;
	    if (end >= 0 && end < MAX_H && v->h[end].kind == K_VECTOR)
		ns = v->h[end].nf;
	    op_make_correlated(v, other, ns, 1, 1, sg);
	}
	else if (q == 8)
	    op_make_correlated(v, other, vt_below(rng, 2) ? 0 : 2, 0,
		    vt_below(rng, 2), sg);
	else
	    op_make_correlated(v, other, 2, 0, 1, sgbad);
    } else if (r < 230) {
	op_delete_parameter(v, pick_handle(v, rng));
    } else if (r < 270) {
	op_get_parameter_value(v, pick_handle(v, rng), vt_below(rng, N_F));
    } else if (r < 320) {
	int q = vt_below(rng, 100);
	const int *g = cal_grids[vt_below(rng, N_CAL_GRIDS)];
	int two = vt_below(rng, 2);
	int type = vt_below(rng, 2) ? VNACAL_T8 : VNACAL_E12;

	if (q < 52) {
	    op_new_alloc(v, type, 1 + two, 1 + two, vt_below(rng, 8) ? 2 : 1, g);
	} else if (q < 82) {
	    /* any type, square or rectangular, 1..3 frequencies */
	    static const int tt[3] = { VNACAL_T8, VNACAL_TE10, VNACAL_T16 };
	    static const int ut[5] = { VNACAL_U8, VNACAL_UE10, VNACAL_U16,
		VNACAL_UE14, VNACAL_E12 };
	    static const int dd[5][2] = { {1, 2}, {1, 3}, {2, 3}, {2, 2}, {1, 1} };
	    int d = vt_below(rng, 5), nf = 1 + vt_below(rng, 3);
	    const int *g3 = nf == 3 ? cal_grids3[vt_below(rng, N_CAL_GRIDS3)] : g;

	    if (vt_below(rng, 8) < 3)
		op_new_alloc(v, tt[vt_below(rng, 3)], dd[d][0], dd[d][1], nf, g3);
	    else
		op_new_alloc(v, ut[vt_below(rng, 5)], dd[d][1], dd[d][0], nf, g3);
	}
	else if (q < 86)
	    op_new_alloc(v, VNACAL_T8, 2, 1, 2, g);
	else if (q < 90)
	    op_new_alloc(v, VNACAL_E12, 1, 2, 2, g);
	else if (q < 94)
	    op_new_alloc(v, type, vt_below(rng, 2) ? 0 : -1, 1, 2, g);
	else if (q < 97)
	    op_new_alloc(v, vt_below(rng, 2) ? -1 : 99, 1, 1, 2, g);
	else
	    op_new_alloc(v, type, 1, 1, -1, g);
    } else if (r < 370) {
	if (n != NULL)
	    op_set_frequency_vector(v, n, vt_below(rng, 5) ? 0 :
		    1 + vt_below(rng, 3));
    } else if (r < 385) {
	if (n != NULL && vt_below(rng, 4) == 0)
	    op_set_m_error(v, n, vt_below(rng, 6));
	else if (n != NULL)
	    op_set_z0(v, n, vt_below(rng, N_Z));
    } else if (r < 600) {
	if (n != NULL) {
	    if (vt_below(rng, 100) < 30)
		(void)add_useful(v, n, n->id & 1, vt_below(rng, 5) == 0);
	    else
		random_std(v, n, rng);
	}
    } else if (r < 670) {
	if (n != NULL)
	    op_solve(v, n);
    } else if (r < 740) {
	vinfo_t *tv = v;

	if (nl > 1 && vt_below(rng, 8) == 0)
	    tv = live[vt_below(rng, nl)];
	if (n != NULL)
	    op_add_calibration(tv, n, ADD_NAME(rng));
    } else if (r < 775) {
	op_delete_calibration(v, pick_ci(v, rng));
    } else if (r < 800) {
	op_find_calibration(v, vt_below(rng, N_NAMES));
    } else if (r < 835) {
	op_get(v, vt_below(rng, W_COUNT), pick_ci(v, rng));
    } else if (r < 935) {
	pop_t op;
	int ci = vt_below(rng, 100) < 40 ? -1 : pick_ci(v, rng);

	prop_random(rng, &op);
	op_prop(v, ci, &op);
    } else if (r < 960) {
	if (n != NULL)
	    op_new_free(v, n);
    } else if (r < 970) {
	/* larger precisions (and VNACAL_MAX_PRECISION) are C07's subject */
	static const int ps[] = { 1, 3, 6, 7, 9, 0, -1 };

	op_set_precision(v, vt_below(rng, 2), ps[vt_below(rng, 7)]);
    } else if (r < 980) {
	if (vt_below(rng, 2))
	    op_name_to_type(vt_below(rng, N_TNAMES));
	else
	    op_type_to_name(vt_below(rng, 8));
    } else if (r < 992) {
	/* a second vnacal_t: created, or loaded from a save of this one */
	int k2 = -1;

	for (int i = 0; i < MAX_VC; ++i) {
	    if (VC[i].vcp == NULL)
		k2 = i;
	}
	if (vt_below(rng, 2) == 0)
	    op_save_load(v, k2);
	else if (k2 >= 0)
	    op_create(k2);
    } else {
	if (nl > 1)
	    op_free(v);
    }
}

static void finish_case(void)
{
    for (int i = MAX_VC - 1; i >= 0; --i) {
	if (VC[i].vcp != NULL)
	    op_free(&VC[i]);
    }
    op_end();
}

/* ------------------------------------------------- bounded-exhaustive */

static const int grid12[3] = { 1, 2, 0 };

enum {
    A_MS3, A_MS4, A_MS1, A_MV, A_MU, A_MC, A_MCN, A_DF, A_DL, A_DP, A_DB,
    A_GV, A_NA1, A_NA2, A_NABAD, A_SF, A_SFBAD, A_AR, A_AS, A_ASALL, A_SO,
    A_ACA, A_ACB, A_DC0, A_DC1, A_FI, A_GE, A_PSG, A_PS0, A_PD0, A_NF, A_SL,
    A_FR,
    N_ALPHA
};

/* returns 1 when the store was freed (the case ends) */
static int exh_call(vinfo_t *v, int a)
{
    ninfo_t *n = last_new(v);
    int last = v->lasth >= 0 ? v->lasth : VNACAL_MATCH;
    int ports[2] = { 1, 2 };
    pop_t pop;

    switch (a) {
    case A_MS3:  op_make_scalar(v, 3); break;
    case A_MS4:  op_make_scalar(v, 4); break;
    case A_MS1:  op_make_scalar(v, 1); break;
    case A_MV:   op_make_vector(v, vec_grids[0], 2, G_VECTOR0); break;
    case A_MU:   op_make_unknown(v, last); break;
    case A_MC:   op_make_correlated(v, last, 1, 1, 1, grid12); break;
    case A_MCN:  op_make_correlated(v, last, 2, 1, 1, grid12); break;
    case A_DF:   op_delete_parameter(v, v->firsth >= 0 ? v->firsth : 3); break;
    case A_DL:   op_delete_parameter(v, v->lasth >= 0 ? v->lasth : 4); break;
    case A_DP:   op_delete_parameter(v, VNACAL_SHORT); break;
    case A_DB:   op_delete_parameter(v, -1); break;
    case A_GV:   op_get_parameter_value(v, last, 2); break;
    case A_NA1:  op_new_alloc(v, VNACAL_T8, 1, 1, 2, grid12); break;
    case A_NA2:  op_new_alloc(v, VNACAL_E12, 2, 2, 2, grid12); break;
    case A_NABAD: op_new_alloc(v, VNACAL_T8, 2, 1, 2, grid12); break;
    case A_SF:   if (n != NULL) op_set_frequency_vector(v, n, 0); break;
    case A_SFBAD: if (n != NULL) op_set_frequency_vector(v, n, 1); break;
    case A_AR:
	if (n != NULL) {
	    int hs[1] = { h_fits(v, n, last) ? last : VNACAL_MATCH };

	    (void)op_add_std(v, n, SH_REFL1, ports, hs, 0);
	}
	break;
    case A_AS:   if (n != NULL) (void)add_useful(v, n, 0, 0); break;
    case A_ASALL:
	while (n != NULL && !useful_done(n, 0)) {
	    if (add_useful(v, n, 0, 0) != 0)
		break;
	}
	break;
    case A_SO:   if (n != NULL) op_solve(v, n); break;
    case A_ACA:  if (n != NULL) op_add_calibration(v, n, 0); break;
    case A_ACB:  if (n != NULL) op_add_calibration(v, n, 1); break;
    case A_DC0:  op_delete_calibration(v, 0); break;
    case A_DC1:  op_delete_calibration(v, 1); break;
    case A_FI:   op_find_calibration(v, 0); break;
    case A_GE:   op_get(v, W_NAME, 1); break;
    case A_PSG:  prop_simple(&pop, PK_SET, 0, 0); op_prop(v, -1, &pop); break;
    case A_PS0:  prop_simple(&pop, PK_SET, 0, 1); op_prop(v, 0, &pop); break;
    case A_PD0:  prop_simple(&pop, PK_DEL, 0, 0); op_prop(v, 0, &pop); break;
    case A_NF:   if (n != NULL) op_new_free(v, n); break;
    case A_SL:   op_save_load(v, VC[1].vcp == NULL ? 1 : -1); break;
    case A_FR:   op_free(v); return 1;
    }
    return 0;
}

static const int prefix0[] = { -1 };
static const int prefix1[] = { A_NA1, A_SF, A_ASALL, A_SO, -1 };
static const int prefix2[] = { A_NA1, A_SF, A_ASALL, A_SO, A_ACA, A_SO, A_ACB,
    A_SO, -1 };
static const int prefix3[] = { A_MS3, A_MU, A_NA1, A_SF, A_AR, -1 };
static const int prefix4[] = { A_NA2, A_SF, A_ASALL, A_MS4, A_MU, A_AR, A_SO, -1 };
/* vector, unknown of it, correlated with the unknown sharing the vector's
 * frequencies (NULL sigma frequency vector) */
static const int prefix5[] = { A_MV, A_MU, A_MCN, -1 };
static const int *prefixes[] = { prefix0, prefix1, prefix2, prefix3, prefix4,
    prefix5 };
#define N_PREFIX 6

static long exh_count(int depth)
{
    long n = N_PREFIX;

    for (int d = 0; d < depth; ++d)
	n *= N_ALPHA;
    return n;
}

/* ------------------------------------------------------- bulk histories */

/*
 * Many parameters in one vnacal_t, one vnacal_new_t using 10-20 distinct
 * handles (its parameter table grows several times), deletion of held
 * handles and their re-use in the same vnacal_new_t; then the same unknown
 * handles solved again by a second vnacal_new_t on a different frequency
 * grid (equal or different number of points) and by the first one once
 * more: the value of a solved unknown is that of the latest solve.
 */
static void bulk_case(vt_rng_t *rng)
{
    vinfo_t *v = &VC[0];
    int nh = 20 + vt_below(rng, 21);
    int live[MAX_H], nlive = 0;
    int used[24], nuse = 0, want;
    int unk[4], nunk = 0;
    int two = vt_below(rng, 2);
    int type = vt_below(rng, 2) ? VNACAL_T8 : VNACAL_E12;
    int ga = vt_below(rng, N_CAL_GRIDS), gb;
    ninfo_t *na, *nb;

    op_create(0);
    for (int i = 0; i < nh; ++i) {
	int r = vt_below(rng, 10);

	if (r < 6 || v->lasth < 0) {
	    op_make_scalar(v, G_SCALAR0 + vt_below(rng, N_SCALARS));
	} else if (r < 8) {
	    int g = vt_below(rng, N_VEC_GRIDS);

	    op_make_vector(v, vec_grids[g], vec_grid_n[g], G_VECTOR0);
	} else if (nunk < 3) {
	    /* initial guess: a predefined or an earlier scalar parameter */
	    int guess = vt_below(rng, 3);

	    for (int h = v->maxh; h >= 3; --h) {
		if (v->h[h].kind == K_SCALAR && vt_below(rng, 2)) {
		    guess = h;
		    break;
		}
	    }
	    op_make_unknown(v, guess);
	    if (v->lasth >= 3 && v->h[v->lasth].kind == K_UNKNOWN)
		unk[nunk++] = v->lasth;
	} else {
	    op_make_scalar(v, G_SCALAR0 + vt_below(rng, N_SCALARS));
	}
    }
    op_new_alloc(v, type, 1 + two, 1 + two, 2, cal_grids[ga]);
    if ((na = last_new(v)) == NULL)
	return;
    op_set_frequency_vector(v, na, 0);
    while (!useful_done(na, na->id & 1)) {
	if (add_useful(v, na, na->id & 1, 0) != 0)
	    break;
    }
    for (int h = 3; h <= v->maxh && h < MAX_H; ++h) {
	if (v->h[h].kind != K_NONE && !v->h[h].deleted && h_fits(v, na, h))
	    live[nlive++] = h;
    }
    want = 10 + vt_below(rng, 11);
    if (want > nlive)
	want = nlive;
    /* the unknowns, then (half of the cases) pairs of handles 16 apart,
     * then random distinct handles */
    for (int i = 0; i < nunk && nuse < want; ++i)
	used[nuse++] = unk[i];
    if (vt_below(rng, 2) == 0) {
	for (int i = 0; i < nlive && nuse + 1 < want && nuse < 8; ++i) {
	    int h = live[i], dup = 0;

	    if (h + 16 >= MAX_H || v->h[h + 16].kind == K_NONE ||
		    !h_fits(v, na, h + 16))
		continue;
	    for (int k = 0; k < nuse; ++k)
		dup |= used[k] == h || used[k] == h + 16;
	    if (dup)
		continue;
	    used[nuse++] = h;
	    used[nuse++] = h + 16;
	}
    }
    for (int guard = 0; nuse < want && guard < 1000; ++guard) {
	int h = live[vt_below(rng, nlive)], dup = 0;

	for (int k = 0; k < nuse; ++k)
	    dup |= used[k] == h;
	if (!dup)
	    used[nuse++] = h;
    }
    for (int i = 0; i < nuse; ++i) {
	int ports[2] = { 1 + vt_below(rng, na->rows), 2 };
	int hs[2] = { used[i], used[(i + 1) % nuse] };

	if (two && vt_below(rng, 4) == 0 && v->h[hs[1]].kind != K_UNKNOWN) {
	    ports[0] = 1;
	    (void)op_add_std(v, na, SH_REFL2, ports, hs, 0);
	} else {
	    (void)op_add_std(v, na, SH_REFL1, ports, hs, vt_below(rng, 6) == 0);
	}
    }
    /* delete held handles, keep using them in the same vnacal_new_t */
    for (int i = 0; i < nuse; ++i) {
	int h = used[i];
	int ports[2] = { 1 + vt_below(rng, na->rows), 2 };
	int hs[1] = { h };
	int isunk = v->h[h].kind == K_UNKNOWN;

	if (vt_below(rng, 100) < (isunk ? 15 : 60))
	    op_delete_parameter(v, h);
	if (vt_below(rng, 100) < 75)
	    (void)op_add_std(v, na, SH_REFL1, ports, hs, 0);
	if (vt_below(rng, 100) < 20)
	    op_get_parameter_value(v, h, na->grid[vt_below(rng, 2)]);
    }
    op_solve(v, na);
    for (int i = 0; i < nunk; ++i)
	op_get_parameter_value(v, unk[i], na->grid[vt_below(rng, 2)]);
    op_add_calibration(v, na, ADD_NAME(rng));

    /* a second vnacal_new_t solves the same unknowns on another grid */
    do {
	gb = vt_below(rng, N_CAL_GRIDS);
    } while (gb == ga);
    op_new_alloc(v, vt_below(rng, 2) ? VNACAL_T8 : VNACAL_E12, 1 + two,
	    1 + two, vt_below(rng, 3) ? 2 : 1, cal_grids[gb]);
    nb = last_new(v);
    if (nb != NULL && nb != na) {
	op_set_frequency_vector(v, nb, 0);
	while (!useful_done(nb, nb->id & 1)) {
	    if (add_useful(v, nb, nb->id & 1, 0) != 0)
		break;
	}
	for (int i = 0; i < nunk; ++i) {
	    int ports[2] = { 1 + vt_below(rng, nb->rows), 2 };
	    int hs[1] = { unk[i] };

	    if (!v->h[unk[i]].deleted)
		(void)op_add_std(v, nb, SH_REFL1, ports, hs, 0);
	}
	op_solve(v, nb);
	for (int i = 0; i < nunk; ++i) {
	    op_get_parameter_value(v, unk[i], nb->grid[vt_below(rng, nb->nf)]);
	    op_get_parameter_value(v, unk[i], na->grid[vt_below(rng, 2)]);
	}
	op_add_calibration(v, nb, ADD_NAME(rng));
	if (vt_below(rng, 2) == 0) {
	    op_solve(v, na);		/* and back: the latest solve wins */
	    for (int i = 0; i < nunk; ++i)
		op_get_parameter_value(v, unk[i],
			na->grid[vt_below(rng, 2)]);
	}
    }
    for (int i = 0; i < 15; ++i) {
	int variant = 0;

	if (VC[0].vcp == NULL)
	    break;
	random_step(rng, &variant);
    }
}

/*
 * Refused multi-cell standards: a fresh, not yet registered unknown in one
 * cell and, in another cell, a handle that makes the standard unacceptable
 * only through its chain of parameters -- a vector outside the band, a
 * correlated parameter whose sigma grid is outside the band, reached directly
 * or through one or two further correlated / unknown parameters, deleted
 * handles inside and at the head of chains -- for double reflect, line and
 * mapped matrix.  A refused standard adds nothing: after the calibration has
 * been completed with known standards and solved, the unknowns of the refused
 * standards must still have no value.  In a third of the cases the frequency
 * vector is only set after these adds (then set_frequency_vector is what
 * must be refused).
 */
static void chain_case(vt_rng_t *rng)
{
    static const int far[2] = { 5, 6 };
    vinfo_t *v = &VC[0];
    int ga = vt_below(rng, N_CAL_GRIDS);
    const int *band = cal_grids[ga];
    int late = vt_below(rng, 3) == 0;
    int part[2];
    int bad[16], nbad = 0;
    int fresh[16], nfresh = 0;
    int guess, inner, x;
    ninfo_t *na;

    op_create(0);
    op_new_alloc(v, vt_below(rng, 2) ? VNACAL_T8 : VNACAL_E12, 2, 2, 2, band);
    if ((na = last_new(v)) == NULL)
	return;
    if (!late)
	op_set_frequency_vector(v, na, 0);
    /* a grid that overlaps the band only partly (or, for the widest band,
     * lies inside it) */
    part[0] = band[0] == 1 ? 2 : 1;
    part[1] = band[1] == 4 ? 3 : 4;
    if (part[0] >= part[1]) {
	part[0] = 2;
	part[1] = 3;
    }
    op_make_scalar(v, G_SCALAR0 + vt_below(rng, N_SCALARS));
    guess = v->lasth;
#define MADE() (bad[nbad++] = v->lasth)
    op_make_vector(v, far, 2, G_VECTOR0);		/* vector outside */
    x = MADE();
    op_make_unknown(v, x);				/* unknown -> vector out */
    inner = MADE();
    op_make_correlated(v, inner, 1, 0, 1, far);		/* corr -> unk -> vec out */
    (void)MADE();
    op_make_correlated(v, x, 1, 0, 1, far);		/* corr -> vec out */
    (void)MADE();
    op_make_correlated(v, vt_below(rng, 2) ? VNACAL_SHORT : guess, 2, 0, 1,
	    far);					/* sigma grid outside */
    inner = MADE();
    op_make_correlated(v, inner, 1, 0, 1, far);		/* two levels */
    inner = MADE();
    op_make_correlated(v, inner, 1, 0, 1, far);		/* three levels */
    inner = MADE();
    op_make_unknown(v, inner);				/* unk -> corr chain */
    (void)MADE();
    op_make_vector(v, part, 2, G_VECTOR0);		/* vector partly inside */
    x = MADE();
    op_make_correlated(v, x, 1, 0, 1, far);
    (void)MADE();
    op_make_correlated(v, guess, 2, 0, 1, part);	/* sigma partly inside */
    (void)MADE();
    op_make_scalar(v, G_SCALAR0 + vt_below(rng, N_SCALARS));
    x = v->lasth;
    op_make_correlated(v, x, 1, 0, 1, far);		/* correlate deleted */
    (void)MADE();
    op_delete_parameter(v, x);
    op_make_scalar(v, G_SCALAR0 + vt_below(rng, N_SCALARS));
    x = MADE();
    op_delete_parameter(v, x);				/* deleted handle */
    bad[nbad++] = 1000;					/* never existed */
#undef MADE
    /* shuffle */
    for (int i = nbad - 1; i > 0; --i) {
	int j = vt_below(rng, i + 1), t = bad[i];

	bad[i] = bad[j];
	bad[j] = t;
    }
    for (int i = 0; i < nbad; ++i) {
	int ports[2] = { 1, 2 };
	int hs[4];
	int shape = vt_below(rng, 3);
	int uf;

	op_make_unknown(v, vt_below(rng, 3) ? guess : vt_below(rng, 3));
	uf = v->lasth;
	fresh[nfresh++] = uf;
	if (vt_below(rng, 4) == 0) {
	    ports[0] = 2;
	    ports[1] = 1;
	}
	if (shape == 0) {
	    hs[0] = uf;
	    hs[1] = bad[i];
	    (void)op_add_std(v, na, SH_REFL2, ports, hs, vt_below(rng, 5) == 0);
	} else {
	    hs[0] = uf;
	    hs[1] = hs[2] = VNACAL_ZERO;
	    hs[3] = bad[i];
	    if (vt_below(rng, 4) == 0) {		/* bad cell first */
		hs[0] = bad[i];
		hs[3] = uf;
	    }
	    (void)op_add_std(v, na, shape == 1 ? SH_LINE : SH_MAPPED, ports,
		    hs, vt_below(rng, 5) == 0);
	}
    }
    if (late)
	op_set_frequency_vector(v, na, 0);
    while (!useful_done(na, na->id & 1)) {
	if (add_useful(v, na, na->id & 1, 0) != 0)
	    break;
    }
    op_solve(v, na);
    for (int i = 0; i < nfresh; ++i) {
	if (vt_below(rng, 2))
	    op_get_parameter_value(v, fresh[i], band[vt_below(rng, 2)]);
    }
    if (vt_below(rng, 2))
	op_add_calibration(v, na, ADD_NAME(rng));
    for (int i = 0; i < 10; ++i) {
	int variant = 0;

	if (VC[0].vcp == NULL)
	    break;
	random_step(rng, &variant);
    }
}

/* ------------------------------------------------------ shape histories */

/*
 * Every error-term type on square and rectangular dimensions with 1..3
 * frequencies and a non-default (complex) z0: allocate, set frequencies and
 * z0, add the generic standard set, solve, store, and read every accessor
 * (explicit Get events besides the projection); a second calibration of a
 * different shape in the same container, delete, save / load.
 */
#define N_SHAPE_CASES 120

static int shape_new(vinfo_t *v, int c, int namei)
{
    static const int ttypes[3] = { VNACAL_T8, VNACAL_TE10, VNACAL_T16 };
    static const int utypes[5] = { VNACAL_U8, VNACAL_UE10, VNACAL_U16,
	VNACAL_UE14, VNACAL_E12 };
    static const int tdims[5][2] = { {1, 2}, {1, 3}, {2, 3}, {2, 2}, {1, 1} };
    static const int udims[5][2] = { {2, 1}, {3, 1}, {3, 2}, {2, 2}, {1, 1} };
    int t = c % 8, d = (c / 8) % 5, nf = 1 + (c / 40) % 3;
    int type = t < 3 ? ttypes[t] : utypes[t - 3];
    const int *dims = t < 3 ? tdims[d] : udims[d];
    const int *grid = nf == 3 ? cal_grids3[c % N_CAL_GRIDS3] :
	cal_grids[c % N_CAL_GRIDS];
    ninfo_t *n;
    int ci = -1;

    op_new_alloc(v, type, dims[0], dims[1], nf, grid);
    if ((n = last_new(v)) == NULL)
	return -1;
    op_set_frequency_vector(v, n, 0);
    op_set_z0(v, n, 1 + c % (N_Z - 1));
    while (!useful_done(n, 0)) {
	if (add_useful(v, n, 0, c % 5 == 0) != 0)
	    break;
    }
    op_solve(v, n);
    if (n->solved) {
	op_add_calibration(v, n, namei);
	ci = LIB(vnacal_find_calibration(v->vcp, name_pool[namei]));
	for (int w = 0; w < W_COUNT; ++w)
	    op_get(v, w, ci);
    }
    op_new_free(v, n);
    return ci;
}

static void shape_case(long c)
{
    vinfo_t *v = &VC[0];
    int c0, c1;

    op_create(0);
    {
	int n0 = (int)(c % N_ADD_NAMES);
	int n1 = (n0 + 1 + (int)(c / N_ADD_NAMES) % (N_ADD_NAMES - 1)) %
	    N_ADD_NAMES;

	c0 = shape_new(v, (int)c, n0);
	c1 = shape_new(v, (int)((c + 53) % N_SHAPE_CASES), n1);
    }
    op_get(v, W_COLS, c1 >= 0 ? c1 + 1 : 0);
    if (c0 >= 0) {
	op_save_load(v, 1);
	op_delete_calibration(v, c0);
	for (int w = 0; w < W_COUNT; ++w)
	    op_get(v, w, c1 >= 0 ? c1 : c0);
    }
}

/* ------------------------------------------------------ state histories */

/*
 * Refusals that depend on the state of the vnacal_new_t rather than on the
 * handles: with a measurement-error model installed, T16 / U16 refuse a
 * standard that does not give the complete S matrix (a fresh unknown in the
 * refused standard must stay unregistered); conversely set_m_error is
 * refused once such a standard has been added (and must not install the
 * model); set_m_error before the frequency vector; invalid arguments; the
 * clear form (both vectors NULL) followed by solve, set again and free;
 * other types as controls.  Then known standards, solve, probes, aliased
 * save / add_calibration.
 */
static void state_case(vt_rng_t *rng)
{
    static const int types[4] = { VNACAL_T16, VNACAL_U16, VNACAL_T8,
	VNACAL_UE14 };
    vinfo_t *v = &VC[0];
    int type = types[vt_below(rng, 8) < 6 ? vt_below(rng, 2) :
	2 + vt_below(rng, 2)];
    int nf = 1 + vt_below(rng, 2);
    int order = vt_below(rng, 3);
    int ports[2] = { 1, 2 };
    int hs[4];
    int guess, uf[6], nuf = 0;
    ninfo_t *n;

    op_create(0);
    op_make_scalar(v, G_SCALAR0 + vt_below(rng, N_SCALARS));
    guess = v->lasth;
    op_new_alloc(v, type, 2, 2, nf, cal_grids[vt_below(rng, N_CAL_GRIDS)]);
    if ((n = last_new(v)) == NULL)
	return;
    if (vt_below(rng, 3) == 0)
	op_set_m_error(v, n, vt_below(rng, 2));	/* before the frequencies */
    op_set_frequency_vector(v, n, 0);
    if (order == 0) {
	/* model first, then partial-S standards with fresh unknowns */
	op_set_m_error(v, n, vt_below(rng, 2));
    } else if (order == 1) {
	/* partial-S standard first, then the model */
	ports[0] = 1 + vt_below(rng, 2);
	hs[0] = vt_below(rng, 3);
	(void)op_add_std(v, n, SH_REFL1, ports, hs, 0);
	op_set_m_error(v, n, vt_below(rng, 2));
	ports[0] = 1 + vt_below(rng, 2);
	hs[0] = vt_below(rng, 3);
	(void)op_add_std(v, n, SH_REFL1, ports, hs, 0);
    }
    for (int i = 0; i < 2 + vt_below(rng, 3); ++i) {
	op_make_unknown(v, vt_below(rng, 2) ? guess : vt_below(rng, 3));
	uf[nuf] = v->lasth;
	ports[0] = 1 + vt_below(rng, 2);
	ports[1] = 3 - ports[0];
	hs[0] = uf[nuf];
	++nuf;
	(void)op_add_std(v, n, SH_REFL1, ports, hs, vt_below(rng, 5) == 0);
	if (vt_below(rng, 2)) {
	    /* the unknown is deleted: a full standard naming it must now be
	     * refused unless the first add was accepted */
	    op_delete_parameter(v, hs[0]);
	    hs[1] = VNACAL_MATCH;
	    (void)op_add_std(v, n, SH_REFL2, ports, hs, 0);
	}
	if (vt_below(rng, 4) == 0)
	    op_set_m_error(v, n, 2 + vt_below(rng, 4));
    }
    n->rich = 1;
    while (!useful_done(n, 0)) {
	if (add_useful(v, n, 0, 0) != 0)
	    break;
    }
    op_solve(v, n);
    for (int i = 0; i < nuf; ++i)
	op_get_parameter_value(v, uf[i], n->grid[0]);
    op_set_m_error(v, n, 2);			/* clear */
    op_solve(v, n);
    if (vt_below(rng, 2))
	op_set_m_error(v, n, vt_below(rng, 2));	/* and set again */
    if (vt_below(rng, 2))
	op_set_m_error(v, n, 2);
    if (n->solved) {
	op_add_calibration(v, n, ADD_NAME(rng));
	op_solve(v, n);
	if (n->solved)
	    op_add_calibration_a(v, n, 0, 0);	/* aliased replace */
    }
    op_save_load(v, 1);
    for (int i = 0; i < 8; ++i) {
	int variant = 0;

	if (VC[0].vcp == NULL)
	    break;
	random_step(rng, &variant);
    }
}

static void seed_case(vt_rng_t *rng, uint64_t seed, long c, uint64_t salt)
{
    /* vt_seed once mapped consecutive seeds to one splitmix orbit shifted
     * by a step; mixing the case number first is harmless either way */
    uint64_t z = seed * 0xD1342543DE82EF95ull +
	(uint64_t)c * 0xAF251AF3B0F025B5ull + 0x2545F4914F6CDD1Dull + salt;

    z = (z ^ (z >> 32)) * 0xBF58476D1CE4E5B9ull;
    z = (z ^ (z >> 29)) * 0x94D049BB133111EBull;
    vt_seed(rng, z ^ (z >> 32));
}

/* ------------------------------------------------------------------ main */

int main(int argc, char **argv)
{
    const char *tp = getenv("VT_TRACE");

    vt_open(tp != NULL ? tp : "-");
    vt_install_crash_handlers();
    if (argc >= 3 && strcmp(argv[1], "count") == 0) {
	printf("%ld\n", exh_count(atoi(argv[2])));
	return 0;
    }
    if (argc >= 5 && strcmp(argv[1], "exh") == 0) {
	int depth = atoi(argv[2]);
	long from = atol(argv[3]), to = atol(argv[4]);

	for (long c = from; c < to; ++c) {
	    long x = c / N_PREFIX;
	    const int *pre = prefixes[c % N_PREFIX];
	    int freed = 0;

	    vc_reset();
	    vt_put("{\"e\":\"Reset\",\"case\":\"exh:%d:%ld\"}", depth, c);
	    vt_end_line();
	    op_create(0);
	    for (; *pre >= 0; ++pre)
		(void)exh_call(&VC[0], *pre);
	    for (int d = 0; d < depth && !freed; ++d) {
		freed = exh_call(&VC[0], (int)(x % N_ALPHA));
		x /= N_ALPHA;
	    }
	    finish_case();
	}
	return 0;
    }
    if (argc >= 4 && strcmp(argv[1], "shapes") == 0) {
	long from = atol(argv[2]), to = atol(argv[3]);

	for (long c = from; c < to && c < N_SHAPE_CASES; ++c) {
	    vc_reset();
	    vt_put("{\"e\":\"Reset\",\"case\":\"shapes:0:%ld\"}", c);
	    vt_end_line();
	    shape_case(c);
	    finish_case();
	}
	return 0;
    }
    if (argc >= 5 && strcmp(argv[1], "state") == 0) {
	uint64_t seed = strtoull(argv[2], NULL, 10);
	long from = atol(argv[3]), to = atol(argv[4]);

	for (long c = from; c < to; ++c) {
	    vt_rng_t rng;

	    seed_case(&rng, seed, c, 0x7374617465ull);
	    vc_reset();
	    vt_put("{\"e\":\"Reset\",\"case\":\"state:%llu:%ld\"}",
		    (unsigned long long)seed, c);
	    vt_end_line();
	    state_case(&rng);
	    finish_case();
	}
	return 0;
    }
    if (argc >= 5 && strcmp(argv[1], "bulk") == 0) {
	uint64_t seed = strtoull(argv[2], NULL, 10);
	long from = atol(argv[3]), to = atol(argv[4]);

	for (long c = from; c < to; ++c) {
	    vt_rng_t rng;

	    seed_case(&rng, seed, c, 0x62756c6bull);
	    vc_reset();
	    vt_put("{\"e\":\"Reset\",\"case\":\"bulk:%llu:%ld\"}",
		    (unsigned long long)seed, c);
	    vt_end_line();
	    if (c % 3 == 2)
		chain_case(&rng);
	    else
		bulk_case(&rng);
	    finish_case();
	}
	return 0;
    }
    if (argc >= 6 && strcmp(argv[1], "rand") == 0) {
	uint64_t seed = strtoull(argv[2], NULL, 10);
	long from = atol(argv[3]), to = atol(argv[4]);
	int len = atoi(argv[5]);

	for (long c = from; c < to; ++c) {
	    vt_rng_t rng;
	    int steps, variant;

	    /* vt_seed maps consecutive seeds to the same splitmix orbit
	     * shifted by one step, so mix the case number first */
	    {
		uint64_t z = seed * 0xD1342543DE82EF95ull +
		    (uint64_t)c * 0xAF251AF3B0F025B5ull + 0x2545F4914F6CDD1Dull;

		z = (z ^ (z >> 32)) * 0xBF58476D1CE4E5B9ull;
		z = (z ^ (z >> 29)) * 0x94D049BB133111EBull;
		vt_seed(&rng, z ^ (z >> 32));
	    }
	    vc_reset();
	    vt_put("{\"e\":\"Reset\",\"case\":\"rand:%llu:%ld:%d\"}",
		    (unsigned long long)seed, c, len);
	    vt_end_line();
	    op_create(0);
	    steps = len / 3 + vt_below(&rng, len - len / 3 + 1);
	    variant = vt_below(&rng, 2);
	    for (int i = 0; i < steps; ++i) {
		int any = 0;

		random_step(&rng, &variant);
		for (int k = 0; k < MAX_VC; ++k)
		    any |= VC[k].vcp != NULL;
		if (!any)
		    break;
	    }
	    finish_case();
	}
	return 0;
    }
    fprintf(stderr, "usage: %s rand SEED FROM TO LEN | bulk SEED FROM TO | "
	    "exh DEPTH FROM TO | "
	    "count DEPTH\n", argv[0]);
    return 3;
}
