/*
 * caleq_oracle.c -- see caleq_oracle.h.  No libvna code is used here.
 */
#include <complex.h>
#include <ctype.h>
#include <math.h>
#include <stdio.h>
#include <stdlib.h>
#include <string.h>
#include "caleq_oracle.h"

static bool is_t(ets_type_t t) { return t == ETS_T8 || t == ETS_TE10 || t == ETS_T16; }
static bool is_16(ets_type_t t) { return t == ETS_T16 || t == ETS_U16; }
static bool col_sys(ets_type_t t) { return t == ETS_UE14 || t == ETS_E12; }
static bool leak_type(ets_type_t t)
{
    return t == ETS_TE10 || t == ETS_UE10 || t == ETS_UE14 || t == ETS_E12;
}

/* ------------------------------------------------------------ structure */

void cq_structure(cq_std_t *sp, int P, const int *map, int nports,
	int sr, int sc, bool sdiag, const bool *zero)
{
    int inv[CQ_MAXP];

    for (int a = 0; a < CQ_MAXP; ++a)
	inv[a] = -1;
    for (int k = 0; k < nports; ++k)
	inv[map[k] - 1] = k;
    for (int a = 0; a < P; ++a) {
	for (int b = 0; b < P; ++b) {
	    int ia = inv[a], ib = inv[b];
	    char k;

	    if (ia >= 0 && ib >= 0) {
		if (sdiag) {
		    if (ia != ib)
			k = CQ_Z;
		    else
			k = zero[ia] ? CQ_Z : CQ_G;
		} else if (ia < sr && ib < sc) {
		    k = zero[ia * sc + ib] ? CQ_Z : CQ_G;
		} else {
		    k = CQ_U;
		}
	    } else if ((ia >= 0) != (ib >= 0)) {
		k = CQ_Z;	/* no path between connected and unconnected */
	    } else {
		k = CQ_U;
	    }
	    sp->know[a][b] = k;
	}
    }
    for (int a = 0; a < P; ++a)
	for (int b = 0; b < P; ++b)
	    sp->conn[a][b] = a == b || sp->know[a][b] != CQ_Z ||
		sp->know[b][a] != CQ_Z;
    for (int k = 0; k < P; ++k)
	for (int a = 0; a < P; ++a)
	    for (int b = 0; b < P; ++b)
		if (sp->conn[a][k] && sp->conn[k][b])
		    sp->conn[a][b] = true;
}

static bool col_known(const cq_std_t *sp, int P, int j)
{
    for (int i = 0; i < P; ++i)
	if (sp->know[i][j] == CQ_U)
	    return false;
    return true;
}

static bool row_known(const cq_std_t *sp, int P, int i)
{
    for (int j = 0; j < P; ++j)
	if (sp->know[i][j] == CQ_U)
	    return false;
    return true;
}

int cq_equations(const cq_cal_t *cal, const cq_std_t *sp,
	int *eq_row, int *eq_col, int *eq_sys)
{
    int n = 0;
    const int P = cal->P;

    if (is_t(cal->type)) {
	for (int i = 0; i < cal->R; ++i) {
	    if (!sp->row_given[i])
		continue;
	    for (int j = 0; j < P; ++j) {
		if (col_known(sp, P, j) &&
			(is_16(cal->type) || sp->conn[i][j])) {
		    eq_row[n] = i;
		    eq_col[n] = j;
		    eq_sys[n] = 0;
		    ++n;
		}
	    }
	}
    } else {
	for (int i = 0; i < P; ++i) {
	    if (!row_known(sp, P, i))
		continue;
	    for (int j = 0; j < cal->C; ++j) {
		if (sp->col_given[j] &&
			(is_16(cal->type) || sp->conn[i][j])) {
		    eq_row[n] = i;
		    eq_col[n] = j;
		    eq_sys[n] = col_sys(cal->type) ? j : 0;
		    ++n;
		}
	    }
	}
    }
    return n;
}

int cq_leak_cells(const cq_cal_t *cal, const cq_std_t *sp, bool *leak)
{
    int n = 0;

    for (int i = 0; i < cal->R * cal->C; ++i)
	leak[i] = false;
    if (!leak_type(cal->type))
	return 0;
    for (int i = 0; i < cal->R; ++i) {
	for (int j = 0; j < cal->C; ++j) {
	    if (i != j && sp->row_given[i] && sp->col_given[j] &&
		    !sp->conn[i][j]) {
		leak[i * cal->C + j] = true;
		++n;
	    }
	}
    }
    return n;
}

int cq_systems(const cq_cal_t *cal)
{
    return col_sys(cal->type) ? cal->C : 1;
}

/* ------------------------------------------------ unknowns of a system */

typedef struct unk { char blk; int a, b; } unk_t;	/* blk: 1..4 */

/* stored entries of block blk (1..4) in system sys; returns count.  The
 * unity term is included and flagged through *unity (index in list). */
static int list_terms(const cq_cal_t *cal, int sys, unk_t *u, int *unity)
{
    const int R = cal->R, C = cal->C, P = cal->P;
    int n = 0;

    *unity = -1;
    if (col_sys(cal->type)) {
	for (int a = 0; a < R; ++a) {		/* Um diagonal of P x R */
	    if (a == sys)
		*unity = n;
	    u[n++] = (unk_t){ 1, a, a };
	}
	u[n++] = (unk_t){ 2, sys, sys };	/* Ui_kk */
	for (int a = 0; a < R; ++a)		/* Ux diagonal of P x R */
	    u[n++] = (unk_t){ 3, a, a };
	u[n++] = (unk_t){ 4, sys, sys };	/* Us_kk */
	return n;
    }
    for (int blk = 1; blk <= 4; ++blk) {
	int d1, d2;

	if (is_t(cal->type)) {		/* Ts R x P, Ti R x P, Tx C x P, Tm C x P */
	    d1 = blk <= 2 ? R : C;
	    d2 = P;
	} else {			/* Um P x R, Ui P x C, Ux P x R, Us P x C */
	    d1 = P;
	    d2 = (blk == 1 || blk == 3) ? R : C;
	}
	if (is_16(cal->type)) {
	    for (int a = 0; a < d1; ++a)
		for (int b = 0; b < d2; ++b) {
		    if (a == 0 && b == 0 &&
			    blk == (is_t(cal->type) ? 4 : 1))
			*unity = n;
		    u[n++] = (unk_t){ (char)blk, a, b };
		}
	} else {
	    int d = d1 < d2 ? d1 : d2;

	    for (int a = 0; a < d; ++a) {
		if (a == 0 && blk == (is_t(cal->type) ? 4 : 1))
		    *unity = n;
		u[n++] = (unk_t){ (char)blk, a, a };
	    }
	}
    }
    return n;
}

int cq_unknowns(const cq_cal_t *cal)
{
    unk_t u[CQ_MAXUNK + 1];
    int unity;

    return list_terms(cal, 0, u, &unity) - 1;
}

/* coefficient of term (blk,a,b) in cell (i,j) of the matrix equation */
static double complex coef(bool tform, const unk_t *u, int i, int j,
	const double complex *s, int P, const double complex *m, int C)
{
    if (tform) {	/* -Ts S - Ti + M Tx S + M Tm */
	switch (u->blk) {
	case 1: return i == u->a ? -s[u->b * P + j] : 0.0;
	case 2: return (i == u->a && j == u->b) ? -1.0 : 0.0;
	case 3: return m[i * C + u->a] * s[u->b * P + j];
	default: return j == u->b ? m[i * C + u->a] : 0.0;
	}
    }
    /* Um M + Ui - S Ux M - S Us */
    switch (u->blk) {
    case 1: return i == u->a ? m[u->b * C + j] : 0.0;
    case 2: return (i == u->a && j == u->b) ? 1.0 : 0.0;
    case 3: return -s[i * P + u->a] * m[u->b * C + j];
    default: return j == u->b ? -s[i * P + u->a] : 0.0;
    }
}

/* -------------------------------------------------------------- SVD */

void cq_svd(int m, int n, double complex *a, double *sv)
{
    /* one-sided Jacobi (Hestenes) on the columns of a */
    for (int sweep = 0; sweep < 60; ++sweep) {
	double off = 0.0;

	for (int p = 0; p < n - 1; ++p) {
	    for (int q = p + 1; q < n; ++q) {
		double alpha = 0.0, beta = 0.0;
		double complex g = 0.0;

		for (int k = 0; k < m; ++k) {
		    double complex x = a[k * n + p], y = a[k * n + q];

		    alpha += creal(x) * creal(x) + cimag(x) * cimag(x);
		    beta  += creal(y) * creal(y) + cimag(y) * cimag(y);
		    g += conj(x) * y;
		}
		if (cabs(g) == 0.0 || cabs(g) <= 1e-17 * sqrt(alpha * beta))
		    continue;
		if (cabs(g) / sqrt(alpha * beta) > off)
		    off = cabs(g) / sqrt(alpha * beta);
		{
		    double ag = cabs(g);
		    double complex ph = g / ag;		/* e^{i phi} */
		    double zeta = (beta - alpha) / (2.0 * ag);
		    double t = (zeta >= 0.0 ? 1.0 : -1.0) /
			(fabs(zeta) + sqrt(1.0 + zeta * zeta));
		    double c = 1.0 / sqrt(1.0 + t * t);
		    double s = c * t;

		    for (int k = 0; k < m; ++k) {
			double complex x = a[k * n + p];
			double complex y = a[k * n + q] * conj(ph);

			a[k * n + p] = c * x - s * y;
			a[k * n + q] = s * x + c * y;
		    }
		}
	    }
	}
	if (off < 1e-15)
	    break;
    }
    for (int j = 0; j < n; ++j) {
	double v = 0.0;

	for (int k = 0; k < m; ++k) {
	    double complex x = a[k * n + j];

	    v += creal(x) * creal(x) + cimag(x) * cimag(x);
	}
	sv[j] = sqrt(v);
    }
}

int cq_singular_values(const cq_cal_t *cal, int sys, int findex,
	const double complex *const *m_of_std, double *smin, double *smax)
{
    const int R = cal->R, C = cal->C, P = cal->P;
    unk_t u[CQ_MAXUNK + 1];
    int unity, nterm, nunk, neq = 0;
    double complex el[CQ_MAXP * CQ_MAXP];
    int elcnt[CQ_MAXP * CQ_MAXP];
    double complex *a, *araw;	/* araw: readings before leakage removal */
    double sv[CQ_MAXUNK];
    int maxrows = cal->nstd * CQ_MAXP * CQ_MAXP + 1;

    nterm = list_terms(cal, sys, u, &unity);
    nunk = nterm - 1;

    /* leakage estimate: mean of the isolated observations of each cell */
    for (int i = 0; i < R * C; ++i) {
	el[i] = 0.0;
	elcnt[i] = 0;
    }
    if (leak_type(cal->type)) {
	for (int n = 0; n < cal->nstd; ++n) {
	    const cq_std_t *sp = &cal->std[n];
	    const double complex *m = m_of_std ? m_of_std[n] : sp->m[findex];
	    bool leak[CQ_MAXP * CQ_MAXP];

	    cq_leak_cells(cal, sp, leak);
	    for (int i = 0; i < R * C; ++i) {
		if (leak[i]) {
		    el[i] += m[i];
		    ++elcnt[i];
		}
	    }
	}
	for (int i = 0; i < R * C; ++i)
	    if (elcnt[i] > 0)
		el[i] /= elcnt[i];
    }

    a = calloc((size_t)maxrows * (nunk > 0 ? nunk : 1), sizeof(*a));
    araw = calloc((size_t)maxrows * (nunk > 0 ? nunk : 1), sizeof(*araw));
    if (a == NULL || araw == NULL)
	abort();
    for (int n = 0; n < cal->nstd; ++n) {
	const cq_std_t *sp = &cal->std[n];
	const double complex *m0 = m_of_std ? m_of_std[n] : sp->m[findex];
	double complex m[CQ_MAXP * CQ_MAXP], s[CQ_MAXP * CQ_MAXP];
	double complex mraw[CQ_MAXP * CQ_MAXP];
	int er[CQ_MAXP * CQ_MAXP], ec[CQ_MAXP * CQ_MAXP], es[CQ_MAXP * CQ_MAXP];
	int ne = cq_equations(cal, sp, er, ec, es);

	for (int i = 0; i < R; ++i)
	    for (int j = 0; j < C; ++j)
	    {
		mraw[i * C + j] = (sp->row_given[i] && sp->col_given[j]) ?
		    m0[i * C + j] : 0.0;
		m[i * C + j] = (sp->row_given[i] && sp->col_given[j]) ?
		    m0[i * C + j] - (i != j ? el[i * C + j] : 0.0) : 0.0;
	    }
	for (int i = 0; i < P; ++i)
	    for (int j = 0; j < P; ++j)
		s[i * P + j] = sp->know[i][j] == CQ_G ?
		    sp->s[findex][i * P + j] : 0.0;
	for (int e = 0; e < ne; ++e) {
	    int col = 0;

	    if (es[e] != sys)
		continue;
	    for (int k = 0; k < nterm; ++k) {
		if (k == unity)
		    continue;
		a[neq * nunk + col] = coef(is_t(cal->type), &u[k], er[e],
			ec[e], s, P, m, C);
		araw[neq * nunk + col] = coef(is_t(cal->type), &u[k], er[e],
			ec[e], s, P, mraw, C);
		++col;
	    }
	    ++neq;
	}
    }
    if (neq == 0 || nunk == 0) {
	free(a);
	free(araw);
	if (nunk == 0 && neq >= 0) {
	    *smin = *smax = 1.0;
	    return 0;
	}
	return -1;
    }
    if (neq < nunk) {
	free(a);
	free(araw);
	*smin = 0.0;
	*smax = 1.0;
	return 0;
    }
    /* equilibrate the columns: the M-scaled columns carry the units of
     * the readings (receiver gain); identifiability and the accuracy of
     * an LU / QR solve do not depend on a scaling of the unknowns */
    for (int j = 0; j < nunk; ++j) {
	double v = 0.0;

	for (int i = 0; i < neq; ++i)
	    v += creal(a[i * nunk + j] * conj(a[i * nunk + j]));
	{
	    /* a column that is nothing but the rounding residue of
	     * "reading minus leakage" carries no information */
	    double w = 0.0;

	    for (int i = 0; i < neq; ++i)
		w += creal(araw[i * nunk + j] * conj(araw[i * nunk + j]));
	    if (v == 0.0 || v <= 1.0e-16 * w) {	/* norm <= 1e-8 of the raw one */
		free(a);
		free(araw);
		*smin = 0.0;
		*smax = 1.0;
		return 0;
	    }
	}
	v = sqrt(v);
	for (int i = 0; i < neq; ++i)
	    a[i * nunk + j] /= v;
    }
    cq_svd(neq, nunk, a, sv);
    *smin = INFINITY;
    *smax = 0.0;
    for (int j = 0; j < nunk; ++j) {
	if (sv[j] < *smin)
	    *smin = sv[j];
	if (sv[j] > *smax)
	    *smax = sv[j];
    }
    free(a);
    free(araw);
    return 0;
}

/* ------------------------------------------- YAML subset reader */

typedef struct ynode {
    char type;			/* 'm' map, 'l' list, 's' scalar, 'n' null */
    char *text;			/* scalar */
    int n;
    char **keys;		/* map */
    struct ynode **kids;	/* map values / list items */
} ynode_t;

typedef struct ydoc {
    char **line;
    int nlines;
    int pos;
} ydoc_t;

static ynode_t *ynew(char type)
{
    ynode_t *np = calloc(1, sizeof(*np));

    if (np == NULL)
	abort();
    np->type = type;
    return np;
}

static void yfree(ynode_t *np)
{
    if (np == NULL)
	return;
    for (int i = 0; i < np->n; ++i) {
	if (np->keys != NULL)
	    free(np->keys[i]);
	yfree(np->kids[i]);
    }
    free(np->keys);
    free(np->kids);
    free(np->text);
    free(np);
}

static void ypush(ynode_t *np, char *key, ynode_t *kid)
{
    np->kids = realloc(np->kids, (size_t)(np->n + 1) * sizeof(*np->kids));
    if (np->type == 'm')
	np->keys = realloc(np->keys, (size_t)(np->n + 1) * sizeof(*np->keys));
    if (np->kids == NULL || (np->type == 'm' && np->keys == NULL))
	abort();
    if (np->type == 'm')
	np->keys[np->n] = key;
    np->kids[np->n] = kid;
    ++np->n;
}

static char *ydup(const char *s, size_t n)
{
    char *p = malloc(n + 1);

    if (p == NULL)
	abort();
    memcpy(p, s, n);
    p[n] = '\0';
    while (n > 0 && (p[n - 1] == ' ' || p[n - 1] == '\r'))
	p[--n] = '\0';
    return p;
}

static int yindent(const char *s)
{
    int n = 0;

    while (s[n] == ' ')
	++n;
    return n;
}

/* scalar or flow sequence on one line */
static ynode_t *yinline(const char *s)
{
    while (*s == ' ')
	++s;
    if (*s == '[') {
	ynode_t *np = ynew('l');
	const char *p = s + 1;

	for (;;) {
	    const char *q = p;
	    int depth = 0;

	    while (*q != '\0' && !(depth == 0 && (*q == ',' || *q == ']'))) {
		if (*q == '[')
		    ++depth;
		if (*q == ']')
		    --depth;
		++q;
	    }
	    {
		char *item = ydup(p, (size_t)(q - p));

		if (item[strspn(item, " ")] != '\0' || *q == ',')
		    ypush(np, NULL, yinline(item));
		free(item);
	    }
	    if (*q != ',')
		break;
	    p = q + 1;
	}
	return np;
    }
    if (*s == '\0' || strcmp(s, "~") == 0 || strncmp(s, "~ ", 2) == 0) {
	return ynew('n');
    }
    {
	ynode_t *np = ynew('s');
	size_t n = strlen(s);

	if (n >= 2 && (s[0] == '\'' || s[0] == '"') && s[n - 1] == s[0])
	    np->text = ydup(s + 1, n - 2);
	else
	    np->text = ydup(s, n);
	return np;
    }
}

/* position of the ':' ending a plain key, or NULL */
static const char *ykeyend(const char *s)
{
    if (*s == '[' || *s == '-' || *s == '~' || *s == '+')
	return NULL;
    for (const char *p = s; *p != '\0'; ++p) {
	if (*p == ':' && (p[1] == ' ' || p[1] == '\0'))
	    return p;
    }
    return NULL;
}

static ynode_t *yblock(ydoc_t *dp, int col);

/* value that starts at column col of the current line */
static ynode_t *yvalue_at(ydoc_t *dp, int col)
{
    const char *s = dp->line[dp->pos] + col;

    if (s[0] == '-' && (s[1] == ' ' || s[1] == '\0'))
	return yblock(dp, col);
    if (ykeyend(s) != NULL)
	return yblock(dp, col);
    {
	ynode_t *np = yinline(s);

	++dp->pos;
	return np;
    }
}

static ynode_t *yblock(ydoc_t *dp, int col)
{
    char *s;

    if (dp->pos >= dp->nlines)
	return ynew('n');
    s = dp->line[dp->pos];
    if (s[col] == '-' && (s[col + 1] == ' ' || s[col + 1] == '\0')) {
	ynode_t *np = ynew('l');

	while (dp->pos < dp->nlines) {
	    s = dp->line[dp->pos];
	    if (yindent(s) != col || s[col] != '-' ||
		    !(s[col + 1] == ' ' || s[col + 1] == '\0'))
		break;
	    s[col] = ' ';	/* the item's content now starts deeper */
	    if (s[yindent(s)] == '\0') {
		++dp->pos;
		if (dp->pos < dp->nlines && yindent(dp->line[dp->pos]) > col)
		    ypush(np, NULL, yblock(dp, yindent(dp->line[dp->pos])));
		else
		    ypush(np, NULL, ynew('n'));
	    } else {
		ypush(np, NULL, yvalue_at(dp, yindent(s)));
	    }
	}
	return np;
    }
    {
	ynode_t *np = ynew('m');

	while (dp->pos < dp->nlines) {
	    const char *ke;
	    char *key;
	    const char *rest;

	    s = dp->line[dp->pos];
	    if (yindent(s) != col || (ke = ykeyend(s + col)) == NULL)
		break;
	    key = ydup(s + col, (size_t)(ke - (s + col)));
	    rest = ke + 1;
	    while (*rest == ' ')
		++rest;
	    if (*rest != '\0') {
		ypush(np, key, yinline(rest));
		++dp->pos;
	    } else {
		++dp->pos;
		if (dp->pos < dp->nlines) {
		    char *t = dp->line[dp->pos];
		    int ind = yindent(t);

		    if (ind > col || (ind == col && t[ind] == '-' &&
				(t[ind + 1] == ' ' || t[ind + 1] == '\0')))
			ypush(np, key, yblock(dp, ind));
		    else
			ypush(np, key, ynew('n'));
		} else {
		    ypush(np, key, ynew('n'));
		}
	    }
	}
	return np;
    }
}

static ynode_t *yget(const ynode_t *np, const char *key)
{
    if (np == NULL || np->type != 'm')
	return NULL;
    for (int i = 0; i < np->n; ++i)
	if (strcmp(np->keys[i], key) == 0)
	    return np->kids[i];
    return NULL;
}

static int ycomplex(const ynode_t *np, double complex *out)
{
    char *end;
    double re, im;

    if (np == NULL || np->type != 's')
	return -1;
    re = strtod(np->text, &end);
    if (end == np->text)
	return -1;
    im = strtod(end, &end);
    while (*end == ' ')
	++end;
    if (*end != 'j')
	return -1;
    *out = re + I * im;
    return 0;
}

/* matrix given as list of rows (each a list), `~` entries -> 0 */
static int ymatrix(const ynode_t *np, int rows, int cols,
	double complex out[CQ_MAXP][CQ_MAXP])
{
    if (np == NULL || np->type != 'l' || np->n != rows)
	return -1;
    for (int i = 0; i < rows; ++i) {
	const ynode_t *rp = np->kids[i];

	if (rp->type != 'l' || rp->n != cols)
	    return -1;
	for (int j = 0; j < cols; ++j) {
	    if (rp->kids[j]->type == 'n')
		out[i][j] = 0.0;
	    else if (ycomplex(rp->kids[j], &out[i][j]) == -1)
		return -1;
	}
    }
    return 0;
}

static int yvector(const ynode_t *np, int len, double complex *out)
{
    if (np == NULL || np->type != 'l' || np->n != len)
	return -1;
    for (int i = 0; i < len; ++i)
	if (ycomplex(np->kids[i], &out[i]) == -1)
	    return -1;
    return 0;
}

static int type_by_name(const char *s)
{
    static const char *n[] = { "T8", "U8", "TE10", "UE10", "T16", "U16",
	"UE14", "E12" };

    for (int i = 0; i < 8; ++i)
	if (strcmp(s, n[i]) == 0)
	    return i;
    return -1;
}

#define FAIL(...) do { snprintf(why, whylen, __VA_ARGS__); goto out; } while (0)

int cq_read_saved(const char *path, const char *name, cq_terms_t *tp,
	char *why, size_t whylen)
{
    FILE *fp = fopen(path, "r");
    ydoc_t doc = { NULL, 0, 0 };
    ynode_t *root = NULL, *cals, *cal = NULL, *data;
    char buf[4096];
    int rv = -1;

    why[0] = '\0';
    if (fp == NULL) {
	snprintf(why, whylen, "cannot open %s", path);
	return -1;
    }
    while (fgets(buf, sizeof(buf), fp) != NULL) {
	size_t n = strlen(buf);

	while (n > 0 && (buf[n - 1] == '\n' || buf[n - 1] == '\r'))
	    buf[--n] = '\0';
	if (buf[0] == '#' || buf[0] == '%' || strcmp(buf, "---") == 0 ||
		strcmp(buf, "...") == 0 || buf[strspn(buf, " ")] == '\0')
	    continue;
	doc.line = realloc(doc.line, (size_t)(doc.nlines + 1) * sizeof(char *));
	if (doc.line == NULL)
	    abort();
	doc.line[doc.nlines++] = ydup(buf, n);
    }
    fclose(fp);
    if (doc.nlines == 0)
	FAIL("empty file");
    root = yblock(&doc, 0);
    if (doc.pos != doc.nlines)
	FAIL("unparsed text at line %d: %s", doc.pos, doc.line[doc.pos]);
    cals = yget(root, "calibrations");
    if (cals == NULL || cals->type != 'l')
	FAIL("no calibrations list");
    for (int i = 0; i < cals->n; ++i) {
	ynode_t *nm = yget(cals->kids[i], "name");

	if (nm != NULL && nm->type == 's' && strcmp(nm->text, name) == 0)
	    cal = cals->kids[i];
    }
    if (cal == NULL)
	FAIL("calibration %s not in file", name);
    {
	ynode_t *ty = yget(cal, "type"), *rr = yget(cal, "rows"),
		*cc = yget(cal, "columns"), *ff = yget(cal, "frequencies");
	int t;

	if (ty == NULL || rr == NULL || cc == NULL || ff == NULL ||
		ty->type != 's' || rr->type != 's' || cc->type != 's' ||
		ff->type != 's')
	    FAIL("missing header field");
	if ((t = type_by_name(ty->text)) < 0)
	    FAIL("unknown type %s", ty->text);
	memset(tp, 0, sizeof(*tp));
	tp->type = (ets_type_t)t;
	tp->R = atoi(rr->text);
	tp->C = atoi(cc->text);
	tp->P = tp->R > tp->C ? tp->R : tp->C;
	tp->nf = atoi(ff->text);
	if (tp->R < 1 || tp->C < 1 || tp->P > CQ_MAXP || tp->nf < 0 ||
		tp->nf > CQ_MAXF)
	    FAIL("dimensions out of range");
    }
    data = yget(cal, "data");
    if (data == NULL || data->type != 'l' || data->n != tp->nf)
	FAIL("data list missing or of wrong length");
    for (int f = 0; f < tp->nf; ++f) {
	const ynode_t *fp1 = data->kids[f];
	const ynode_t *fn = yget(fp1, "f");
	const int R = tp->R, C = tp->C, P = tp->P;
	const bool tform = is_t(tp->type);
	static const char *tn[4] = { "ts", "ti", "tx", "tm" };
	static const char *un[4] = { "um", "ui", "ux", "us" };

	if (fn == NULL || fn->type != 's')
	    FAIL("no frequency at index %d", f);
	tp->f[f] = strtod(fn->text, NULL);
	if (tp->type == ETS_E12) {
	    double complex el[CQ_MAXP][CQ_MAXP], er[CQ_MAXP][CQ_MAXP],
		   em[CQ_MAXP][CQ_MAXP];

	    if (ymatrix(yget(fp1, "el"), R, C, el) == -1 ||
		    ymatrix(yget(fp1, "er"), R, C, er) == -1 ||
		    ymatrix(yget(fp1, "em"), R, C, em) == -1)
		FAIL("E12 el/er/em malformed at frequency %d", f);
	    for (int k = 0; k < C; ++k) {
		for (int i = 0; i < R; ++i) {
		    tp->el[f][i][k] = el[i][k];
		    tp->b1[f][k][i][i] = er[i][k];
		    tp->b3[f][k][i][i] = em[i][k];
		}
	    }
	    continue;
	}
	if (tp->type == ETS_UE14) {
	    double complex um[CQ_MAXP][CQ_MAXP], ui[CQ_MAXP][CQ_MAXP],
		   ux[CQ_MAXP][CQ_MAXP], us[CQ_MAXP][CQ_MAXP];

	    if (ymatrix(yget(fp1, "um"), R, C, um) == -1 ||
		    ymatrix(yget(fp1, "ui"), 1, C, ui) == -1 ||
		    ymatrix(yget(fp1, "ux"), R, C, ux) == -1 ||
		    ymatrix(yget(fp1, "us"), 1, C, us) == -1 ||
		    ymatrix(yget(fp1, "el"), R, C, tp->el[f]) == -1)
		FAIL("UE14 um/ui/ux/us/el malformed at frequency %d", f);
	    for (int k = 0; k < C; ++k) {
		for (int i = 0; i < R; ++i) {
		    tp->b1[f][k][i][i] = um[i][k];
		    tp->b3[f][k][i][i] = ux[i][k];
		}
		tp->b2[f][k][k][k] = ui[0][k];
		tp->b4[f][k][k][k] = us[0][k];
	    }
	    continue;
	}
	for (int blk = 0; blk < 4; ++blk) {
	    int d1, d2;
	    const char *nm = tform ? tn[blk] : un[blk];
	    double complex (*dst)[CQ_MAXP] =
		blk == 0 ? tp->b1[f][0] : blk == 1 ? tp->b2[f][0] :
		blk == 2 ? tp->b3[f][0] : tp->b4[f][0];

	    if (tform) {
		d1 = blk < 2 ? R : C;
		d2 = P;
	    } else {
		d1 = P;
		d2 = (blk == 0 || blk == 2) ? R : C;
	    }
	    if (is_16(tp->type)) {
		if (ymatrix(yget(fp1, nm), d1, d2, dst) == -1)
		    FAIL("%s malformed at frequency %d", nm, f);
	    } else {
		double complex v[CQ_MAXP];
		int d = d1 < d2 ? d1 : d2;

		if (yvector(yget(fp1, nm), d, v) == -1)
		    FAIL("%s malformed at frequency %d", nm, f);
		for (int i = 0; i < d; ++i)
		    dst[i][i] = v[i];
	    }
	}
	if (leak_type(tp->type)) {
	    if (ymatrix(yget(fp1, "el"), R, C, tp->el[f]) == -1)
		FAIL("el malformed at frequency %d", f);
	}
    }
    rv = 0;
out:
    yfree(root);
    for (int i = 0; i < doc.nlines; ++i)
	free(doc.line[i]);
    free(doc.line);
    return rv;
}

/* ------------------------------------------------------- residual */

static double cmax(double a, double b) { return a > b ? a : b; }

double cq_saved_residual(const cq_terms_t *tp, int f,
	const double complex *s, const double complex *m0)
{
    const int R = tp->R, C = tp->C, P = tp->P;
    double complex m[CQ_MAXP * CQ_MAXP];
    double worst = 0.0;

    /* remove the leakage handled outside of the linear system */
    for (int i = 0; i < R; ++i)
	for (int j = 0; j < C; ++j)
	    m[i * C + j] = m0[i * C + j] -
		((leak_type(tp->type) && tp->type != ETS_E12 && i != j) ?
		 tp->el[f][i][j] : 0.0);

    if (tp->type == ETS_E12) {
	/* M(:,k) = El(:,k) + Er_k (I - S Em_k)^-1 S e_k */
	for (int k = 0; k < C; ++k) {
	    double complex A[CQ_MAXP * CQ_MAXP], x[CQ_MAXP];
	    double scale = 1.0;

	    for (int i = 0; i < P; ++i) {
		for (int j = 0; j < P; ++j)
		    A[i * P + j] = (i == j ? 1.0 : 0.0) -
			s[i * P + j] * tp->b3[f][k][j][j];
		x[i] = s[i * P + k];
	    }
	    if (ets_solve(P, 1, A, x) == 0.0)
		return INFINITY;
	    for (int i = 0; i < R; ++i) {
		double complex pred = tp->el[f][i][k] + tp->b1[f][k][i][i] * x[i];

		scale = cmax(scale, cabs(pred));
		worst = cmax(worst, cabs(pred - m0[i * C + k]) / scale);
	    }
	}
	return worst;
    }
    if (tp->type == ETS_UE14) {
	/* per column k: Um_k M(:,k) + ui_k e_k - S Ux_k M(:,k) - S us_k e_k */
	for (int k = 0; k < C; ++k) {
	    double scale = 0.0;
	    double complex res[CQ_MAXP];

	    for (int i = 0; i < P; ++i) {
		double complex v = 0.0;

		if (i < R)
		    v += tp->b1[f][k][i][i] * m[i * C + k];
		if (i == k)
		    v += tp->b2[f][k][k][k];
		for (int q = 0; q < P; ++q) {
		    double complex w = 0.0;

		    if (q < R)
			w += tp->b3[f][k][q][q] * m[q * C + k];
		    if (q == k)
			w += tp->b4[f][k][k][k];
		    v -= s[i * P + q] * w;
		    scale = cmax(scale, cabs(w));
		}
		res[i] = v;
		if (i < R)
		    scale = cmax(scale, cabs(tp->b1[f][k][i][i] * m[i * C + k]));
	    }
	    scale = cmax(scale, cabs(tp->b2[f][k][k][k]));
	    if (scale == 0.0)
		return INFINITY;
	    for (int i = 0; i < P; ++i)
		worst = cmax(worst, cabs(res[i]) / scale);
	}
	return worst;
    }
    if (is_t(tp->type)) {
	/* Ts S + Ti - M Tx S - M Tm   (R x P) */
	double complex txs[CQ_MAXP][CQ_MAXP];	/* Tx S + Tm : C x P */
	double scale = 0.0;

	for (int a = 0; a < C; ++a)
	    for (int j = 0; j < P; ++j) {
		double complex v = tp->b4[f][0][a][j];

		for (int q = 0; q < P; ++q)
		    v += tp->b3[f][0][a][q] * s[q * P + j];
		txs[a][j] = v;
	    }
	for (int i = 0; i < R; ++i)
	    for (int j = 0; j < P; ++j) {
		double complex lhs = tp->b2[f][0][i][j], rhs = 0.0;

		for (int q = 0; q < P; ++q)
		    lhs += tp->b1[f][0][i][q] * s[q * P + j];
		for (int a = 0; a < C; ++a)
		    rhs += m[i * C + a] * txs[a][j];
		scale = cmax(scale, cmax(cabs(lhs), cabs(rhs)));
		worst = cmax(worst, cabs(lhs - rhs));
	    }
	for (int a = 0; a < C; ++a)
	    for (int j = 0; j < P; ++j)
		scale = cmax(scale, cabs(txs[a][j]));
	return scale == 0.0 ? INFINITY : worst / scale;
    }
    {
	/* Um M + Ui - S (Ux M + Us)   (P x C) */
	double complex uxm[CQ_MAXP][CQ_MAXP];	/* Ux M + Us : P x C */
	double scale = 0.0;

	for (int q = 0; q < P; ++q)
	    for (int j = 0; j < C; ++j) {
		double complex v = tp->b4[f][0][q][j];

		for (int a = 0; a < R; ++a)
		    v += tp->b3[f][0][q][a] * m[a * C + j];
		uxm[q][j] = v;
		scale = cmax(scale, cabs(v));
	    }
	for (int i = 0; i < P; ++i)
	    for (int j = 0; j < C; ++j) {
		double complex lhs = tp->b2[f][0][i][j], rhs = 0.0;

		for (int a = 0; a < R; ++a)
		    lhs += tp->b1[f][0][i][a] * m[a * C + j];
		for (int q = 0; q < P; ++q)
		    rhs += s[i * P + q] * uxm[q][j];
		scale = cmax(scale, cmax(cabs(lhs), cabs(rhs)));
		worst = cmax(worst, cabs(lhs - rhs));
	    }
	return scale == 0.0 ? INFINITY : worst / scale;
    }
}
