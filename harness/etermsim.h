/*
 * etermsim.h -- independent physical simulator of a VNA's linear error
 * network, written from the circuit picture, not from libvna's T/U algebra.
 *
 * A VNA with `rows` detecting ports and `cols` driving ports measures a
 * device with `ports` = max(rows, cols) ports through a 2*ports-port error
 * box.  With El (leakage/directivity, rows x cols), Er (reflection tracking,
 * rows x ports), Em (port match, ports x ports) and Et (transmission
 * tracking, ports x cols) the reading for driving column c is
 *
 *     M(:,c) = El(:,c) + Er_c (I - S Em_c)^-1 S Et(:,c)
 *
 * i.e. the signal injected at the device side (Et), bounced any number of
 * times between device (S) and port match (Em), carried to the detectors
 * (Er), plus what leaks directly (El).  For the 12/14-term models each
 * driving column has its own Er_c, Em_c (switch terms); for the others they
 * are the same for every column.
 *
 *   T8/U8     Er, Em, Et diagonal, El diagonal only
 *   TE10/UE10 as T8 plus off-diagonal El (internal leakage)
 *   T16/U16   all four blocks full
 *   UE14/E12  per-column diagonal Er_c, Em_c, scalar Et_c, full El column
 */
#ifndef ETERMSIM_H
#define ETERMSIM_H

#include <complex.h>
#include "vt.h"

#define ETS_MAXP 8

typedef enum { ETS_T8, ETS_U8, ETS_TE10, ETS_UE10, ETS_T16, ETS_U16,
	       ETS_UE14, ETS_E12 } ets_type_t;

typedef struct etsim {
    ets_type_t type;
    int rows, cols, ports;
    double complex el[ETS_MAXP][ETS_MAXP];		/* rows x cols */
    double complex et[ETS_MAXP][ETS_MAXP];		/* ports x cols */
    double complex er[ETS_MAXP][ETS_MAXP][ETS_MAXP];	/* [c] rows x ports */
    double complex em[ETS_MAXP][ETS_MAXP][ETS_MAXP];	/* [c] ports x ports */
} etsim_t;

extern const char *ets_type_name(ets_type_t t);
extern int ets_is_t(ets_type_t t);		/* needs rows <= cols */
extern int ets_column_systems(ets_type_t t);	/* UE14 / E12 */
extern int ets_has_leakage(ets_type_t t);	/* off-diagonal El modelled */

/* identity network: M = S (on the detected/driven part) */
extern void ets_identity(etsim_t *e, ets_type_t type, int rows, int cols);

/* random network; strength 0..1 scales the departure from identity */
extern void ets_random(etsim_t *e, ets_type_t type, int rows, int cols,
	vt_rng_t *rng, double strength);

/* smooth frequency dependence: e(f) = e0 perturbed by low-order terms in
 * x = (f - f0)/span; used by interpolation checks */
extern void ets_at_frequency(const etsim_t *e0, const etsim_t *e1, double x,
	etsim_t *out);

/* measurement of a device with full ports x ports S matrix (row-major,
 * stride ports): writes rows x cols M (row-major, stride cols).
 * returns 0, or -1 if (I - S Em) is numerically singular */
extern int ets_measure(const etsim_t *e, const double complex *s,
	double complex *m);

/* a/b readings for the non-column types: a is cols x cols (random, well
 * conditioned), b = M a; for UE14/E12: a is 1 x cols, b(:,c) = M(:,c) a_c */
extern void ets_make_ab(const etsim_t *e, const double complex *m,
	vt_rng_t *rng, double complex *a, double complex *b);

/* own dense complex solve: A (n x n, row-major) X = B (n x k); returns
 * reciprocal pivot-growth style conditioning proxy (min|pivot|/max|pivot|),
 * 0 if singular.  A and B are overwritten (B with X). */
extern double ets_solve(int n, int k, double complex *a, double complex *b);

/* random complex numbers */
extern double complex ets_cnormal(vt_rng_t *rng, double sigma);
extern double complex ets_cunit_disc(vt_rng_t *rng, double radius);

#endif
