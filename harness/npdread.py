"""Independent reader for libvna's NPD (network parameter data) files,
written from the format as it documents itself: vnadata(3) (format
specifiers, their order and meaning) and the header of the example file
shipped with the manual (vnadata-example.npd):

  #NPD
  #:version 1.0
  #:ports <n>
  #:frequencies <k>
  #:parameters <comma separated specifiers>
  #:z0 <re> <im>j ...            one pair per port, or  PER-FREQUENCY
  #:fprecision <d>
  #:dprecision <d>
  # field <i>: <name> <kind> (<unit>)        self-description, comments
  <frequency> [<z0 re> <z0 im> per port when PER-FREQUENCY] <fields...>

Lines starting with "#:" are keywords, other lines starting with '#' are
comments, blank lines are ignored.  A data line holds, after the frequency
(and the per-frequency impedances), the fields of every specifier in list
order:
  matrix parameter ri/ma/dB   2 numbers per cell, row-major
  Zin ri/ma                   2 numbers per port
  PRC PRL SRC SRL             R and C (or L) per port
  IL                          one number per off-diagonal cell, row-major
  RL, VSWR                    one number per port
Numbers: decimal or C99 hexadecimal floating point (VNADATA_MAX_PRECISION).
No libvna code.
"""
import re

from netgt import decode_pair, zin_rx_decode

MATRIX = ("S", "T", "U", "Z", "Y", "H", "G", "A", "B")


class NpdError(Exception):
    pass


def parse_number(tok):
    t = tok.lower()
    body = t.lstrip("+-")
    try:
        if body.startswith("0x"):
            return float.fromhex(t)
        return float(t)
    except ValueError:
        raise NpdError("not a number: %r" % tok)


def parse_specifier(name):
    """'SdB' -> ('S','db'); 'Zinma' -> ('Zin','ma'); 'PRC' -> ('Zin','prc');
    'IL' -> ('S','il').  Case-insensitive as documented."""
    n = name.strip().lower()
    if n in ("prc", "prl", "src", "srl"):
        return ("Zin", n)
    if n in ("il", "rl", "vswr"):
        return ("S", n)
    if n.startswith("zin"):
        rest = n[3:]
        if rest in ("", "ri", "ma"):
            return ("Zin", rest or "ri")
        raise NpdError("bad specifier %r" % name)
    if n and n[0].upper() in MATRIX:
        rest = n[1:]
        if rest in ("", "ri", "ma", "db"):
            return (n[0].upper(), rest or "ri")
    raise NpdError("bad specifier %r" % name)


def spec_fields(spec, ports):
    p, f = spec
    if f in ("il",):
        return ports * (ports - 1)
    if f in ("rl", "vswr"):
        return ports
    if p == "Zin":
        return 2 * ports
    return 2 * ports * ports


_FIELD_RE = re.compile(r"^#\s*field\s+(\d+):\s*(\S+)\s*(.*)$")


def read_npd(data):
    """Returns dict: ports, nf, params [(p, f)], z0 (list of complex) or
    None, fz0 (list per frequency of list of complex) or None, freqs,
    blocks[i][f] = list of raw numbers of specifier i at frequency f,
    fields (numbers per data line), field_key (list of (index, name, rest)),
    fprecision, dprecision."""
    text = data.decode("latin-1") if isinstance(data, bytes) else data
    hdr = {}
    field_key = []
    rows = []
    for raw in text.split("\n"):
        line = raw.strip()
        if not line:
            continue
        if line.startswith("#:"):
            parts = line[2:].split()
            if not parts:
                continue
            key = parts[0]
            if key in hdr and key in ("ports", "frequencies", "parameters",
                                      "z0"):
                raise NpdError("duplicate #:%s" % key)
            hdr[key] = parts[1:]
            continue
        if line.startswith("#"):
            m = _FIELD_RE.match(line)
            if m:
                field_key.append((int(m.group(1)), m.group(2), m.group(3).strip()))
            continue
        rows.append([parse_number(t) for t in line.split()])
    if hdr.get("version") != ["1.0"]:
        raise NpdError("version 1.0 expected, found %r" % hdr.get("version"))
    for req in ("ports", "frequencies", "parameters"):
        if req not in hdr:
            raise NpdError("missing #:%s" % req)
    ports = int(hdr["ports"][0])
    nf = int(hdr["frequencies"][0])
    names = [x for x in ",".join(hdr["parameters"]).split(",") if x != ""]
    if not names:
        raise NpdError("empty parameter list")
    params = [parse_specifier(x) for x in names]
    for (p, f) in params:
        if p in ("T", "U", "H", "G", "A", "B") and ports != 2:
            raise NpdError("%s needs two ports" % p)
    z0 = None
    per_f = False
    if "z0" in hdr:
        a = hdr["z0"]
        if len(a) == 1 and a[0].upper() == "PER-FREQUENCY":
            per_f = True
        else:
            if len(a) != 2 * ports:
                raise NpdError("#:z0 needs %d numbers" % (2 * ports))
            z0 = []
            for i in range(ports):
                im = a[2 * i + 1]
                if not im.lower().endswith("j"):
                    raise NpdError("imaginary part without j: %r" % im)
                z0.append(complex(parse_number(a[2 * i]), parse_number(im[:-1])))
    else:
        z0 = [complex(50.0, 0.0)] * ports
    width = 1 + (2 * ports if per_f else 0) + \
        sum(spec_fields(s, ports) for s in params)
    if len(rows) != nf:
        raise NpdError("%d data lines, #:frequencies %d" % (len(rows), nf))
    freqs = []
    fz0 = [] if per_f else None
    blocks = [[] for _ in params]
    for row in rows:
        if len(row) != width:
            raise NpdError("data line with %d fields, expected %d" %
                           (len(row), width))
        freqs.append(row[0])
        q = 1
        if per_f:
            fz0.append([complex(row[q + 2 * i], row[q + 2 * i + 1])
                        for i in range(ports)])
            q += 2 * ports
        for i, s in enumerate(params):
            n = spec_fields(s, ports)
            blocks[i].append(row[q:q + n])
            q += n
    out = {"ports": ports, "nf": nf, "params": params, "z0": z0, "fz0": fz0,
           "freqs": freqs, "blocks": blocks, "fields": width,
           "field_key": field_key}
    for k in ("fprecision", "dprecision"):
        if k in hdr:
            out[k] = int(hdr[k][0])
    return out


def decode_block(spec, ports, nums, f):
    """complex values denoted by one specifier's numbers at one frequency:
    matrix -> list of rows; Zin forms -> list per port; None for the
    magnitude-only forms (IL, RL, VSWR)."""
    p, form = spec
    if form in ("il", "rl", "vswr"):
        return None
    if p == "Zin":
        out = []
        for i in range(ports):
            a, b = nums[2 * i], nums[2 * i + 1]
            if form in ("ri", "ma"):
                out.append(decode_pair(a, b, form))
            else:
                out.append(zin_rx_decode(a, b, f, form))
        return out
    m = []
    q = 0
    for r in range(ports):
        row = []
        for c in range(ports):
            row.append(decode_pair(nums[q], nums[q + 1], form))
            q += 2
        m.append(row)
    return m


def check_field_key(doc):
    """Does the file's own '# field i:' description agree with the layout
    computed from the header?  Returns True/False (True if no key)."""
    key = doc["field_key"]
    if not key:
        return True
    if [k[0] for k in key] != list(range(1, doc["fields"] + 1)):
        return False
    return key[0][1].lower() == "frequency"


if __name__ == "__main__":
    import sys
    with open(sys.argv[1], "rb") as fp:
        d = read_npd(fp.read())
    print({k: d[k] for k in ("ports", "nf", "params", "z0", "fields")})
