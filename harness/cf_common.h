/*
 * cf_common.h -- helpers shared by the file-format drivers (drv_propyaml.c,
 * drv_calfile.c, drv_loadfuzz.c): adversarial string pool with interning,
 * descriptor quoting, abstract property-tree generator, builder through the
 * public API, projection through the public getters, LeakSanitizer probe,
 * synthetic calibrations from a diagonal error-box model.
 *
 * Everything is static: each driver is a single translation unit.
 */
#ifndef CF_COMMON_H
#define CF_COMMON_H

#include <complex.h>
#include <ctype.h>
#include <errno.h>
#include <math.h>
#include <stdio.h>
#include <stdlib.h>
#include <string.h>
#include <unistd.h>
#include <vnacal.h>
#include <vnadata.h>
#include <vnaproperty.h>
#include "vt.h"

/* ------------------------------------------------------------ LSan probe */

#if defined(__has_feature)
#  if __has_feature(address_sanitizer)
#    define CF_HAVE_LSAN 1
#  endif
#endif
#ifdef CF_HAVE_LSAN
extern int __lsan_do_recoverable_leak_check(void);
#endif

/*
 * cf_leak_check: 1 if LeakSanitizer finds unreachable heap blocks now (this
 * includes blocks allocated by libyaml on behalf of libvna, which the
 * link-time allocator wrapper cannot see).  A leak stays a leak: once this
 * returned 1 the process must be restarted to attribute later leaks, so the
 * caller terminates the process after logging the End event.
 */
static int cf_leak_probed;		/* did the last cf_leak_check really probe? */
static int cf_leak_force;		/* probe now whatever the period says */
static int cf_leak_period = 1;

static int cf_leak_check(void)
{
#ifdef CF_HAVE_LSAN
    int saved = vt_in_lib;
    int rv;
    static int period = -1, count;

    /* CF_LSAN_PERIOD=n: probe only every n-th call (cost control); a leak
     * is then attributed to the case that ends the period, whose replay
     * covers the whole period */
    if (period < 0) {
	const char *p = getenv("CF_LSAN_PERIOD");

	period = p != NULL ? atoi(p) : 1;
	cf_leak_period = period;
    }
    cf_leak_probed = 0;
    if (period == 0 || (period > 1 && ++count % period != 0 && !cf_leak_force))
	return 0;
    cf_leak_probed = 1;

    vt_in_lib = 0;
    rv = __lsan_do_recoverable_leak_check() != 0;
    vt_in_lib = saved;
    return rv;
#else
    return 0;
#endif
}

/* exit status used when a case ended with a leak (the End event is already
 * written and will be rejected by the trace spec; the runner resumes with
 * the next case) */
#define CF_EXIT_LEAK 95

/* ------------------------------------------------------------ string pool */

/*
 * Valid UTF-8, no NUL.  Index 0 is the empty string (scalars only).
 * The ids written to the trace are "s<index>"; a string that is not in the
 * pool is written as "?<fnv hash>" and so can never equal a pool id.
 */
#define CF_LONG1 "xxxxxxxxxxxxxxxxxxxxxxxxxxxxxxxxxxxxxxxxxxxxxxxxxxxxxxxxxxx" \
    "xxxxxxxxxxxxxxxxxxxxxxxxxxxxxxxxxxxxxxxxxxxxxxxxxxxxxxxxxxxxxxxxxxxxxxxx" \
    "xxxxxxxxxxxxxxxxxxxxxxxxxxxxxxxxxxxxxxxxxxxxxxxxxxxxxxxxxxxxxxxxxxxxxxxx"
#define CF_LONG2 "the quick brown fox jumps over the lazy dog and then the " \
    "quick brown fox jumps over the lazy dog again and again until the line" \
    " is much longer than eighty columns wide"

static const char *const cf_pool[] = {
    /* 0 */ "",
    /* plain */
    "a", "b", "key", "x", "value 1", "my key", "x-1_y", "9 lives", "0", "-z",
    /* spaces */
    " lead", "trail ", "two  spaces", "  ", " ", " both ", "a b ",
    /* line breaks and tabs */
    "line1\nline2", "\n", "trailing\n", "\nleading", "a\n\nb", "a\n ",
    "  indented\nblock", "tab\there", "\t", "\tleadtab", "trailtab\t",
    "a\r\nb", "a\rb", "two\n\n", "x\n  y\n z", " \n", "a \nb",
    /* YAML look-alikes */
    "~", "null", "Null", "NULL", "true", "false", "yes", "no", "on", "0x1",
    "123", "3.14", "1e3", ".inf", ".nan", "-", "- item", "-item", "k: v",
    "k:v", ": ", ":", "a #c", "#c", "a#c", "? q", "?", "|", ">", "|-", ">+",
    "!tag", "!!str x", "&anchor", "*alias", "%dir", "%d%s", "@at", "`bt",
    "---", "...", "--- doc", "a\n---\nb", "a\n...\nb", "ends with colon:",
    "a: ", " #", "x\n# not comment", "<<", "=", "a=b", "+", "a,b", ",",
    /* quotes and descriptor syntax */
    "\"q\"", "'s'", "it's", "say \"hi\"", "back\\slash", "\\", "\\n", "{}",
    "{a: b}", "[0]", "[]", "[a, b]", "a.b", ".", "..", "a\\.b", "k[0]",
    "a{}", "[+]", "[1+]", "#h",
    /* control characters */
    "\x01", "\x1b[0m", "\x7f", "bell\x07", "a\x08" "b", "\x0c",
    /* NEL, LS, PS, BOM */
    "\xc2\x85", "a\xc2\x85" "b", "\xe2\x80\xa8", "a\xe2\x80\xa8" "b",
    "\xe2\x80\xa9", "\xef\xbb\xbf", "\xef\xbb\xbf" "bom first",
    "mid\xef\xbb\xbf" "bom", "nel at end\xc2\x85",
    /* multi-byte UTF-8 */
    "\xc3\xa9t\xc3\xa9", "\xe2\x82\xac", "\xf0\x9f\x98\x80",
    "\xce\xb1\xce\xb2\xce\xb3", "\xc2\xa0nbsp", "\xef\xbf\xbd",
    "\xef\xbf\xbe", "\xf4\x8f\xbf\xbf", "\xc2\x80", "\xed\x9f\xbf",
    "\xe6\x97\xa5\xe6\x9c\xac\xe8\xaa\x9e key",
    /* long */
    CF_LONG1, CF_LONG2, CF_LONG2 "\n" CF_LONG2,
    /* multi-line scalars that exercise line folding / wrapping / chomping:
     * long lines (100-300 columns) with and without leading indentation,
     * trailing spaces before the newline, trailing newline(s) or none,
     * lines of only spaces, tab indentation */
    "note:\n  indented " CF_LONG2 "\nend",
    " " CF_LONG2 "\nshort",
    CF_LONG2 " " CF_LONG2 "\n" CF_LONG2 " " CF_LONG2 "\n",
    "first\n    deeper " CF_LONG2 " " CF_LONG2 "\nback",
    "a\n " CF_LONG1 " tail word\nb",
    "\t" CF_LONG2 "\nx",
    "abc   \ndef", "abc \n", "trailing spaces   \n   \nend  ",
    "a\n   \nb", "   \n", "a\n \n \nb", " \n \n",
    CF_LONG2 "\n\n", CF_LONG2 "\n\n\n" CF_LONG2, "\n\n" CF_LONG2,
    CF_LONG1 CF_LONG1 "\n" CF_LONG1,
    "  two-space indent on every line " CF_LONG2 "\n  second " CF_LONG2 "\n",
    "x\n  - looks like a list item " CF_LONG2 "\n  key: value " CF_LONG2,
    /* very long single-line scalars / keys: beyond libyaml's 128-byte
     * simple-key limit and beyond 1024 bytes */
    CF_LONG2 " " CF_LONG2 " " CF_LONG2 " " CF_LONG2 " " CF_LONG2 " " CF_LONG2
	" " CF_LONG2 " " CF_LONG2,
    CF_LONG1 CF_LONG1 CF_LONG1 CF_LONG1 CF_LONG1 CF_LONG1,
    " " CF_LONG2 " " CF_LONG2 " ",
    CF_LONG2 ": " CF_LONG2 " #" CF_LONG2,
};
#define CF_NPOOL ((int)(sizeof(cf_pool) / sizeof(cf_pool[0])))
#define CF_NPLAIN 11		/* indices 1..10 are the plain strings */

/*
 * Per-case extra strings: concatenations of two pool strings, registered by
 * the generator.  String index CF_NPOOL + k refers to cf_extra[k]; its id is
 * "x<i>.<j>".
 */
#define CF_MAXEXTRA 64
static struct { int i, j; char *s; } cf_extra[CF_MAXEXTRA];
static int cf_nextra;

static void cf_extra_reset(void)
{
    for (int k = 0; k < cf_nextra; ++k)
	free(cf_extra[k].s);
    cf_nextra = 0;
}

static int cf_extra_add(int i, int j)
{
    char *s;

    for (int k = 0; k < cf_nextra; ++k) {
	if (cf_extra[k].i == i && cf_extra[k].j == j)
	    return CF_NPOOL + k;
    }
    if (cf_nextra >= CF_MAXEXTRA)
	return i;
    s = malloc(strlen(cf_pool[i]) + strlen(cf_pool[j]) + 1);
    strcpy(s, cf_pool[i]);
    strcat(s, cf_pool[j]);
    /* a concatenation that happens to equal a pool string keeps the pool id */
    for (int k = 0; k < CF_NPOOL; ++k) {
	if (strcmp(s, cf_pool[k]) == 0) {
	    free(s);
	    return k;
	}
    }
    for (int k = 0; k < cf_nextra; ++k) {
	if (strcmp(s, cf_extra[k].s) == 0) {
	    free(s);
	    return CF_NPOOL + k;
	}
    }
    cf_extra[cf_nextra].i = i;
    cf_extra[cf_nextra].j = j;
    cf_extra[cf_nextra].s = s;
    return CF_NPOOL + cf_nextra++;
}

static const char *cf_str(int sid)
{
    return sid < CF_NPOOL ? cf_pool[sid] : cf_extra[sid - CF_NPOOL].s;
}

static void cf_put_sid_index(int sid)
{
    if (sid < CF_NPOOL)
	vt_put("\"s%d\"", sid);
    else
	vt_put("\"x%d.%d\"", cf_extra[sid - CF_NPOOL].i,
		cf_extra[sid - CF_NPOOL].j);
}

static void cf_put_sid(const char *bytes)
{
    for (int i = 0; i < CF_NPOOL; ++i) {
	if (strcmp(bytes, cf_pool[i]) == 0) {
	    vt_put("\"s%d\"", i);
	    return;
	}
    }
    for (int k = 0; k < cf_nextra; ++k) {
	if (strcmp(bytes, cf_extra[k].s) == 0) {
	    cf_put_sid_index(CF_NPOOL + k);
	    return;
	}
    }
    {
	unsigned h = 2166136261u;

	for (const unsigned char *p = (const unsigned char *)bytes; *p; ++p)
	    h = (h ^ *p) * 16777619u;
	vt_put("\"?%08x\"", h);
    }
}

/* ------------------------------------------------- descriptor key quoting */

/* own transcription of the key syntax of vnaproperty(3): a key starts with a
 * letter, underscore, UTF-8 byte or a backslash-quoted character and goes on
 * with those plus digits, minus and inner spaces; everything else, and
 * trailing spaces, must be backslash-quoted */
static int cf_needs_quote(const char *key, int i, int len)
{
    unsigned char c = (unsigned char)key[i];

    if (c >= 0x80)
	return 0;
    if (c == '\\')
	return 1;
    if (isalpha(c) || c == '_')
	return 0;
    if (i > 0 && (isdigit(c) || c == '-'))
	return 0;
    if (c == ' ' && i > 0) {
	for (int j = i; j < len; ++j) {
	    if (key[j] != ' ')
		return 0;
	}
	return 1;
    }
    return 1;
}

static char *cf_quote_own(const char *key, char *out)
{
    int len = (int)strlen(key);

    for (int i = 0; i < len; ++i) {
	if (cf_needs_quote(key, i, len))
	    *out++ = '\\';
	*out++ = key[i];
    }
    *out = '\0';
    return out;
}

/* ------------------------------------------------------- abstract trees */

enum { CF_NULL, CF_SCALAR, CF_MAP, CF_LIST };
#define CF_MAXKIDS 5
typedef struct cf_node {
    int t;
    int sid;				/* scalar: pool index */
    int n;				/* number of children */
    int keys[CF_MAXKIDS];		/* map: pool index of each key */
    struct cf_node *kids[CF_MAXKIDS];
} cf_node_t;

static cf_node_t cf_nodes[4096];
static int cf_nnodes;

static cf_node_t *cf_new_node(int t)
{
    cf_node_t *n;

    if (cf_nnodes >= (int)(sizeof(cf_nodes) / sizeof(cf_nodes[0]))) {
	fprintf(stderr, "cf_new_node: pool exhausted\n");
	exit(3);
    }
    n = &cf_nodes[cf_nnodes++];
    memset(n, 0, sizeof(*n));
    n->t = t;
    return n;
}

/* pick a pool index; plain_only restricts to the unsurprising strings */
static int cf_pairs;			/* 1: every third pick is a concatenation */

static int cf_pick(vt_rng_t *rng, int plain_only, int allow_empty)
{
    if (plain_only)
	return 1 + vt_below(rng, CF_NPLAIN - 1);
    if (cf_pairs && vt_below(rng, 3) == 0)
	return cf_extra_add(1 + vt_below(rng, CF_NPOOL - 1),
		1 + vt_below(rng, CF_NPOOL - 1));
    if (allow_empty)
	return vt_below(rng, CF_NPOOL);
    return 1 + vt_below(rng, CF_NPOOL - 1);
}

/*
 * cf_gen: random tree.  depth = remaining container levels; *budget =
 * remaining nodes.  A container at the last level holds only leaves.
 */
static cf_node_t *cf_gen(vt_rng_t *rng, int depth, int *budget, int plain)
{
    int r = vt_below(rng, 100);
    cf_node_t *n;

    --*budget;
    if (depth <= 0 || *budget <= 0)
	r = r % 40;			/* leaves only */
    if (r < 8)
	return cf_new_node(CF_NULL);
    if (r < 40) {
	n = cf_new_node(CF_SCALAR);
	n->sid = cf_pick(rng, plain, 1);
	return n;
    }
    if (r < 72) {
	n = cf_new_node(CF_MAP);
	n->n = vt_below(rng, CF_MAXKIDS + 1);
	if (vt_below(rng, 12) == 0)
	    n->n = 0;
	for (int i = 0; i < n->n; ++i) {
	    int k, dup;

	    do {
		k = cf_pick(rng, plain, 0);
		dup = 0;
		for (int j = 0; j < i; ++j)
		    dup |= n->keys[j] == k;
	    } while (dup);
	    n->keys[i] = k;
	    n->kids[i] = cf_gen(rng, depth - 1, budget, plain);
	}
	return n;
    }
    n = cf_new_node(CF_LIST);
    n->n = vt_below(rng, CF_MAXKIDS + 1);
    if (vt_below(rng, 12) == 0)
	n->n = 0;
    for (int i = 0; i < n->n; ++i)
	n->kids[i] = cf_gen(rng, depth - 1, budget, plain);
    return n;
}

/* a chain of `depth` containers ending in the given leaf */
static cf_node_t *cf_chain(int depth, int use_map, int key, cf_node_t *leaf)
{
    cf_node_t *n = leaf;

    for (int d = 0; d < depth; ++d) {
	cf_node_t *c = cf_new_node((use_map >> d) & 1 ? CF_MAP : CF_LIST);

	c->n = 1;
	c->keys[0] = key;
	c->kids[0] = n;
	n = c;
    }
    return n;
}

static int cf_tree_depth(const cf_node_t *n)
{
    int m = 0;

    if (n->t != CF_MAP && n->t != CF_LIST)
	return 0;
    for (int i = 0; i < n->n; ++i) {
	int d = cf_tree_depth(n->kids[i]);

	if (d > m)
	    m = d;
    }
    return 1 + m;
}

static int cf_tree_size(const cf_node_t *n)
{
    int s = 1;

    if (n->t == CF_MAP || n->t == CF_LIST) {
	for (int i = 0; i < n->n; ++i)
	    s += cf_tree_size(n->kids[i]);
    }
    return s;
}

/* write the abstract tree in the projection format */
static void cf_put_tree(const cf_node_t *n)
{
    switch (n->t) {
    case CF_NULL:
	vt_put("{\"t\":\"n\"}");
	break;
    case CF_SCALAR:
	vt_put("{\"t\":\"s\",\"v\":");
	cf_put_sid_index(n->sid);
	vt_put("}");
	break;
    case CF_MAP:
	vt_put("{\"t\":\"m\",\"kv\":[");
	for (int i = 0; i < n->n; ++i) {
	    vt_put("%s{\"k\":", i ? "," : "");
	    cf_put_sid_index(n->keys[i]);
	    vt_put(",\"d\":");
	    cf_put_tree(n->kids[i]);
	    vt_put("}");
	}
	vt_put("]}");
	break;
    case CF_LIST:
	vt_put("{\"t\":\"l\",\"it\":[");
	for (int i = 0; i < n->n; ++i) {
	    if (i)
		vt_put(",");
	    cf_put_tree(n->kids[i]);
	}
	vt_put("]}");
	break;
    }
}

/* --------------------------------------------- building through the API */

/* setter abstraction: op 0 = set (desc=value / desc#), 1 = set_subtree;
 * returns 0 on success */
typedef int cf_setter_t(void *ctx, int op, const char *text);

static int cf_set_vnaproperty(void *ctx, int op, const char *text)
{
    vnaproperty_t **rootp = ctx;

    if (op == 0)
	return LIB(vnaproperty_set(rootp, "%s", text));
    return LIB(vnaproperty_set_subtree(rootp, "%s", text)) != NULL ? 0 : -1;
}

typedef struct cf_calctx { vnacal_t *vcp; int ci; } cf_calctx_t;

static int cf_set_vnacal(void *ctx, int op, const char *text)
{
    cf_calctx_t *c = ctx;

    if (op == 0)
	return LIB(vnacal_property_set(c->vcp, c->ci, "%s", text));
    return LIB(vnacal_property_set_subtree(c->vcp, c->ci, "%s", text))
	!= NULL ? 0 : -1;
}

#define CF_PATHMAX 131072

/*
 * cf_build: realise the abstract tree below the element addressed by
 * path[0..plen) using only set / set_subtree calls.  libquote: quote keys
 * with vnaproperty_quote_key instead of the harness's own quoting.
 * Returns the number of failed calls.
 */
static int cf_build(cf_setter_t *set, void *ctx, const cf_node_t *n,
	char *path, int plen, int libquote)
{
    int bad = 0;

    switch (n->t) {
    case CF_NULL:
	if (plen == 0)
	    return 0;			/* an empty root is the NULL pointer */
	strcpy(path + plen, "#");
	bad += set(ctx, 0, path) != 0;
	break;
    case CF_SCALAR:
	if (plen == 0)
	    plen = sprintf(path, ".");
	snprintf(path + plen, CF_PATHMAX - plen, "=%s", cf_str(n->sid));
	bad += set(ctx, 0, path) != 0;
	break;
    case CF_MAP:
	if (n->n == 0) {
	    strcpy(path + plen, "{}");
	    bad += set(ctx, 1, path) != 0;
	    break;
	}
	for (int i = 0; i < n->n; ++i) {
	    int l = plen;

	    if (l > 0)
		path[l++] = '.';
	    if (libquote) {
		char *q = LIB(vnaproperty_quote_key(cf_str(n->keys[i])));

		if (q == NULL) {
		    ++bad;
		    continue;
		}
		strcpy(path + l, q);
		l += (int)strlen(q);
		free(q);
	    } else {
		l = (int)(cf_quote_own(cf_str(n->keys[i]), path + l) - path);
	    }
	    if (n->kids[i]->t == CF_NULL) {
		strcpy(path + l, "#");
		bad += set(ctx, 0, path) != 0;
	    } else {
		bad += cf_build(set, ctx, n->kids[i], path, l, libquote);
	    }
	}
	break;
    case CF_LIST:
	if (n->n == 0) {
	    strcpy(path + plen, "[]");
	    bad += set(ctx, 1, path) != 0;
	    break;
	}
	for (int i = 0; i < n->n; ++i) {
	    int l = plen + sprintf(path + plen, "[%d]", i);

	    if (n->kids[i]->t == CF_NULL) {
		strcpy(path + l, "#");
		bad += set(ctx, 0, path) != 0;
	    } else {
		bad += cf_build(set, ctx, n->kids[i], path, l, libquote);
	    }
	}
	break;
    }
    return bad;
}

/* ------------------------------------- projection through public getters */

static void cf_project(const vnaproperty_t *node, int depth)
{
    int t;

    if (node == NULL) {
	vt_put("{\"t\":\"n\"}");
	return;
    }
    if (depth > 16) {
	vt_put("{\"t\":\"DEEP\"}");
	return;
    }
    t = LIB(vnaproperty_type(node, "."));
    switch (t) {
    case 's':
	{
	    const char *v = LIB(vnaproperty_get(node, "."));

	    if (v == NULL) {
		vt_put("{\"t\":\"ERRget\"}");
		return;
	    }
	    vt_put("{\"t\":\"s\",\"v\":");
	    cf_put_sid(v);
	    vt_put("}");
	}
	return;
    case 'm':
	{
	    const char **keys = LIB(vnaproperty_keys(node, "."));
	    int count = LIB(vnaproperty_count(node, "."));
	    int n = 0;

	    if (keys == NULL) {
		vt_put("{\"t\":\"ERRkeys\"}");
		return;
	    }
	    vt_put("{\"t\":\"m\",\"kv\":[");
	    for (const char **cpp = keys; *cpp != NULL; ++cpp, ++n) {
		char *q = malloc(2 * strlen(*cpp) + 1);
		vnaproperty_t *sub;
		int e;

		(void)cf_quote_own(*cpp, q);
		sub = LIB(vnaproperty_get_subtree(node, "%s", q));
		e = errno;
		free(q);
		vt_put("%s{\"k\":", n ? "," : "");
		cf_put_sid(*cpp);
		vt_put(",\"d\":");
		if (sub == NULL && e != 0)
		    vt_put("{\"t\":\"ERRsub\"}");
		else
		    cf_project(sub, depth + 1);
		vt_put("}");
	    }
	    vt_put("]");
	    if (count != n)
		vt_put(",\"countMismatch\":%d", count);
	    vt_put("}");
	    free((void *)keys);
	}
	return;
    case 'l':
	{
	    int count = LIB(vnaproperty_count(node, "."));

	    vt_put("{\"t\":\"l\",\"it\":[");
	    for (int i = 0; i < count; ++i) {
		vnaproperty_t *sub;
		int e;

		sub = LIB(vnaproperty_get_subtree(node, "[%d]", i));
		e = errno;
		if (i)
		    vt_put(",");
		if (sub == NULL && e != 0)
		    vt_put("{\"t\":\"ERRsub\"}");
		else
		    cf_project(sub, depth + 1);
	    }
	    vt_put("]}");
	}
	return;
    default:
	vt_put("{\"t\":\"ERRtype\"}");
	return;
    }
}

/* projection of the global (ci = -1) or per-calibration property root */
static void cf_project_cal(vnacal_t *vcp, int ci)
{
    vnaproperty_t *root = LIB(vnacal_property_get_subtree(vcp, ci, "."));

    if (root == NULL && errno != 0 && errno != ENOENT) {
	vt_put("{\"t\":\"ERRroot\"}");
	return;
    }
    cf_project(root, 0);
}

/* ------------------------------------------------------------ small files */

static char *cf_read_file(const char *path, size_t *lenp)
{
    FILE *fp = fopen(path, "rb");
    char *buf;
    long n;

    if (fp == NULL)
	return NULL;
    fseek(fp, 0, SEEK_END);
    n = ftell(fp);
    fseek(fp, 0, SEEK_SET);
    buf = malloc((size_t)n + 1);
    if (buf != NULL) {
	n = (long)fread(buf, 1, (size_t)n, fp);
	buf[n] = '\0';
	if (lenp != NULL)
	    *lenp = (size_t)n;
    }
    fclose(fp);
    return buf;
}

static int cf_write_file(const char *path, const char *data, size_t len)
{
    FILE *fp = fopen(path, "wb");

    if (fp == NULL)
	return -1;
    if (len > 0 && fwrite(data, 1, len, fp) != len) {
	fclose(fp);
	return -1;
    }
    return fclose(fp);
}

/* scratch directory of this process: $VT_TMP or /tmp/cf-<pid> */
static const char *cf_tmpdir(void)
{
    static char dir[256];

    if (dir[0] == '\0') {
	const char *t = getenv("VT_TMP");

	if (t != NULL)
	    snprintf(dir, sizeof(dir), "%s", t);
	else
	    snprintf(dir, sizeof(dir), "/tmp/cf-%d", (int)getpid());
	(void)!system(NULL);
	{
	    char cmd[300];

	    snprintf(cmd, sizeof(cmd), "mkdir -p '%s'", dir);
	    (void)!system(cmd);
	}
    }
    return dir;
}

/* --------------------------------------------------- callback bookkeeping */

/* emits "cbn":<non-warning count>,"cbcat":"<category of the first
 * non-warning>","cb1":<all messages single-line> */
static void cf_put_cb(void)
{
    const char *cat = "none";
    int one = 1;

    for (int i = 0; i < vt_cb.n && i < VT_CB_MAX; ++i) {
	if (vt_cb.cat[i] != VNAERR_WARNING && strcmp(cat, "none") == 0)
	    cat = vt_catname(vt_cb.cat[i]);
	if (!vt_cb.one_line[i])
	    one = 0;
    }
    vt_put("\"cbn\":%d,\"cbw\":%d,\"cbcat\":\"%s\",\"cb1\":%d", vt_cb.n_nonwarn,
	    vt_cb.n - vt_cb.n_nonwarn, cat, one);
}

/* ------------------------------------- synthetic calibrations (own model) */

/*
 * A physical diagonal error-box model, simulated by the harness with its own
 * arithmetic: per VNA port p a directivity d_p, a reflection tracking t_p and
 * a port match m_p (all frequency dependent):
 *
 *     M = D + T1 * S * (I - Mm * S)^-1 * T2,   T1 = T2 = sqrt-free split:
 *
 * we use E12 = diag(t_p), E21 = I, so   M = D + diag(t) S (I - diag(m) S)^-1.
 * Every error-term type of vnacal_new(3) can represent this network.  The
 * measured matrix handed to the library is the rows x columns corner of M.
 */
#define CF_MAXPORTS 5
#define CF_MAXF 8

typedef struct cf_model {
    int ports, nf;
    double f[CF_MAXF];
    double complex d[CF_MAXF][CF_MAXPORTS];
    double complex t[CF_MAXF][CF_MAXPORTS];
    double complex m[CF_MAXF][CF_MAXPORTS];
} cf_model_t;

static double complex cf_crand(vt_rng_t *rng, double scale)
{
    /* two statements: the order of the draws must not depend on the compiler */
    double re = 2.0 * vt_unit(rng) - 1.0;
    double im = 2.0 * vt_unit(rng) - 1.0;

    return scale * (re + I * im);
}

static void cf_model_init(cf_model_t *mp, vt_rng_t *rng, int ports, int nf,
	int ideal)
{
    double f0 = 1.0e6 * (1.0 + 9.0 * vt_unit(rng));

    mp->ports = ports;
    mp->nf = nf;
    for (int fi = 0; fi < nf; ++fi) {
	mp->f[fi] = f0 * (1.0 + fi * (0.37 + vt_unit(rng)));
	if (fi > 0 && mp->f[fi] <= mp->f[fi - 1])
	    mp->f[fi] = mp->f[fi - 1] * 1.5;
	for (int p = 0; p < ports; ++p) {
	    if (ideal) {
		mp->d[fi][p] = 0.0;
		mp->t[fi][p] = 1.0;
		mp->m[fi][p] = 0.0;
	    } else {
		mp->d[fi][p] = cf_crand(rng, 0.15);
		mp->t[fi][p] = 1.0 + cf_crand(rng, 0.2);
		mp->m[fi][p] = cf_crand(rng, 0.15);
	    }
	}
    }
}

/* own Gauss-Jordan inverse, n <= CF_MAXPORTS; returns -1 if singular */
static int cf_invert(int n, double complex a[CF_MAXPORTS][CF_MAXPORTS],
	double complex x[CF_MAXPORTS][CF_MAXPORTS])
{
    double complex w[CF_MAXPORTS][2 * CF_MAXPORTS];

    for (int i = 0; i < n; ++i) {
	for (int j = 0; j < n; ++j) {
	    w[i][j] = a[i][j];
	    w[i][n + j] = (i == j) ? 1.0 : 0.0;
	}
    }
    for (int c = 0; c < n; ++c) {
	int piv = c;
	double best = cabs(w[c][c]);

	for (int r = c + 1; r < n; ++r) {
	    if (cabs(w[r][c]) > best) {
		best = cabs(w[r][c]);
		piv = r;
	    }
	}
	if (best < 1e-9)
	    return -1;
	if (piv != c) {
	    for (int j = 0; j < 2 * n; ++j) {
		double complex tmp = w[c][j];

		w[c][j] = w[piv][j];
		w[piv][j] = tmp;
	    }
	}
	{
	    double complex p = w[c][c];

	    for (int j = 0; j < 2 * n; ++j)
		w[c][j] /= p;
	}
	for (int r = 0; r < n; ++r) {
	    if (r != c) {
		double complex k = w[r][c];

		if (k != 0.0) {
		    for (int j = 0; j < 2 * n; ++j)
			w[r][j] -= k * w[c][j];
		}
	    }
	}
    }
    for (int i = 0; i < n; ++i)
	for (int j = 0; j < n; ++j)
	    x[i][j] = w[i][n + j];
    return 0;
}

/* full ports x ports measurement of a DUT with scattering matrix s at
 * frequency index fi */
static int cf_measure(const cf_model_t *mp, int fi,
	double complex s[CF_MAXPORTS][CF_MAXPORTS],
	double complex out[CF_MAXPORTS][CF_MAXPORTS])
{
    int n = mp->ports;
    double complex a[CF_MAXPORTS][CF_MAXPORTS], ai[CF_MAXPORTS][CF_MAXPORTS];

    for (int i = 0; i < n; ++i)
	for (int j = 0; j < n; ++j)
	    a[i][j] = ((i == j) ? 1.0 : 0.0) - mp->m[fi][i] * s[i][j];
    if (cf_invert(n, a, ai) != 0)
	return -1;
    for (int i = 0; i < n; ++i) {
	for (int j = 0; j < n; ++j) {
	    double complex sum = 0.0;

	    for (int k = 0; k < n; ++k)
		sum += s[i][k] * ai[k][j];
	    out[i][j] = mp->t[fi][i] * sum + ((i == j) ? mp->d[fi][i] : 0.0);
	}
    }
    return 0;
}

static const vnacal_type_t cf_types[8] = {
    VNACAL_T8, VNACAL_U8, VNACAL_TE10, VNACAL_UE10,
    VNACAL_T16, VNACAL_U16, VNACAL_UE14, VNACAL_E12
};

/* T types need rows <= columns, U/E types rows >= columns */
static int cf_dims_ok(vnacal_type_t type, int rows, int cols)
{
    switch (type) {
    case VNACAL_T8:
    case VNACAL_TE10:
    case VNACAL_T16:
	return rows <= cols;
    default:
	return rows >= cols;
    }
}

/*
 * cf_make_new: allocate a vnacal_new_t of the given shape, feed it enough
 * fully specified random standards measured through the model and solve.
 * Returns NULL (with *why set) if any step is refused.
 */
static vnacal_new_t *cf_make_new(vnacal_t *vcp, vt_rng_t *rng,
	vnacal_type_t type, int rows, int cols, const cf_model_t *mp,
	double complex z0, const char **why)
{
    int ports = rows > cols ? rows : cols;
    int nf = mp->nf;
    vnacal_new_t *vnp;
    int nstd;
    static double complex mbuf[CF_MAXPORTS * CF_MAXPORTS][CF_MAXF];
    double complex *mptr[CF_MAXPORTS * CF_MAXPORTS];

    *why = NULL;
    vnp = LIB(vnacal_new_alloc(vcp, type, rows, cols, nf));
    if (vnp == NULL) {
	*why = "vnacal_new_alloc";
	return NULL;
    }
    if (LIB(vnacal_new_set_frequency_vector(vnp, mp->f)) != 0) {
	*why = "vnacal_new_set_frequency_vector";
	goto fail;
    }
    if (LIB(vnacal_new_set_z0(vnp, z0)) != 0) {
	*why = "vnacal_new_set_z0";
	goto fail;
    }
    for (int i = 0; i < rows * cols; ++i)
	mptr[i] = mbuf[i];
    /* generous over-determination: ports-dependent number of random full
     * standards plus an all-match standard */
    nstd = 2 * ports + 4;
    for (int st = 0; st <= nstd; ++st) {
	double complex s[CF_MAXPORTS][CF_MAXPORTS];
	int sidx[CF_MAXPORTS * CF_MAXPORTS];
	int rv;

	for (int i = 0; i < ports; ++i) {
	    for (int j = 0; j < ports; ++j) {
		if (st == 0)
		    s[i][j] = 0.0;
		else
		    s[i][j] = cf_crand(rng, 0.7);
	    }
	}
	for (int fi = 0; fi < nf; ++fi) {
	    double complex full[CF_MAXPORTS][CF_MAXPORTS];

	    if (cf_measure(mp, fi, s, full) != 0) {
		*why = "model singular";
		goto fail;
	    }
	    for (int r = 0; r < rows; ++r)
		for (int c = 0; c < cols; ++c)
		    mbuf[r * cols + c][fi] = full[r][c];
	}
	for (int i = 0; i < ports; ++i) {
	    for (int j = 0; j < ports; ++j) {
		if (st == 0) {
		    sidx[i * ports + j] = VNACAL_MATCH;
		} else {
		    sidx[i * ports + j] =
			LIB(vnacal_make_scalar_parameter(vcp, s[i][j]));
		    if (sidx[i * ports + j] < 0) {
			*why = "vnacal_make_scalar_parameter";
			goto fail;
		    }
		}
	    }
	}
	rv = LIB(vnacal_new_add_mapped_matrix_m(vnp, mptr, rows, cols,
		    sidx, ports, ports, NULL));
	if (st != 0) {
	    for (int i = 0; i < ports * ports; ++i)
		(void)LIB(vnacal_delete_parameter(vcp, sidx[i]));
	}
	if (rv != 0) {
	    *why = "vnacal_new_add_mapped_matrix_m";
	    goto fail;
	}
    }
    if (LIB(vnacal_new_solve(vnp)) != 0) {
	*why = "vnacal_new_solve";
	goto fail;
    }
    return vnp;

fail:
    LIBV(vnacal_new_free(vnp));
    return NULL;
}

#endif /* CF_COMMON_H */
