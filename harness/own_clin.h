/*
 * own_clin.h -- the harness's own small complex linear algebra (no libvna
 * code): Gaussian elimination with complete pivoting in long double, norms,
 * products.  Used by drv_interp.c and drv_linsys.c to simulate error
 * networks, to rebuild the linear systems behind public calls and to
 * estimate conditioning independently of the library.
 */
#ifndef OWN_CLIN_H
#define OWN_CLIN_H

#include <complex.h>
#include <math.h>
#include <string.h>

typedef long double complex oc_t;

/*
 * oc_solve: solve A X = B in place (A n x n, B n x nrhs, both row-major
 * long double complex); complete pivoting.  Returns 0, or -1 if a pivot is
 * exactly zero.  On return B holds X.  *growth (if not NULL) receives
 * max|pivot| / min|pivot| as a crude conditioning indicator.
 */
static inline int oc_solve(int n, oc_t *A, oc_t *B, int nrhs,
	long double *pivratio)
{
    int colperm[n];
    long double pmax = 0.0L, pmin = INFINITY;

    for (int i = 0; i < n; ++i)
	colperm[i] = i;
    for (int k = 0; k < n; ++k) {
	int pr = k, pc = k;
	long double best = -1.0L;

	for (int i = k; i < n; ++i) {
	    for (int j = k; j < n; ++j) {
		long double v = cabsl(A[i * n + j]);

		if (v > best) {
		    best = v;
		    pr = i;
		    pc = j;
		}
	    }
	}
	if (!(best > 0.0L))
	    return -1;
	if (best > pmax)
	    pmax = best;
	if (best < pmin)
	    pmin = best;
	if (pr != k) {
	    for (int j = 0; j < n; ++j) {
		oc_t t = A[k * n + j];
		A[k * n + j] = A[pr * n + j];
		A[pr * n + j] = t;
	    }
	    for (int j = 0; j < nrhs; ++j) {
		oc_t t = B[k * nrhs + j];
		B[k * nrhs + j] = B[pr * nrhs + j];
		B[pr * nrhs + j] = t;
	    }
	}
	if (pc != k) {
	    int t = colperm[k];

	    for (int i = 0; i < n; ++i) {
		oc_t u = A[i * n + k];
		A[i * n + k] = A[i * n + pc];
		A[i * n + pc] = u;
	    }
	    colperm[k] = colperm[pc];
	    colperm[pc] = t;
	}
	for (int i = k + 1; i < n; ++i) {
	    oc_t f = A[i * n + k] / A[k * n + k];

	    if (f == 0.0L)
		continue;
	    for (int j = k; j < n; ++j)
		A[i * n + j] -= f * A[k * n + j];
	    for (int j = 0; j < nrhs; ++j)
		B[i * nrhs + j] -= f * B[k * nrhs + j];
	}
    }
    for (int j = 0; j < nrhs; ++j) {
	oc_t y[n];

	for (int i = n - 1; i >= 0; --i) {
	    oc_t s = B[i * nrhs + j];

	    for (int c = i + 1; c < n; ++c)
		s -= A[i * n + c] * y[c];
	    y[i] = s / A[i * n + i];
	}
	for (int i = 0; i < n; ++i)
	    B[colperm[i] * nrhs + j] = y[i];
    }
    if (pivratio != NULL)
	*pivratio = pmax / pmin;
    return 0;
}

/* inverse of an n x n double complex matrix; returns -1 if singular */
static inline int oc_inverse(int n, const double complex *a,
	double complex *inv, long double *pivratio)
{
    oc_t A[n * n], B[n * n];

    for (int i = 0; i < n * n; ++i) {
	A[i] = a[i];
	B[i] = 0.0L;
    }
    for (int i = 0; i < n; ++i)
	B[i * n + i] = 1.0L;
    if (oc_solve(n, A, B, n, pivratio) == -1)
	return -1;
    for (int i = 0; i < n * n; ++i)
	inv[i] = (double complex)B[i];
    return 0;
}

/* Frobenius norm of an r x c matrix */
static inline long double oc_fnorm(const double complex *a, int r, int c)
{
    long double s = 0.0L;

    for (int i = 0; i < r * c; ++i) {
	long double v = cabsl((oc_t)a[i]);

	s += v * v;
    }
    return sqrtl(s);
}

/* C (r x c) = A (r x k) * B (k x c), accumulated in long double */
static inline void oc_mul(const double complex *A, const double complex *B,
	oc_t *C, int r, int k, int c)
{
    for (int i = 0; i < r; ++i) {
	for (int j = 0; j < c; ++j) {
	    oc_t s = 0.0L;

	    for (int t = 0; t < k; ++t)
		s += (oc_t)A[i * k + t] * (oc_t)B[t * c + j];
	    C[i * c + j] = s;
	}
    }
}

/* condition estimate ||A||_F ||A^-1||_F; INFINITY if singular */
static inline long double oc_cond(int n, const double complex *a)
{
    double complex inv[n * n];

    if (oc_inverse(n, a, inv, NULL) == -1)
	return INFINITY;
    return oc_fnorm(a, n, n) * oc_fnorm(inv, n, n);
}

static inline int oc_all_finite(const double complex *a, int count)
{
    for (int i = 0; i < count; ++i) {
	if (!isfinite(creal(a[i])) || !isfinite(cimag(a[i])))
	    return 0;
    }
    return 1;
}

#endif /* OWN_CLIN_H */
