"""Independent writer of Touchstone 1 / Touchstone 2 / NPD files for the
equivalent-spellings check (C08).  Written from the format definitions
(Touchstone File Format Specification rev 1.1 and 2.0; NPD header as
documented by vnadata(3) and its example file); no libvna code.

A *content* is a set of numbers (frequencies in Hz, one complex matrix per
frequency, reference impedances, optional noise records).  A *spelling* is a
record of choices the formats define as equivalent (see FileFmt.tla, part
2): framing v1/v2, frequency unit, RI/MA/DB, Full/Upper/Lower, two-port
order, order and omission of option-line fields, order of the version-2
keywords, decoration (comments, blank lines, tabs, letter case, CR-LF),
number style, line breaking.  render() produces the bytes and reports the
structural facts it wrote (option tokens, numbers per data line, keyword
order) so that the specification can check that the file is the spelling it
was asked for.
"""
import cmath
import math
import random

SIG = 12                      # significant digits written
UNIT_MULT = {"hz": 1.0, "khz": 1e3, "mhz": 1e6, "ghz": 1e9}
UNIT_NAME = {"hz": "Hz", "khz": "kHz", "mhz": "MHz", "ghz": "GHz"}
KW_TEXT = {"version": "[Version]", "ports": "[Number of Ports]",
           "order": "[Two-Port Order]", "nfreq": "[Number of Frequencies]",
           "nnoise": "[Number of Noise Frequencies]",
           "reference": "[Reference]", "mformat": "[Matrix Format]",
           "netdata": "[Network Data]", "noisedata": "[Noise Data]",
           "end": "[End]"}


# --------------------------------------------------------------------------
# content
# --------------------------------------------------------------------------

NICE_F = [1.25e8, 2.5e8, 5.0e8, 1.0e9, 1.5e9, 2.25e9, 4.0e9, 8.5e9]


def make_content(cls, seed):
    """numbers for a content class {param, ports, nf, z0k, sym, noise}"""
    rng = random.Random(seed)
    n = cls["ports"]
    nf = cls["nf"]
    if rng.random() < 0.5:
        start = rng.randrange(0, len(NICE_F) - nf + 1)
        freqs = NICE_F[start:start + nf]
    else:
        f = rng.uniform(1e5, 5e8)
        freqs = []
        for _ in range(nf):
            freqs.append(float("%.9e" % f))
            f *= rng.uniform(1.3, 7.0)
    if cls["z0k"] == "r50":
        z0 = [50.0] * n
    elif cls["z0k"] == "req":
        z0 = [rng.choice([75.0, 1.0, 100.0, 12.5, 600.0])] * n
    else:
        z0 = [float(rng.choice([25, 50, 75, 100, 150])) + 5.0 * i
              for i in range(n)]
    scale = {"S": 1.0, "Z": 40.0, "Y": 0.02, "H": 1.0, "G": 1.0}[cls["param"]]
    data = []
    for _ in range(nf):
        m = [[0j] * n for _ in range(n)]
        for r in range(n):
            for c in range(n):
                mag = scale * rng.uniform(0.05, 1.5)
                ph = rng.uniform(-math.pi, math.pi)
                m[r][c] = cmath.rect(mag, ph)
        if cls["sym"]:
            for r in range(n):
                for c in range(r):
                    m[r][c] = m[c][r]
        data.append(m)
    noise = []
    if cls.get("noise", 0):
        fl = freqs[0]
        for k in range(cls["noise"]):
            noise.append((fl * (0.5 + 0.25 * k), rng.uniform(0.3, 3.0),
                          rng.uniform(0.05, 0.9), rng.uniform(-170, 170),
                          rng.uniform(0.05, 1.5)))
    return {"param": cls["param"], "ports": n, "nf": nf, "freqs": freqs,
            "z0": z0, "data": data, "noise": noise, "sym": cls["sym"]}


# --------------------------------------------------------------------------
# numbers
# --------------------------------------------------------------------------

def fmt_num(x, style, rng=None):
    if style == "exp":
        return "%.*e" % (SIG - 1, x)
    if style == "EXP":
        return "%.*E" % (SIG - 1, x)
    if style == "plus":
        return "%+.*e" % (SIG - 1, x)
    if style == "fixed":
        if x == 0:
            return "0.0"
        mag = int(math.floor(math.log10(abs(x))))
        dec = max(1, SIG - 1 - mag)
        if dec > 30 or mag > 15:
            return "%.*e" % (SIG - 1, x)
        return "%.*f" % (dec, x)
    if style == "bare":
        if x == int(x) and abs(x) < 1e15:
            return "%d" % int(x)
        return "%.*g" % (SIG, x)
    raise ValueError(style)


def to_form(v, form):
    if form == "ri":
        return (v.real, v.imag)
    ang = math.degrees(cmath.phase(v))
    if form == "ma":
        return (abs(v), ang)
    return (20.0 * math.log10(abs(v)), ang)


def normalise_v1(param, m, r):
    if param == "Z":
        return [[x / r for x in row] for row in m]
    if param == "Y":
        return [[x * r for x in row] for row in m]
    if param == "H":
        return [[m[0][0] / r, m[0][1]], [m[1][0], m[1][1] * r]]
    if param == "G":
        return [[m[0][0] * r, m[0][1]], [m[1][0], m[1][1] / r]]
    return m


# --------------------------------------------------------------------------
# decoration
# --------------------------------------------------------------------------

class Deco:
    def __init__(self, style, rng):
        self.style = style
        self.rng = rng
        self.comments = style in ("comments", "all")
        self.trailing = style in ("trailing", "all")
        self.blank = style in ("blank", "all")
        self.tabs = style in ("tabs", "all")
        self.case = {"upper": "upper", "lower": "lower", "mixed": "mixed",
                     "all": "mixed"}.get(style, "asis")
        self.eol = "\r\n" if style == "crlf" else "\n"

    def word(self, w):
        """letter case of keywords / option words (numbers unaffected)"""
        if self.case == "upper":
            return w.upper()
        if self.case == "lower":
            return w.lower()
        if self.case == "mixed":
            return "".join(ch.upper() if self.rng.random() < 0.5 else ch.lower()
                           for ch in w)
        return w

    def sep(self):
        if not self.tabs:
            return " "
        return self.rng.choice(["\t", "  ", " \t ", "   ", "\t\t"])

    def lead(self, toks):
        # only data lines (continuation rows are customarily indented)
        if (self.tabs and self.rng.random() < 0.5 and toks and
                toks[0][:1] not in "#[!"):
            return self.rng.choice([" ", "\t", "   "])
        return ""

    def join(self, toks):
        out = self.lead(toks)
        for i, t in enumerate(toks):
            if i:
                out += self.sep()
            out += t
        return out

    def line(self, toks, can_trail=True):
        s = self.join(toks)
        if self.trailing and can_trail and self.rng.random() < 0.6:
            s += self.sep() + "! " + self.rng.choice(
                ["trailing remark", "S11 S21", "# not an option line",
                 "[Version] 1.0", "1.0 2.0 3.0"])
        if self.tabs and self.rng.random() < 0.3:
            s += self.rng.choice([" ", "\t", "  "])
        return s

    def extra(self, out):
        """optionally insert comment / blank lines before the next line"""
        if self.comments and self.rng.random() < 0.5:
            out.append(self.rng.choice(
                ["! created by an instrument", "!", "!! 1 2 3 4 5 6 7 8 9",
                 "! # GHz S MA R 50", "![Number of Ports] 9",
                 "\t! indented comment"]))
        if self.blank and self.rng.random() < 0.5:
            out.append(self.rng.choice(["", "   ", "\t"]))


# --------------------------------------------------------------------------
# Touchstone
# --------------------------------------------------------------------------

def render_touchstone(content, sp, seed):
    """returns (bytes, meta); meta = {option: [[field, value]...],
    lines: [numbers per data line] (v1), kws: [...] (v2)}"""
    rng = random.Random(seed * 7919 + 17)
    d = Deco(sp["deco"], rng)
    num = sp["num"]
    if d.case == "upper" and num == "exp":
        num = "EXP"
    n = content["ports"]
    param = content["param"]
    mult = UNIT_MULT[sp["unit"]]
    form = sp["fmt"]
    v1 = sp["fr"] == "v1"
    z0 = content["z0"]
    out = []
    meta = {"option": [], "lines": [], "kws": []}

    def N(x):
        return fmt_num(x, num, rng)

    d.extra(out)
    tol = sp.get("tol", "none")
    if not v1:
        out.append(d.line([d.word("[Version]"), "2.0"]))
        d.extra(out)
    elif tol == "version10":
        # not part of the format: some instruments write it; libvna says it
        # tolerates it with a warning
        out.append(d.line([d.word("[Version]"), "1.0"]))
        d.extra(out)
    # option line
    optval = {"unit": d.word(UNIT_NAME[sp["unit"]]), "param": d.word(param),
              "fmt": d.word(form.upper())}
    toks = ["#"]
    same = all(z == z0[0] for z in z0)
    rvalue = z0[0] if same else 50.0
    for field in sp["perm"]:
        if field in sp["omit"]:
            continue
        if field == "r":
            toks += [d.word("R"), N(rvalue)]
            meta["option"].append(["r", "r50" if rvalue == 50.0 else "rX"])
        else:
            toks.append(optval[field])
            meta["option"].append([field, {"unit": sp["unit"], "param": param,
                                           "fmt": form}[field]])
    out.append(d.line(toks))
    d.extra(out)
    if v1:
        r0 = z0[0]
        for fi in range(content["nf"]):
            m = normalise_v1(param, content["data"][fi], r0)
            f = content["freqs"][fi] / mult
            if n == 2:
                cells = [(0, 0), (1, 0), (0, 1), (1, 1)]
                row = [N(f)]
                for (r, c) in cells:
                    a, b = to_form(m[r][c], form)
                    row += [N(a), N(b)]
                out.append(d.line(row))
                meta["lines"].append(len(row))
            else:
                for r in range(n):
                    row = [N(f)] if r == 0 else []
                    for c in range(n):
                        a, b = to_form(m[r][c], form)
                        row += [N(a), N(b)]
                    out.append(d.line(row))
                    meta["lines"].append(len(row))
            if fi + 1 < content["nf"]:
                d.extra(out)
        if sp["noise"]:
            d.extra(out)
            for rec in content["noise"]:
                row = [N(rec[0] / mult)] + [N(x) for x in rec[1:]]
                out.append(d.line(row))
                meta["lines"].append(len(row))
    else:
        meta["kws"].append("ports")
        out.append(d.line([d.word("[Number of Ports]"), "%d" % n]))
        has_ref = (not same) or sp["ref"]
        has_mf = sp["mf"] != "full" or sp["mfx"]
        for k in sp["kwp"]:
            if k == "order" and n == 2:
                d.extra(out)
                out.append(d.line([d.word("[Two-Port Order]"), sp["ord"]]))
                meta["kws"].append(k)
            elif k == "nfreq":
                d.extra(out)
                out.append(d.line([d.word("[Number of Frequencies]"),
                                   "%d" % content["nf"]]))
                meta["kws"].append(k)
            elif k == "nnoise" and sp["noise"]:
                d.extra(out)
                out.append(d.line([d.word("[Number of Noise Frequencies]"),
                                   "%d" % len(content["noise"])]))
                meta["kws"].append(k)
            elif k == "reference" and has_ref:
                d.extra(out)
                vals = [N(z) for z in z0]
                if d.blank and n > 1:
                    # the values may continue on following lines
                    out.append(d.line([d.word("[Reference]")] + vals[:1]))
                    out.append(d.line(vals[1:]))
                else:
                    out.append(d.line([d.word("[Reference]")] + vals))
                meta["kws"].append(k)
            elif k == "mformat" and has_mf:
                d.extra(out)
                out.append(d.line([d.word("[Matrix Format]"),
                                   d.word(sp["mf"].capitalize())]))
                meta["kws"].append(k)
        d.extra(out)
        out.append(d.line([d.word("[Network Data]")]))
        per_line = {"std": 4, "narrow": 2, "one": 1}[sp["lb"]]
        for fi in range(content["nf"]):
            m = content["data"][fi]
            f = content["freqs"][fi] / mult
            if n <= 2:
                if n == 1:
                    cells = [(0, 0)]
                elif sp["mf"] == "full":
                    cells = ([(0, 0), (0, 1), (1, 0), (1, 1)] if sp["ord"] == "12_21"
                             else [(0, 0), (1, 0), (0, 1), (1, 1)])
                elif sp["mf"] == "upper":
                    cells = [(0, 0), (0, 1), (1, 1)]
                else:
                    cells = [(0, 0), (1, 0), (1, 1)]
                row = [N(f)]
                for (r, c) in cells:
                    a, b = to_form(m[r][c], form)
                    row += [N(a), N(b)]
                out.append(d.line(row))
            else:
                first = True
                for r in range(n):
                    if sp["mf"] == "full":
                        cols = range(n)
                    elif sp["mf"] == "upper":
                        cols = range(r, n)
                    else:
                        cols = range(0, r + 1)
                    pairs = []
                    for c in cols:
                        a, b = to_form(m[r][c], form)
                        pairs.append([N(a), N(b)])
                    # a row starts a new line; at most per_line pairs per line
                    k = 0
                    while k < len(pairs):
                        chunk = pairs[k:k + per_line]
                        row = [N(f)] if first else []
                        first = False
                        for pr in chunk:
                            row += pr
                        out.append(d.line(row))
                        k += per_line
            if fi + 1 < content["nf"]:
                d.extra(out)
        if sp["noise"]:
            d.extra(out)
            out.append(d.line([d.word("[Noise Data]")]))
            for rec in content["noise"]:
                row = [N(rec[0] / mult)] + [N(x) for x in rec[1:]]
                out.append(d.line(row))
        if tol != "noend":
            d.extra(out)
            out.append(d.line([d.word("[End]")]))
    d.extra(out)
    text = d.eol.join(out) + d.eol
    return text.encode("ascii"), meta


def natural_ext(content, sp):
    if sp["fr"] != "v1":
        return ".ts"
    n = content["ports"]
    if sp.get("tol") == "wrongext":
        # a name that suggests another port count (.s2p is taken as "any")
        n = 3 if n <= 2 else n + 1
    return ".s%dp" % n


def access_plan(content, sp):
    """(file suffix, name given to the loader's suffix, set_filetype, method)"""
    acc = sp["acc"]
    nat = natural_ext(content, sp)
    if acc == "load":
        return (nat, nat, "auto", "load")
    if acc == "fload":
        return (nat, nat, "auto", "fload")
    if acc == "settype":
        # no extension: the type set on the object decides; the version is
        # still taken from the contents, so name the other one
        return ("", "", "ts2" if sp["fr"] == "v1" else "ts1", "load")
    if acc == "ts-ext":
        other = ".ts" if sp["fr"] == "v1" else ".s%dp" % content["ports"]
        return (other, other, "auto", "load")
    if acc == "reuse":
        # load into an object that already holds unrelated data
        return (nat, nat, "auto", "reuse")
    raise ValueError(acc)


# --------------------------------------------------------------------------
# NPD
# --------------------------------------------------------------------------

def make_npd_content(cls, seed):
    """numbers for an NPD content class {type, ports, nf, z0k}"""
    rng = random.Random(seed)
    n = cls["ports"]
    nf = cls["nf"]
    f = rng.uniform(1e5, 5e8)
    freqs = []
    for _ in range(nf):
        freqs.append(float("%.9e" % f))
        f *= rng.uniform(1.3, 7.0)
    rows = 1 if cls["type"] == "Zin" else n
    scale = {"Z": 40.0, "Y": 0.02, "Zin": 60.0}.get(cls["type"], 1.0)
    data = [[[cmath.rect(scale * rng.uniform(0.05, 1.5),
                         rng.uniform(-math.pi, math.pi))
              for _ in range(n)] for _ in range(rows)] for _ in range(nf)]
    z0 = None
    fz0 = None
    if cls["z0k"] == "r50":
        z0 = [complex(50.0, 0.0)] * n
    elif cls["z0k"] == "complex":
        z0 = [complex(rng.choice([25.0, 50.0, 75.0]) + 2.5 * i,
                      rng.choice([-7.5, 0.0, 3.25, 12.0])) for i in range(n)]
    else:
        fz0 = [[complex(40.0 + 5.0 * i + 2.0 * k, 1.5 * k - 0.75 * i)
                for i in range(n)] for k in range(nf)]
    return {"type": cls["type"], "ports": n, "nf": nf, "freqs": freqs,
            "z0": z0, "fz0": fz0, "data": data}


def npd_access_plan(sp):
    acc = sp["acc"]
    if acc == "load":
        return (".npd", ".npd", "auto", "load")
    if acc == "fload":
        return (".npd", ".npd", "auto", "fload")
    if acc == "settype":
        return ("", "", "npd", "load")
    if acc == "reuse":
        return (".npd", ".npd", "auto", "reuse")
    raise ValueError(acc)


def render_npd(content, sp, seed):
    """content: {type, ports, nf, freqs, z0 (list of complex) or fz0 (per
    frequency), data}; sp: {order: [header keys], fmt, deco, num, names}"""
    rng = random.Random(seed * 104729 + 5)
    d = Deco(sp["deco"], rng)
    num = sp["num"]
    n = content["ports"]
    typ = content["type"]
    form = sp["fmt"]
    out = ["#NPD"]

    def N(x):
        return fmt_num(x, num, rng)

    name = typ + {"ri": "ri", "ma": "ma", "db": "dB"}[form]
    if sp.get("names") == "lower":
        name = name.lower()
    elif sp.get("names") == "upper":
        name = name.upper()
    hdr = {"version": "#:version 1.0", "ports": "#:ports %d" % n,
           "frequencies": "#:frequencies %d" % content["nf"],
           "parameters": "#:parameters %s" % name,
           "fprecision": "#:fprecision %d" % SIG,
           "dprecision": "#:dprecision %d" % SIG}
    if content.get("fz0") is not None:
        hdr["z0"] = "#:z0 PER-FREQUENCY"
    else:
        hdr["z0"] = "#:z0 " + " ".join(
            "%s %sj" % (N(z.real), fmt_num(z.imag, "plus" if num != "EXP" else "EXP"))
            for z in content["z0"])
    for k in sp["order"]:
        if d.comments and rng.random() < 0.5:
            out.append(rng.choice(["#", "# a comment", "#:", "# field 1: frequency (Hz)"]))
        if d.blank and rng.random() < 0.4:
            out.append("")
        out.append(hdr[k])
    out.append("#")
    rows = 1 if typ == "Zin" else n
    for fi in range(content["nf"]):
        row = [N(content["freqs"][fi])]
        if content.get("fz0") is not None:
            for z in content["fz0"][fi]:
                row += [N(z.real), N(z.imag)]
        for r in range(rows):
            for c in range(n):
                a, b = to_form(content["data"][fi][r][c], form)
                row += [N(a), N(b)]
        out.append(d.join(row))
        if d.blank and rng.random() < 0.4:
            out.append("")
        if d.comments and rng.random() < 0.4:
            out.append("# between data lines")
    text = d.eol.join(out) + d.eol
    return text.encode("ascii")


if __name__ == "__main__":
    cls = {"param": "Z", "ports": 3, "nf": 2, "z0k": "req", "sym": True, "noise": 0}
    c = make_content(cls, 1)
    sp = {"fr": "v2", "unit": "mhz", "fmt": "ma", "mf": "upper", "ord": "na",
          "perm": ["r", "fmt", "unit", "param"], "omit": [],
          "kwp": ["mformat", "reference", "nnoise", "nfreq", "order"],
          "ref": True, "mfx": False, "noise": False, "deco": "all", "num": "exp",
          "lb": "narrow", "acc": "load"}
    b, meta = render_touchstone(c, sp, 3)
    print(b.decode())
    print(meta)
